"""C01 — Transpilation preserves the action of the circuit."""
from __future__ import annotations

import math
import os
import sys

sys.path.insert(0, os.path.dirname(os.path.dirname(os.path.abspath(__file__))))

import qp  # noqa: E402
from common import Ctx, InfraError  # noqa: E402
from translate import c01gen, templates  # noqa: E402

KNOWN_LADDER = {"lad_U1qNormalizeWithRZTranspiler_U1q_r2_a0": "U1qNormalizeWithRZTranspiler.general-branch"}

TRUSTED = [
    "Lean 4.33 kernel incl. `decide +kernel` evaluation; axioms audited ⊆ {propext, Classical.choice, Quot.sound}",
    "translator /verif/translate (pysym.py, templates.py, tables.py, c01gen.py): Python-subset symbolic evaluator",
    "Found/Gate.lean restates the documented gate matrices of gates.py (cross-checked numerically every run against oracle/dense.py)",
    "exact-ring reflection: PROVED sound (Proof/PolySound, Proof/MatSound, Props/Reflect: a discharged Template.check / checkExact is a statement about complex operators for all real angles, ζ = exp(iπ/8), xⱼ = exp(iφⱼ/2)); the trusted specification is MatSound.embedAct / semCirc (textbook little-endian gate embedding) and Gate.localMat",
    "PhaseMonoid (Found/Proj.lean) is the abstract interface instantiated by unitary matrices modulo phase",
    "su2_decompose/su4_decompose numerics (cmath.log, np.linalg.eig) are NOT modelled: validated per instance against oracle/dense.py",
    "IonQ native phases (turns) are not in the ring: validated per instance (moduli of matrix entries)",
]


LEAN_TARGETS = ["QuriVerif.Props.C01", "QuriVerif.Props.Reflect", "QuriVerif.Props.ReflectLift", "QuriVerif.Props.C01Lift", "QuriVerif.Props.C01Pass", "QuriVerif.Props.C01Pipeline", "QuriVerif.Props.C01Bind", "QuriVerif.Props.C01Phase"]
REFLECT = ["QuriVerif.Props.Reflect", "QuriVerif.Props.ReflectLift", "QuriVerif.Props.C01Lift", "QuriVerif.Props.C01Pass", "QuriVerif.Props.C01Pipeline", "QuriVerif.Props.C01Bind", "QuriVerif.Props.C01Phase"]
LEAN_TARGETS_THOROUGH = ["QuriVerif.Props.C01Deep"]


def gen(ctx: Ctx):
    with ctx.timed("translate"):
        tp = c01gen.class_templates()
        txt, n = templates.emit("C01", tp)
        ctx.write_generated("C01Templates", txt)
        ctx.generated_entries += n
        # entry-count cross check: every class with `decompose` is a template, a ladder or known non-template
        cnt, names = c01gen.count_decompose_classes()
        covered = {t.name.split("_")[0] if t.name not in names else t.name for t in tp} | c01gen.NON_TEMPLATE
        missing = [x for x in names if x not in covered and not any(t.name.startswith(x) for t in tp)]
        if missing:
            ctx.failed_obligations.append({"obligation": "translator.entry_count", "error": f"classes not translated: {missing}"})
        known = set(KNOWN_LADDER) if _known_listed(ctx) else set()
        txt, n, desc = templates.emit_ladders("C01L", c01gen.LADDER_CLASSES, known)
        ctx.write_generated("C01Ladders", txt)
        ctx.generated_entries += n
        txt, n, tab = c01gen.gen_tables(set())
        ctx.write_generated("C01Tables", txt)
        ctx.generated_entries += n
        ctx.extra["unparsed_templates"] = [f"{t.name}: {t.error}" for t in tp if t.error]
        try:
            presets = c01gen.gen_presets()
        except Exception as e:  # translator cannot read the presets any more
            ctx.failed_obligations.append({"obligation": "translator.presets", "error": str(e)[:300]})
            presets = {}
        return tp, desc, tab, presets


def _known_listed(ctx):
    from common import load_known_findings

    return any(k["property"] == "C01" and k["key"] in KNOWN_LADDER.values() for k in load_known_findings())


# ---------------------------------------------------------------------------
def real_transpile(make, n, gs):
    """run a real transpiler; returns ('ok', canon gates) or ('err', ExceptionName)"""
    try:
        tr = make()
        out = tr(qp.real_circuit(n, gs))
        return "ok", qp.canon_real(out), out
    except Exception as e:  # noqa: BLE001 – the real code's behaviour, whatever it is
        return "err", type(e).__name__, None


def compare(ctx: Ctx, what, n, gs, passes, make):
    """one correspondence case: real transpiler `make()` vs model pass list"""
    return (what, n, gs, passes, make)


def run_cases(ctx: Ctx, cases):
    reqs = [f"c01pass {n} | {';'.join(passes)} | {qp.enc_circuit(gs)}" for (_, n, gs, passes, _) in cases]
    resp = ctx.driver(reqs)
    for (what, n, gs, passes, make), r in zip(cases, resp):
        st, real, _ = real_transpile(make, n, gs)
        canon = (what, n, tuple(gs))
        ctx.case(canon, nontrivial=True, sample={"pass": what, "n": n, "circuit": qp.enc_circuit(gs), "model": r[:200]})
        ctx.traces += 1
        ctx.count("pass", what.split(":")[0])
        if r.startswith("err"):
            ctx.count("outcome", "model-raises")
            if st != "err":
                ctx.disagree(what, {"n": n, "circuit": qp.enc_circuit(gs), "passes": passes}, str(real)[:300], r)
            continue
        if r == "bad-request":
            raise InfraError(f"driver rejected request for {what}: {reqs[0][:200]}")
        model = qp.dec_circuit(r[3:])
        if st == "err":
            ctx.count("outcome", "real-raises")
            ctx.disagree(what, {"n": n, "circuit": qp.enc_circuit(gs), "passes": passes}, "raises " + real, r[:300])
            continue
        ctx.count("outcome", "changed" if model != list(gs) else "unchanged")
        why = qp.same_gates(real, model)
        if why:
            ctx.disagree(what, {"n": n, "circuit": qp.enc_circuit(gs), "passes": passes}, str(real)[:400], r[:400] + " :: " + why)


ALL_KINDS = qp.ONE_Q + ["RX", "RY", "RZ", "U1", "U2", "U3", "CNOT", "CZ", "SWAP", "TOFFOLI", "Pauli", "PauliRotation"]


def correspond(ctx: Ctx, tp, presets):
    import quri_parts.circuit.transpile as T
    from quri_parts.circuit import gate_names as gn

    rng = ctx.rng
    cases = []
    N = ctx.n(6, 60)
    # 1. every template class, alone and inside ParallelDecomposer
    tmods = {}
    import quri_parts.ionq.circuit.transpile as TI
    import quri_parts.quantinuum.circuit.transpile as TQ
    import quri_parts.quantinuum.circuit.transpile.quantinuum_native_transpiler as TQN

    def find_cls(name):
        for m in (T, TQ, TQN, TI):
            if hasattr(m, name):
                return getattr(m, name)
        return None

    ok_templates = [t for t in tp if t.error is None and t.name != "CNOTHCNOTFusingTranspiler"]
    for t in ok_templates:
        cls = find_cls(t.name)
        if cls is None:
            ctx.disagree("template-class-missing", t.name, "no such class importable", "template exists")
            continue
        kinds = [t.target.kind] + ["H", "CNOT", "RZ", "X"]
        if t.target.kind in ("U1q", "XX", "RZZ", "ZZ"):
            kinds = [t.target.kind, "H", "CNOT"]
        for _ in range(max(2, N // 3)):
            n = rng.randint(3, 4)
            gs = qp.random_grid_circuit(rng, n, rng.randint(1, 6), kinds)
            cases.append((f"decomp:{t.name}", n, gs, [f"decomp:{t.name}"], (lambda c=cls: c())))
    # 2. ParallelDecomposer over random non-clashing subsets
    std = [t for t in ok_templates if hasattr(T, t.name)]
    for _ in range(N):
        rng.shuffle(std)
        chosen, kinds = [], set()
        for t in std:
            if t.target.kind not in kinds and rng.random() < 0.4:
                chosen.append(t)
                kinds.add(t.target.kind)
        if not chosen:
            continue
        n = rng.randint(3, 4)
        gs = qp.random_grid_circuit(rng, n, rng.randint(2, 10), ALL_KINDS)
        names = [t.name for t in chosen]
        cases.append(("parallel", n, gs, ["decomp:" + ",".join(names)],
                      (lambda ns=names: T.ParallelDecomposer([getattr(T, x)() for x in ns]))))
    # 3. fusers, normalize, ladders, identity, pauli
    rotk = ["RX", "RY", "RZ", "RX", "RZ", "H", "CNOT", "Identity"]
    for _ in range(N * 2):
        n = rng.randint(1, 3)
        gs = qp.random_grid_circuit(rng, n, rng.randint(0, 10), rotk)
        cases.append(("fuseRot", n, gs, ["fuseRot"], T.FuseRotationTranspiler))
        cases.append(("zeroElim", n, gs, ["ladder:0:ZeroRotationEliminationTranspiler"], T.ZeroRotationEliminationTranspiler))
        cases.append(("rot2named", n, gs, ["ladder:0:RX2NamedTranspiler", "ladder:0:RY2NamedTranspiler", "ladder:0:RZ2NamedTranspiler"], T.Rotation2NamedTranspiler))
        cases.append(("rz2named-noT", n, gs, ["ladder:1:RZ2NamedTranspiler"], lambda: T.RZ2NamedTranspiler(1e-9, allow_t_tdag=False)))
        lo = rng.choice([0, -64, -128, 64, 32, -200])
        cases.append((f"normalize:{lo}", n, gs, [f"normalize:{lo}"],
                      (lambda lo=lo: T.NormalizeRotationTranspiler((lo * qp.UNIT, lo * qp.UNIT + 2 * math.pi)))))
        cases.append(("idElim", n, gs, ["idElim"], T.IdentityEliminationTranspiler))
        cases.append(("idInsert", n, gs, [f"idInsert:{n}"], T.IdentityInsertionTranspiler))
    chk = ["CNOT", "H", "CNOT", "H", "CNOT", "S"]
    for _ in range(N * 2):
        n = rng.randint(2, 3)
        gs = qp.random_grid_circuit(rng, n, rng.randint(0, 9), chk)
        if rng.random() < 0.5 and n >= 2:  # plant the pattern
            a, b = rng.sample(range(n), 2)
            pos = rng.randint(0, len(gs))
            pat = [qp.tg("CNOT", (a,), (b,)), qp.tg("H", (), (a,)), qp.tg("CNOT", (a,), (b,))]
            if rng.random() < 0.3:
                pat = pat + [qp.tg("H", (), (a,)), qp.tg("CNOT", (a,), (b,))]
            elif rng.random() < 0.5:
                # near misses of the window: H on another wire, second CNOT with another control / target / reversed
                o = [q for q in range(n) if q not in (a, b)]
                x = rng.choice([a, b] + o)
                c2, t2 = rng.choice([(a, b), (b, a)] + [(a, q) for q in o] + [(q, b) for q in o])
                pat = [qp.tg("CNOT", (a,), (b,)), qp.tg("H", (), (x,)), qp.tg("CNOT", (c2,), (t2,))]
            gs = gs[:pos] + pat + gs[pos:]
        cases.append(("fuseCHC", n, gs, ["fuseCHC"], T.CNOTHCNOTFusingTranspiler))
    for _ in range(N):
        n = rng.randint(2, 4)
        gs = qp.random_grid_circuit(rng, n, rng.randint(1, 5), ["Pauli", "PauliRotation", "H", "CNOT"], max_pauli=4)
        cases.append(("pauliDec", n, gs, ["pauliDec"], T.PauliDecomposeTranspiler))
        cases.append(("pauliRotDec", n, gs, ["pauliRotDec"], T.PauliRotationDecomposeTranspiler))
    # 4. Clifford conversion for random target sets
    c1 = sorted(gn.CLIFFORD_GATE_NAMES & gn.SINGLE_QUBIT_GATE_NAMES)
    for _ in range(N * 2):
        ts = [k for k in c1 if rng.random() < 0.35]
        n = rng.randint(1, 3)
        gs = qp.random_grid_circuit(rng, n, rng.randint(1, 8), c1 + ["T", "CNOT", "RZ"])
        cases.append(("clifConv", n, gs, ["clifConv:" + ",".join(ts)], (lambda ts=ts: T.CliffordConversionTranspiler(ts))))
    # 5. rotation conversion + gate set conversion, random target sets (pipelines and runs)
    vocab = ["H", "X", "Y", "Z", "S", "Sdag", "SqrtX", "SqrtXdag", "SqrtY", "SqrtYdag", "T", "Tdag", "RX", "RY", "RZ",
             "CNOT", "CZ", "SWAP", "Identity", "U1", "U2", "U3", "TOFFOLI", "Pauli", "PauliRotation"]
    sets = []
    for _ in range(N * 2):
        s = [k for k in vocab if rng.random() < 0.3]
        if rng.random() < 0.7 and not ({"CNOT", "CZ"} & set(s)):
            s.append(rng.choice(["CNOT", "CZ"]))
        if rng.random() < 0.7 and not ({"RX", "RY", "RZ"} & set(s)):
            s.append(rng.choice(["RX", "RY", "RZ"]))
        sets.append(s)
    sets += [["RX", "RY", "RZ", "CNOT"], ["H", "S", "RZ", "CNOT"], ["X", "SqrtX", "RZ", "CNOT"], ["H", "RZ", "CZ"]]
    preqs = ["c01pipeline " + ",".join(s) for s in sets]
    presp = ctx.driver(preqs)
    for s, r in zip(sets, presp):
        try:
            real = describe(T.GateSetConversionTranspiler(s)._decomposer)
        except Exception as e:  # noqa: BLE001
            real = ["raises:" + type(e).__name__]
        ctx.case(("pipeline", tuple(sorted(s))), sample={"target_set": s, "model_pipeline": r[:300]})
        ctx.traces += 1
        if canon_tokens(real) != canon_tokens(r.split(";") if r else []):
            ctx.disagree("gateSetPipeline", s, real, r)
        n = rng.randint(2, 3)
        gs = qp.random_grid_circuit(rng, n, rng.randint(1, 7), ALL_KINDS)
        cases.append(("gateSetConv", n, gs, ["gateSetConv:1:" + ",".join(s)], (lambda s=s: T.GateSetConversionTranspiler(s))))
        # the same conversion without the final validation (the form the Quantinuum preset uses), target set given as a set / tuple
        gs2 = qp.random_grid_circuit(rng, n, rng.randint(1, 7), ALL_KINDS)
        cases.append(("gateSetConv-novalidate", n, gs2, ["gateSetConv:0:" + ",".join(s)],
                      (lambda s=s, f=rng.choice([set, tuple, list]): T.GateSetConversionTranspiler(f(s), validation=False))))
    for _ in range(N):
        rots = [k for k in ("RX", "RY", "RZ") if rng.random() < 0.6]
        fav = [k for k in c1 if rng.random() < 0.3]
        n = rng.randint(1, 2)
        gs = qp.random_grid_circuit(rng, n, rng.randint(1, 6), ["RX", "RY", "RZ", "H"])
        cases.append(("rotConv", n, gs, [f"rotConv:{','.join(rots)}:{','.join(fav)}"],
                      (lambda r=rots, f=fav: T.RotationConversionTranspiler(r, f))))
    # 6. presets (as translated from __init__.py)
    for name, toks in presets.items():
        for _ in range(max(3, N // 2)):
            n = rng.randint(2, 3)
            gs = qp.random_grid_circuit(rng, n, rng.randint(1, 8), ALL_KINDS)
            cases.append((f"preset:{name}", n, gs, toks, (lambda nm=name: getattr(T, nm)())))
    # 7. quantinuum passes
    for _ in range(N):
        n = rng.randint(2, 3)
        gs = qp.random_grid_circuit(rng, n, rng.randint(1, 8), ["CNOT", "RZ", "CNOT", "H"])
        if rng.random() < 0.6:
            a, b = rng.sample(range(n), 2)
            pos = rng.randint(0, len(gs))
            pat = [qp.tg("CNOT", (a,), (b,)), qp.tg("RZ", (), (b,), (rng.randint(-100, 100),)), qp.tg("CNOT", (a,), (b,))]
            if rng.random() < 0.5:
                # near misses of the window: RZ on the control or a spectator, second CNOT with another control / target / reversed
                o = [q for q in range(n) if q not in (a, b)]
                x = rng.choice([a, b, b] + o)
                c2, t2 = rng.choice([(a, b), (b, a)] + [(a, q) for q in o] + [(q, b) for q in o])
                pat = [qp.tg("CNOT", (a,), (b,)), qp.tg("RZ", (), (x,), (rng.randint(-100, 100),)), qp.tg("CNOT", (c2,), (t2,))]
            gs = gs[:pos] + pat + gs[pos:]
        cases.append(("cnotRzRzz", n, gs, ["cnotRzRzz"], TQ.CNOTRZ2RZZTranspiler))
        gs2 = qp.random_grid_circuit(rng, 1, rng.randint(1, 4), ["U1q"], angle_pool=[0, -32, 64, 32, 5, 100, -64, 16])
        cases.append(("u1qNormalize", 1, gs2, ["ladder:0:U1qNormalizeWithRZTranspiler"], TQN.U1qNormalizeWithRZTranspiler))
    run_cases(ctx, cases)
    # 8. Clifford approximation rounding (np.round half-to-even on 2θ/π)
    areqs, acs = [], []
    for _ in range(N * 3):
        gs = qp.random_grid_circuit(rng, 2, rng.randint(1, 5), ["RX", "RY", "RZ"], angle_pool=[16, 48, 80, 112, -16, -48, 0, 32, 15, 17, 33, 64, 144, -144, 272])
        areqs.append("c01approx " + qp.enc_circuit(gs))
        acs.append(gs)
    for gs, r in zip(acs, ctx.driver(areqs)):
        st, real, _ = real_transpile(T.CliffordApproximationTranspiler, 2, gs)
        ctx.case(("approx", tuple(gs)), sample=None)
        ctx.traces += 1
        if st == "err" or qp.same_gates(real, qp.dec_circuit(r[3:])):
            ctx.disagree("cliffordApprox", qp.enc_circuit(gs), str(real)[:300], r[:300])
    clifford_approx_correspond(ctx, T)


def describe(tr) -> list[str]:
    """canonical pass tokens of a REAL transpiler object (class names + constructor state)"""
    name = type(tr).__name__
    if name == "SequentialTranspiler":
        out = []
        for t in tr._transpilers:
            out += describe(t)
        return out
    if name == "Rotation2NamedTranspiler":
        return ["ladder:0:RX2NamedTranspiler", "ladder:0:RY2NamedTranspiler", "ladder:0:RZ2NamedTranspiler"]
    simple = {
        "FuseRotationTranspiler": "fuseRot", "IdentityEliminationTranspiler": "idElim",
        "PauliDecomposeTranspiler": "pauliDec", "PauliRotationDecomposeTranspiler": "pauliRotDec",
        "SingleQubitUnitaryMatrix2RYRZTranspiler": "um1", "TwoQubitUnitaryMatrixKAKTranspiler": "um2",
    }
    if name in simple:
        return [simple[name]]
    if name == "NormalizeRotationTranspiler":
        return [f"normalize:{round(tr._lower / qp.UNIT)}"]
    if name == "ZeroRotationEliminationTranspiler":
        return ["ladder:0:ZeroRotationEliminationTranspiler"]
    if name == "CliffordConversionTranspiler":
        return ["clifConv:" + ",".join(sorted(tr._gateset))]
    if name == "RotationConversionTranspiler":
        return [f"rotConv:{','.join(sorted(tr._target_rotation))}:{','.join(sorted(tr._favorable_clifford))}"]
    return ["decomp:" + name]


def canon_tokens(toks):
    out = []
    for t in toks:
        if t == "um1":  # the model folds the two unitary-matrix decomposers of the dict entry into one token
            out.append("um")
            continue
        if t == "um2":
            if out and out[-1] == "um":
                continue
            out.append("um")
            continue
        parts = t.split(":")
        if parts[0] == "clifConv":
            parts[1] = ",".join(sorted(x for x in parts[1].split(",") if x))
        if parts[0] == "rotConv":
            parts[1] = ",".join(sorted(x for x in parts[1].split(",") if x))
            parts[2] = ",".join(sorted(x for x in parts[2].split(",") if x))
        out.append(":".join(parts))
    return out


# ---------------------------------------------------------------------------
# gate semantics of the model vs the independent oracle
# ---------------------------------------------------------------------------
def check_gate_semantics(ctx: Ctx):
    import numpy as np

    from oracle import dense

    kinds = {k: 0 for k in qp.ONE_Q}
    kinds.update({"RX": 1, "RY": 1, "RZ": 1, "U1": 1, "U2": 2, "U3": 3, "U1q": 2})
    reqs, meta = [], []
    for k, npar in kinds.items():
        reqs.append(f"gatemat {k}//0/{','.join(['0'] * npar)}/")
        meta.append((k, npar, (), ()))
    for k in ("CNOT", "CZ"):
        reqs.append(f"gatemat {k}/0/1//")
        meta.append((k, 0, (), ()))
    reqs.append("gatemat SWAP//0,1//")
    meta.append(("SWAP", 0, (), ()))
    reqs.append("gatemat TOFFOLI/0,1/2//")
    meta.append(("TOFFOLI", 0, (), ()))
    for k, npar in (("RZZ", 1), ("XX", 1), ("ZZ", 0)):
        reqs.append(f"gatemat {k}//0,1/{','.join(['0'] * npar)}/")
        meta.append((k, npar, (), ()))
    for ids in ([1], [2], [3], [1, 2], [3, 1], [2, 2, 3], [1, 3, 2]):
        t = ",".join(str(i) for i in range(len(ids)))
        reqs.append(f"gatemat Pauli//{t}//{','.join(map(str, ids))}")
        meta.append(("Pauli", 0, tuple(ids), ()))
        reqs.append(f"gatemat PauliRotation//{t}/0/{','.join(map(str, ids))}")
        meta.append(("PauliRotation", 1, tuple(ids), ()))
    resp = ctx.driver(reqs)
    for (k, npar, ids, _), r in zip(meta, resp):
        for _ in range(3):
            phis = [ctx.rng.uniform(-7, 7) for _ in range(npar)]
            m = qp.eval_smat(r, phis)
            o = dense.local_matrix(k, tuple(phis), ids)
            if np.max(np.abs(m - o)) > 1e-9:
                ctx.disagree("gate-semantics", {"kind": k, "angles": phis, "ids": ids}, "oracle/dense.py differs", r[:200])
        ctx.case(("gatemat", k, ids), sample=None)


# ---------------------------------------------------------------------------
# oracle validation / failing-input search on the REAL code
# ---------------------------------------------------------------------------
def nongrid_angle(rng):
    r = rng.random()
    if r < 0.45:
        k = rng.randint(-9, 9)
        return k * math.pi / 4 + rng.choice([0.0, 1e-12, -1e-12, 1e-10, -1e-10, 5e-10, -5e-10, 2e-9, -2e-9, 1e-7, -1e-7])
    return rng.uniform(-4 * math.pi, 4 * math.pi)


def random_real_circuit(rng, n, length, kinds, um=True, angle_forms=False, cbit_count=0):
    """`angle_forms`: some angles are passed as Python ints / numpy scalars (argument forms the in-tree callers never use);
    `cbit_count`: classical bits of the circuit (no Measurement gate is added).  Both default to the historic behaviour."""
    from quri_parts.circuit import QuantumCircuit, gates

    from oracle import dense

    c = QuantumCircuit(n, cbit_count) if cbit_count else QuantumCircuit(n)
    qs = list(range(n))

    def ang():
        x = nongrid_angle(rng)
        if angle_forms:
            r = rng.random()
            if r < 0.08:
                return rng.randint(-7, 7)  # a Python int is a perfectly good real angle
            if r < 0.16:
                import numpy as np

                return np.float64(x)
        return x

    for _ in range(length):
        k = rng.choice(kinds)
        if k in qp.ONE_Q:
            c.add_gate(getattr(gates, k)(rng.choice(qs)))
        elif k in ("RX", "RY", "RZ", "U1"):
            c.add_gate(getattr(gates, k)(rng.choice(qs), ang()))
        elif k == "U2":
            c.add_gate(gates.U2(rng.choice(qs), ang(), ang()))
        elif k == "U3":
            c.add_gate(gates.U3(rng.choice(qs), ang(), ang(), ang()))
        elif k in ("CNOT", "CZ", "SWAP") and n >= 2:
            a, b = rng.sample(qs, 2)
            c.add_gate(getattr(gates, k)(a, b))
        elif k == "TOFFOLI" and n >= 3:
            a, b, t = rng.sample(qs, 3)
            c.add_gate(gates.TOFFOLI(a, b, t))
        elif k in ("Pauli", "PauliRotation"):
            m = rng.randint(1, min(n, 4))
            ts = rng.sample(qs, m)
            ids = [rng.randint(1, 3) for _ in range(m)]
            c.add_gate(gates.Pauli(ts, ids) if k == "Pauli" else gates.PauliRotation(ts, ids, ang()))
        elif k == "UM1" and um:
            c.add_gate(gates.UnitaryMatrix([rng.choice(qs)], dense.random_unitary(rng, 2).tolist()))
        elif k == "UM2" and um and n >= 2:
            a, b = rng.sample(qs, 2)
            c.add_gate(gates.UnitaryMatrix([a, b], structured_u4(rng).tolist()))
        elif k == "UM3" and um and n >= 3:  # never decomposed by the library: passes through or is refused
            ts = rng.sample(qs, 3)
            c.add_gate(gates.UnitaryMatrix(ts, dense.random_unitary(rng, 8).tolist()))
    return c


def structured_u4(rng):
    import numpy as np

    from oracle import dense

    r = rng.random()
    if r < 0.3:
        return dense.random_unitary(rng, 4)
    if r < 0.5:
        # degenerate / conjugate-paired KAK spectra: controlled rotations (either control), exp(i(aXX+bYY+cZZ)) with
        # coinciding or vanishing interaction coefficients, optionally dressed with local unitaries
        X, Y, Z, I2 = dense.ONE["X"], dense.ONE["Y"], dense.ONE["Z"], np.eye(2)
        ang = rng.choice([math.pi / 2, math.pi, math.pi / 4, -math.pi / 2, 3 * math.pi / 4, rng.uniform(-3.1, 3.1)])
        kind = rng.choice(["crot", "crot", "xxyyzz", "cu"])
        if kind == "crot":
            ax = rng.choice([X, Y, Z])
            rot = math.cos(ang / 2) * I2 - 1j * math.sin(ang / 2) * ax
            P0, P1 = np.diag([1, 0]).astype(complex), np.diag([0, 1]).astype(complex)
            m = np.kron(I2, P0) + np.kron(rot, P1) if rng.random() < 0.5 else np.kron(P0, I2) + np.kron(P1, rot)
        elif kind == "cu":
            u = dense.random_unitary(rng, 2)
            P0, P1 = np.diag([1, 0]).astype(complex), np.diag([0, 1]).astype(complex)
            m = np.kron(I2, P0) + np.kron(u, P1) if rng.random() < 0.5 else np.kron(P0, I2) + np.kron(P1, u)
        else:
            a = rng.choice([0.0, ang / 2, math.pi / 4])
            b = rng.choice([0.0, a, -a, rng.uniform(-1, 1)])
            c = rng.choice([0.0, a, b])
            h = a * np.kron(X, X) + b * np.kron(Y, Y) + c * np.kron(Z, Z)
            w, v = np.linalg.eigh(h)
            m = (v * np.exp(1j * w)) @ v.conj().T
        if rng.random() < 0.4:
            m = np.kron(dense.random_unitary(rng, 2), dense.random_unitary(rng, 2)) @ m @ np.kron(dense.random_unitary(rng, 2), dense.random_unitary(rng, 2))
        return m
    if r < 0.6:
        return np.kron(dense.random_unitary(rng, 2), dense.random_unitary(rng, 2))
    if r < 0.7:
        d = np.exp(1j * np.array([rng.uniform(0, 6.28) for _ in range(4)]))
        return np.diag(d)
    if r < 0.8:
        return dense.local_matrix(rng.choice(["CNOT", "CZ", "SWAP"]))
    if r < 0.9:
        p = list(range(4))
        rng.shuffle(p)
        m = np.zeros((4, 4), dtype=complex)
        for i, j in enumerate(p):
            m[j, i] = 1
        return m
    return np.kron(dense.ONE["H"], dense.ONE["S"]) @ dense.local_matrix("CNOT")


def validate(ctx: Ctx, budget_s: float):
    """every shipped transpiler on random circuits with arbitrary / threshold-adjacent angles:
    the output must have the same unitary up to phase within the documented tolerance, or raise."""
    import time

    import numpy as np

    import quri_parts.circuit.transpile as T
    import quri_parts.ionq.circuit.transpile as TI
    import quri_parts.quantinuum.circuit.transpile as TQ
    import quri_parts.quantinuum.circuit.transpile.quantinuum_native_transpiler as TQN
    from oracle import dense

    rng = ctx.rng
    validate_extra(ctx)  # fixed-count checks first: their inputs are a function of the seed alone (the loop below is time-budgeted)
    t0 = time.time()
    full = qp.ONE_Q + ["RX", "RY", "RZ", "U1", "U2", "U3", "CNOT", "CZ", "SWAP", "TOFFOLI", "Pauli", "PauliRotation", "UM1", "UM2"]
    exact_tr = []
    for name in dir(T):
        obj = getattr(T, name)
        if isinstance(obj, type) and name.endswith("Transpiler") and name not in (
            "GateSetConversionTranspiler", "RotationConversionTranspiler", "CliffordConversionTranspiler",
            "CliffordApproximationTranspiler", "QubitRemappingTranspiler", "SequentialTranspiler",
            "ParametricTranspiler", "ParametricSequentialTranspiler", "ParametricRX2RZHTranspiler",
            "ParametricRY2RZHTranspiler", "ParametricPauliRotationDecomposeTranspiler", "NormalizeRotationTranspiler",
        ):
            try:
                inst = obj()
            except Exception:  # abstract or needs args
                continue
            exact_tr.append((name, lambda o=obj: o(), 1e-7))
    exact_tr += [
        ("RZSetTranspiler", T.RZSetTranspiler, 1e-6), ("RotationSetTranspiler", T.RotationSetTranspiler, 1e-6),
        ("STARSetTranspiler", T.STARSetTranspiler, 1e-6), ("CliffordRZSetTranspiler", T.CliffordRZSetTranspiler, 1e-6),
        ("CliffordRZSetTranspiler(1e-4)", lambda: T.CliffordRZSetTranspiler(1e-4), 1e-2),
        ("Normalize(-pi,pi)", lambda: T.NormalizeRotationTranspiler((-math.pi, math.pi)), 1e-7),
        ("Normalize(0,2pi)", lambda: T.NormalizeRotationTranspiler(), 1e-7),
        ("Rotation2Named(1e-5)", lambda: T.Rotation2NamedTranspiler(1e-5), 1e-3),
    ]
    c1 = ["H", "X", "Y", "Z", "S", "Sdag", "SqrtX", "SqrtXdag", "SqrtY", "SqrtYdag", "Identity"]
    n_eval = 0
    worst = 0.0
    it = 0
    pool: dict = {}
    while time.time() - t0 < budget_s:
        it += 1
        # a random configuration
        r = rng.random()
        if r < 0.55:
            name, make, tol = rng.choice(exact_tr)
        elif r < 0.8:
            s = [k for k in c1 + ["T", "Tdag", "RX", "RY", "RZ", "CNOT", "CZ", "SWAP", "U3", "TOFFOLI"] if rng.random() < 0.35]
            name, make, tol = f"GateSetConversion({s})", (lambda s=s: T.GateSetConversionTranspiler(s)), 1e-6
        elif r < 0.86:
            s = [k for k in c1 if rng.random() < 0.4]
            name, make, tol = f"CliffordConversion({s})", (lambda s=s: T.CliffordConversionTranspiler(s)), 1e-7
        elif r < 0.92:
            rs = [k for k in ("RX", "RY", "RZ") if rng.random() < 0.6]
            fv = [k for k in c1 if rng.random() < 0.3]
            name, make, tol = f"RotationConversion({rs},{fv})", (lambda a=rs, b=fv: T.RotationConversionTranspiler(a, b)), 1e-7
        else:
            name, make, tol = config_transpiler(rng, T)
        n = rng.randint(1, 4) if rng.random() < 0.9 else 5
        circ = random_real_circuit(rng, n, rng.randint(1, 7), full + (["UM3"] if rng.random() < 0.1 else []), angle_forms=True,
                                   cbit_count=rng.choice([0, 0, 0, 2]))
        u_in = dense.circuit_unitary(n, circ.gates)  # the action of the input, taken BEFORE the transpiler sees it
        arg = circ.freeze() if rng.random() < 0.25 else circ
        ctx.count("validate.input-form", type(arg).__name__)
        try:
            # a transpiler object is reusable: sometimes the instance that already served earlier circuits is used again
            if name in pool and rng.random() < 0.35:
                tr = pool[name]
                ctx.count("validate.instance", "reused")
            else:
                tr = make()
                if len(pool) < 400:
                    pool[name] = tr
                ctx.count("validate.instance", "fresh")
            out = tr(arg)
        except Exception as e:  # raising is allowed by the property
            ctx.count("validate", "raised:" + type(e).__name__)
            n_eval += 1
            continue
        n_eval += 1
        if out.qubit_count != n:
            ctx.witness("qubit-count", f"{name} changed qubit_count", describe_circ(circ))
            continue
        try:
            d = dense.phase_dist(dense.circuit_unitary(n, out.gates), u_in)
        except KeyError as e:
            ctx.count("validate", "oracle-unknown-gate")
            continue
        if d == d:
            worst = max(worst, d)
        ctx.count("validate", "ok" if d <= tol else "MISMATCH")
        if not d <= tol:  # also catches NaN angles in the output
            small = shrink_circuit(circ, make, tol)
            ctx.witness("transpile:" + name.split("(")[0].split("[")[0], f"{name}: output differs from input by {d:.3g} (up to phase)",
                        describe_circ(small), {"dist": d})
    # quantinuum natives
    for _ in range(40 if ctx.quick() else 400):
        from quri_parts.circuit import QuantumCircuit
        from quri_parts.quantinuum.circuit import U1q

        th, ph = nongrid_angle(rng), nongrid_angle(rng)
        if rng.random() < 0.3:
            th = rng.choice([0.0, -math.pi / 2, math.pi, math.pi / 2]) + rng.choice([0, 1e-11, -1e-11])
        c = QuantumCircuit(1)
        c.add_gate(U1q(0, th, ph))
        out = TQN.U1qNormalizeWithRZTranspiler()(c)
        d = dense.phase_dist(dense.circuit_unitary(1, out.gates), dense.circuit_unitary(1, c.gates))
        n_eval += 1
        if not d <= 1e-6:  # NaN counts as a mismatch
            names = [g.name for g in out.gates]
            key = "U1qNormalizeWithRZTranspiler.general-branch" if names == ["U1q", "RZ", "U1q"] else "U1qNormalize:other"
            ctx.witness(key, f"U1qNormalizeWithRZTranspiler differs by {d:.3g}", {"theta": th, "phi": ph, "out": names})
    for cls in (TQ.RX2U1qTranspiler, TQ.RY2U1qTranspiler, TQ.H2U1qRZTranspiler, TQ.CNOT2U1qZZRZTranspiler, TQ.CZ2RZZZTranspiler,
                TQ.CNOTRZ2RZZTranspiler, TI.CNOT2RXRYXXTranspiler):
        for _ in range(5 if ctx.quick() else 60):
            circ = random_real_circuit(rng, 3, rng.randint(1, 6), ["RX", "RY", "RZ", "H", "CNOT", "CZ", "CNOT"], um=False)
            try:
                out = cls()(circ)
            except Exception:
                continue
            d = dense.phase_dist(dense.circuit_unitary(3, out.gates), dense.circuit_unitary(3, circ.gates))
            n_eval += 1
            if not d <= 1e-7:  # NaN counts as a mismatch
                ctx.witness("transpile:" + cls.__name__, f"{cls.__name__} differs by {d:.3g}", describe_circ(circ))
    # the KAK decomposition on its own: structured two-qubit unitaries (degenerate spectra included) must be
    # decomposed faithfully or refused – never silently turned into another operator
    from quri_parts.circuit import QuantumCircuit as _QC
    from quri_parts.circuit import gates as _gates

    for _ in range(60 if ctx.quick() else 1500):
        m = structured_u4(rng)
        c = _QC(2)
        tg = rng.choice([[0, 1], [1, 0]])
        c.add_gate(_gates.UnitaryMatrix(tg, m.tolist()))
        n_eval += 1
        try:
            out = T.TwoQubitUnitaryMatrixKAKTranspiler()(c)
        except Exception as e:  # noqa: BLE001 – refusing is allowed
            ctx.count("validate.kak", "raised:" + type(e).__name__)
            continue
        d = dense.phase_dist(dense.circuit_unitary(2, out.gates), dense.circuit_unitary(2, c.gates))
        ctx.count("validate.kak", "ok" if d <= 1e-6 else "MISMATCH")
        if not d <= 1e-6:  # NaN counts as a mismatch
            ctx.witness("transpile:TwoQubitUnitaryMatrixKAKTranspiler", f"KAK decomposition differs from the input matrix by {d:.3g} (up to phase), no error raised",
                        describe_circ(c), {"dist": d})
    # peephole / fusion passes on 3-gate windows and their near misses (all placements on 3 wires)
    from quri_parts.circuit import QuantumCircuit as _QC2
    from quri_parts.circuit import gates as _g2

    mids = [lambda q: _g2.RZ(q, rng.uniform(-3, 3)), lambda q: _g2.H(q), lambda q: _g2.S(q), lambda q: _g2.Z(q), lambda q: _g2.T(q),
            lambda q: _g2.U1(q, rng.uniform(-3, 3)), lambda q: _g2.RX(q, rng.uniform(-3, 3))]
    win_tr = [("CNOTRZ2RZZTranspiler", TQ.CNOTRZ2RZZTranspiler), ("CNOTHCNOTFusingTranspiler", T.CNOTHCNOTFusingTranspiler),
              ("FuseRotationTranspiler", T.FuseRotationTranspiler)]
    if hasattr(TQ, "QuantinuumSetTranspiler"):
        win_tr.append(("QuantinuumSetTranspiler", TQ.QuantinuumSetTranspiler))
    for _ in range(150 if ctx.quick() else 3000):
        a, b = rng.sample(range(3), 2)
        c2, t2 = rng.sample(range(3), 2)
        c = _QC2(3)
        if rng.random() < 0.3:
            c.add_gate(_g2.H(rng.randrange(3)))
        c.add_gate(_g2.CNOT(a, b))
        c.add_gate(rng.choice(mids)(rng.randrange(3)))
        c.add_gate(_g2.CNOT(c2, t2) if rng.random() < 0.8 else _g2.CZ(c2, t2))
        if rng.random() < 0.3:
            c.add_gate(_g2.RZ(rng.randrange(3), rng.uniform(-3, 3)))
        name, cls = rng.choice(win_tr)
        n_eval += 1
        try:
            out = cls()(c)
        except Exception as e:  # noqa: BLE001
            ctx.count("validate.window", "raised:" + type(e).__name__)
            continue
        try:
            d = dense.phase_dist(dense.circuit_unitary(3, out.gates), dense.circuit_unitary(3, c.gates))
        except KeyError:
            ctx.count("validate.window", "oracle-unknown-gate")
            continue
        ctx.count("validate.window", "ok" if d <= 1e-6 else "MISMATCH")
        if not d <= 1e-6:  # NaN counts as a mismatch
            key = "transpile:" + name
            if name == "QuantinuumSetTranspiler" and any(g.name in ("RX", "RY") for g in c.gates):
                # the preset normalises RX/RY(θ) through U1qNormalizeWithRZTranspiler's general branch (known finding)
                key = "QuantinuumSetTranspiler.via-U1qNormalize-general-branch"
            ctx.witness(key, f"{name}: output differs from input by {d:.3g} (up to phase) on a 3-gate window",
                        describe_circ(c), {"dist": d})
    ionq_validate(ctx, TI)
    clifford_approx_validate(ctx, T)
    ctx.extra["oracle_validation"] = {"evaluations": n_eval, "worst_phase_dist_ok": worst}
    ctx.evaluations += n_eval
    ctx.search_budget_s = budget_s


def ionq_unitary(n, gs):
    """unitary of a circuit of IonQ native gates (GPi, GPi2, MS as documented in quri_parts.ionq.circuit.gates)"""
    import numpy as np

    from oracle import dense

    u = np.eye(1 << n, dtype=complex)
    for g in gs:
        if g.name == "GPi":
            p = 2 * math.pi * g.params[0]
            m = np.array([[0, np.exp(-1j * p)], [np.exp(1j * p), 0]])
        elif g.name == "GPi2":
            p = 2 * math.pi * g.params[0]
            m = np.array([[1, -1j * np.exp(-1j * p)], [-1j * np.exp(1j * p), 1]]) / math.sqrt(2)
        elif g.name == "MS":
            p0, p1 = (2 * math.pi * x for x in g.params)
            m = np.array([[1, 0, 0, -1j * np.exp(-1j * (p0 + p1))], [0, 1, -1j * np.exp(-1j * (p0 - p1)), 0],
                          [0, -1j * np.exp(1j * (p0 - p1)), 1, 0], [-1j * np.exp(1j * (p0 + p1)), 0, 0, 1]]) / math.sqrt(2)
        else:
            raise KeyError(g.name)
        # the MS matrix of the docstring is IonQ's: first qubit = most significant bit
        u = dense.embed(n, list(g.target_indices)[::-1], m) @ u
    return u


def ionq_validate(ctx, TI):
    """documented weaker relation: computational-basis measurement statistics are preserved,
    i.e. |<y|V|x>| = |<y|U|x>| for all x, y (per-qubit Z phases on the output side)."""
    import numpy as np

    from oracle import dense
    from quri_parts.circuit import QuantumCircuit, gates
    from quri_parts.ionq.circuit import XX

    rng = ctx.rng

    for _ in range(20 if ctx.quick() else 300):
        n = rng.randint(1, 3)
        c = QuantumCircuit(n)
        for _ in range(rng.randint(1, 6)):
            k = rng.choice(["RX", "RY", "RZ", "XX"])
            if k == "XX" and n >= 2:
                a, b = rng.sample(range(n), 2)
                c.add_gate(XX(a, b, rng.choice([math.pi / 4, -math.pi / 4])))
            elif k != "XX":
                ang = rng.choice([0.5 * math.pi, -0.5 * math.pi, math.pi, -math.pi]) if rng.random() < 0.4 else rng.uniform(-6, 6)
                c.add_gate(getattr(gates, k)(rng.randrange(n), ang))
        try:
            out = TI.IonQNativeTranspiler()(c)
            v = ionq_unitary(n, out.gates)
        except Exception:
            continue
        u = dense.circuit_unitary(n, c.gates)
        dm = u @ v.conj().T  # must be diagonal: per-qubit Z phases only
        d = float(np.max(np.abs(dm - np.diag(np.diag(dm)))))
        ctx.evaluations += 1
        if not d <= 1e-6:  # NaN counts as a mismatch
            ctx.witness("transpile:IonQNativeTranspiler", f"U·V† is not diagonal (off-diagonal {d:.3g}): outcome statistics differ", describe_circ(c))


def clifford_approx_validate(ctx, T):
    """documented weaker relation: every angle replaced by the nearest multiple of π/2; on inputs whose
    angles already are multiples of π/2 the action is preserved exactly"""
    from oracle import dense

    rng = ctx.rng
    from quri_parts.circuit import QuantumCircuit, gates

    for _ in range(20 if ctx.quick() else 300):
        n = rng.randint(1, 3)
        c = QuantumCircuit(n)
        for _ in range(rng.randint(1, 6)):
            k = rng.choice(["RX", "RY", "RZ", "U1", "U2", "U3", "PauliRotation", "H", "CNOT", "S"])
            a = lambda: rng.randint(-6, 6) * math.pi / 2
            q = rng.randrange(n)
            if k in ("RX", "RY", "RZ", "U1"):
                c.add_gate(getattr(gates, k)(q, a()))
            elif k == "U2":
                c.add_gate(gates.U2(q, a(), a()))
            elif k == "U3":
                c.add_gate(gates.U3(q, a(), a(), a()))
            elif k == "PauliRotation":
                m = rng.randint(1, n)
                ts = rng.sample(range(n), m)
                c.add_gate(gates.PauliRotation(ts, [rng.randint(1, 3) for _ in ts], a()))
            elif k == "CNOT" and n >= 2:
                x, y = rng.sample(range(n), 2)
                c.add_gate(gates.CNOT(x, y))
            elif k in ("H", "S"):
                c.add_gate(getattr(gates, k)(q))
        try:
            out = T.CliffordApproximationTranspiler()(c)
        except Exception:
            continue
        d = dense.phase_dist(dense.circuit_unitary(n, out.gates), dense.circuit_unitary(n, c.gates))
        ctx.evaluations += 1
        if not d <= 1e-7:  # NaN counts as a mismatch
            ctx.witness("transpile:CliffordApproximationTranspiler", f"on Clifford angles the action changed by {d:.3g}", describe_circ(c))


# ---------------------------------------------------------------------------
# gap-closing validations (regions the random generators above never reach): configurations and argument forms,
# parametric transpilers, 1-/2-qubit unitary matrices next to the decomposers' branch thresholds, IonQ/Quantinuum
# presets on general circuits, documented rejections, deprecated factory aliases.
# ---------------------------------------------------------------------------
KNOWN_UM1 = "SingleQubitUnitaryMatrix2RYRZTranspiler.near-diagonal"
KNOWN_KAK = "TwoQubitUnitaryMatrixKAKTranspiler.near-degenerate"
KNOWN_KAK_BALANCED = "TwoQubitUnitaryMatrixKAKTranspiler.equal-modulus-local-factor"
KNOWN_IONQ_DROP = "IonQNativeTranspiler.drops-unsupported-gates"
KNOWN_IONQ_XX = "IonQNativeTranspiler.XX-angle-ignored"
C1Q = ["H", "X", "Y", "Z", "S", "Sdag", "SqrtX", "SqrtXdag", "SqrtY", "SqrtYdag", "Identity"]
FULL = qp.ONE_Q + ["RX", "RY", "RZ", "U1", "U2", "U3", "CNOT", "CZ", "SWAP", "TOFFOLI", "Pauli", "PauliRotation", "UM1", "UM2"]


def _container(rng, items):
    """the same collection of gate names in a form the in-tree callers never use"""
    form = rng.choice(["list", "tuple", "set", "frozenset", "generator", "dict-keys", "reversed-list"])
    items = list(items)
    if form == "list":
        return form, (lambda: list(items))
    if form == "tuple":
        return form, (lambda: tuple(items))
    if form == "set":
        return form, (lambda: set(items))
    if form == "frozenset":
        return form, (lambda: frozenset(items))
    if form == "generator":
        return form, (lambda: (x for x in items))
    if form == "dict-keys":
        return form, (lambda: dict.fromkeys(items).keys())
    return form, (lambda: list(reversed(items + items[:1])))  # repeated + reversed


def config_transpiler(rng, T):
    """(name, make, tol): constructor configurations beyond the defaults – explicit epsilon / validation / cycle range,
    containers of every kind, nested and empty pipelines, ParallelDecomposer over decomposers that carry constructor
    state, and the configurations the constructors document as rejected.  Whatever the constructor does with them, a
    transpiler that comes out of it must preserve the action (or raise)."""
    r = rng.random()
    pi = math.pi
    if r < 0.35:
        s = [k for k in C1Q + ["T", "Tdag", "RX", "RY", "RZ", "CNOT", "CZ", "SWAP", "U1", "U3", "TOFFOLI", "Pauli"] if rng.random() < 0.35]
        form, cont = _container(rng, s)
        eps = rng.choice([None, 1e-9, 1e-6, 1e-4, 1e-12])
        val = rng.choice([None, True, False, False])
        kw = {}
        if eps is not None:
            kw["epsilon"] = eps
        if val is not None:
            kw["validation"] = val
        positional = rng.random() < 0.3 and eps is not None and val is not None
        mk = (lambda: T.GateSetConversionTranspiler(cont(), eps, val)) if positional else (lambda: T.GateSetConversionTranspiler(cont(), **kw))
        return f"GateSetConversion[{form},eps={eps},validation={val}]({s})", mk, max(1e-6, 100 * (eps or 1e-9))
    if r < 0.45:
        s = [k for k in C1Q if rng.random() < 0.4]
        form, cont = _container(rng, s)
        return f"CliffordConversion[{form}]({s})", (lambda: T.CliffordConversionTranspiler(cont())), 1e-7
    if r < 0.55:
        rs = [k for k in ("RX", "RY", "RZ") if rng.random() < 0.6]
        fv = [k for k in C1Q if rng.random() < 0.3]
        f1, c1_ = _container(rng, rs)
        f2, c2_ = _container(rng, fv)
        if rng.random() < 0.5:
            return f"RotationConversion[{f1},{f2}]({rs},{fv})", (lambda: T.RotationConversionTranspiler(target_rotation=c1_(), favorable_clifford=c2_())), 1e-7
        return f"RotationConversion[{f1}]({rs})", (lambda: T.RotationConversionTranspiler(c1_())), 1e-7
    if r < 0.67:
        eps = rng.choice([1e-12, 1e-9, 1e-6, 1e-4])
        which = rng.choice(["RX2Named", "RY2Named", "RZ2Named", "RZ2Named-noT", "Rotation2Named", "ZeroRotationElimination", "CliffordRZSet"])
        mk = {
            "RX2Named": lambda: T.RX2NamedTranspiler(eps), "RY2Named": lambda: T.RY2NamedTranspiler(epsilon=eps),
            "RZ2Named": lambda: T.RZ2NamedTranspiler(eps, True), "RZ2Named-noT": lambda: T.RZ2NamedTranspiler(epsilon=eps, allow_t_tdag=False),
            "Rotation2Named": lambda: T.Rotation2NamedTranspiler(epsilon=eps), "ZeroRotationElimination": lambda: T.ZeroRotationEliminationTranspiler(epsilon=eps),
            "CliffordRZSet": lambda: T.CliffordRZSetTranspiler(epsilon=eps),
        }[which]
        return f"{which}(eps={eps})", mk, max(1e-6, 100 * eps)
    if r < 0.77:
        lo = rng.choice([0.0, -pi, -2 * pi, pi, 0.5, -7.25, 100.0, -3 * pi])
        variants = [
            (f"Normalize(({lo},+2pi))", lambda: T.NormalizeRotationTranspiler((lo, lo + 2 * pi))),
            (f"Normalize(cycle_range=[{lo},+2pi],eps=1e-3)", lambda: T.NormalizeRotationTranspiler(cycle_range=[lo, lo + 2 * pi + 4e-4], epsilon=1e-3)),
            ("Normalize(zero-width)", lambda: T.NormalizeRotationTranspiler((lo, lo))),
            ("Normalize(descending)", lambda: T.NormalizeRotationTranspiler((lo + 2 * pi, lo))),
            ("Normalize(width-3)", lambda: T.NormalizeRotationTranspiler((lo, lo + 3.0))),
            ("Normalize(width-4pi)", lambda: T.NormalizeRotationTranspiler((lo, lo + 4 * pi))),
        ]
        nm, mk = rng.choice(variants)
        return nm, mk, 1e-7
    if r < 0.87:
        variants = [
            ("Parallel(duplicate-kind)", lambda: T.ParallelDecomposer([T.X2RXTranspiler(), T.H2RZSqrtXTranspiler(), T.X2HZTranspiler()])),
            ("Parallel(duplicate-multi-kind)", lambda: T.ParallelDecomposer((T.RY2RZSqrtXTranspiler(), T.NormalizeRotationTranspiler()))),
            ("Parallel(stateful-members)", lambda: T.ParallelDecomposer((
                T.RX2NamedTranspiler(1e-7), T.RY2RZSqrtXTranspiler(), T.RZ2NamedTranspiler(1e-7, False), T.T2RZTranspiler(), T.PauliDecomposeTranspiler(),
                T.PauliRotationDecomposeTranspiler(), T.TOFFOLI2HTTdagCNOTTranspiler(), T.CZ2CNOTHTranspiler(), T.U3ToRZSqrtXTranspiler()))),
            ("Parallel(normalize+named)", lambda: T.ParallelDecomposer([T.NormalizeRotationTranspiler((-pi, pi)), T.H2RXRYTranspiler(), T.SWAP2CNOTTranspiler(), T.U2ToRXRZTranspiler()])),
            ("Parallel(empty)", lambda: T.ParallelDecomposer([])),
            ("Parallel(zero-elim)", lambda: T.ParallelDecomposer([T.ZeroRotationEliminationTranspiler(1e-7), T.Identity2RZTranspiler(), T.Y2RZXTranspiler()])),
        ]
        nm, mk = rng.choice(variants)
        return nm, mk, 1e-5
    if r < 0.95:
        variants = [
            ("Sequential(empty-tuple)", lambda: T.SequentialTranspiler(())),
            ("Sequential(nested)", lambda: T.SequentialTranspiler((T.SequentialTranspiler([T.PauliRotationDecomposeTranspiler(), T.SequentialTranspiler([])]),
                                                                      T.RZSetTranspiler(), T.SequentialTranspiler((T.CNOTHCNOTFusingTranspiler(), T.FuseRotationTranspiler()))))),
            ("Sequential(function-members)", lambda: T.SequentialTranspiler([lambda c: T.TOFFOLI2HTTdagCNOTTranspiler()(c), T.CZ2CNOTHTranspiler().__call__, T.CNOTHCNOTFusingTranspiler()])),
            ("Sequential(presets-twice)", lambda: T.SequentialTranspiler([T.RotationSetTranspiler(), T.RZSetTranspiler(), T.RotationSetTranspiler()])),
            ("Sequential(STAR,CliffordRZ)", lambda: T.SequentialTranspiler([T.STARSetTranspiler(), T.CliffordRZSetTranspiler()])),
        ]
        nm, mk = rng.choice(variants)
        return nm, mk, 1e-5
    variants = [  # documented rejections: if the constructor lets them through, the object must still be harmless
        ("CliffordConversion(rejected:T)", lambda: T.CliffordConversionTranspiler(["H", "T", "S"])),
        ("CliffordConversion(rejected:CNOT)", lambda: T.CliffordConversionTranspiler(("CNOT", "X"))),
        ("RotationConversion(rejected:U1)", lambda: T.RotationConversionTranspiler(["RZ", "U1"])),
        ("RotationConversion(rejected:favorable-CNOT)", lambda: T.RotationConversionTranspiler(["RZ"], ["CNOT", "SqrtX"])),
        ("RotationConversion(rejected:favorable-T)", lambda: T.RotationConversionTranspiler(["RX", "RZ"], ["T"])),
    ]
    nm, mk = rng.choice(variants)
    return nm, mk, 1e-7


def _judge(ctx, key, what, n, circ, u_in, out, tol, stat):
    """same action up to phase (NaN-safe); returns True when judged ok"""
    from oracle import dense

    if out.qubit_count != n:
        ctx.witness("qubit-count", f"{what} changed qubit_count", describe_circ(circ))
        return False
    try:
        d = dense.phase_dist(dense.circuit_unitary(n, out.gates), u_in)
    except KeyError:
        ctx.count(stat, "oracle-unknown-gate")
        return True
    ctx.count(stat, "ok" if d <= tol else "MISMATCH")
    if not d <= tol:
        ctx.witness(key, f"{what}: output differs from input by {d:.3g} (up to phase), no error raised", describe_circ(circ), {"dist": d})
        return False
    return True


def config_validate(ctx, T):
    """every configuration family of `config_transpiler`, deterministically many times, one instance serving several circuits"""
    from oracle import dense

    rng = ctx.rng
    for _ in range(ctx.n(250, 4000)):
        name, make, tol = config_transpiler(rng, T)
        try:
            tr = make()
        except Exception as e:  # noqa: BLE001 – refusing a configuration is allowed
            ctx.count("validate.config", "ctor-raised:" + type(e).__name__)
            ctx.evaluations += 1
            continue
        for _ in range(rng.randint(1, 3)):  # the same object, several circuits
            n = rng.randint(1, 4)
            circ = random_real_circuit(rng, n, rng.randint(1, 6), FULL, angle_forms=True)
            u_in = dense.circuit_unitary(n, circ.gates)
            ctx.evaluations += 1
            try:
                out = tr(circ.freeze() if rng.random() < 0.3 else circ)
            except Exception as e:  # noqa: BLE001
                ctx.count("validate.config", "raised:" + type(e).__name__)
                continue
            _judge(ctx, "transpile:" + name.split("(")[0].split("[")[0], name, n, circ, u_in, out, tol, "validate.config")


# ---- 1-qubit unitary matrices ------------------------------------------------------------------------------------------
def structured_u2(rng):
    """(matrix as numpy array, family): diagonal / anti-diagonal (the two special branches of su2_decompose), named gates,
    matrices next to those branches (tiny off-diagonal or tiny diagonal entries), real-valued and Haar matrices, each
    with an arbitrary global phase"""
    import cmath

    import numpy as np

    from oracle import dense

    u = lambda: rng.uniform(-math.pi, math.pi)
    r = rng.random()
    if r < 0.15:
        m, fam = np.diag([cmath.exp(1j * u()), cmath.exp(1j * u())]), "diagonal"
    elif r < 0.3:
        m, fam = np.array([[0, cmath.exp(1j * u())], [cmath.exp(1j * u()), 0]]), "anti-diagonal"
    elif r < 0.45:
        k = rng.choice(sorted(dense.ONE))
        m, fam = np.array(dense.ONE[k], dtype=complex), "named"
    elif r < 0.6:
        t = rng.choice([1e-16, 5e-16, 1e-3, 1e-2, math.pi / 2, math.pi - 1e-3, math.pi - 1e-6, math.pi - 1e-9, math.pi - 1e-12, math.pi - 1e-15])
        m, fam = dense.u3(t, u(), u()), "near-branch"
    elif r < 0.75:
        t = 10 ** rng.uniform(-14.5, -3.7)  # the region of the known finding (off-diagonal entries in [1e-15, 2e-4])
        m, fam = dense.u3(t, u(), u()), "near-diagonal"
    elif r < 0.85:
        t = u()
        m, fam = np.array([[math.cos(t), -math.sin(t)], [math.sin(t), math.cos(t)]]) @ np.diag([1, rng.choice([1, -1])]), "real"
    else:
        m, fam = dense.random_unitary(rng, 2), "haar"
    if fam != "real" and rng.random() < 0.6:
        m = cmath.exp(1j * u()) * np.asarray(m, dtype=complex)
    return np.asarray(m), fam


def um1_validate(ctx, T):
    """SingleQubitUnitaryMatrix2RYRZTranspiler on its own and inside the presets, matrices given as lists / tuples /
    numpy arrays / real numbers, through UnitaryMatrix and SingleQubitUnitaryMatrix"""
    import numpy as np

    from oracle import dense
    from quri_parts.circuit import QuantumCircuit, gates

    rng = ctx.rng

    def known_region(m):
        lo = min(abs(m[0][1]), abs(m[1][0]))
        return 1e-15 <= lo < 2e-4

    def one(m, fam, make, name, tol=1e-6, form="list"):
        m = np.asarray(m)
        n = rng.randint(1, 2)
        q = rng.randrange(n)
        arg = m.tolist() if form == "list" else tuple(map(tuple, m.tolist())) if form == "tuple" else m
        if form == "real-list":
            arg = [[float(x.real) for x in row] for row in m]
        c = QuantumCircuit(n)
        c.add_gate(gates.SingleQubitUnitaryMatrix(q, arg) if rng.random() < 0.3 else gates.UnitaryMatrix([q], arg))
        u_in = dense.embed(n, [q], np.asarray(m, dtype=complex))
        ctx.evaluations += 1
        try:
            out = make()(c)
        except Exception as e:  # noqa: BLE001 – refusing is allowed
            ctx.count("validate.um1", f"{fam}:raised:" + type(e).__name__)
            return None
        d = dense.phase_dist(dense.circuit_unitary(n, out.gates), u_in)
        ctx.count("validate.um1", f"{fam}:" + ("ok" if d <= tol else "MISMATCH"))
        if not d <= tol:
            key = KNOWN_UM1 if known_region(m) else "transpile:" + name
            ctx.witness(key, f"{name}: 1-qubit UnitaryMatrix ({fam}, |u01|={abs(m[0][1]):.3g}) decomposed into an operator {d:.3g} away (up to phase), no error raised",
                        describe_circ(c), {"dist": d})
        return d

    makes = [("SingleQubitUnitaryMatrix2RYRZTranspiler", T.SingleQubitUnitaryMatrix2RYRZTranspiler)] * 3 + [
        ("RZSetTranspiler", T.RZSetTranspiler), ("RotationSetTranspiler", T.RotationSetTranspiler),
        ("GateSetConversionTranspiler", lambda: T.GateSetConversionTranspiler(["H", "RZ", "CNOT"])), ("CliffordRZSetTranspiler", T.CliffordRZSetTranspiler)]
    for _ in range(ctx.n(300, 6000)):
        m, fam = structured_u2(rng)
        name, make = rng.choice(makes)
        form = "real-list" if fam == "real" and rng.random() < 0.7 else rng.choice(["list", "list", "tuple", "numpy"])
        one(m, fam, make, name, form=form)
    # pinned witness of the known finding, replayed on the real code every run
    pinned = dense.u3(1e-9, 0.3, 0.9)
    for name, make in makes[2:5]:
        one(pinned, "near-diagonal", make, name)


# ---- 2-qubit unitary matrices next to a degenerate KAK spectrum ------------------------------------------------------------
def _expi(h):
    import numpy as np

    w, v = np.linalg.eigh(h)
    return (v * np.exp(1j * w)) @ v.conj().T


def _rand_herm(rng, dim):
    import numpy as np

    a = np.array([[complex(rng.gauss(0, 1), rng.gauss(0, 1)) for _ in range(dim)] for _ in range(dim)])
    return (a + a.conj().T) / 2


def kak_gap(m):
    """smallest distance between two eigenvalues of (M†UM)ᵀ(M†UM), M the magic basis: the conditioning of the
    eigenvector problem the KAK decomposition rests on (0 for controlled rotations, SWAP, tensor products, …)"""
    import numpy as np

    mag = np.array([[1, -1j, 0, 0], [0, 0, -1, -1j], [0, 0, 1, -1j], [1, 1j, 0, 0]]) / math.sqrt(2)
    up = mag.conj().T @ np.asarray(m, dtype=complex) @ mag
    ev = np.linalg.eigvals(up.T @ up)
    return float(min(abs(ev[i] - ev[j]) for i in range(4) for j in range(i)))


def kak_near_validate(ctx, T):
    """structured two-qubit unitaries perturbed by exp(iδH), δ ∈ [1e-10, 1e-3]: what numerically obtained
    CNOT-/SWAP-/tensor-product-like matrices look like.  Faithful, or refused."""
    import numpy as np

    from oracle import dense
    from quri_parts.circuit import QuantumCircuit, gates

    rng = ctx.rng
    X, Y, Z = dense.PX, dense.PY, dense.PZ
    kr = np.kron

    def one(m, fam, make, name):
        tg = rng.choice([[0, 1], [1, 0]])
        c = QuantumCircuit(2)
        arg = rng.choice([m.tolist(), m.tolist(), np.asarray(m), tuple(map(tuple, m.tolist()))])
        c.add_gate(gates.TwoQubitUnitaryMatrix(tg[0], tg[1], arg) if rng.random() < 0.3 else gates.UnitaryMatrix(tuple(tg) if rng.random() < 0.3 else tg, arg))
        u_in = dense.embed(2, tg, np.asarray(m, dtype=complex))
        ctx.evaluations += 1
        try:
            out = make()(c)
        except Exception as e:  # noqa: BLE001 – refusing is allowed
            ctx.count("validate.kak-near", f"{fam}:raised:" + type(e).__name__)
            return
        try:
            d = dense.phase_dist(dense.circuit_unitary(2, out.gates), u_in)
        except KeyError:
            ctx.count("validate.kak-near", "oracle-unknown-gate")
            return
        near, gap = kak_known_class(m)
        # tolerance 1e-5: QuantumGate.unitary_matrix hands the decomposer the matrix with imaginary parts below 1e-7 dropped,
        # an input perturbation the documented behaviour includes.  Known class (decided from the input alone): the spectrum
        # the decomposer sees is nearly but not exactly degenerate, eigenvalue gap in [1e-12, 1e-3) (measured: errors up to
        # 2.0 / NaN for gaps < 1e-5, up to 0.6 for [1e-5,1e-4), up to 0.03 for [1e-4,1e-3), below 1e-7 above 1e-3; exactly
        # degenerate spectra are refused or decomposed correctly by the unchanged code).
        ctx.count("validate.kak-near", f"{fam}:" + ("ok" if d <= 1e-5 else "MISMATCH"))
        if not d <= 1e-5:
            key = KNOWN_KAK if near else "transpile:" + name
            ctx.witness(key, f"{name}: 2-qubit UnitaryMatrix ({fam}, KAK eigenvalue gap {gap:.3g}) decomposed into an operator {d:.3g} away (up to phase), no error raised",
                        describe_circ(c), {"dist": d, "gap": gap})

    makes = [("TwoQubitUnitaryMatrixKAKTranspiler", T.TwoQubitUnitaryMatrixKAKTranspiler)] * 3 + [
        ("RZSetTranspiler", T.RZSetTranspiler), ("RotationSetTranspiler", T.RotationSetTranspiler)]
    for _ in range(ctx.n(150, 4000)):
        base = structured_u4(rng) if rng.random() < 0.8 else dense.random_unitary(rng, 4)
        delta = 10 ** rng.uniform(-10, -3)
        name, make = rng.choice(makes)
        one(np.asarray(base, dtype=complex) @ _expi(delta * _rand_herm(rng, 4)), f"perturbed(1e{int(math.floor(math.log10(delta)))})", make, name)
    # pinned witnesses of the known finding
    one(_expi(0.3 * kr(X, X) + (0.3 + 1e-7) * kr(Y, Y) + 0.1 * kr(Z, Z)), "pinned:exp(i(.3XX+(.3+1e-7)YY+.1ZZ))", makes[0][1], makes[0][0])
    one(dense.local_matrix("CNOT") @ _expi(1e-7 * (kr(X, X) + 0.5 * kr(Y, Z))), "pinned:CNOT·exp(1e-7i(XX+.5YZ))", makes[0][1], makes[0][0])


def _seen_by_decomposer(m):
    """the matrix as QuantumGate.unitary_matrix hands it to su4_decompose: imaginary parts below 1e-7 are dropped
    (packages/rust/src/circuit/gate.rs get_unitary_matrix)"""
    import numpy as np

    m = np.array(m, dtype=complex)
    m.imag[np.abs(m.imag) < 1e-7] = 0.0
    return m


def kak_known_class(m):
    """trigger class of the recorded finding `…KAKTranspiler.near-degenerate`, decided from the INPUT alone: the spectrum the
    decomposer works with is nearly – not exactly – degenerate (smallest eigenvalue distance in [1e-12, 1e-3)).  Exactly
    degenerate spectra (pure product gates, CZ/CNOT/SWAP classes: distance at rounding level) are refused or handled by
    the unchanged code, well separated ones are decomposed to 1e-7: a failure there is never filed under the known key."""
    g = kak_gap(_seen_by_decomposer(m))
    return 1e-12 <= g < 1e-3, g


def local_factor(rng, kind=None):
    """(2x2 unitary, family) for one side of a KAK local layer"""
    import cmath

    import numpy as np

    from oracle import dense

    u = lambda: rng.uniform(-math.pi, math.pi)
    kind = kind or rng.choice(["identity", "diagonal", "monomial", "clifford", "generic-small", "generic-large", "generic-large", "tie"])
    if kind == "identity":
        m = np.eye(2)
    elif kind == "diagonal":
        m = np.diag([cmath.exp(1j * u()), cmath.exp(1j * u())])
    elif kind == "monomial":  # X-like: one entry per row and column, off the diagonal
        m = np.array([[0, cmath.exp(1j * u())], [cmath.exp(1j * u()), 0]])
    elif kind == "clifford":
        m = dense.ONE[rng.choice(["H", "S", "Sdag", "X", "Y", "Z", "SqrtX", "SqrtXdag", "SqrtY", "SqrtYdag"])]
    elif kind == "generic-small":  # |A[0,0]| > |A[1,0]|
        m = dense.u3(rng.uniform(0.05, 1.4), u(), u())
    elif kind == "generic-large":  # |A[1,0]| > |A[0,0]|: rotation by more than π/2
        m = dense.u3(rng.uniform(1.75, math.pi - 0.05), u(), u())
    else:  # |A[1,0]| = |A[0,0]|
        m = dense.u3(math.pi / 2, u(), u())
    if rng.random() < 0.3:
        m = cmath.exp(1j * u()) * np.asarray(m, dtype=complex)
    return np.asarray(m, dtype=complex), kind


def layered_u4(rng):
    """(A ⊗ B)·K·(C ⊗ D): every local factor drawn independently per side from `local_factor`, K the identity (pure product
    gate), a generic or partly vanishing interaction exp(i(aXX+bYY+cZZ)), or CZ / CNOT / SWAP / iSWAP.  Returns (matrix, family, local factors)."""
    import numpy as np

    from oracle import dense

    X, Y, Z = dense.PX, dense.PY, dense.PZ
    kk = rng.choice(["identity", "interaction", "interaction", "interaction", "CZ", "CNOT", "SWAP", "iSWAP", "interaction-2"])
    if kk == "identity":
        k = np.eye(4, dtype=complex)
    elif kk == "interaction":
        a, b, c = (rng.choice([0.3, 0.5, 0.7, 0.2, 0.9, 1.1]) for _ in range(3)) if rng.random() < 0.4 else (rng.uniform(0.1, 1.4) for _ in range(3))
        k = _expi(a * np.kron(X, X) + b * np.kron(Y, Y) + c * np.kron(Z, Z))
    elif kk == "interaction-2":
        a, b = rng.uniform(0.1, 1.4), rng.uniform(0.1, 1.4)
        p, q = rng.sample([X, Y, Z], 2)
        k = _expi(a * np.kron(p, p) + b * np.kron(q, q))
    elif kk == "iSWAP":
        k = _expi(math.pi / 4 * (np.kron(X, X) + np.kron(Y, Y)))
    else:
        k = np.asarray(dense.local_matrix(kk), dtype=complex)
        if kk == "CNOT" and rng.random() < 0.5:  # either control
            k = np.asarray(dense.local_matrix("SWAP")) @ k @ np.asarray(dense.local_matrix("SWAP"))
    mode = rng.choice(["left", "left", "right", "right", "both"])
    pre = post = ""
    factors = []
    left = right = np.eye(4, dtype=complex)
    if mode in ("left", "both"):
        (a, fa), (b, fb) = local_factor(rng), local_factor(rng)
        left, pre = np.kron(a, b), f"({fa}⊗{fb})·"
        factors += [a, b]
    if mode in ("right", "both"):
        (c, fc), (d, fd) = local_factor(rng), local_factor(rng)
        right, post = np.kron(c, d), f"·({fc}⊗{fd})"
        factors += [c, d]
    return left @ k @ right, pre + kk + post, factors


def balanced_factor(factors):
    """some local factor has entries of equal modulus (H, SqrtX, SqrtY, RY(π/2), … : ||F00| − |F10|| < 1e-6)"""
    return any(abs(abs(f[0][0]) - abs(f[1][0])) < 1e-6 for f in factors)



def kak_layered_validate(ctx, T):
    """KAK inputs with structure in the LOCAL layers: (A ⊗ B)·K·(C ⊗ D) from `layered_u4`, both target orders, standalone and
    inside presets.  Faithful, or refused.  A mismatch is filed under a recorded finding only when the input is in that
    finding's trigger class (nearly degenerate spectrum / a local factor with entries of equal modulus)."""
    import numpy as np

    from oracle import dense
    from quri_parts.circuit import QuantumCircuit, gates

    rng = ctx.rng

    def one(m, fam, factors, make, name):
        tg = rng.choice([[0, 1], [1, 0]])
        n = rng.choice([2, 2, 3])
        if n == 3:
            tg = rng.sample(range(3), 2)
        c = QuantumCircuit(n)
        c.add_gate(gates.UnitaryMatrix(tg, m.tolist()))
        u_in = dense.embed(n, tg, np.asarray(m, dtype=complex))
        ctx.evaluations += 1
        try:
            out = make()(c)
        except Exception as e:  # noqa: BLE001 – refusing is allowed
            ctx.count("validate.kak-layered", "raised:" + type(e).__name__)
            return
        try:
            d = dense.phase_dist(dense.circuit_unitary(n, out.gates), u_in)
        except KeyError:
            ctx.count("validate.kak-layered", "oracle-unknown-gate")
            return
        if d <= 1e-5:
            ctx.count("validate.kak-layered", "ok")
            return
        near, gap = kak_known_class(m)
        key = KNOWN_KAK if near else KNOWN_KAK_BALANCED if balanced_factor(factors) else "transpile:" + name
        ctx.count("validate.kak-layered", "MISMATCH:" + ("near-degenerate" if near else "balanced-factor" if key == KNOWN_KAK_BALANCED else "FRESH"))
        ctx.witness(key, f"{name}: 2-qubit UnitaryMatrix {fam} (KAK eigenvalue gap {gap:.3g}) decomposed into an operator {d:.3g} away (up to phase), no error raised",
                    describe_circ(c), {"dist": d, "gap": gap, "family": fam})

    makes = [("TwoQubitUnitaryMatrixKAKTranspiler", T.TwoQubitUnitaryMatrixKAKTranspiler)] * 4 + [
        ("RZSetTranspiler", T.RZSetTranspiler), ("RotationSetTranspiler", T.RotationSetTranspiler), ("CliffordRZSetTranspiler", T.CliffordRZSetTranspiler)]
    for _ in range(ctx.n(400, 8000)):
        m, fam, factors = layered_u4(rng)
        name, make = rng.choice(makes)
        one(m, fam, factors, make, name)
    # pinned witness of the recorded finding: a Hadamard on one qubit, then a generic interaction
    X, Y, Z = dense.PX, dense.PY, dense.PZ
    h = np.asarray(dense.ONE["H"], dtype=complex)
    m = _expi(0.3 * np.kron(X, X) + 0.5 * np.kron(Y, Y) + 0.7 * np.kron(Z, Z)) @ np.kron(h, np.eye(2))
    one(m, "pinned:exp(i(.3XX+.5YY+.7ZZ))·(H⊗I)", [h], makes[0][1], makes[0][0])


# ---- always-run, exhaustive: every 3-gate window of the peephole passes on 3 wires -----------------------------------------------------
def window_exhaustive_validate(ctx):
    """[CNOT(a,b), G(x), CX/CZ(c,t)] for ALL ordered pairs (a,b), (c,t) on 3 wires, all positions x of the middle gate and every
    middle gate kind a fusing pass looks at – the exact windows and every near miss (other control, other target, reversed,
    middle gate on the control or on a spectator).  Not sampled and not budget-dependent."""
    import quri_parts.circuit.transpile as T
    import quri_parts.quantinuum.circuit.transpile as TQ
    from oracle import dense
    from quri_parts.circuit import QuantumCircuit, gates

    rng = ctx.rng
    pairs = [(a, b) for a in range(3) for b in range(3) if a != b]
    mids = {"RZ": lambda q: gates.RZ(q, rng.uniform(-3, 3)), "H": lambda q: gates.H(q), "S": lambda q: gates.S(q), "RX": lambda q: gates.RX(q, rng.uniform(-3, 3)),
            "U1": lambda q: gates.U1(q, rng.uniform(-3, 3))}
    passes = [("CNOTRZ2RZZTranspiler", TQ.CNOTRZ2RZZTranspiler, ["RZ", "H", "U1"], ["CNOT", "CZ"]),
              ("CNOTHCNOTFusingTranspiler", T.CNOTHCNOTFusingTranspiler, ["H", "RZ", "S"], ["CNOT", "CZ"]),
              ("FuseRotationTranspiler", T.FuseRotationTranspiler, ["RZ", "RX"], ["CNOT"]),
              ("QuantinuumSetTranspiler", TQ.QuantinuumSetTranspiler, ["RZ", "H"], ["CNOT"])]  # no RX/RY: outside the recorded general-branch finding
    cache: dict = {}
    for name, cls, kinds, seconds in passes:
        for (a, b) in pairs:
            if name == "QuantinuumSetTranspiler" and ctx.quick() and a != 0 and (a, b) != (2, 1):
                continue  # the preset is the slow one: quick keeps 3 of the 6 first-CNOT placements; the pass inside it is enumerated fully above
            for kind in kinds:
                for x in range(3):
                    for second in seconds:
                        for (c2, t2) in pairs:
                            c = QuantumCircuit(3)
                            shape = rng.random()
                            if shape < 0.15:
                                c.add_gate(gates.H(rng.randrange(3)))
                            c.add_gate(gates.CNOT(a, b))
                            c.add_gate(mids[kind](x))
                            c.add_gate(gates.CNOT(c2, t2) if second == "CNOT" else gates.CZ(c2, t2))
                            if shape > 0.85:
                                c.add_gate(gates.RZ(rng.randrange(3), rng.uniform(-3, 3)))
                            u_in = dense.circuit_unitary(3, c.gates)
                            ctx.evaluations += 1
                            try:
                                out = cls()(c)
                            except Exception as e:  # noqa: BLE001
                                ctx.count("validate.window-all", f"{name}:raised:" + type(e).__name__)
                                continue
                            try:
                                d = dense.phase_dist(dense.circuit_unitary(3, out.gates), u_in)
                            except KeyError:
                                ctx.count("validate.window-all", "oracle-unknown-gate")
                                continue
                            fused = len(out.gates) != len(c.gates) or [g.name for g in out.gates] != [g.name for g in c.gates]
                            ctx.count("validate.window-all", f"{name}:" + ("rewritten:" if fused else "kept:") + ("ok" if d <= 1e-6 else "MISMATCH"))
                            if not d <= 1e-6:
                                ctx.witness("transpile:" + name, f"{name}: window [CNOT({a},{b}), {kind}({x}), {second}({c2},{t2})] → {[g.name for g in out.gates][:10]}: "
                                            f"output differs from input by {d:.3g} (up to phase)", describe_circ(c), {"dist": d})


    # FuseRotationTranspiler's own window: two adjacent rotations, every kind / wire combination, and the same with a gate in between
    for k1 in ("RX", "RY", "RZ"):
        for k2 in ("RX", "RY", "RZ"):
            for q1 in range(3):
                for q2 in range(3):
                    for between in (None, "H", "CNOT"):
                        c = QuantumCircuit(3)
                        c.add_gate(getattr(gates, k1)(q1, rng.uniform(-3, 3)))
                        if between == "H":
                            c.add_gate(gates.H(rng.choice([q1, q2])))
                        elif between == "CNOT":
                            c.add_gate(gates.CNOT(q1, (q1 + 1) % 3))
                        c.add_gate(getattr(gates, k2)(q2, rng.uniform(-3, 3)))
                        u_in = dense.circuit_unitary(3, c.gates)
                        ctx.evaluations += 1
                        for name, cls in (("FuseRotationTranspiler", T.FuseRotationTranspiler), ("RZSetTranspiler", T.RZSetTranspiler)):
                            try:
                                d = dense.phase_dist(dense.circuit_unitary(3, cls()(c).gates), u_in)
                            except Exception as e:  # noqa: BLE001
                                ctx.count("validate.window-all", f"{name}:pair:raised:" + type(e).__name__)
                                continue
                            ctx.count("validate.window-all", f"{name}:pair:" + ("ok" if d <= 1e-6 else "MISMATCH"))
                            if not d <= 1e-6:
                                ctx.witness("transpile:" + name, f"{name}: [{k1}({q1}), {between}, {k2}({q2})]: output differs from input by {d:.3g} (up to phase)",
                                            describe_circ(c), {"dist": d})


# ---- always-run: exactly degenerate KAK spectra (conjugate-paired, doubly degenerate, …) --------------------------------------------------
def kak_degenerate_validate(ctx, T):
    """two-qubit unitaries whose KAK spectrum is EXACTLY degenerate: controlled rotations about X / Y / Z with either control
    (spectrum {λ, λ, λ̄, λ̄}), controlled-U, interactions with coinciding coefficients, each also dressed with local unitaries
    and on both target orders.  The decomposer documents that it may refuse them (ValueError); what it returns must be
    faithful.  A failure here is a fresh witness unless the input lies in a recorded trigger class (it does not: the gap is at
    rounding level, and dressing factors with entries of equal modulus are filed separately)."""
    import numpy as np

    from oracle import dense
    from quri_parts.circuit import QuantumCircuit, gates

    rng = ctx.rng
    X, Y, Z, I2 = dense.PX, dense.PY, dense.PZ, np.eye(2)
    P0, P1 = np.diag([1, 0]).astype(complex), np.diag([0, 1]).astype(complex)
    makes = [("TwoQubitUnitaryMatrixKAKTranspiler", T.TwoQubitUnitaryMatrixKAKTranspiler)] * 4 + [
        ("RZSetTranspiler", T.RZSetTranspiler), ("RotationSetTranspiler", T.RotationSetTranspiler), ("STARSetTranspiler", T.STARSetTranspiler)]
    angles = [math.pi / 2, -math.pi / 2, math.pi, math.pi / 4, 3 * math.pi / 4, 1.0, 2.0, 0.3, -2.5]
    for i in range(ctx.n(600, 6000)):
        fam = ["crotX", "crotY", "crotX", "crotY", "crotZ", "cu", "xx=yy", "xx=yy=zz", "xx=-yy"][i % 9]
        ang = rng.choice(angles) if rng.random() < 0.5 else rng.uniform(-3.1, 3.1)
        factors = []
        if fam.startswith("crot") or fam == "cu":
            rot = dense.random_unitary(rng, 2) if fam == "cu" else math.cos(ang / 2) * I2 - 1j * math.sin(ang / 2) * {"X": X, "Y": Y, "Z": Z}[fam[-1]]
            m = np.kron(I2, P0) + np.kron(rot, P1) if rng.random() < 0.5 else np.kron(P0, I2) + np.kron(P1, rot)
        else:
            a = ang / 2
            b = -a if fam == "xx=-yy" else a
            c = a if fam == "xx=yy=zz" else rng.uniform(-1.5, 1.5)
            m = _expi(a * np.kron(X, X) + b * np.kron(Y, Y) + c * np.kron(Z, Z))
        if rng.random() < 0.4:  # local dressing, left and / or right
            kinds = ["identity", "diagonal", "monomial", "generic-small", "generic-large"]
            fs = [local_factor(rng, rng.choice(kinds))[0] for _ in range(4)]
            side = rng.choice(["left", "right", "both"])
            if side in ("left", "both"):
                m = np.kron(fs[0], fs[1]) @ m
                factors += fs[:2]
            if side in ("right", "both"):
                m = m @ np.kron(fs[2], fs[3])
                factors += fs[2:]
            fam += "+local"
        tg = rng.choice([[0, 1], [1, 0]])
        name, make = rng.choice(makes)
        c = QuantumCircuit(2)
        c.add_gate(gates.UnitaryMatrix(tg, np.asarray(m).tolist()))
        u_in = dense.embed(2, tg, np.asarray(m, dtype=complex))
        ctx.evaluations += 1
        try:
            out = make()(c)
        except Exception as e:  # noqa: BLE001 – refusing is allowed
            ctx.count("validate.kak-degenerate", f"{fam}:raised:" + type(e).__name__)
            continue
        try:
            d = dense.phase_dist(dense.circuit_unitary(2, out.gates), u_in)
        except KeyError:
            ctx.count("validate.kak-degenerate", "oracle-unknown-gate")
            continue
        ctx.count("validate.kak-degenerate", f"{fam}:" + ("ok" if d <= 1e-5 else "MISMATCH"))
        if not d <= 1e-5:
            near, gap = kak_known_class(m)
            key = KNOWN_KAK if near else KNOWN_KAK_BALANCED if balanced_factor(factors) else "transpile:" + name
            ctx.witness(key, f"{name}: 2-qubit UnitaryMatrix with exactly degenerate KAK spectrum ({fam}, angle {ang:.4g}, gap {gap:.3g}) decomposed into an operator {d:.3g} away "
                        f"(up to phase), no error raised", describe_circ(c), {"dist": d, "gap": gap})


# ---- always-run, exhaustive: CliffordConversionTranspiler on every gate × every target set of up to 3 species ---------------------------
def clifford_conversion_exhaustive(ctx, T):
    """every single-qubit Clifford gate against every target set with at most three gate species (each row of the conversion
    table uses at most three), standalone and as the Clifford stage of GateSetConversionTranspiler: same action up to phase"""
    import itertools

    from oracle import dense
    from quri_parts.circuit import QuantumCircuit, gates

    names = ["H", "X", "Y", "Z", "S", "Sdag", "SqrtX", "SqrtXdag", "SqrtY", "SqrtYdag"]
    subsets = [s for r in (1, 2, 3) for s in itertools.combinations(names, r)]
    if ctx.quick():
        subsets = [s for s in subsets if len(s) < 3] + ctx.rng.sample([s for s in subsets if len(s) == 3], 40)
    for ts in subsets:
        try:
            tr = T.CliffordConversionTranspiler(ts)  # one object for all ten gates: the per-call cache must not leak between calls
        except Exception as e:  # noqa: BLE001
            ctx.count("validate.clifford-conv", "ctor-raised:" + type(e).__name__)
            continue
        c = QuantumCircuit(2)
        for i, k in enumerate(names):
            c.add_gate(getattr(gates, k)(i % 2))
        singles = []
        for k in names:
            s1 = QuantumCircuit(1)
            s1.add_gate(getattr(gates, k)(0))
            singles.append((k, s1))
        for what, circ in [("all-ten", c)] + singles:
            n = circ.qubit_count
            ctx.evaluations += 1
            try:
                d = dense.phase_dist(dense.circuit_unitary(n, tr(circ).gates), dense.circuit_unitary(n, circ.gates))
            except Exception as e:  # noqa: BLE001
                ctx.count("validate.clifford-conv", "raised:" + type(e).__name__)
                continue
            ctx.count("validate.clifford-conv", "ok" if d <= 1e-9 else "MISMATCH")
            if not d <= 1e-9:
                ctx.witness("transpile:CliffordConversionTranspiler", f"CliffordConversionTranspiler({list(ts)}) on {what}: output differs from input by {d:.3g} (up to phase)",
                            describe_circ(circ), {"dist": d})


# ---- parametric transpilers ----------------------------------------------------------------------------------------------------
NONPARAM = qp.ONE_Q + ["RX", "RY", "RZ", "U1", "U2", "U3", "CNOT", "CZ", "SWAP", "TOFFOLI", "Pauli", "PauliRotation"]


def random_parametric_circuit(rng, n, length, linear):
    """ParametricQuantumCircuit (every parametric gate its own parameter) or LinearMappedParametricQuantumCircuit
    (shared parameters, linear functions with constant terms, possibly unused parameters)"""
    import quri_parts.circuit as qc

    if linear:
        c = qc.LinearMappedParametricQuantumCircuit(n, rng.choice([0, 0, 1]))
        ps = list(c.add_parameters(*[f"p{i}" for i in range(rng.randint(1, 3))]))
    else:
        c = qc.ParametricQuantumCircuit(n, rng.choice([0, 0, 1]))
        ps = []
    for _ in range(length):
        if rng.random() < 0.45:
            kind = rng.choice(["RX", "RY", "RZ", "PauliRotation"])
            args = ()
            if linear:
                if rng.random() < 0.4:
                    args = (rng.choice(ps),)
                else:
                    f = {p: rng.choice([1.0, -1.0, 0.5, 2.0, rng.uniform(-2, 2)]) for p in rng.sample(ps, rng.randint(1, len(ps)))}
                    if rng.random() < 0.5:
                        f[qc.CONST] = nongrid_angle(rng)
                    args = (f,)
            if kind == "PauliRotation":
                ts = rng.sample(range(n), rng.randint(1, min(n, 3)))
                c.add_ParametricPauliRotation_gate(ts, [rng.randint(1, 3) for _ in ts], *args)
            else:
                getattr(c, f"add_Parametric{kind}_gate")(rng.randrange(n), *args)
        else:
            for g in random_real_circuit(rng, n, 1, NONPARAM, um=False).gates:
                c.add_gate(g)
    return c


def parametric_validate(ctx, T):
    """ParametricTranspiler(<any circuit transpiler>), ParametricRX2RZH / ParametricRY2RZH /
    ParametricPauliRotationDecompose and ParametricSequentialTranspiler: the parameter list is kept and, for every
    parameter value, the bound output has the action of the bound input"""
    from oracle import dense

    rng = ctx.rng
    inner = [("RZSet", T.RZSetTranspiler), ("RotationSet", T.RotationSetTranspiler), ("CliffordRZSet", T.CliffordRZSetTranspiler),
             ("STARSet", T.STARSetTranspiler), ("FuseRotation", T.FuseRotationTranspiler), ("CNOTHCNOTFusing", T.CNOTHCNOTFusingTranspiler),
             ("H2RZSqrtX", T.H2RZSqrtXTranspiler), ("PauliRotationDecompose", T.PauliRotationDecomposeTranspiler),
             ("IdentityInsertion", T.IdentityInsertionTranspiler), ("GateSet(H,S,T,RZ,CZ)", lambda: T.GateSetConversionTranspiler(["H", "S", "T", "RZ", "CZ"])),
             ("Normalize(-pi,pi)", lambda: T.NormalizeRotationTranspiler((-math.pi, math.pi))), ("function", lambda: (lambda c: T.SWAP2CNOTTranspiler()(c)))]

    def atom():
        r = rng.random()
        if r < 0.4:
            nm, mk = rng.choice(inner)
            return f"ParametricTranspiler({nm})", (lambda: T.ParametricTranspiler(mk()))
        if r < 0.6:
            return "ParametricRX2RZHTranspiler", T.ParametricRX2RZHTranspiler
        if r < 0.8:
            return "ParametricRY2RZHTranspiler", T.ParametricRY2RZHTranspiler
        return "ParametricPauliRotationDecomposeTranspiler", T.ParametricPauliRotationDecomposeTranspiler

    for _ in range(ctx.n(250, 5000)):
        if rng.random() < 0.6:
            name, make = atom()
        else:
            parts = [atom() for _ in range(rng.randint(0, 3))]
            name = "ParametricSequentialTranspiler[" + ",".join(p[0] for p in parts) + "]"
            cont = rng.choice([list, tuple])
            make = (lambda parts=parts, cont=cont: T.ParametricSequentialTranspiler(cont(p[1]() for p in parts)))
        n = rng.randint(1, 3)
        linear = rng.random() < 0.5
        circ = random_parametric_circuit(rng, n, rng.randint(1, 7), linear)
        pc = circ.parameter_count
        vals = [[nongrid_angle(rng) for _ in range(pc)] for _ in range(2)] + [[0.0] * pc]
        u_in = [dense.circuit_unitary(n, circ.bind_parameters(v).gates) for v in vals]  # before the transpiler sees the circuit
        desc = {"kind": type(circ).__name__, "qubit_count": n, "parameter_count": pc,
                "gates": [(g.name, list(g.control_indices), list(g.target_indices), [repr(float(x)) for x in getattr(g, "params", ())], list(g.pauli_ids))
                          for g in circ.gates],
                "param_mapping": repr(getattr(circ.param_mapping, "mapping", None))[:600]}
        ctx.evaluations += 1
        try:
            out = make()(circ.freeze() if rng.random() < 0.25 else circ)
        except Exception as e:  # noqa: BLE001 – refusing is allowed
            ctx.count("validate.parametric", "raised:" + type(e).__name__)
            continue
        key = "transpile:" + name.split("(")[0].split("[")[0]
        try:
            if out.qubit_count != n or out.parameter_count != pc:
                ctx.witness(key, f"{name}: qubit_count/parameter_count {n}/{pc} became {out.qubit_count}/{out.parameter_count}", desc)
                continue
            worst = 0.0
            for v, u in zip(vals, u_in):
                d = dense.phase_dist(dense.circuit_unitary(n, out.bind_parameters(v).gates), u)
                worst = d if not d <= worst else worst
                if not d <= 1e-6:
                    break
        except KeyError:
            ctx.count("validate.parametric", "oracle-unknown-gate")
            continue
        ctx.count("validate.parametric", ("linear:" if linear else "unbound:") + ("ok" if worst <= 1e-6 else "MISMATCH"))
        if not worst <= 1e-6:
            desc["values"] = [repr(x) for x in v]
            ctx.witness(key, f"{name}: bound output differs from bound input by {worst:.3g} (up to phase)", desc, {"dist": worst})


def parametric_reject_validate(ctx, T):
    """documented rejections of the parametric transpilers (`Unsupported parametric gate`, `Parametric gate with no
    Parameter`): a circuit object (any ParametricQuantumCircuitProtocol implementation) whose primitive circuit holds a
    parametric gate of an unknown kind, or a parametric gate without its parameter, is refused – not transpiled with
    that gate silently dropped or mis-bound"""
    import types

    rng = ctx.rng

    class Wrapped:  # the minimal protocol the transpilers read
        def __init__(self, real, gp):
            self.qubit_count, self.cbit_count, self.param_mapping, self._gp = real.qubit_count, real.cbit_count, real.param_mapping, gp

        def primitive_circuit(self):
            return self

        @property
        def gates_and_params(self):
            return self._gp

    trs = [("ParametricTranspiler", lambda: T.ParametricTranspiler(T.RZSetTranspiler())), ("ParametricRX2RZHTranspiler", T.ParametricRX2RZHTranspiler),
           ("ParametricRY2RZHTranspiler", T.ParametricRY2RZHTranspiler), ("ParametricPauliRotationDecomposeTranspiler", T.ParametricPauliRotationDecomposeTranspiler)]
    for _ in range(ctx.n(40, 400)):
        n = rng.randint(1, 3)
        real = random_parametric_circuit(rng, n, rng.randint(2, 6), linear=rng.random() < 0.5)
        gp = list(real.primitive_circuit().gates_and_params)
        idx = [i for i, (g, p) in enumerate(gp) if p is not None]
        if not idx:
            continue
        i = rng.choice(idx)
        g, p = gp[i]
        mode = rng.choice(["unknown-kind", "no-parameter"])
        if mode == "unknown-kind":
            fake = types.SimpleNamespace(name=rng.choice(["ParametricU1", "ParametricRXX", "ParametricFoo"]), target_indices=tuple(g.target_indices),
                                         control_indices=(), pauli_ids=tuple(g.pauli_ids))
            gp[i] = (fake, p)
        else:
            gp[i] = (g, None)
        name, make = rng.choice(trs)
        ctx.evaluations += 1
        try:
            out = make()(Wrapped(real, gp))
        except Exception as e:  # noqa: BLE001 – the documented outcome
            ctx.count("validate.parametric-reject", f"{mode}:raised:" + type(e).__name__)
            continue
        ctx.count("validate.parametric-reject", f"{mode}:ACCEPTED")
        ctx.witness("transpile:" + name, f"{name}: a primitive circuit with {'a parametric gate of unknown kind ' + fake.name if mode == 'unknown-kind' else 'a parametric gate without parameter'} "
                    f"at position {i} was transpiled to {len(out.gates)} gates instead of being rejected",
                    {"qubit_count": n, "gates": [(g.name, list(g.target_indices), list(g.pauli_ids)) for g, _ in gp], "position": i, "mode": mode})


# ---- IonQ ------------------------------------------------------------------------------------------------------------------------
def ionq_extra_validate(ctx, TI):
    """IonQNativeTranspiler with explicit epsilon and angles next to its ±π/2, ±π thresholds, on circuits that also
    contain gates it does not convert and XX gates with arbitrary angles; the IonQSetTranspiler preset on the full
    vocabulary.  Relation: the documented one (outcome statistics in the computational basis)."""
    import numpy as np

    import quri_parts.circuit.transpile as T
    from oracle import dense
    from quri_parts.circuit import QuantumCircuit, gates
    from quri_parts.ionq.circuit import XX

    rng = ctx.rng

    def offdiag(u, v):
        dm = u @ v.conj().T
        return float(np.max(np.abs(dm - np.diag(np.diag(dm)))))

    def run(name, make, c, tol, key_of):
        n = c.qubit_count
        u = dense.circuit_unitary(n, c.gates)
        ctx.evaluations += 1
        try:
            out = make()(c)
        except Exception as e:  # noqa: BLE001
            ctx.count("validate.ionq", "raised:" + type(e).__name__)
            return
        try:
            v = mixed_unitary(n, out.gates)  # a gate that was passed through is judged as itself, not skipped
        except KeyError:
            ctx.count("validate.ionq", "oracle-unknown-gate")
            return
        d = offdiag(u, v)
        ctx.count("validate.ionq", "ok" if d <= tol else "MISMATCH")
        if not d <= tol:
            ctx.witness(key_of(c, v, tol), f"{name}: U·V† is not diagonal (off-diagonal {d:.3g}): outcome statistics differ, no error raised", describe_circ(c), {"dist": d})

    def native_key(c, v=None, tol=1e-6):
        """known key only if the input is in the key's trigger class AND the output is exactly what the recorded defect
        produces (unsupported gates deleted, XX(φ) read as XX(±π/4) by the sign of φ); any other deviation gets a fresh key"""
        unsupported = any(g.name not in ("RX", "RY", "RZ", "XX") for g in c.gates)
        odd_xx = any(g.name == "XX" and min(abs(g.params[0] - math.pi / 4), abs(g.params[0] + math.pi / 4)) > 1e-9 for g in c.gates)
        if not (unsupported or odd_xx):
            return "transpile:IonQNativeTranspiler"
        if v is not None:
            as_code = [XX(g.target_indices[0], g.target_indices[1], math.pi / 4 if g.params[0] > 0.0 else -math.pi / 4) if g.name == "XX" else g
                       for g in c.gates if g.name in ("RX", "RY", "RZ", "XX")]
            if not offdiag(dense.circuit_unitary(c.qubit_count, as_code), v) <= tol:
                return "transpile:IonQNativeTranspiler"
        return KNOWN_IONQ_DROP if unsupported else KNOWN_IONQ_XX

    shared: dict = {}
    for _ in range(ctx.n(200, 3000)):
        eps = rng.choice([None, 1e-6, 1e-9, 1e-3])
        e = eps or 1e-6
        n = rng.randint(1, 3)
        c = QuantumCircuit(n)
        mode = rng.choice(["supported", "supported", "supported", "unsupported", "xx-angle"])
        for _ in range(rng.randint(1, 6)):
            k = rng.choice(["RX", "RY", "RZ", "XX"] + (["H", "CNOT", "S", "X"] if mode == "unsupported" else []))
            if k == "XX":
                if n >= 2:
                    a, b = rng.sample(range(n), 2)
                    phi = rng.choice([math.pi / 4, -math.pi / 4]) if mode != "xx-angle" else rng.choice([0.1, -0.3, math.pi / 8, math.pi / 2, 0.0, rng.uniform(-3, 3)])
                    c.add_gate(XX(a, b, phi))
            elif k in ("RX", "RY", "RZ"):
                if rng.random() < 0.5:
                    ang = rng.choice([0.5, -0.5, 1.0, -1.0, 2.5, -1.5]) * math.pi + rng.choice([0.0, e / 2, -e / 2, 2 * e, -2 * e, 1e-12])
                else:
                    ang = nongrid_angle(rng)
                c.add_gate(getattr(gates, k)(rng.randrange(n), ang))
            elif k == "CNOT":
                if n >= 2:
                    a, b = rng.sample(range(n), 2)
                    c.add_gate(gates.CNOT(a, b))
            else:
                c.add_gate(getattr(gates, k)(rng.randrange(n)))
        mk = (lambda: TI.IonQNativeTranspiler()) if eps is None else rng.choice([lambda: TI.IonQNativeTranspiler(eps), lambda: TI.IonQNativeTranspiler(epsilon=eps)])
        if rng.random() < 0.4:  # one object serving many circuits: the phase bookkeeping is per call, not per object
            if eps not in shared:
                try:
                    shared[eps] = mk()
                except Exception:  # noqa: BLE001
                    pass
            if eps in shared:
                mk = (lambda o=shared[eps]: o)
        run(f"IonQNativeTranspiler(eps={eps})", mk, c, max(1e-6, 8 * e), native_key)
    # pinned witnesses of the two known findings
    c = QuantumCircuit(1)
    c.add_gate(gates.H(0))
    run("IonQNativeTranspiler", TI.IonQNativeTranspiler, c, 1e-6, native_key)
    c = QuantumCircuit(2)
    c.add_gate(XX(0, 1, 0.1))
    run("IonQNativeTranspiler", TI.IonQNativeTranspiler, c, 1e-6, native_key)
    # the preset: everything is first rewritten to RX/RY/RZ/CNOT, so the whole vocabulary is in its domain
    kinds = qp.ONE_Q + ["RX", "RY", "RZ", "U1", "U2", "U3", "CNOT", "CZ", "SWAP", "TOFFOLI", "Pauli", "PauliRotation", "UM1", "UM2"]
    for _ in range(ctx.n(80, 1500)):
        n = rng.randint(1, 3)
        c = random_real_circuit(rng, n, rng.randint(1, 5), kinds, angle_forms=True)
        run("IonQSetTranspiler", TI.IonQSetTranspiler, c, 1e-5, lambda c, v=None, tol=None: "transpile:IonQSetTranspiler")


# ---- presets / composite pipelines on circuits containing gates their stages cannot express -----------------------------------------
def mixed_unitary(n, gs):
    """unitary of a circuit that may mix the standard vocabulary, Quantinuum natives (oracle/dense.py) and IonQ natives;
    Measurement gates are skipped"""
    import numpy as np

    from oracle import dense

    u = np.eye(1 << n, dtype=complex)
    for g in gs:
        if g.name == "Measurement":
            continue
        u = (ionq_unitary(n, [g]) if g.name in ("GPi", "GPi2", "MS") else dense.gate_unitary(n, g)) @ u
    return u


def preset_unexpressible_validate(ctx):
    """Every preset / composite pipeline of the three packages, judged END TO END, on circuits that contain a gate some
    stage cannot express: UnitaryMatrix on 3 or 4 qubits ("not decomposed"), the native gates of another backend, terminal
    Measurement gates.  The preset must raise, or return a circuit in the documented relation to the input (same unitary
    up to phase; outcome statistics for the IonQ preset) in which every measurement is still present and still terminal –
    a stage that skips what it does not know must not turn into a silently dropped gate."""
    import numpy as np

    import quri_parts.circuit.transpile as T
    import quri_parts.ionq.circuit.transpile as TI
    import quri_parts.quantinuum.circuit.transpile as TQ
    from oracle import dense
    from quri_parts.circuit import QuantumCircuit, gates
    from quri_parts.ionq.circuit import XX, GPi, GPi2
    from quri_parts.quantinuum.circuit import RZZ, ZZ, U1q

    rng = ctx.rng
    std = qp.ONE_Q + ["RX", "RY", "RZ", "U1", "U2", "U3", "CNOT", "CZ", "SWAP", "TOFFOLI", "Pauli", "PauliRotation", "UM1", "UM2"]
    rz_like = ["RZ", "U1", "Z", "S", "Sdag", "T", "Tdag", "CNOT", "CZ", "H", "X"]  # keeps the Quantinuum preset away from its recorded general-branch finding
    presets = [
        ("RZSetTranspiler", T.RZSetTranspiler, "unitary", std), ("RotationSetTranspiler", T.RotationSetTranspiler, "unitary", std),
        ("CliffordRZSetTranspiler", T.CliffordRZSetTranspiler, "unitary", std), ("STARSetTranspiler", T.STARSetTranspiler, "unitary", std),
        ("GateSetConversionTranspiler[H,S,T,RZ,CZ]", lambda: T.GateSetConversionTranspiler(["H", "S", "T", "RZ", "CZ"]), "unitary", std),
        ("GateSetConversionTranspiler[RX,RZ,CNOT;validation=False]", lambda: T.GateSetConversionTranspiler(["RX", "RZ", "CNOT"], validation=False), "unitary", std),
        ("QuantinuumSetTranspiler", TQ.QuantinuumSetTranspiler, "unitary", rz_like),
        ("IonQSetTranspiler", TI.IonQSetTranspiler, "ionq", std), ("IonQSetTranspiler", TI.IonQSetTranspiler, "ionq", std), ("IonQSetTranspiler", TI.IonQSetTranspiler, "ionq", std),
        ("Sequential[RotationSet,CNOT2RXRYXX]", lambda: T.SequentialTranspiler([T.RotationSetTranspiler(), TI.CNOT2RXRYXXTranspiler()]), "unitary", std),
        ("Sequential[CZ2RZZZ,RotationSet,CNOTRZ2RZZ]", lambda: T.SequentialTranspiler([TQ.CZ2RZZZTranspiler(), T.RotationSetTranspiler(), TQ.CNOTRZ2RZZTranspiler()]), "unitary", std),
        ("ParametricTranspiler∘IonQSet(bound)", None, "ionq", std),
    ]

    def shift(k):  # |x> -> |x+1 mod 2^k>
        m = np.zeros((1 << k, 1 << k))
        for x in range(1 << k):
            m[(x + 1) % (1 << k), x] = 1
        return m

    def foreign(n):
        kinds = ["UM3", "UM3", "UM3-shift", "U1q", "ZZ", "RZZ", "XX", "GPi", "GPi2"] + (["UM4"] if n >= 4 else [])
        k = rng.choice(kinds)
        if k == "UM3":
            return k, gates.UnitaryMatrix(rng.sample(range(n), 3), dense.random_unitary(rng, 8).tolist())
        if k == "UM3-shift":
            return k, gates.UnitaryMatrix(rng.sample(range(n), 3), shift(3).tolist())
        if k == "UM4":
            return k, gates.UnitaryMatrix(rng.sample(range(n), 4), dense.random_unitary(rng, 16).tolist())
        if k == "U1q":
            return k, U1q(rng.randrange(n), rng.choice([math.pi, math.pi / 2]), rng.uniform(-3, 3))
        if k in ("GPi", "GPi2"):
            return k, (GPi if k == "GPi" else GPi2)(rng.randrange(n), rng.uniform(0, 1))
        a, b = rng.sample(range(n), 2)
        return k, ZZ(a, b) if k == "ZZ" else RZZ(a, b, rng.uniform(-3, 3)) if k == "RZZ" else XX(a, b, rng.uniform(-1.5, 1.5))

    def offdiag(u, v):
        dm = u @ v.conj().T
        return float(np.max(np.abs(dm - np.diag(np.diag(dm)))))

    for _ in range(ctx.n(220, 4000)):
        name, make, rel, kinds = rng.choice(presets)
        n = rng.randint(3, 4)
        base = random_real_circuit(rng, n, rng.randint(1, 5), kinds)
        gs = list(base.gates)
        what = []
        mode = rng.choice(["foreign", "foreign", "foreign", "measure", "both"])
        if mode in ("foreign", "both"):
            for _ in range(rng.randint(1, 2)):
                k, g = foreign(n)
                gs.insert(rng.randint(0, len(gs)), g)
                what.append(k)
        meas = []
        if mode in ("measure", "both"):
            meas = rng.sample(range(n), rng.randint(1, n))
            what.append("Measurement")
        c = QuantumCircuit(n, len(meas)) if meas else QuantumCircuit(n)
        try:
            for g in gs:
                c.add_gate(g)
            for i, q in enumerate(meas):
                c.add_gate(gates.Measurement([q], [i]))
        except Exception:  # noqa: BLE001 – the circuit itself is refused
            continue
        u_in = mixed_unitary(n, c.gates)
        ctx.evaluations += 1
        stat = "validate.unexpressible"
        try:
            if make is None:  # the preset wrapped for parametric circuits, applied to a circuit without parameters, then bound
                import quri_parts.circuit as qc

                pc = qc.ParametricQuantumCircuit(n, len(meas))
                for g in c.gates:
                    pc.add_gate(g)
                out = T.ParametricTranspiler(TI.IonQSetTranspiler())(pc).bind_parameters([])
            else:
                out = make()(c)
        except Exception as e:  # noqa: BLE001 – refusing is allowed
            ctx.count(stat, f"{name}:raised:" + type(e).__name__)
            continue
        key = "transpile:" + name.split("[")[0].split("(")[0].split("∘")[0]
        tag = f"{name} on a circuit containing {'+'.join(what)}"
        try:
            v = mixed_unitary(n, out.gates)
        except KeyError as e:
            ctx.count(stat, "oracle-unknown-gate")
            continue
        d = offdiag(u_in, v) if rel == "ionq" else dense.phase_dist(v, u_in)
        tol = 1e-5 if rel == "ionq" else 1e-6
        if not d <= tol:
            ctx.count(stat, f"{name}:MISMATCH")
            rel_txt = "U·V† is not diagonal (outcome statistics differ)" if rel == "ionq" else "output differs from input (up to phase)"
            ctx.witness(key, f"{tag}: {rel_txt} by {d:.3g}, no error raised; output kinds {sorted({g.name for g in out.gates})}", describe_circ(c), {"dist": d})
            continue
        # measurements: all still there, each still the last operation on its qubit
        m_in = sorted((tuple(g.target_indices), tuple(g.classical_indices)) for g in c.gates if g.name == "Measurement")
        m_out = sorted((tuple(g.target_indices), tuple(g.classical_indices)) for g in out.gates if g.name == "Measurement")
        late = False
        seen_meas = set()
        for g in out.gates:
            qs_ = set(g.target_indices) | set(g.control_indices)
            if g.name == "Measurement":
                seen_meas |= qs_
            elif qs_ & seen_meas:
                late = True
        if m_in != m_out or late:
            ctx.count(stat, f"{name}:MEASUREMENT-CHANGED")
            ctx.witness(key, f"{tag}: measurements {m_in} became {m_out}{' and are no longer terminal' if late else ''}, no error raised", describe_circ(c))
            continue
        ctx.count(stat, f"{name}:ok")
    # pinned shape of the lesson: entangle, rotate, then a 3-qubit cyclic shift – through the IonQ preset
    c = QuantumCircuit(3)
    for g in (gates.H(0), gates.CNOT(0, 1), gates.RY(2, 0.7), gates.UnitaryMatrix([0, 1, 2], shift(3).tolist())):
        c.add_gate(g)
    ctx.evaluations += 1
    try:
        out = TI.IonQSetTranspiler()(c)
        d = offdiag(mixed_unitary(3, c.gates), mixed_unitary(3, out.gates))
        if not d <= 1e-5:
            ctx.witness("transpile:IonQSetTranspiler", f"IonQSetTranspiler on [H, CNOT, RY, UnitaryMatrix(3 qubits)]: U·V† is not diagonal by {d:.3g} (output kinds "
                        f"{sorted({g.name for g in out.gates})}), no error raised", describe_circ(c), {"dist": d})
    except Exception as e:  # noqa: BLE001
        ctx.count("validate.unexpressible", "pinned:raised:" + type(e).__name__)


# ---- Quantinuum preset on general circuits -------------------------------------------------------------------------------------
def quantinuum_general_validate(ctx, TQ):
    import quri_parts.circuit.transpile as T
    from oracle import dense

    rng = ctx.rng
    kinds = ["H", "X", "Y", "Z", "S", "Sdag", "T", "Tdag", "SqrtX", "SqrtY", "RZ", "RZ", "U1", "CNOT", "CNOT", "CZ", "SWAP", "TOFFOLI", "Pauli", "RX", "PauliRotation"]

    def generic_rotation(c):
        """does the preset's own front end hand an RX/RY with a generic angle to U1qNormalizeWithRZTranspiler?"""
        try:
            c = TQ.CZ2RZZZTranspiler()(c)
            c = T.GateSetConversionTranspiler(["RX", "RY", "RZ", "CNOT"], validation=False)(c)
            c = TQ.CNOTRZ2RZZTranspiler()(c)
        except Exception:  # noqa: BLE001
            return False
        near = lambda x, y: abs(x - y) < 0.5e-9  # U1qNormalizeWithRZTranspiler's epsilon is 1e-9: inside half of it the special branches apply for sure
        return any(g.name in ("RX", "RY") and not any(near(g.params[0], t) for t in (0.0, math.pi, math.pi / 2, -math.pi / 2)) for g in c.gates)

    for _ in range(ctx.n(120, 2500)):
        n = rng.randint(1, 3)
        c = random_real_circuit(rng, n, rng.randint(1, 5), kinds, um=False)
        u_in = dense.circuit_unitary(n, c.gates)
        ctx.evaluations += 1
        try:
            out = TQ.QuantinuumSetTranspiler()(c)
        except Exception as e:  # noqa: BLE001
            ctx.count("validate.quantinuum", "raised:" + type(e).__name__)
            continue
        try:
            d = dense.phase_dist(dense.circuit_unitary(n, out.gates), u_in)
        except KeyError:
            ctx.count("validate.quantinuum", "oracle-unknown-gate")
            continue
        if d <= 1e-6:
            ctx.count("validate.quantinuum", "ok")
            continue
        gen = generic_rotation(c)
        ctx.count("validate.quantinuum", "MISMATCH:known-general-branch" if gen else "MISMATCH")
        key = "QuantinuumSetTranspiler.via-U1qNormalize-general-branch" if gen else "transpile:QuantinuumSetTranspiler"
        ctx.witness(key, f"QuantinuumSetTranspiler: output differs from input by {d:.3g} (up to phase)", describe_circ(c), {"dist": d})


# ---- sizes the random circuits never pick: Pauli strings on 5 and 6 qubits ---------------------------------------------------------
def large_pauli_validate(ctx, T):
    from oracle import dense
    from quri_parts.circuit import QuantumCircuit, gates

    rng = ctx.rng
    trs = [("PauliRotationDecomposeTranspiler", T.PauliRotationDecomposeTranspiler, 1e-7), ("PauliDecomposeTranspiler", T.PauliDecomposeTranspiler, 1e-7),
           ("RZSetTranspiler", T.RZSetTranspiler, 1e-6), ("RotationSetTranspiler", T.RotationSetTranspiler, 1e-6),
           ("CliffordApproximationTranspiler", T.CliffordApproximationTranspiler, 1e-7)]
    for _ in range(ctx.n(12, 150)):
        n = rng.randint(5, 6)
        k = rng.randint(5, n)
        c = QuantumCircuit(n)
        name, make, tol = rng.choice(trs)
        for _ in range(rng.randint(1, 2)):
            ts = rng.sample(range(n), k)
            ids = [rng.randint(1, 3) for _ in ts]
            ang = rng.randint(-6, 6) * math.pi / 2 if name == "CliffordApproximationTranspiler" else nongrid_angle(rng)
            c.add_gate(gates.Pauli(ts, ids) if rng.random() < 0.3 else gates.PauliRotation(ts, ids, ang))
        u_in = dense.circuit_unitary(n, c.gates)
        ctx.evaluations += 1
        try:
            out = make()(c)
        except Exception as e:  # noqa: BLE001
            ctx.count("validate.large-pauli", "raised:" + type(e).__name__)
            continue
        _judge(ctx, "transpile:" + name, name, n, c, u_in, out, tol, "validate.large-pauli")


# ---- U1qNormalizeWithRZTranspiler with an explicit epsilon, on its special branches ---------------------------------------------------
def u1q_eps_validate(ctx, TQ):
    from oracle import dense
    from quri_parts.circuit import QuantumCircuit
    from quri_parts.quantinuum.circuit import U1q

    rng = ctx.rng
    for _ in range(ctx.n(60, 800)):
        eps = rng.choice([1e-9, 1e-6, 1e-3, 1e-12])
        th = rng.choice([0.0, -math.pi / 2, math.pi, math.pi / 2]) + rng.choice([0.0, eps / 2, -eps / 2, eps / 10])
        ph = nongrid_angle(rng)
        c = QuantumCircuit(2)
        q = rng.randrange(2)
        c.add_gate(U1q(q, th, ph))
        ctx.evaluations += 1
        try:
            mk = rng.choice([lambda: TQ.U1qNormalizeWithRZTranspiler(eps), lambda: TQ.U1qNormalizeWithRZTranspiler(epsilon=eps)])
            out = mk()(c)
            d = dense.phase_dist(dense.circuit_unitary(2, out.gates), dense.circuit_unitary(2, c.gates))
        except KeyError:
            continue
        except Exception as e:  # noqa: BLE001
            ctx.count("validate.u1q-eps", "raised:" + type(e).__name__)
            continue
        tol = max(1e-6, 2 * eps)
        ctx.count("validate.u1q-eps", "ok" if d <= tol else "MISMATCH")
        if not d <= tol:
            names = [g.name for g in out.gates]
            key = "U1qNormalizeWithRZTranspiler.general-branch" if names == ["U1q", "RZ", "U1q"] else "U1qNormalize:other"
            ctx.witness(key, f"U1qNormalizeWithRZTranspiler(epsilon={eps}) differs by {d:.3g} on an angle within epsilon/2 of a special value",
                        {"theta": repr(th), "phi": repr(ph), "qubit": q, "out": names})


# ---- epsilon probes: the snapping window of every transpiler that documents an epsilon -----------------------------------------
def epsilon_probes(ctx):
    """For every transpiler / preset with an epsilon: rotation angles at special-angle ± d, d on a log grid 1e-12 … 1e-3, both
    signs, every special angle k·π/4 for k = −9 … 17 (negative ones and multiples beyond 2π included), default and explicit
    epsilon.  The judgement is tied to the DOCUMENTED epsilon: a rotation may be replaced by a named gate / dropped only when
    its angle is within epsilon of the special value, so the operator distance between output and input (up to phase) is at
    most C·epsilon (C = 2 for one snapped gate, 4 for pipelines that split one rotation into several) + 1e-12 of float noise –
    never a fixed 1e-6."""
    import numpy as np

    import quri_parts.circuit.transpile as T
    import quri_parts.ionq.circuit.transpile as TI
    import quri_parts.quantinuum.circuit.transpile.quantinuum_native_transpiler as TQN
    from oracle import dense
    from quri_parts.circuit import QuantumCircuit, gates
    from quri_parts.quantinuum.circuit import U1q

    rng = ctx.rng
    pi = math.pi
    DEF = 1e-9  # the documented default of every epsilon in the circuit transpile package
    ds = sorted({m * 10.0 ** e for e in range(-12, -3) for m in (1.0, 3.0)} | {1e-3})
    ks = list(range(-9, 18))

    def cfgs():
        out = []  # (name, make, epsilon, C, axes)
        for eps in (None, 1e-12, 1e-6, 1e-4):
            e = DEF if eps is None else eps
            a = () if eps is None else (eps,)
            kw = {} if eps is None else {"epsilon": eps}
            out += [
                (f"RX2NamedTranspiler({eps})", (lambda a=a: T.RX2NamedTranspiler(*a)), e, 2, ["RX"]),
                (f"RY2NamedTranspiler({eps})", (lambda kw=kw: T.RY2NamedTranspiler(**kw)), e, 2, ["RY"]),
                (f"RZ2NamedTranspiler({eps})", (lambda a=a: T.RZ2NamedTranspiler(*a)), e, 2, ["RZ"]),
                (f"RZ2NamedTranspiler({eps},allow_t_tdag=False)", (lambda kw=kw: T.RZ2NamedTranspiler(allow_t_tdag=False, **kw)), e, 2, ["RZ"]),
                (f"Rotation2NamedTranspiler({eps})", (lambda a=a: T.Rotation2NamedTranspiler(*a)), e, 2, ["RX", "RY", "RZ"]),
                (f"ZeroRotationEliminationTranspiler({eps})", (lambda kw=kw: T.ZeroRotationEliminationTranspiler(**kw)), e, 2, ["RX", "RY", "RZ"]),
                (f"CliffordRZSetTranspiler({eps})", (lambda a=a: T.CliffordRZSetTranspiler(*a)), e, 4, ["RX", "RY", "RZ", "U1"]),
            ]
            for s in (["H", "S", "RZ", "CNOT"], ["X", "SqrtX", "RZ", "CNOT"], ["H", "S", "T", "CNOT"], ["RX", "RY", "RZ", "CNOT"],
                      ["H", "X", "Y", "Z", "S", "Sdag", "SqrtX", "SqrtXdag", "SqrtY", "SqrtYdag", "T", "Tdag", "RX", "RY", "RZ", "CZ"], ["Z", "RX", "RZ", "CZ"]):
                out.append((f"GateSetConversionTranspiler({s},{eps})", (lambda s=s, kw=kw: T.GateSetConversionTranspiler(s, **kw)), e, 4, ["RX", "RY", "RZ", "U1"]))
        out += [("STARSetTranspiler()", T.STARSetTranspiler, DEF, 4, ["RX", "RY", "RZ", "U1"]), ("RotationSetTranspiler()", T.RotationSetTranspiler, DEF, 4, ["RX", "RY", "RZ", "U1"]),
                ("RZSetTranspiler()", T.RZSetTranspiler, 0.0, 4, ["RX", "RY", "RZ"])]  # RZSet documents no tolerance at all: exact
        return out

    def probe(name, make, eps, C, axis, k, d, shape):
        ang = k * pi / 4 + d
        n = 1 if shape in ("single", "split") else 2
        c = QuantumCircuit(n)
        q = n - 1
        g = getattr(gates, axis)
        if shape == "split":  # two rotations the pipelines fuse into one of angle k·π/4 + d
            x = rng.uniform(-3, 3)
            c.add_gate(g(q, x))
            c.add_gate(g(q, ang - x))
        else:
            if shape == "context":
                c.add_gate(gates.H(0))
                c.add_gate(gates.CNOT(0, 1))
            c.add_gate(g(q, ang))
            if shape == "context":
                c.add_gate(gates.CNOT(1, 0))
        u_in = dense.circuit_unitary(n, c.gates)
        ctx.evaluations += 1
        try:
            out = make()(c)
        except Exception as e:  # noqa: BLE001 – refusing is allowed
            ctx.count("validate.eps-probe", "raised:" + type(e).__name__)
            return
        try:
            dist = dense.phase_dist(dense.circuit_unitary(n, out.gates), u_in)
        except KeyError:
            ctx.count("validate.eps-probe", "oracle-unknown-gate")
            return
        tol = C * eps + 1e-12
        changed = [x.name for x in out.gates] != [x.name for x in c.gates]
        ctx.count("validate.eps-probe", ("snapped/rewritten:" if changed else "kept:") + ("ok" if dist <= tol else "BEYOND-EPSILON"))
        if not dist <= tol:
            ctx.witness("transpile:" + name.split("(")[0], f"{name}: {axis}({k}·π/4 {d:+.1e}) [{shape}] → {[x.name for x in out.gates][:8]}: output is {dist:.3g} away from the "
                        f"input (up to phase); the documented tolerance is epsilon = {eps:g} (bound used: {tol:.3g})", describe_circ(c), {"dist": dist, "epsilon": eps, "offset": d})

    specs = []
    core = []
    for name, make, eps, C, axes in cfgs():
        for axis in axes:
            for k in ks:
                for d in ds:
                    for sgn in (1, -1):
                        sp = (name, make, eps, C, axis, k, sgn * d)
                        specs.append(sp)
                        # the decades in which a window that is too wide for the default epsilon must show, for every special angle
                        if eps == DEF and d in (1e-8, 1e-7, 1e-6, 1e-5) and (name.startswith(("RX2Named", "RY2Named", "RZ2Named(", "ZeroRot", "STARSet", "CliffordRZSet")) or "['H', 'S', 'RZ', 'CNOT']" in name):
                            core.append(sp)
    if ctx.quick():
        chosen = core + [specs[i] for i in sorted(rng.sample(range(len(specs)), 6000))]
    else:
        chosen = specs
    shapes_single = ["single"]
    for name, make, eps, C, axis, k, d in chosen:
        pipeline = C == 4
        shape = rng.choice(["single", "single", "split", "context"]) if pipeline else rng.choice(["single", "single", "single", "context"])
        probe(name, make, eps, C, axis, k, d, shape)

    # IonQNativeTranspiler(epsilon): RX / RY next to ±π/2, ±π; relation = outcome statistics (U·V† diagonal), same bound
    for eps in (None, 1e-9, 1e-4):
        e = 1e-6 if eps is None else eps  # its documented default is 1e-6
        for axis in ("RX", "RY"):
            for b in (pi / 2, -pi / 2, pi, -pi):
                for d in ds:
                    for sgn in (1, -1):
                        if ctx.quick() and rng.random() < 0.5:
                            continue
                        c = QuantumCircuit(1)
                        c.add_gate(gates.RZ(0, 0.37))
                        c.add_gate(getattr(gates, axis)(0, b + sgn * d))
                        u = dense.circuit_unitary(1, c.gates)
                        ctx.evaluations += 1
                        try:
                            out = (TI.IonQNativeTranspiler() if eps is None else TI.IonQNativeTranspiler(eps))(c)
                            dm = u @ ionq_unitary(1, out.gates).conj().T
                        except Exception as ex:  # noqa: BLE001
                            ctx.count("validate.eps-probe", "ionq:raised:" + type(ex).__name__)
                            continue
                        dist = float(np.max(np.abs(dm - np.diag(np.diag(dm)))))
                        tol = 2 * e + 1e-12
                        ctx.count("validate.eps-probe", "ionq:" + ("ok" if dist <= tol else "BEYOND-EPSILON"))
                        if not dist <= tol:
                            ctx.witness("transpile:IonQNativeTranspiler", f"IonQNativeTranspiler({eps}): {axis}({b:.6g} {sgn * d:+.1e}) → U·V† off-diagonal {dist:.3g}; documented tolerance epsilon = {e:g}",
                                        describe_circ(c), {"dist": dist, "epsilon": e})

    # U1qNormalizeWithRZTranspiler(epsilon): the special branches (θ next to 0, −π/2, π, π/2).  Outside epsilon the general branch
    # is taken, which is the recorded finding.
    for eps in (None, 1e-12, 1e-6, 1e-4):
        e = DEF if eps is None else eps
        for b in (0.0, -pi / 2, pi, pi / 2):
            for d in ds:
                for sgn in (1, -1):
                    if ctx.quick() and rng.random() < 0.5:
                        continue
                    c = QuantumCircuit(1)
                    c.add_gate(U1q(0, b + sgn * d, 0.81))
                    ctx.evaluations += 1
                    try:
                        out = (TQN.U1qNormalizeWithRZTranspiler() if eps is None else TQN.U1qNormalizeWithRZTranspiler(eps))(c)
                        dist = dense.phase_dist(dense.circuit_unitary(1, out.gates), dense.circuit_unitary(1, c.gates))
                    except Exception as ex:  # noqa: BLE001
                        ctx.count("validate.eps-probe", "u1q:raised:" + type(ex).__name__)
                        continue
                    tol = 2 * e + 1e-12
                    names = [g.name for g in out.gates]
                    ctx.count("validate.eps-probe", "u1q:" + ("ok" if dist <= tol else "general-branch" if names == ["U1q", "RZ", "U1q"] else "BEYOND-EPSILON"))
                    if not dist <= tol:
                        key = "U1qNormalizeWithRZTranspiler.general-branch" if names == ["U1q", "RZ", "U1q"] else "U1qNormalize:other"
                        ctx.witness(key, f"U1qNormalizeWithRZTranspiler({eps}): U1q({b:.6g} {sgn * d:+.1e}, 0.81) → {names}: {dist:.3g} away; documented tolerance epsilon = {e:g}",
                                    {"theta": repr(b + sgn * d), "phi": "0.81", "out": names})


# ---- Pauli ids outside {1,2,3} -------------------------------------------------------------------------------------------------
def pauli_id_validate(ctx, T):
    """`Pauli id must be either 1, 2, or 3`: a Pauli / PauliRotation gate with another id is rejected by every
    transpiler that rewrites it (id 0 may also be read as the identity factor) – never silently rewritten"""
    from oracle import dense
    from quri_parts.circuit import QuantumCircuit, QuantumGate

    rng = ctx.rng
    trs = [("PauliDecomposeTranspiler", T.PauliDecomposeTranspiler), ("PauliRotationDecomposeTranspiler", T.PauliRotationDecomposeTranspiler),
           ("RZSetTranspiler", T.RZSetTranspiler), ("RotationSetTranspiler", T.RotationSetTranspiler), ("CliffordRZSetTranspiler", T.CliffordRZSetTranspiler),
           ("CliffordApproximationTranspiler", T.CliffordApproximationTranspiler),
           ("ParallelDecomposer", lambda: T.ParallelDecomposer([T.PauliDecomposeTranspiler(), T.PauliRotationDecomposeTranspiler()]))]
    for _ in range(ctx.n(120, 1500)):
        n = rng.randint(1, 3)
        m = rng.randint(1, n)
        ids = [rng.randint(1, 3) for _ in range(m)]
        ids[rng.randrange(m)] = rng.choice([0, 0, 4, 5, 7, 255])
        kind = rng.choice(["Pauli", "PauliRotation"])
        ang = rng.choice([0.0, math.pi / 2, math.pi, 0.7])
        try:
            g = QuantumGate(name=kind, target_indices=tuple(rng.sample(range(n), m)), pauli_ids=tuple(ids), params=() if kind == "Pauli" else (ang,))
            c = QuantumCircuit(n)
            c.add_gate(g)
        except Exception as e:  # noqa: BLE001 – the gate cannot even be built: nothing to transpile
            ctx.count("validate.pauli-id", "gate-rejected:" + type(e).__name__)
            continue
        name, make = rng.choice(trs)
        ctx.evaluations += 1
        try:
            out = make()(c)
        except Exception as e:  # noqa: BLE001 – the documented outcome
            ctx.count("validate.pauli-id", "raised:" + type(e).__name__)
            continue
        if any(o.name == kind and tuple(o.pauli_ids) == tuple(ids) for o in out.gates):
            ctx.count("validate.pauli-id", "passed-through")
            continue
        ok = False
        if all(i in (0, 1, 2, 3) for i in ids):
            try:
                tol = 1.5 if name == "CliffordApproximationTranspiler" and ang == 0.7 else 1e-6
                ok = dense.phase_dist(dense.circuit_unitary(n, out.gates), dense.circuit_unitary(n, c.gates)) <= tol
            except KeyError:
                ok = False
        ctx.count("validate.pauli-id", "identity-reading" if ok else "SILENTLY-REWRITTEN")
        if not ok:
            ctx.witness("transpile:" + name, f"{name}: {kind} gate with pauli_ids {ids} was rewritten to {[o.name for o in out.gates]} instead of being rejected",
                        describe_circ(c))


# ---- Clifford approximation: every gate kind ------------------------------------------------------------------------------------
def clifford_approx_extra(ctx, T):
    """documented relation: every angle is replaced by the nearest multiple of π/2 (ties excluded here), T/Tdag (the
    tie π/4) become S/Sdag or the identity, Clifford gates stay; kinds without a Clifford reading are refused"""
    import numpy as np

    from oracle import dense
    from quri_parts.circuit import QuantumCircuit, gates

    rng = ctx.rng
    h = math.pi / 2

    def ang():
        k = rng.randint(-6, 6)
        return k * h + rng.uniform(-0.6, 0.6), k * h

    def circuit_pair(n, length, kinds):
        c, e = QuantumCircuit(n), QuantumCircuit(n)  # input, expected approximation
        for _ in range(length):
            k = rng.choice(kinds)
            q = rng.randrange(n)
            if k in ("RX", "RY", "RZ", "U1"):
                a, s = ang()
                c.add_gate(getattr(gates, k)(q, a)); e.add_gate(getattr(gates, k)(q, s))
            elif k == "U2":
                (a, s), (b, t) = ang(), ang()
                c.add_gate(gates.U2(q, a, b)); e.add_gate(gates.U2(q, s, t))
            elif k == "U3":
                (a, s), (b, t), (d, w) = ang(), ang(), ang()
                c.add_gate(gates.U3(q, a, b, d)); e.add_gate(gates.U3(q, s, t, w))
            elif k == "PauliRotation":
                ts = rng.sample(range(n), rng.randint(1, n))
                ids = [rng.randint(1, 3) for _ in ts]
                a, s = ang()
                c.add_gate(gates.PauliRotation(ts, ids, a)); e.add_gate(gates.PauliRotation(ts, ids, s))
            elif k == "Pauli":
                ts = rng.sample(range(n), rng.randint(1, n))
                g = gates.Pauli(ts, [rng.randint(1, 3) for _ in ts])
                c.add_gate(g); e.add_gate(g)
            elif k in ("CNOT", "CZ", "SWAP"):
                if n >= 2:
                    x, y = rng.sample(range(n), 2)
                    g = getattr(gates, k)(x, y)
                    c.add_gate(g); e.add_gate(g)
            elif k == "TOFFOLI":
                if n >= 3:
                    g = gates.TOFFOLI(*rng.sample(range(n), 3))
                    c.add_gate(g); e.add_gate(g)
            elif k == "UM1":
                g = gates.UnitaryMatrix([q], dense.random_unitary(rng, 2).tolist())
                c.add_gate(g); e.add_gate(g)
            else:
                g = getattr(gates, k)(q)
                c.add_gate(g); e.add_gate(g)
        return c, e

    cl = ["H", "S", "Sdag", "X", "Y", "Z", "SqrtX", "SqrtXdag", "SqrtY", "SqrtYdag", "Identity", "CNOT", "CZ", "SWAP", "Pauli"]
    rot = ["RX", "RY", "RZ", "U1", "U2", "U3", "PauliRotation"]
    for _ in range(ctx.n(200, 3000)):
        n = rng.randint(1, 3)
        kinds = rot + rot + cl + (["TOFFOLI", "UM1"] if rng.random() < 0.15 else [])
        c, e = circuit_pair(n, rng.randint(1, 6), kinds)
        ctx.evaluations += 1
        try:
            out = T.CliffordApproximationTranspiler()(c)
        except Exception as ex:  # noqa: BLE001
            ctx.count("validate.clifford-approx", "raised:" + type(ex).__name__)
            continue
        try:
            d = dense.phase_dist(dense.circuit_unitary(n, out.gates), dense.circuit_unitary(n, e.gates))
        except KeyError:
            ctx.count("validate.clifford-approx", "oracle-unknown-gate")
            continue
        ctx.count("validate.clifford-approx", "ok" if d <= 1e-7 else "MISMATCH")
        if not d <= 1e-7:
            ctx.witness("transpile:CliffordApproximationTranspiler", f"output is {d:.3g} away from the circuit with every angle replaced by the nearest multiple of π/2",
                        describe_circ(c), {"dist": d})
    for k, allowed in (("T", ("S", "Identity")), ("Tdag", ("Sdag", "Identity"))):
        for n, q in ((1, 0), (3, 2)):
            c = QuantumCircuit(n)
            c.add_gate(gates.H(q)); c.add_gate(getattr(gates, k)(q)); c.add_gate(gates.H(q))
            ctx.evaluations += 1
            try:
                out = T.CliffordApproximationTranspiler()(c)
            except Exception as ex:  # noqa: BLE001
                ctx.count("validate.clifford-approx", "raised:" + type(ex).__name__)
                continue
            ds = []
            for a in allowed:
                e = QuantumCircuit(n)
                e.add_gate(gates.H(q)); e.add_gate(getattr(gates, a)(q)); e.add_gate(gates.H(q))
                try:
                    ds.append(dense.phase_dist(dense.circuit_unitary(n, out.gates), dense.circuit_unitary(n, e.gates)))
                except KeyError:
                    ds.append(0.0)
            if not min(ds) <= 1e-7:
                ctx.witness("transpile:CliffordApproximationTranspiler", f"{k} (= U1(±π/4), a tie) was replaced by neither of its nearest Clifford gates {allowed}",
                            describe_circ(c), {"dist": min(ds)})


def clifford_approx_correspond(ctx, T):
    """model correspondence for the kinds `c01approx` alone does not reach: U1/U2/U3/PauliRotation are first rewritten by
    the same decomposers as in the code (model: decomp + pauliRotDec), then every rotation is rounded (model: approxRot)"""
    rng = ctx.rng
    noties = [u for u in range(-200, 201) if u % 32 != 16 and u % 8 == 0] + [1, 5, 17, 33, 47, -7, 63, 65]
    cases = []
    for _ in range(ctx.n(40, 600)):
        n = rng.randint(1, 3)
        gs = qp.random_grid_circuit(rng, n, rng.randint(1, 5), ["RX", "RY", "RZ", "U1", "U2", "U3", "PauliRotation", "H", "S", "CNOT", "X", "SqrtX", "Pauli"],
                                    angle_pool=noties)
        cases.append((n, gs))
    pre = "decomp:U1ToRZTranspiler,U2ToRZSqrtXTranspiler,U3ToRZSqrtXTranspiler;pauliRotDec"
    r1 = ctx.driver([f"c01pass {n} | {pre} | {qp.enc_circuit(gs)}" for n, gs in cases])
    ok = [(n, gs, r) for (n, gs), r in zip(cases, r1) if r.startswith("ok")]
    if len(ok) != len(cases):
        ctx.disagree("cliffordApprox.front-end", pre, "model rejects the decomposition request", [r for r in r1 if not r.startswith("ok")][:2])
    r2 = ctx.driver(["c01approx " + r[3:] for _, _, r in ok])
    for (n, gs, _), r in zip(ok, r2):
        st, real, _ = real_transpile(T.CliffordApproximationTranspiler, n, gs)
        ctx.case(("approx-full", n, tuple(gs)), sample=None)
        ctx.traces += 1
        if st == "err" or not r.startswith("ok") or qp.same_gates(real, qp.dec_circuit(r[3:])):
            ctx.disagree("cliffordApprox.full", {"n": n, "circuit": qp.enc_circuit(gs)}, str(real)[:300], r[:300])


# ---- deprecated factory aliases of gates.py --------------------------------------------------------------------------------------
def factory_alias_check(ctx):
    """`<K>Factory()(…)` is the documented (deprecated) spelling of `<K>(…)`: same gate"""
    import warnings

    from quri_parts.circuit import gates

    eye2 = [[1, 0], [0, 1]]
    eye4 = [[1 if i == j else 0 for j in range(4)] for i in range(4)]
    args = {k: (1,) for k in qp.ONE_Q}
    args.update({"RX": (0, 0.3), "RY": (1, -0.4), "RZ": (2, 1.5), "U1": (0, 0.2), "U2": (1, 0.2, -0.7), "U3": (2, 0.1, 0.2, 0.3),
                 "CNOT": (0, 2), "CZ": (2, 1), "SWAP": (1, 0), "TOFFOLI": (2, 0, 1), "UnitaryMatrix": ([1, 0], eye4),
                 "SingleQubitUnitaryMatrix": (1, eye2), "TwoQubitUnitaryMatrix": (1, 0, eye4), "Pauli": ([2, 0], [1, 3]),
                 "PauliRotation": ([0, 1], [2, 3], 0.6), "ParametricRX": (1,), "ParametricRY": (0,), "ParametricRZ": (2,),
                 "ParametricPauliRotation": ([1, 2], [3, 1]), "Measurement": ([0, 1], [1, 0])})
    canon = lambda g: (g.name, tuple(g.target_indices), tuple(g.control_indices), tuple(getattr(g, "classical_indices", ())), tuple(getattr(g, "params", ())),
                       tuple(g.pauli_ids), repr(getattr(g, "unitary_matrix", ())))
    for k, a in args.items():
        fac = getattr(gates, k + "Factory", None)
        plain = getattr(gates, k, None)
        if fac is None or plain is None:
            ctx.count("factory-alias", "absent")
            continue
        ctx.evaluations += 1
        with warnings.catch_warnings():
            warnings.simplefilter("ignore")
            try:
                got = canon(fac()(*a))
            except Exception as e:  # noqa: BLE001
                got = "raises " + type(e).__name__
        try:
            exp = canon(plain(*a))
        except Exception as e:  # noqa: BLE001
            exp = "raises " + type(e).__name__
        if isinstance(got, str) or isinstance(exp, str):  # an alias that refuses its arguments builds no circuit: nothing to mis-transpile
            ctx.count("factory-alias", "raises")
            continue
        ctx.count("factory-alias", "same" if got == exp else "DIFFERENT")
        if got != exp or getattr(fac, "name", exp[0] if isinstance(exp, tuple) else None) != (exp[0] if isinstance(exp, tuple) else None):
            ctx.disagree("gate-factory-alias", {"factory": k + "Factory", "args": repr(a)}, str(got)[:300], str(exp)[:300])


def validate_extra(ctx):
    import importlib

    def mod(name):
        return importlib.import_module(name)

    steps = [
        ("config", lambda: config_validate(ctx, mod("quri_parts.circuit.transpile"))),
        ("um1", lambda: um1_validate(ctx, mod("quri_parts.circuit.transpile"))),
        ("kak-near", lambda: kak_near_validate(ctx, mod("quri_parts.circuit.transpile"))),
        ("kak-layered", lambda: kak_layered_validate(ctx, mod("quri_parts.circuit.transpile"))),
        ("kak-degenerate", lambda: kak_degenerate_validate(ctx, mod("quri_parts.circuit.transpile"))),
        ("window-all", lambda: window_exhaustive_validate(ctx)),
        ("clifford-conv", lambda: clifford_conversion_exhaustive(ctx, mod("quri_parts.circuit.transpile"))),
        ("parametric", lambda: parametric_validate(ctx, mod("quri_parts.circuit.transpile"))),
        ("parametric-reject", lambda: parametric_reject_validate(ctx, mod("quri_parts.circuit.transpile"))),
        ("ionq", lambda: ionq_extra_validate(ctx, mod("quri_parts.ionq.circuit.transpile"))),
        ("unexpressible", lambda: preset_unexpressible_validate(ctx)),
        ("quantinuum", lambda: quantinuum_general_validate(ctx, mod("quri_parts.quantinuum.circuit.transpile"))),
        ("large-pauli", lambda: large_pauli_validate(ctx, mod("quri_parts.circuit.transpile"))),
        ("eps-probe", lambda: epsilon_probes(ctx)),
        ("u1q-eps", lambda: u1q_eps_validate(ctx, mod("quri_parts.quantinuum.circuit.transpile.quantinuum_native_transpiler"))),
        ("pauli-id", lambda: pauli_id_validate(ctx, mod("quri_parts.circuit.transpile"))),
        ("clifford-approx", lambda: clifford_approx_extra(ctx, mod("quri_parts.circuit.transpile"))),
        ("factory-alias", lambda: factory_alias_check(ctx)),
    ]
    import warnings

    for name, fn in steps:
        with ctx.timed("extra." + name), warnings.catch_warnings():
            warnings.simplefilter("ignore", RuntimeWarning)  # numpy's divide / invalid-value notices on the NaN paths of the real code
            try:
                fn()
            except (AttributeError, ImportError) as e:  # a public entry point the check relies on is gone / renamed
                ctx.disagree("entry-point-missing", name, f"{type(e).__name__}: {e}"[:300], "the transpile packages export the names used by the check")


def describe_circ(c):
    out = []
    for g in c.gates:
        d = {"name": g.name, "targets": list(g.target_indices)}
        if g.control_indices:
            d["controls"] = list(g.control_indices)
        if g.params:
            d["params"] = [repr(float(x)) for x in g.params]
        if g.pauli_ids:
            d["pauli_ids"] = list(g.pauli_ids)
        if g.name == "UnitaryMatrix":
            d["matrix"] = [[repr(complex(x)) for x in row] for row in g.unitary_matrix]
        out.append(d)
    return {"qubit_count": c.qubit_count, "gates": out}


def shrink_circuit(circ, make, tol):
    """delta-debug the gate list while the mismatch persists"""
    from quri_parts.circuit import QuantumCircuit

    from oracle import dense

    gs = list(circ.gates)
    n = circ.qubit_count

    def bad(g2):
        c = QuantumCircuit(n)
        c.extend(g2)
        try:
            out = make()(c)
            return not dense.phase_dist(dense.circuit_unitary(n, out.gates), dense.circuit_unitary(n, c.gates)) <= tol
        except Exception:
            return False

    changed = True
    while changed and len(gs) > 1:
        changed = False
        for i in range(len(gs)):
            g2 = gs[:i] + gs[i + 1:]
            if bad(g2):
                gs = g2
                changed = True
                break
    c = QuantumCircuit(n)
    c.extend(gs)
    return c


def check_factories(ctx: Ctx):
    """translator self-test: the factory signatures assumed by pysym.FACTORY match the real factories"""
    from quri_parts.circuit import gates

    from translate import pysym

    for name, sig in pysym.FACTORY.items():
        args, exp_c, exp_t, exp_p = [], [], [], []
        q = 0
        for s in sig:
            if s == "t":
                args.append(q); exp_t.append(q); q += 1
            elif s == "c":
                args.append(q); exp_c.append(q); q += 1
            elif s == "p":
                v = 0.1 * (len(exp_p) + 1)
                args.append(v); exp_p.append(v)
            elif s == "T":
                args.append([0, 1]); exp_t += [0, 1]
            elif s == "I":
                args.append([1, 3])
            elif s == "M":
                args.append([[1, 0, 0, 0], [0, 1, 0, 0], [0, 0, 0, 1], [0, 0, 1, 0]])
        g = getattr(gates, name)(*args)
        if list(g.target_indices) != exp_t or list(g.control_indices) != exp_c or [round(x, 9) for x in g.params] != [round(x, 9) for x in exp_p]:
            ctx.disagree("factory-signature", name, f"t={g.target_indices} c={g.control_indices} p={g.params}", str(sig))


def run(ctx: Ctx, replay=None) -> int:
    ctx.rule = ("cases = (pass or pipeline, qubit count, grid-angle circuit); real transpiler output vs Lean model output "
                "gate-for-gate; distinct = distinct (pass, circuit) keys; plus oracle validation of every shipped transpiler "
                "on random circuits with arbitrary and threshold-adjacent angles (counted in evaluations only)")
    ctx.trusted = TRUSTED
    ctx.assumptions = ["documented gate matrices (gates.py) define the semantics", "angles on the π/64 grid for the model correspondence"]
    tp, desc, tab, presets = gen(ctx)
    deep = [] if ctx.quick() else ["QuriVerif.Props.C01Deep"]
    ok = ctx.prove(["QuriVerif.Props.C01"] + REFLECT + ["QuriVerif.Driver.All"] + deep,
                   ["QuriVerif.Props.C01"] + REFLECT + ["QuriVerif.Generated.C01Templates", "QuriVerif.Generated.C01Ladders",
                    "QuriVerif.Generated.C01Tables"] + deep)
    if ok and not ctx.quick():
        # one environment for the whole proof library: every Proof/*.lean file and every Lift file that does not import another
        # property's generated tables is imported together (name clashes between independently written proof files would make
        # the lifts un-combinable); an infrastructure fault, never a verdict about /repo
        import glob as _glob
        mods = sorted("QuriVerif.Proof." + os.path.basename(f)[:-5] for f in _glob.glob(os.path.join(os.path.dirname(os.path.dirname(os.path.abspath(__file__))), "lean", "QuriVerif", "Proof", "*.lean")))
        mods += ["QuriVerif.Props.C07Lift", "QuriVerif.Props.C08Lift", "QuriVerif.Props.C13Lift", "QuriVerif.Props.C15Lift",
                 "QuriVerif.Props.C16Lift", "QuriVerif.Props.C01Pipeline"]
        mods = [m for m in mods if not any(x.startswith("QuriVerif.Generated.") and not x.startswith("QuriVerif.Generated.C01")
                                           for x in ctx.import_closure([m]))]  # keep C01 independent of other properties' tables
        ctx.write_generated("AllProofs", "-- GENERATED by harness/c01.py: joint import of the proof library\n" + "\n".join("import " + m for m in mods) + "\n")
        ok_all, out_all = ctx.lake_build(["QuriVerif.Generated.AllProofs"])
        ctx.extra["joint_import_modules"] = len(mods)
        if not ok_all:
            raise InfraError("joint import of the proof library fails: " + out_all[-600:])
    if ok:
        names = [f"QV.Props.C01.{n}" for _, n, _ in ctx.count_obligations(["QuriVerif.Props.C01"])]
        private = {"hh_exact", "rxT_exact", "rxT_nz", "cnotT_check", "cnotT_nz", "u3T_check", "u3T_nz", "toffoliT_check", "toffoliT_nz"}
        names += [f"QV.Props.Reflect.{n}" for _, n, _ in ctx.count_obligations(REFLECT[:2]) if n not in private]
        names += [f"QV.Props.C01Lift.{n}" for _, n, _ in ctx.count_obligations(REFLECT[2:3])]
        names += [f"QV.Props.C01Pass.{n}" for _, n, _ in ctx.count_obligations(REFLECT[3:4]) if n != "circ3_ok"]
        priv = {"circ_inv", "pipe_runs", "pipe_len", "circ2_inv", "pipe2_runs", "pipe2_kinds", "circ3_inv", "pipe3_runs", "pipe3_len", "circ4_inv", "pipe4_runs", "circ5_inv", "gsA_runs", "gsB_runs", "gsA_len", "gsB_len"}
        names += [f"QV.Props.C01Pipeline.{n}" for _, n, _ in ctx.count_obligations(REFLECT[4:5]) if n not in priv]
        names += [f"QV.Props.C01Bind.{n}" for _, n, _ in ctx.count_obligations(REFLECT[5:6])]
        names += [f"QV.Props.C01Phase.{n}" for _, n, _ in ctx.count_obligations(REFLECT[6:7])]
        ctx.audit(names, ["QuriVerif.Props.C01"] + REFLECT)
        with ctx.timed("correspond"):
            check_factories(ctx)
            check_gate_semantics(ctx)
            correspond(ctx, tp, presets)
    with ctx.timed("oracle_validation"):
        budget = (13 if ctx.quick() else 200) * (1 if ok and not ctx.disagreements else 3)
        validate(ctx, budget)
    if os.environ.get("VERIF_C01_DEBUG"):  # development aid: every witness key with its multiplicity
        import collections

        print("DEBUG witness keys:", dict(collections.Counter(w["key"] for w in ctx.witnesses)), file=sys.stderr)
        for d in ctx.disagreements[:10]:
            print("DEBUG disagreement:", str(d)[:600], file=sys.stderr)
    return ctx.finish()
