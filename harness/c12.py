"""C12 — Inverse circuits undo the circuit and folding leaves it unchanged."""
from __future__ import annotations

import math
import os
import sys

sys.path.insert(0, os.path.dirname(os.path.dirname(os.path.abspath(__file__))))

import c01  # noqa: E402
import qp  # noqa: E402
from common import Ctx, load_known_findings  # noqa: E402
from translate import c12gen  # noqa: E402

LEAN_TARGETS = ["QuriVerif.Props.C12", "QuriVerif.Props.C12Lift", "QuriVerif.Props.C12Phase", "QuriVerif.Driver.C12"]

KNOWN = {"inv_U2": "inverse_gate.U2", "inv_U3": "inverse_gate.U3"}


def gen(ctx: Ctx):
    with ctx.timed("translate"):
        listed = {k["key"] for k in load_known_findings() if k["property"] == "C12"}
        known = {ident for ident, key in KNOWN.items() if key in listed}
        txt, n, table = c12gen.gen(known)
        ctx.write_generated("C12Inverse", txt)
        ctx.generated_entries += n
        return table


def correspond(ctx: Ctx):
    from quri_parts.algo.mitigation.zne import (
        create_folding_left,
        create_folding_random,
        create_folding_right,
        scaling_circuit_folding,
    )
    from quri_parts.circuit import QuantumCircuit, gates

    rng = ctx.rng
    cases = []
    ns = range(0, 9) if ctx.quick() else range(0, 17)
    qs = [1, 2, 4, 8]
    for n in ns:
        for q in qs:
            ps = list(range(q, 7 * q + 1)) if not ctx.quick() else sorted({rng.randint(q, 7 * q) for _ in range(5)} | {q, 2 * q, 3 * q})
            for p in ps:
                for method in ("left", "right", "random"):
                    cases.append((p, q, n, method))
    if ctx.quick():
        cases = rng.sample(cases, 260) + [(1, 2, 3, "left"), (3, 4, 2, "right")]
    else:
        cases += [(1, 2, 3, "left"), (3, 4, 2, "right"), (0, 1, 1, "left")]
    reqs, metas = [], []
    for p, q, n, method in cases:
        s = p / q  # dyadic: exact
        circ = QuantumCircuit(1)
        for i in range(n):
            circ.add_gate(gates.RZ(0, float(i + 1)))
        seed = rng.randint(0, 10**6)
        fm = {"left": create_folding_left, "right": create_folding_right}.get(method)
        fold = fm() if fm else create_folding_random(seed)
        try:
            added = [int(x) for x in fold(circ, s)]
            out = scaling_circuit_folding(circ, s, fold)
            seq = []
            for g in out.gates:
                a = g.params[0]
                seq.append(int(round(a)) - 1 if a > 0 else -int(round(-a)))
            real = ("ok", added, seq)
        except Exception as e:  # noqa: BLE001
            real = ("err", type(e).__name__, None)
        m = method if method != "random" or real[0] == "err" else "list:" + ",".join(map(str, real[1]))
        if m == "random":
            m = "left"
        reqs.append(f"c12fold {p} {q} {n} {m}")
        metas.append(((p, q, n, method, seed), real))
    resp = ctx.driver(reqs, entry="DriverC12.lean")
    for (key, real), r in zip(metas, resp):
        p, q, n, method, seed = key
        ctx.case(("fold", p, q, n, method), nontrivial=(n > 0), sample={"scale": f"{p}/{q}", "n": n, "method": method, "model": r[:120]})
        ctx.traces += 1
        ctx.count("fold_method", method)
        if r.startswith("err"):
            if real[0] != "err":
                ctx.disagree("folding", {"scale": f"{p}/{q}", "n": n, "method": method}, str(real)[:300], r)
            continue
        if real[0] == "err":
            ctx.disagree("folding", {"scale": f"{p}/{q}", "n": n, "method": method}, "raises " + real[1], r)
            continue
        head, added_s, seq_s = [x.strip() for x in r.split("|")]
        k, a = (int(x) for x in head.split())
        madded = [int(x) for x in added_s.split(",")] if added_s else []
        mseq = [int(x) for x in seq_s.split(",")] if seq_s else []
        if method == "random":
            # documented: indices chosen at random – the count must be the residual and indices distinct & in range
            if len(real[1]) != a or len(set(real[1])) != a or any(not (0 <= i < max(n, 1)) for i in real[1]):
                ctx.disagree("folding-random-selection", {"scale": f"{p}/{q}", "n": n, "seed": seed}, real[1], f"residual {a}")
        elif real[1] != madded:
            ctx.disagree("folding-selection", {"scale": f"{p}/{q}", "n": n, "method": method}, real[1], madded)
        if real[2] != mseq:
            ctx.disagree("folding-sequence", {"scale": f"{p}/{q}", "n": n, "method": method, "seed": seed}, real[2], mseq)
        if len(real[2]) != n * (2 * k + 1) + 2 * a:
            ctx.disagree("folding-length", {"scale": f"{p}/{q}", "n": n, "method": method}, len(real[2]), n * (2 * k + 1) + 2 * a)


def check_translation_instances(ctx: Ctx, table):
    """the translated inverse table, instantiated at random parameters, is what the real function returns"""
    from quri_parts.circuit import gates, inverse_gate

    rng = ctx.rng
    for kind, invkind, status in table:
        if invkind is None:
            continue
        for _ in range(3):
            ps = [rng.uniform(-6, 6) for _ in range(qp.NPARAM.get(kind, 0))]
            if kind in qp.ONE_Q or kind in ("RX", "RY", "RZ", "U1", "U2", "U3"):
                g = getattr(gates, kind)(2, *ps)
            elif kind in ("CNOT", "CZ", "SWAP"):
                g = getattr(gates, kind)(3, 1)
            elif kind == "TOFFOLI":
                g = gates.TOFFOLI(0, 2, 1)
            elif kind == "Pauli":
                g = gates.Pauli([2, 0], [1, 3])
            elif kind == "PauliRotation":
                g = gates.PauliRotation([2, 0], [2, 3], ps[0])
            else:
                continue
            try:
                r = inverse_gate(g)
            except Exception as e:  # noqa: BLE001
                ctx.disagree("inverse-table", kind, "raises " + type(e).__name__, invkind)
                continue
            ctx.case(("invtable", kind), sample=None)
            ctx.traces += 1
            if r.name != invkind or tuple(r.target_indices) != tuple(g.target_indices) or tuple(r.control_indices) != tuple(g.control_indices):
                ctx.disagree("inverse-table", kind, f"{r.name} {r.target_indices} {r.control_indices}", invkind)


def validate(ctx: Ctx, budget_s: float):
    import time

    import numpy as np

    from oracle import dense
    from quri_parts.algo.mitigation.zne import (
        create_folding_left,
        create_folding_random,
        create_folding_right,
        create_polynomial_extrapolate,
        richardson_extrapolation,
        scaling_circuit_folding,
        zne,
    )
    from quri_parts.circuit import QuantumCircuit, gates, inverse_circuit, inverse_gate

    rng = ctx.rng
    t0 = time.time()
    n_eval = 0
    # per-kind inverse on the real code
    one = qp.ONE_Q + ["RX", "RY", "RZ", "U1", "U2", "U3", "CNOT", "CZ", "SWAP", "TOFFOLI", "Pauli", "PauliRotation", "UM1", "UM2"]
    for kind in one:
        for _ in range(6 if ctx.quick() else 40):
            c = c01.random_real_circuit(rng, 3, 1, [kind])
            if not c.gates:
                continue
            g = c.gates[0]
            n_eval += 1
            try:
                inv = inverse_gate(g)
                d = dense.phase_dist(dense.gate_unitary(3, inv) @ dense.gate_unitary(3, g), np.eye(8))
            except Exception as e:  # noqa: BLE001
                ctx.witness(f"inverse_gate.{g.name}", f"inverse_gate raised {type(e).__name__} for {g.name}", c01.describe_circ(c))
                continue
            if d > 1e-7:
                ctx.witness(f"inverse_gate.{g.name}", f"inverse_gate({g.name}) · {g.name} differs from the identity by {d:.3g}",
                            c01.describe_circ(c), {"inverse_params": [float(x) for x in inv.params]})
    safe = [k for k in one if k not in ("U2", "U3")]
    methods = [("left", create_folding_left), ("right", create_folding_right), ("random", lambda: create_folding_random(rng.randint(0, 999)))]
    while time.time() - t0 < budget_s:
        n = rng.randint(1, 3)
        c = c01.random_real_circuit(rng, n, rng.randint(0, 6), safe)
        n_eval += 1
        try:
            ic = inverse_circuit(c)
            d = dense.phase_dist(dense.circuit_unitary(n, list(c.gates) + list(ic.gates)), np.eye(1 << n))
            if d > 1e-6:
                ctx.witness("inverse_circuit", f"circuit·inverse differs from identity by {d:.3g}", c01.describe_circ(c))
            s = rng.choice([1.0, 1.5, 2.0, 2.25, 3.0, 3.7, 4.999, 5.0, 1.0001, 7.3])
            mname, mk = rng.choice(methods)
            fc = scaling_circuit_folding(c, s, mk())
            d = dense.phase_dist(dense.circuit_unitary(n, fc.gates), dense.circuit_unitary(n, c.gates))
            if d > 1e-6:
                ctx.witness("folding", f"folded circuit (s={s}, {mname}) differs by {d:.3g}", c01.describe_circ(c))
            ng = len(c.gates)
            k = int((s - 1) / 2)
            lo, hi = ng * (2 * k + 1), ng * (2 * k + 1) + 2 * ng
            if not (lo <= len(fc.gates) <= hi) or (len(fc.gates) - ng) % 2:
                ctx.witness("folding-count", f"folded gate count {len(fc.gates)} outside [{lo},{hi}] for s={s}", c01.describe_circ(c))
            if ng and abs(len(fc.gates) - s * ng) > 2.0 + 1e-9:
                ctx.witness("folding-count", f"folded gate count {len(fc.gates)} is not within 2 of s·n = {s * ng}", c01.describe_circ(c))
        except Exception as e:  # noqa: BLE001
            ctx.witness("folding-raises", f"{type(e).__name__}: {e}", c01.describe_circ(c))
    # noiseless ZNE returns the exact value
    try:
        from quri_parts.core.operator import Operator, pauli_label
        from quri_parts.core.state import GeneralCircuitQuantumState
        from quri_parts.qulacs.estimator import (
            create_qulacs_vector_concurrent_estimator,
            create_qulacs_vector_estimator,
        )

        est = create_qulacs_vector_estimator()
        cest = create_qulacs_vector_concurrent_estimator()
        for _ in range(6 if ctx.quick() else 60):
            n = rng.randint(1, 3)
            c = c01.random_real_circuit(rng, n, rng.randint(1, 6), [k for k in safe if not k.startswith("UM")])
            op = Operator()
            for _ in range(rng.randint(1, 4)):
                lab = " ".join(f"{rng.choice('XYZ')}{q}" for q in sorted(rng.sample(range(n), rng.randint(1, n))))
                op.add_term(pauli_label(lab), rng.choice([0.5, -1.25, 2.0]))
            exact = est(op, GeneralCircuitQuantumState(n, c)).value.real
            sf = [1.0, 2.0, 3.0]
            for nm, val in (
                ("polynomial", lambda: zne(op, c, cest, sf, create_polynomial_extrapolate(2), create_folding_left())),
                ("richardson", lambda: richardson_extrapolation(op, c, cest, sf, create_folding_right())),
            ):
                n_eval += 1
                v = val()
                if abs(v - exact) > 1e-7:
                    ctx.witness("zne-noiseless", f"{nm} extrapolation on a noiseless estimator gives {v} instead of {exact}", c01.describe_circ(c))
    except ImportError as e:
        ctx.notes.append(f"zne validation skipped: {e}")
    ctx.evaluations += n_eval
    ctx.extra["oracle_validation"] = {"evaluations": n_eval}
    ctx.search_budget_s = budget_s


# ---------------------------------------------------------------------------
# extensions: argument forms, entry points, histories, every extrapolation method, the qsub `Inverse` op
# ---------------------------------------------------------------------------
def _guard(ctx: Ctx, name, fn):
    """run one validation section; a missing public name (renamed / removed API) is a correspondence difference,
    never a crash of the check"""
    import warnings

    try:
        with warnings.catch_warnings():
            warnings.simplefilter("ignore")
            with ctx.timed(name):
                fn(ctx)
    except (ImportError, AttributeError) as e:
        ctx.disagree("api:" + name, name, f"{type(e).__name__}: {str(e)[:200]}", "public API used by the C12 validation")


def _hermitian_unitary(rng, dim):
    import numpy as np

    from oracle import dense

    v = dense.random_unitary(rng, dim)
    d = np.diag([rng.choice([1.0, -1.0]) for _ in range(dim - 1)] + [-1.0]).astype(complex)
    d[0, 0] = 1.0
    return v @ d @ v.conj().T


def special_unitary(rng, k):
    """k-qubit unitaries on which `conjugate`, `transpose` and `conjugate transpose` are told apart:
    symmetric non-Hermitian (transpose is a no-op), real non-symmetric (conjugate is a no-op), Hermitian with complex
    entries (its own inverse although conj and T both change it), diagonal phases, permutations, Haar"""
    import numpy as np

    from oracle import dense

    dim = 1 << k
    kind = rng.choice(["sym", "sym", "real", "herm", "diag", "perm", "haar", "haar"])
    if kind == "sym":
        # V real orthogonal, D phases:  V D V^T is symmetric, unitary, not Hermitian
        a = np.array([[rng.gauss(0, 1) for _ in range(dim)] for _ in range(dim)])
        q, _ = np.linalg.qr(a)
        d = np.diag(np.exp(1j * np.array([rng.uniform(0.3, 2.8) for _ in range(dim)])))
        m = q @ d @ q.T
    elif kind == "real":
        a = np.array([[rng.gauss(0, 1) for _ in range(dim)] for _ in range(dim)])
        q, _ = np.linalg.qr(a)
        m = q.astype(complex)
    elif kind == "herm":
        m = _hermitian_unitary(rng, dim)
    elif kind == "diag":
        m = np.diag(np.exp(1j * np.array([rng.uniform(0, 6.28) for _ in range(dim)])))
    elif kind == "perm":
        pm = list(range(dim))
        rng.shuffle(pm)
        m = np.zeros((dim, dim), dtype=complex)
        for i, j in enumerate(pm):
            m[j, i] = rng.choice([1, 1j, -1, -1j])
    else:
        m = dense.random_unitary(rng, dim)
    return kind, m


def _matrix_form(rng, m):
    """the same matrix in the argument forms the factory accepts"""
    import numpy as np

    f = rng.choice(["list", "ndarray", "tuple", "fortran"])
    if f == "list":
        return f, m.tolist()
    if f == "ndarray":
        return f, np.array(m)
    if f == "fortran":
        return f, np.asfortranarray(m)
    return f, tuple(tuple(complex(x) for x in row) for row in m)


def _circ_of(n, gs):
    from quri_parts.circuit import QuantumCircuit

    c = QuantumCircuit(n)
    for g in gs:
        c.add_gate(g)
    return c


def validate_inverse_forms(ctx: Ctx):
    """inverse_gate / inverse_circuit on argument forms and sizes the random-circuit generator never produces"""
    import numpy as np

    from oracle import dense
    from quri_parts.circuit import ParametricQuantumCircuit, QuantumCircuit, gates, inverse_circuit, inverse_gate

    rng = ctx.rng
    n = 4
    cases = []
    for _ in range(ctx.n(160, 1600)):
        k = rng.choice([1, 1, 2, 2, 3])
        kind, m = special_unitary(rng, k)
        form, arg = _matrix_form(rng, m)
        ts = rng.sample(range(n), k)
        tform = rng.choice(["list", "tuple"])
        cases.append((f"UnitaryMatrix[{k}q,{kind},{form}]", lambda ts=ts, arg=arg, tform=tform: gates.UnitaryMatrix(ts if tform == "list" else tuple(ts), arg)))
    for _ in range(ctx.n(80, 800)):
        name = rng.choice(["RX", "RY", "RZ", "U1"])
        ang = rng.choice([0, 1, -3, 7, np.float64(rng.uniform(-7, 7)), 0.0, -0.0, math.pi, -math.pi / 2, 4 * math.pi + 0.25, rng.uniform(-50, 50), 1e-9])
        q = rng.randrange(n)
        cases.append((f"{name}[{type(ang).__name__}]", lambda name=name, q=q, ang=ang: getattr(gates, name)(q, ang)))
    for _ in range(ctx.n(100, 1000)):
        k = rng.randint(1, 4)
        ts = rng.sample(range(n), k)
        ids = [rng.randint(1, 3) for _ in range(k)]
        ang = rng.choice([1, -2, np.float64(rng.uniform(-7, 7)), c01.nongrid_angle(rng), math.pi, 2 * math.pi])
        form = rng.choice(["list", "tuple"])
        cases.append((f"PauliRotation[{k},{form},{type(ang).__name__}]",
                      lambda ts=ts, ids=ids, ang=ang, form=form: gates.PauliRotation(ts if form == "list" else tuple(ts), ids if form == "list" else tuple(ids), ang)))
    # U2 / U3 at the parameter points where plain negation IS the inverse (phi = lam for U3, phi = lam + pi for U2):
    # these must pass whatever the fate of the known finding
    for _ in range(ctx.n(30, 300)):
        th, ph = c01.nongrid_angle(rng), c01.nongrid_angle(rng)
        q = rng.randrange(n)
        cases.append(("U3[phi=lam]", lambda q=q, th=th, ph=ph: gates.U3(q, th, ph, ph)))
        cases.append(("U2[phi=lam+pi]", lambda q=q, ph=ph: gates.U2(q, ph + math.pi, ph)))
    for what, mk in cases:
        try:
            g = mk()
        except Exception:  # noqa: BLE001  (the factory rejected the form: nothing to invert)
            ctx.count("inverse_forms", "factory-rejected")
            continue
        ctx.evaluations += 1
        ctx.count("inverse_forms", what.split("[")[0])
        desc = c01.describe_circ(_circ_of(n, [g]))
        try:
            inv = inverse_gate(g)
            d = dense.phase_dist(dense.gate_unitary(n, inv) @ dense.gate_unitary(n, g), np.eye(1 << n))
        except Exception as e:  # noqa: BLE001
            ctx.witness("inverse_gate-forms", f"inverse_gate raised {type(e).__name__} for {what}", desc)
            continue
        if d > 1e-7:
            ctx.witness("inverse_gate-forms", f"inverse_gate({what}) · gate differs from the identity by {d:.3g}", desc,
                        {"inverse": c01.describe_circ(_circ_of(n, [inv]))})
    # inverse_circuit: mutable / frozen / bound-parametric inputs, longer circuits, the result's shape
    safe = [k for k in c01.ALL_KINDS if k not in ("U2", "U3")] + ["UM1", "UM2"]
    for _ in range(ctx.n(120, 1200)):
        nq = rng.randint(1, 4)
        c = c01.random_real_circuit(rng, nq, rng.randint(0, 14), safe)
        form = rng.choice(["mutable", "frozen", "bound"])
        arg = c
        if form == "frozen":
            arg = c.freeze()
        elif form == "bound":
            pc = ParametricQuantumCircuit(nq)
            vals = []
            for g in c.gates:
                if g.name in ("RX", "RY", "RZ") and rng.random() < 0.7:
                    getattr(pc, f"add_Parametric{g.name}_gate")(g.target_indices[0])
                    vals.append(g.params[0])
                elif g.name == "PauliRotation" and rng.random() < 0.7:
                    pc.add_ParametricPauliRotation_gate(g.target_indices, g.pauli_ids)
                    vals.append(g.params[0])
                else:
                    pc.add_gate(g)
            arg = (pc if rng.random() < 0.5 else pc.freeze()).bind_parameters(vals)
        ctx.evaluations += 1
        ctx.count("inverse_circuit_form", form)
        orig = list(arg.gates)
        desc = {"form": form, **c01.describe_circ(_circ_of(nq, orig))}
        try:
            ic = inverse_circuit(arg)
            igs = list(ic.gates)
            d = dense.phase_dist(dense.circuit_unitary(nq, orig + igs), np.eye(1 << nq))
            d2 = dense.phase_dist(dense.circuit_unitary(nq, igs + orig), np.eye(1 << nq))
        except Exception as e:  # noqa: BLE001
            ctx.witness("inverse_circuit", f"inverse_circuit raised {type(e).__name__}: {str(e)[:120]}", desc)
            continue
        if max(d, d2) > 1e-6:
            ctx.witness("inverse_circuit", f"circuit·inverse differs from the identity by {max(d, d2):.3g} ({form} input)", desc)
        elif ic.qubit_count != nq or len(igs) != len(orig) or list(arg.gates) != orig:
            ctx.witness("inverse_circuit", f"inverse of a {nq}-qubit {len(orig)}-gate circuit has {ic.qubit_count} qubits / {len(igs)} gates"
                        f"{'' if list(arg.gates) == orig else '; the input circuit was modified'}", desc)


def exact_fold_numbers(s, n):
    """(k, a, ambiguous) by exact rational arithmetic on the value of the scale factor: k whole foldings, a extra gates,
    ambiguous when (s-(2k+1))·n/2 is within 1e-9 below an integer (float rounding may legitimately reach it)"""
    from fractions import Fraction

    S = Fraction(float(s)) if not isinstance(s, int) else Fraction(s)
    k = (S - 1) / 2
    k = k.numerator // k.denominator
    ex = (S - (2 * k + 1)) * n / 2
    a = ex.numerator // ex.denominator
    return k, a, (ex - a) > 1 - Fraction(1, 10**9)


def twin_gates(rng, n):
    """gates that agree in name / targets / params but differ in the attribute a careless cache key forgets"""
    import numpy as np

    from oracle import dense
    from quri_parts.circuit import gates

    out = []
    k = rng.randint(1, min(n, 3))
    ts = rng.sample(range(n), k)
    th = c01.nongrid_angle(rng)
    ids = [[rng.randint(1, 3) for _ in range(k)] for _ in range(3)]
    out += [gates.PauliRotation(ts, i, th) for i in ids] + [gates.PauliRotation(ts, ids[0], -th), gates.PauliRotation(ts[::-1], ids[0], th)]
    out += [gates.Pauli(ts, i) for i in ids[:2]]
    k2 = rng.randint(1, min(n, 2))
    t2 = rng.sample(range(n), k2)
    ms = [special_unitary(rng, k2)[1] for _ in range(3)]
    out += [gates.UnitaryMatrix(t2, m.tolist()) for m in ms] + [gates.UnitaryMatrix(t2, ms[0].conj().T.tolist()), gates.UnitaryMatrix(t2, ms[0].T.tolist())]
    q = rng.randrange(n)
    out += [gates.RX(q, th), gates.RX(q, -th), gates.RY(q, th), gates.RZ(q, th), gates.U1(q, th), gates.S(q), gates.Sdag(q), gates.T(q), gates.Tdag(q),
            gates.SqrtX(q), gates.SqrtXdag(q), gates.SqrtY(q), gates.SqrtYdag(q), gates.U3(q, th, 0.4, 0.4)]
    if n >= 2:
        a, b = rng.sample(range(n), 2)
        out += [gates.CNOT(a, b), gates.CNOT(b, a), gates.CZ(a, b), gates.SWAP(a, b)]
        out += [gates.RX(b, th), gates.U1(a, th)]
    if n >= 3:
        a, b, c = rng.sample(range(n), 3)
        out += [gates.TOFFOLI(a, b, c), gates.TOFFOLI(a, c, b)]
    return out


class _InvCheck:
    """memoised 'x is the inverse of g (up to a phase)' on the gates' own register"""

    def __init__(self, n):
        self.n = n
        self.memo = {}

    def __call__(self, x, g):
        import numpy as np

        from oracle import dense

        try:
            key = (x, g)
            hash(key)
        except TypeError:
            key = None
        if key is not None and key in self.memo:
            return self.memo[key]
        try:
            ok = dense.phase_dist(dense.gate_unitary(self.n, x) @ dense.gate_unitary(self.n, g), np.eye(1 << self.n)) < 1e-7
        except Exception:  # noqa: BLE001
            ok = False
        if key is not None:
            self.memo[key] = ok
        return ok


def fold_structure_error(n, orig, out, k, sel):
    """documented shape of a folded circuit: gate i, then (k + [i selected]) times (inverse of gate i, gate i)"""
    isinv = _InvCheck(n)
    sel = {int(i) for i in sel}
    pos = 0
    for i, g in enumerate(orig):
        reps = k + (1 if i in sel else 0)
        need = 1 + 2 * reps
        blk = out[pos:pos + need]
        if len(blk) < need:
            return f"output ends inside the block of gate {i} (expected {need} gates for it)"
        if blk[0] != g or any(blk[2 * j + 2] != g for j in range(reps)):
            return f"block of gate {i} does not repeat gate {i} at the expected positions"
        for j in range(reps):
            if not isinv(blk[2 * j + 1], g):
                return f"block of gate {i}: the gate at offset {2 * j + 1} is not the inverse of gate {i}"
        pos += need
    if pos != len(out):
        return f"{len(out) - pos} surplus gates after the last block"
    return None


def _scale_pool(rng):
    import numpy as np

    r = rng.random()
    if r < 0.2:
        return rng.choice([1, 2, 3, 4, 5, 7, 9, 21])  # python ints
    if r < 0.35:
        return np.float64(rng.choice([1.0, 1.5, 2.0, 3.0, 2.75, rng.uniform(1, 9)]))
    if r < 0.5:
        o = rng.choice([1, 3, 5, 7, 11])
        return max(1.0, o + rng.choice([0.0, 1e-12, -1e-12, 1e-9, -1e-9, 1e-6, -1e-6, 0.5, 1.0, 1.999999, 1.5]))
    if r < 0.6:
        return rng.choice([1.1, 1.2, 1.4, 1.6, 1.8, 2.2, 2.6, 3.3, 4.4, 1 / 3 + 1, 2 / 3 + 1, 13.37, 25.5, 40.25])
    return rng.uniform(1.0, 12.0)


def validate_fold_general(ctx: Ctx):
    """scaling_circuit_folding on arbitrary gates, arbitrary (non-dyadic, int, numpy) scale factors, library and
    user-written folding methods, shared folding objects and repeated calls: gate count by exact arithmetic, block
    structure, selected side, and (small cases) the action"""
    import numpy as np

    from oracle import dense
    from quri_parts.algo.mitigation.zne import (
        create_folding_left,
        create_folding_random,
        create_folding_right,
        scaling_circuit_folding,
    )

    rng = ctx.rng
    safe = [k for k in c01.ALL_KINDS if k not in ("U2", "U3")] + ["UM1", "UM2"]
    shared = {"left": create_folding_left(), "right": create_folding_right()}
    seeds = [0, 1, 7, 12345]
    shared_random = {sd: create_folding_random(sd) for sd in seeds}

    # user-written FoldingMethods honouring the interface contract (return the residual number of distinct gate indices),
    # with selections / container types the library's own methods never produce
    def _resid(circuit, scale_factor):
        return exact_fold_numbers(scale_factor, len(circuit.gates))[1]

    def custom_stride(circuit, scale_factor):
        ng_ = len(circuit.gates)
        order_ = [i for i in range(1, ng_, 2)] + [i for i in range(0, ng_, 2)]
        return order_[:_resid(circuit, scale_factor)]

    def custom_tuple_desc(circuit, scale_factor):
        ng_ = len(circuit.gates)
        mid = ng_ // 2
        order_ = sorted(range(ng_), key=lambda i: (abs(i - mid), i))
        return tuple(sorted(order_[:_resid(circuit, scale_factor)], reverse=True))

    def custom_ndarray(circuit, scale_factor):
        ng_ = len(circuit.gates)
        order_ = [(7 * i + 3) % ng_ for i in range(ng_)] if ng_ and math.gcd(7, ng_) == 1 else list(range(ng_))[::-1]
        return np.array(order_[:_resid(circuit, scale_factor)], dtype=np.int64)

    customs = {"custom:stride": custom_stride, "custom:tuple-desc": custom_tuple_desc, "custom:ndarray": custom_ndarray}
    pool = []  # circuits that are folded again later (history)
    for it in range(ctx.n(1500, 15000)):
        r = rng.random()
        if pool and r < 0.25:
            n, c = rng.choice(pool)
        elif r < 0.55:
            n = rng.randint(1, 3)
            tg = twin_gates(rng, n)
            c = _circ_of(n, [rng.choice(tg) for _ in range(rng.randint(1, 9))])
            pool.append((n, c))
        elif r < 0.75:
            n = 1
            c = c01.random_real_circuit(rng, 1, rng.choice([1, 2, 3, 5, 7, 10, 16, 31, 40]), safe)
        else:
            n = rng.randint(1, 4)
            c = c01.random_real_circuit(rng, n, rng.randint(0, 12), safe)
            if rng.random() < 0.3:
                pool.append((n, c))
        if len(pool) > 12:
            pool.pop(0)
        s = _scale_pool(rng)
        ng = len(c.gates)
        if ng * float(s) > 700:
            s = rng.choice([1.5, 2.0, 3, 4.25])
        mname = rng.choice(["left", "right", "random", "random-fresh", "random-none"] + list(customs))
        arg = c.freeze() if rng.random() < 0.4 else c
        orig = list(c.gates)
        k, a, amb = exact_fold_numbers(s, ng)
        desc = {"scale_factor": repr(s), "scale_type": type(s).__name__, "method": mname, **c01.describe_circ(c)}
        ctx.evaluations += 1
        ctx.count("fold_general", mname.split(":")[0])
        ctx.count("fold_scale_type", type(s).__name__)
        try:
            if mname in shared:
                fold = shared[mname]
                sel_doc = list(range(a)) if mname == "left" else list(range(ng - a, ng))
                sel = [int(x) for x in fold(arg, s)]
                if sel != sel_doc and not amb:
                    ctx.witness("folding-selection", f"folding_{mname} selects {sel} instead of the {a} {'first' if mname == 'left' else 'last'} gates {sel_doc}", desc)
                    continue
            elif mname.startswith("random"):
                if mname == "random":
                    sd = rng.choice(seeds)
                    fold = shared_random[sd]
                elif mname == "random-fresh":
                    sd = rng.randint(0, 2**31 - 1)
                    fold = create_folding_random(sd)
                else:
                    sd = None
                    fold = create_folding_random() if rng.random() < 0.5 else create_folding_random(None)
                desc["seed"] = sd
                sel = [int(x) for x in fold(arg, s)]
                if not amb and (len(sel) != a or len(set(sel)) != len(sel) or any(not (0 <= i < ng) for i in sel)):
                    ctx.witness("folding-selection", f"folding_random selects {sel}; expected {a} distinct indices below {ng}", desc)
                    continue
                if sd is not None and [int(x) for x in fold(arg, s)] != sel:
                    ctx.witness("folding-selection", "folding_random with a fixed seed gives different selections on repeated calls", desc)
                    continue
                if sd is None:
                    # unseeded: the selection used inside scaling_circuit_folding is not observable; judge count and action only
                    sel = None
            else:
                fold = customs[mname]
                sel = [int(x) for x in fold(arg, s)]
            out = list(scaling_circuit_folding(arg, s, fold).gates)
        except Exception as e:  # noqa: BLE001
            ctx.witness("folding-raises", f"{type(e).__name__}: {str(e)[:160]}", desc)
            continue
        if list(c.gates) != orig:
            ctx.witness("folding-structure", "scaling_circuit_folding modified its input circuit", desc)
            continue
        nsel = a if sel is None else len(sel)
        want = ng * (2 * k + 1) + 2 * nsel
        if len(out) != want and not (amb and sel is None and len(out) == want + 2):
            ctx.witness("folding-count", f"folded circuit has {len(out)} gates; documented count for n={ng}, scale {s!r} is "
                        f"n·(2k+1)+2·{nsel} = {want} (k={k})", desc)
            continue
        if sel is not None:
            err = fold_structure_error(n, orig, out, k, sel)
            if err:
                ctx.witness("folding-structure", f"folded circuit (k={k}, selected {sorted(sel)}) is not gate·(inverse·gate)^m per gate: {err}", desc)
                continue
        if n <= 3 and len(out) <= 120 and (sel is None or rng.random() < 0.3):
            d = dense.phase_dist(dense.circuit_unitary(n, out), dense.circuit_unitary(n, orig))
            if d > 1e-6:
                ctx.witness("folding", f"folded circuit (s={s!r}, {mname}) differs from the circuit by {d:.3g}", desc)


def _pauli_terms(rng, n):
    """[(coef, ((qubit, 'X'|'Y'|'Z'), ...))]; the empty product is the identity"""
    terms = []
    for _ in range(rng.randint(1, 4)):
        qs = sorted(rng.sample(range(n), rng.randint(0 if rng.random() < 0.15 else 1, n)))
        terms.append((rng.choice([0.5, -1.25, 2.0, 1.0, -0.75]), tuple((q, rng.choice("XYZ")) for q in qs)))
    return terms


def _terms_matrix(n, terms):
    import numpy as np

    from oracle import dense

    m = np.zeros((1 << n, 1 << n), dtype=complex)
    code = {"X": 1, "Y": 2, "Z": 3}
    for coef, prod in terms:
        if prod:
            m += coef * dense.embed(n, [q for q, _ in prod], dense.pauli_matrix_local([code[p] for _, p in prod]))
        else:
            m += coef * np.eye(1 << n)
    return m


def _label_of(prod):
    from quri_parts.core.operator import PAULI_IDENTITY, pauli_label

    return pauli_label(" ".join(f"{p}{q}" for q, p in prod)) if prod else PAULI_IDENTITY


LOG_KEY = "zne-noiseless.exp_with_const_log"


def _judge_log(ctx, v, const, got, what, inp):
    """create_exp_extrapolate_with_const_log on constant data: the sign of the fitted exponential comes from the slope of
    a straight-line fit, which is rounding noise (or exactly 0) for constant data -> known finding LOG_KEY when the
    result is const ± |v − const| or const or the IndexError of the trimmed fit; anything else is a different failure"""
    if isinstance(got, str):
        if got.startswith("IndexError"):
            ctx.witness(LOG_KEY, f"{what}: raises {got} instead of returning {v!r}", inp)
        else:
            ctx.witness("zne-noiseless.exp_with_const_log.other", f"{what}: raises {got}", inp)
        return
    if abs(got - v) <= 1e-6 * max(1.0, abs(v)):
        return
    if abs(abs(got - const) - abs(v - const)) <= 1e-6 * max(1.0, abs(v)) or abs(got - const) <= 1e-6:
        ctx.witness(LOG_KEY, f"{what}: returns {got!r} instead of {v!r} (constant {const!r})", inp)
    else:
        ctx.witness("zne-noiseless.exp_with_const_log.other", f"{what}: returns {got!r}, neither {v!r} nor constant ± |value − constant| (constant {const!r})", inp)


def _sf_form(rng, sf):
    import numpy as np

    f = rng.choice(["list", "list", "tuple", "ndarray", "int-list"])
    if f == "tuple":
        return f, tuple(sf)
    if f == "ndarray":
        return f, np.array(sf, dtype=float)
    if f == "int-list" and all(float(x).is_integer() for x in sf):
        return f, [int(x) for x in sf]
    return "list", list(sf)


def _scale_factor_set(rng, lo, hi):
    L = rng.randint(lo, hi)
    pool = rng.choice([[1.0, 2.0, 3.0, 4.0, 5.0, 6.0], [1.0, 3.0, 5.0, 7.0, 9.0], [1.0, 1.5, 2.0, 2.5, 3.0, 3.5, 4.0], [1.0, 1.3, 1.7, 2.2, 2.9, 3.1, 4.6, 5.0]])
    L = min(L, len(pool))
    sf = rng.sample(pool, L)
    order = rng.choice(["asc", "asc", "desc", "shuffled"])
    if order == "asc":
        sf.sort()
    elif order == "desc":
        sf.sort(reverse=True)
    return sf


def validate_extrapolators(ctx: Ctx):
    """every shipped ZeroExtrapolationMethod on constant data (what a noiseless estimator produces) returns the constant"""
    from quri_parts.algo.mitigation.zne import (
        create_exp_extrapolate,
        create_exp_extrapolate_with_const,
        create_exp_extrapolate_with_const_log,
        create_polynomial_extrapolate,
    )

    rng = ctx.rng
    # pinned replay of the known finding
    inp = {"method": "create_exp_extrapolate_with_const_log(order=0, constant=0.1)", "scale_factors": [1.0, 2.0, 3.0], "exp_values": [0.5, 0.5, 0.5]}
    try:
        got = float(create_exp_extrapolate_with_const_log(0, 0.1)([1.0, 2.0, 3.0], [0.5, 0.5, 0.5]))
    except Exception as e:  # noqa: BLE001
        got = f"{type(e).__name__}: {str(e)[:80]}"
    ctx.evaluations += 1
    _judge_log(ctx, 0.5, 0.1, got, "exponential (log-fit, known constant) extrapolation of constant data", inp)
    for _ in range(ctx.n(600, 6000)):
        v = rng.choice([rng.uniform(-3, 3), rng.uniform(-1e-3, 1e-3), 0.0, 1.0, -1.0, 0.5, -1.25, 2.0])
        sf = _scale_factor_set(rng, 2, 6)
        form, sfa = _sf_form(rng, sf)
        L = len(sf)
        const = rng.choice([0.0, 0.1, -0.5, 1.0, 0.25])
        fam = rng.choice(["poly", "poly", "exp", "exp_const", "exp_const_log"])
        if fam == "exp" and L < 3:
            fam = "poly"
        order = rng.randint(0, {"poly": L - 1, "exp": L - 3, "exp_const": L - 2, "exp_const_log": L - 1}[fam])
        mk = {"poly": lambda: create_polynomial_extrapolate(order), "exp": lambda: create_exp_extrapolate(order),
              "exp_const": lambda: create_exp_extrapolate_with_const(order, const),
              "exp_const_log": lambda: create_exp_extrapolate_with_const_log(order, const)}[fam]
        ys = [v] * L if rng.random() < 0.7 else tuple([v] * L)
        inp = {"method": fam, "order": order, "constant": const if fam.startswith("exp_const") else None, "scale_factors": [repr(x) for x in sf],
               "scale_factors_form": form, "exp_values": [repr(v)] * L}
        ctx.evaluations += 1
        ctx.count("extrapolator", fam)
        try:
            got = float(mk()(sfa, ys))
        except Exception as e:  # noqa: BLE001
            got = f"{type(e).__name__}: {str(e)[:80]}"
        if fam == "exp_const_log":
            _judge_log(ctx, v, const, got, f"log-fit exponential extrapolation (order {order}) of constant data", inp)
        elif isinstance(got, str):
            ctx.witness("zne-extrapolate-constant", f"{fam} extrapolation (order {order}) of constant data raises {got}", inp)
        elif abs(got - v) > 1e-6 * max(1.0, abs(v)):
            ctx.witness("zne-extrapolate-constant", f"{fam} extrapolation (order {order}) of the constant {v!r} returns {got!r}", inp)


def validate_zne(ctx: Ctx):
    """zne / richardson_extrapolation / create_zne_estimator on exact (noiseless) estimators: every folding method, every
    extrapolation family, bare Pauli labels and operators with an identity term, non-Hermitian operators, scale
    factors in several container / numeric forms and orders, one estimator object reused over many states"""
    import numpy as np

    from oracle import dense
    from quri_parts.algo.mitigation.zne import (
        create_exp_extrapolate,
        create_exp_extrapolate_with_const,
        create_exp_extrapolate_with_const_log,
        create_folding_left,
        create_folding_random,
        create_folding_right,
        create_polynomial_extrapolate,
        create_zne_estimator,
        richardson_extrapolation,
        zne,
    )
    from quri_parts.core.operator import Operator
    from quri_parts.core.state import ComputationalBasisState, GeneralCircuitQuantumState

    rng = ctx.rng
    try:
        from quri_parts.qulacs.estimator import create_qulacs_vector_concurrent_estimator

        qulacs_est = create_qulacs_vector_concurrent_estimator()
    except ImportError as e:
        qulacs_est = None
        ctx.notes.append(f"qulacs estimator unavailable ({e}); the dense estimator is used throughout")

    class E:  # Estimate
        def __init__(self, value):
            self.value = value
            self.error = 0.0

    def dense_estimator_for(n, mat):
        """an exact ConcurrentQuantumEstimator for ONE known observable (matrix built independently of the library)"""
        def est(ops, states):
            assert len(ops) == 1
            out = []
            for st in states:
                u = dense.circuit_unitary(n, st.circuit.gates)
                psi = u[:, 0]
                out.append(E(complex(np.vdot(psi, mat @ psi))))
            return out
        return est

    safe = [k for k in c01.ALL_KINDS if k not in ("U2", "U3")]
    folds = {"left": create_folding_left, "right": create_folding_right, "random-seeded": lambda: create_folding_random(rng.randint(0, 9999)),
             "random-unseeded": lambda: create_folding_random()}
    shared_est = {}
    for it in range(ctx.n(400, 4000)):
        n = rng.randint(1, 3)
        c = c01.random_real_circuit(rng, n, rng.randint(1, 6), safe + (["UM1", "UM2"] if rng.random() < 0.3 else []))
        if not c.gates:
            continue
        terms = _pauli_terms(rng, n)
        obs_form = rng.choice(["operator", "operator", "operator", "label", "label", "nonhermitian"])
        if obs_form == "label":
            terms = [(1.0, terms[0][1])]
            obs = _label_of(terms[0][1])
        else:
            if obs_form == "nonhermitian":
                psi0 = dense.circuit_unitary(n, c.gates)[:, 0]
                big = max(range(len(terms)), key=lambda i: abs(np.vdot(psi0, _terms_matrix(n, [(1.0, terms[i][1])]) @ psi0)))
                terms = [((cf * (1j if i == big else 1.0)), pr) for i, (cf, pr) in enumerate(terms)]
            obs = Operator()
            for cf, pr in terms:
                obs.add_term(_label_of(pr), cf)
            terms = [(cf, pr) for pr, cf in {pr: sum(c2 for c2, p2 in terms if p2 == pr) for _, pr in terms}.items()]
        mat = _terms_matrix(n, terms)
        psi = dense.circuit_unitary(n, c.gates)[:, 0]
        exact = complex(np.vdot(psi, mat @ psi))
        has_um = any(g.name == "UnitaryMatrix" for g in c.gates)
        use_dense = qulacs_est is None or rng.random() < 0.4
        est = dense_estimator_for(n, mat) if use_dense else qulacs_est
        fname = rng.choice(list(folds))
        fold = folds[fname]()
        fam = rng.choice(["poly", "poly", "richardson", "exp", "exp_const", "exp_const_log"])
        sf = _scale_factor_set(rng, 3 if fam == "exp" else 2, 5)
        if sum(sf) * len(c.gates) > 260:
            sf = sorted(sf)[:3]
            if fam == "exp" and len(sf) < 3:
                fam = "poly"
        distinct = len(sf)
        r = rng.random()
        if fam == "poly" and r < 0.12:
            sf = sf + [rng.choice(sf)]  # a repeated scale factor
            rng.shuffle(sf)
        elif fam in ("poly", "richardson") and r < 0.2:
            sf = [rng.choice(sf)]  # a single scale factor (order 0)
            distinct = 1
        form, sfa = _sf_form(rng, sf)
        L = len(sf)
        const = rng.choice([0.0, 0.1, -0.5, 1.0])
        order = rng.randint(0, {"poly": distinct - 1, "richardson": L - 1, "exp": L - 3, "exp_const": L - 2, "exp_const_log": L - 1}[fam])
        extr = {"poly": lambda: create_polynomial_extrapolate(order), "richardson": lambda: None, "exp": lambda: create_exp_extrapolate(order),
                "exp_const": lambda: create_exp_extrapolate_with_const(order, const),
                "exp_const_log": lambda: create_exp_extrapolate_with_const_log(order, const)}[fam]()
        cform = rng.choice(["mutable", "frozen"])
        carg = c.freeze() if cform == "frozen" else c
        entry = "richardson_extrapolation" if fam == "richardson" else rng.choice(["zne", "create_zne_estimator"])
        inp = {"entry": entry, "observable": [(repr(cf), " ".join(f"{p}{q}" for q, p in pr) or "I") for cf, pr in terms], "observable_form": obs_form,
               "scale_factors": [repr(x) for x in sf], "scale_factors_form": form, "folding": fname, "extrapolation": fam, "order": order,
               "constant": const if fam.startswith("exp_const") else None, "estimator": "dense" if use_dense else "qulacs", "circuit_form": cform,
               **c01.describe_circ(c)}
        ctx.evaluations += 1
        ctx.count("zne_entry", entry)
        ctx.count("zne_extrapolation", fam)
        ctx.count("zne_obs", obs_form)
        try:
            if entry == "richardson_extrapolation":
                got = richardson_extrapolation(obs, carg, est, sfa, fold)
            elif entry == "zne":
                got = zne(obs, carg, est, sfa, extr, fold)
            else:
                zest = create_zne_estimator(est, sfa, extr, fold)
                if rng.random() < 0.5:
                    st = GeneralCircuitQuantumState(n, carg)
                else:
                    st = ComputationalBasisState(n, bits=0).with_gates_applied(list(c.gates))
                r = zest(obs, st)
                got = r.value
            got = complex(got)
        except Exception as e:  # noqa: BLE001
            got = f"{type(e).__name__}: {str(e)[:100]}"
        if obs_form != "nonhermitian" and qulacs_est is not None and rng.random() < 0.6:
            # history: a few long-lived wrapped estimators serve many (observable, state) pairs, observables recur
            if not shared_est:
                for sfs, od, fk in (([1.0, 2.0, 3.0], 2, "left"), ((1.0, 3.0, 5.0), 1, "right"), ([3.0, 1.5, 2.0, 1.0], 3, "left"), ([1, 3], 1, "right")):
                    shared_est[(tuple(sfs), od, fk)] = create_zne_estimator(qulacs_est, sfs, create_polynomial_extrapolate(od), folds[fk]())
            hk = rng.choice(list(shared_est))
            ctx.evaluations += 1
            ctx.count("zne_entry", "shared-estimator")
            hinp = {**inp, "entry": "create_zne_estimator (one object reused)", "scale_factors": list(hk[0]), "extrapolation": "poly", "order": hk[1], "folding": hk[2]}
            try:
                hv = complex(shared_est[hk](obs, GeneralCircuitQuantumState(n, carg)).value)
                if abs(hv - exact.real) > 1e-6 * max(1.0, abs(exact)):
                    ctx.witness("zne-noiseless", f"a reused create_zne_estimator object gives {hv!r} instead of {exact.real!r}", hinp)
            except Exception as e:  # noqa: BLE001
                ctx.witness("zne-raises", f"a reused create_zne_estimator object raises {type(e).__name__}: {str(e)[:100]}", hinp)
        if obs_form == "nonhermitian":
            if abs(exact.imag) < 1e-3:
                continue
            if isinstance(got, str):
                ctx.count("zne_nonhermitian", "rejected")
                continue
            if fam == "exp_const_log":
                continue
            if abs(got - exact) > 1e-6 * max(1.0, abs(exact)):
                ctx.witness("zne-nonhermitian", f"a non-Hermitian observable is accepted and the mitigated value {got!r} is not the exact expectation {exact!r}", inp)
            continue
        v = exact.real
        if fam == "exp_const_log":
            _judge_log(ctx, v, const, got if isinstance(got, str) else got.real, f"{entry} with log-fit exponential extrapolation on a noiseless estimator", inp)
            continue
        if isinstance(got, str):
            if fam in ("exp", "exp_const") and got.startswith("RuntimeError"):
                ctx.count("zne_exp_fit", "optimizer-gave-up")  # scipy could not fit a flat curve with 1e-16 jitter: no value to judge
                continue
            ctx.witness("zne-raises", f"{entry} ({fam}, order {order}) on a noiseless estimator raises {got}", inp)
            continue
        if abs(got - v) > 1e-6 * max(1.0, abs(v)):
            ctx.witness("zne-noiseless", f"{entry} ({fam} order {order}, folding {fname}) on a noiseless estimator gives {got!r} instead of {v!r}", inp)


def validate_qsub(ctx: Ctx):
    """packages/qsub lib/std/inverse.py: for std ops (arbitrary angles), Controlled / MultiControlled of them, user
    sub-routines (no tracked phase, no auxiliaries: those are C19's) and nestings, `op ; Inverse(op)` and
    `Inverse(op) ; op`, compiled to a gate circuit, act as the identity up to a global phase"""
    import numpy as np

    from oracle import dense
    from quri_parts.qsub.compile import compile_sub
    from quri_parts.qsub.eval import QURIPartsEvaluatorHooks
    from quri_parts.qsub.evaluate import Evaluator
    from quri_parts.qsub.lib import std
    from quri_parts.qsub.namespace import NameSpace
    from quri_parts.qsub.op import Ident, Op
    from quri_parts.qsub.primitive import AllBasicSet
    from quri_parts.qsub.resolve import default_repository
    from quri_parts.qsub.sub import SubBuilder

    rng = ctx.rng
    ns = NameSpace(f"c12w{os.getpid()}")
    counter = [0]
    one = ["H", "X", "Y", "Z", "S", "Sdag", "SqrtX", "SqrtXdag", "SqrtY", "SqrtYdag", "T", "Tdag"]  # Controlled(Identity) has no resolver

    def prim(maxq):
        r = rng.random()
        if r < 0.4:
            nm = rng.choice(["RX", "RY", "RZ", "Phase"])
            a = float(rng.choice([c01.nongrid_angle(rng), rng.uniform(-7, 7), 0.0, math.pi, -math.pi / 2]))
            return f"{nm}({a!r})", getattr(std, nm)(a)
        if r < 0.8 or maxq < 2:
            nm = rng.choice(one)
            return nm, getattr(std, nm)
        nm = rng.choice(["CNOT", "CZ", "SWAP"] + (["Toffoli"] if maxq >= 3 else []))
        return nm, getattr(std, nm)

    def term(depth, maxq):
        r = rng.random()
        if depth <= 0 or r < 0.3:
            return prim(maxq)
        if r < 0.45:
            s, o = term(depth - 1, maxq)
            return f"Inverse({s})", std.Inverse(o)
        if r < 0.65 and maxq >= 2:
            s, o = term(depth - 1, maxq - 1)
            return f"Controlled({s})", std.Controlled(o)
        if r < 0.75 and maxq >= 2:
            bits = rng.randint(1, min(2, maxq - 1))
            val = rng.randrange(1 << bits)
            s, o = term(depth - 1, maxq - bits)
            return f"MultiControlled({s},{bits},{val})", std.MultiControlled(o, bits, val)
        nq = rng.randint(1, maxq)
        b = SubBuilder(nq)
        parts = []
        for _ in range(rng.randint(1, 4)):
            s, o = term(depth - 1, nq)
            qs = rng.sample(range(nq), o.qubit_count)
            b.add_op(o, tuple(b.qubits[q] for q in qs))
            parts.append(f"{s}@{qs}")
        counter[0] += 1
        o = Op(Ident(ns, f"W{counter[0]}"), nq)
        default_repository().register_sub(o, b.build())
        return f"Sub[{nq}: " + "; ".join(parts) + "]", o

    def compiled(ops, nq):
        b = SubBuilder(nq)
        for o in ops:
            b.add_op(o, b.qubits)
        circ = Evaluator(QURIPartsEvaluatorHooks()).run(compile_sub(b.build(), AllBasicSet))
        return circ

    # --- structured user sub-routines: the generic resolver (reverse the order, wrap what is not self-inverse) is only
    # exercised faithfully by bodies drawn from EVERY kind of sub-vocabulary: only self-inverse ops, a single kind of op,
    # a self-inverse body with one non-self-inverse op at each position, only non-self-inverse ops; lengths 1..5 with
    # non-commuting neighbours; alone, nested in other sub-routines, under Controlled / MultiControlled / Inverse
    DN = {"Toffoli": "TOFFOLI"}
    user_si = {}

    def user_self_inverse(nm):
        """user ops DECLARED self_inverse (and really so), resolved through their own registered sub"""
        if nm not in user_si:
            body = {"USwap": (2, [("CNOT", (0, 1)), ("CNOT", (1, 0)), ("CNOT", (0, 1))]), "UHZH": (1, [("H", (0,)), ("Z", (0,)), ("H", (0,))])}[nm]
            b = SubBuilder(body[0])
            for g, qs in body[1]:
                b.add_op(getattr(std, g), tuple(b.qubits[q] for q in qs))
            counter[0] += 1
            o = Op(Ident(ns, f"{nm}{counter[0]}"), body[0], self_inverse=True)
            default_repository().register_sub(o, b.build())
            user_si[nm] = o
        return user_si[nm]

    SI1, SI2, SI3 = ["H", "X", "Y", "Z", "UHZH"], ["CNOT", "CZ", "SWAP", "USwap"], ["Toffoli"]
    NSI1 = ["S", "Sdag", "SqrtX", "SqrtXdag", "SqrtY", "SqrtYdag", "T", "Tdag", "RX", "RY", "RZ", "Phase"]

    def leaf(nm):
        """(text, op, local matrix or None)"""
        if nm in ("USwap", "UHZH"):
            return nm, user_self_inverse(nm), dense.local_matrix("SWAP") if nm == "USwap" else dense.ONE["X"]
        if nm in ("RX", "RY", "RZ", "Phase"):
            a = float(rng.choice([c01.nongrid_angle(rng), rng.uniform(-7, 7), 1.0]))
            m = np.diag([1, np.exp(1j * a)]) if nm == "Phase" else dense.local_matrix(nm, (a,))
            return f"{nm}({a!r})", getattr(std, nm)(a), m
        return nm, getattr(std, nm), dense.local_matrix(DN.get(nm, nm))

    def structured_body(nq):
        mode = rng.choice(["self-inverse-only", "self-inverse-only", "single-kind", "one-non-self-inverse", "one-non-self-inverse", "non-self-inverse-only", "any-subset"])
        si = SI1 + (SI2 if nq >= 2 else []) + (SI3 if nq >= 3 else [])
        L = rng.randint(1, 5)
        if mode == "self-inverse-only":
            vocab = rng.sample(si, rng.randint(1, min(3, len(si)))) if rng.random() < 0.5 else si
            names = [rng.choice(vocab) for _ in range(L)]
        elif mode == "single-kind":
            names = [rng.choice(si + NSI1)] * L
        elif mode == "one-non-self-inverse":
            names = [rng.choice(si) for _ in range(L)]
            names[rng.randrange(L)] = rng.choice(NSI1)
        elif mode == "non-self-inverse-only":
            names = [rng.choice(NSI1) for _ in range(L)]
        else:
            vocab = rng.sample(si + NSI1, rng.randint(1, 3))
            names = [rng.choice(vocab) for _ in range(L)]
        body, prev = [], None
        for nm in names:
            best = None
            for _ in range(12):  # prefer a placement that does not commute with the previous op
                t, o, m = leaf(nm)
                qs = rng.sample(range(nq), o.qubit_count)
                full = dense.embed(nq, qs, m)
                best = (t, o, qs, full)
                if prev is None or np.max(np.abs(full @ prev - prev @ full)) > 1e-6:
                    break
            body.append(best)
            prev = best[3]
        return mode, body

    # user ops whose NAME collides with a library op: same local name in another namespace (a fresh one, a namespace
    # that is a child called "std", the DEFAULT namespace that opsub() uses), with or without parameters of the
    # namesake's shape.  Namespaces exist so that such ops are unrelated to the library's; the inverse must be the
    # inverse of the USER's definition
    STD_NAMES = ["Identity", "H", "X", "Y", "Z", "S", "Sdag", "SqrtX", "SqrtXdag", "SqrtY", "SqrtYdag", "T", "Tdag", "RX", "RY", "RZ", "Phase",
                 "CNOT", "CZ", "SWAP", "Toffoli", "Controlled", "MultiControlled", "Inverse", "Pauli", "PauliRotation", "M", "Label"]
    try:
        from quri_parts.qsub.namespace import DEFAULT as DEFAULT_NS
    except ImportError:
        DEFAULT_NS = NameSpace("__default__")
    default_defs: dict = {}

    def user_op(nq, sub_obj, txt, udef):
        """register the body under a fresh name or under a colliding one; returns (text, op, matrix of the definition)"""
        counter[0] += 1
        if rng.random() < 0.4:
            f = Op(Ident(ns, f"F{counter[0]}"), nq)
            default_repository().register_sub(f, sub_obj)
            ctx.count("qsub_user_name", "fresh")
            return txt, f, udef
        nm = rng.choice(STD_NAMES)
        pk = "none"
        if nm in ("RX", "RY", "RZ", "Phase") and rng.random() < 0.7:
            pk = "float"
        elif nm in ("Controlled", "MultiControlled", "Inverse") and rng.random() < 0.7:
            pk = "op"
        pol = rng.choice(["own", "child-named-std", "default"])
        if pol == "default" and nm in default_defs:  # one definition per (namespace, name): the repository keys on it
            ctx.count("qsub_user_name", "collides:default(reused)")
            return default_defs[nm]
        nsx = {"own": NameSpace(f"c12u{os.getpid()}_{counter[0]}"), "child-named-std": NameSpace("std", NameSpace(f"c12p{os.getpid()}_{counter[0]}")),
               "default": DEFAULT_NS}[pol]
        params = ()
        if pk == "float":
            params = (float(rng.choice([0.3, 1.0, -2.5, math.pi / 2, rng.uniform(-7, 7)])),)
        elif pk == "op":
            params = (std.H, 1, 1) if nm == "MultiControlled" else (rng.choice([std.H, std.S, std.RZ(0.4)]),)
        f = Op(Ident(nsx, nm, params), nq)
        default_repository().register_sub(f, sub_obj)
        ctx.count("qsub_user_name", "collides:" + pol)
        ctx.count("qsub_user_collision", nm)
        out = (f"<user op {nsx}:{nm}{list(map(str, params)) if params else ''} := {txt}>", f, udef)
        if pol == "default":
            default_defs[nm] = out
        return out

    def structured(maxq):
        nq = rng.randint(1, maxq)
        mode, body = structured_body(nq)
        b = SubBuilder(nq)
        udef = np.eye(1 << nq, dtype=complex)
        for t, o, qs, full in body:
            b.add_op(o, tuple(b.qubits[q] for q in qs))
            udef = full @ udef
        txt = f"Sub[{nq}: " + "; ".join(f"{t}@{qs}" for t, _, qs, _ in body) + "]"
        txt, f, udef = user_op(nq, b.build(), txt, udef)
        nq = f.qubit_count
        w = rng.choice(["plain", "plain", "nested", "nested-only", "controlled", "multicontrolled", "inverse", "controlled-nested"])
        if w in ("nested", "nested-only", "controlled-nested"):
            # F as a constituent of another sub-routine (its own flag is not self_inverse, so the outer inverse wraps it)
            b2 = SubBuilder(nq)
            parts = []
            if w != "nested-only":
                t0, o0, _ = leaf(rng.choice(SI1 + NSI1))
                q0 = rng.randrange(nq)
                b2.add_op(o0, (b2.qubits[q0],))
                parts.append(f"{t0}@[{q0}]")
            perm = rng.sample(range(nq), nq)
            b2.add_op(f, tuple(b2.qubits[q] for q in perm))
            parts.append(f"{txt}@{perm}")
            if w == "nested" and rng.random() < 0.5:
                t1, o1, _ = leaf(rng.choice(SI1))
                q1 = rng.randrange(nq)
                b2.add_op(o1, (b2.qubits[q1],))
                parts.append(f"{t1}@[{q1}]")
            counter[0] += 1
            g = Op(Ident(ns, f"G{counter[0]}"), nq)
            default_repository().register_sub(g, b2.build())
            txt, f = f"Sub[{nq}: " + "; ".join(parts) + "]", g
            if w == "controlled-nested":
                txt, f = f"Controlled({txt})", std.Controlled(f)
        elif w == "controlled":
            txt, f = f"Controlled({txt})", std.Controlled(f)
        elif w == "multicontrolled":
            bits = rng.randint(1, 2)
            val = rng.randrange(1 << bits)
            txt, f = f"MultiControlled({txt},{bits},{val})", std.MultiControlled(f, bits, val)
        elif w == "inverse":
            txt, f = f"Inverse({txt})", std.Inverse(f)
        ctx.count("qsub_structured", mode)
        ctx.count("qsub_structured_wrapper", w)
        return txt, f, (udef if w == "plain" else None)

    n_random = ctx.n(300, 3000)
    n_struct = ctx.n(350, 3500)
    for it in range(n_random + n_struct):
        udef = None
        if it >= n_random:
            s, o, udef = structured(3 if rng.random() < 0.8 else 2)
        else:
            s, o = term(rng.choice([0, 1, 1, 2, 2, 3]), 3) if it else ("Identity", std.Identity)
        nq = o.qubit_count
        order = rng.choice(["op;inv", "inv;op"])
        ctx.evaluations += 1
        ctx.count("qsub_inverse", s.split("(")[0].split("[")[0])
        inp = {"op": s, "order": order}
        try:
            compiled([o], nq)
        except Exception:  # noqa: BLE001
            # the op itself cannot be compiled (e.g. Controlled(Identity) has no resolver): says nothing about Inverse -> C19
            ctx.count("qsub_inverse", "op-alone-does-not-compile")
            continue
        try:
            inv = std.Inverse(o)
            circ = compiled([o, inv] if order == "op;inv" else [inv, o], nq)
            n = max(circ.qubit_count, nq)
            if n > 8:
                continue
            u = dense.circuit_unitary(n, circ.gates)
        except Exception as e:  # noqa: BLE001
            ctx.witness("qsub-inverse", f"compiling {order} raises {type(e).__name__}: {str(e)[:120]}", inp)
            continue
        d = 1 << nq
        leak = float(np.max(np.abs(u[d:, :d]))) if n > nq else 0.0
        dist = dense.phase_dist(u[:d, :d], np.eye(d))
        if leak > 1e-7 or dist > 1e-7:
            ctx.witness("qsub-inverse", f"{order} differs from the identity by {dist:.3g} (auxiliary leakage {leak:.3g})", inp)
            continue
        if udef is not None:
            # Inverse(op) on its own against the conjugate transpose of the op's DEFINITION (independent of how `op` compiles)
            try:
                ci = compiled([inv], nq)
                n2 = max(ci.qubit_count, nq)
                if n2 > 8:
                    continue
                ui = dense.circuit_unitary(n2, ci.gates)
            except Exception as e:  # noqa: BLE001
                ctx.witness("qsub-inverse", f"compiling Inverse(op) alone raises {type(e).__name__}: {str(e)[:120]}", inp)
                continue
            dist = dense.phase_dist(ui[:d, :d], udef.conj().T)
            if dist > 1e-7:
                ctx.witness("qsub-inverse", f"Inverse(op) differs from the conjugate transpose of the op's own definition by {dist:.3g}", inp)


def run(ctx: Ctx, replay=None) -> int:
    ctx.rule = ("cases = (dyadic scale factor p/q, gate count n, folding method): real scaling_circuit_folding on n distinguishable gates vs "
                "Lean model (selected indices, folded sequence, length); distinct = distinct (p,q,n,method); plus, on the real code against the dense "
                "oracle / exact rational arithmetic: per-kind inverse_gate incl. matrix / angle / index argument forms and symmetric, real, "
                "Hermitian unitaries up to 3 qubits; inverse_circuit on mutable / frozen / bound-parametric circuits; folding of arbitrary gates "
                "(near-twin gates, re-folded circuits, shared folding objects, user-written folding methods, int / numpy / non-dyadic scale "
                "factors: exact count, block structure, action); every extrapolation family on constant data; zne / richardson_extrapolation / "
                "create_zne_estimator (fresh and long-lived) with Operator / bare-label / non-Hermitian observables on exact estimators; the qsub "
                "Inverse op on std ops, Controlled / MultiControlled and user sub-routines")
    ctx.trusted = c01.TRUSTED[:5] + [
        "float arithmetic of _get_residual_n_gates is exact for the dyadic scale factors used in the correspondence; general floats are validated "
        "per instance against exact rational arithmetic (a result one above the exact floor is accepted only within 1e-9 of the boundary)",
        "extrapolation numerics (numpy Polynomial.fit, scipy curve_fit) validated per instance on constant data; a scipy RuntimeError "
        "('optimal parameters not found') on data that are flat up to 1e-16 jitter is not judged",
        "qsub Inverse: sub-routines with a tracked phase or auxiliary qubits under Controlled/Inverse are C19's; C12 checks phase-free programs",
    ]
    ctx.assumptions = ["scale factors ≥ 1", "gates are unitary"]
    table = gen(ctx)
    ok = ctx.prove(["QuriVerif.Props.C12", "QuriVerif.Props.C12Lift", "QuriVerif.Props.C12Phase", "QuriVerif.Driver.C12"],
                   ["QuriVerif.Props.C12", "QuriVerif.Props.C12Lift", "QuriVerif.Props.C12Phase", "QuriVerif.Generated.C12Inverse"])
    if ok:
        names = [f"QV.Props.C12.{n}" for _, n, _ in ctx.count_obligations(["QuriVerif.Props.C12"])]
        names += [f"QV.Props.C12Lift.{n}" for _, n, _ in ctx.count_obligations(["QuriVerif.Props.C12Lift"]) if n != "circ_ok"]
        names += [f"QV.Props.C12Phase.{n}" for _, n, _ in ctx.count_obligations(["QuriVerif.Props.C12Phase"])]
        ctx.audit(names, ["QuriVerif.Props.C12", "QuriVerif.Props.C12Lift", "QuriVerif.Props.C12Phase"])
        _guard(ctx, "correspond", lambda c: (check_translation_instances(c, table), correspond(c)))
    budget = (8 if ctx.quick() else 120) * (1 if ok and not ctx.disagreements else 3)
    _guard(ctx, "oracle_validation", lambda c: validate(c, budget))
    for name, fn in (("inverse_forms", validate_inverse_forms), ("fold_general", validate_fold_general), ("extrapolators", validate_extrapolators),
                     ("zne_entry_points", validate_zne), ("qsub_inverse", validate_qsub)):
        _guard(ctx, name, fn)
    keys: dict = {}
    for w in ctx.witnesses:
        keys[w["key"]] = keys.get(w["key"], 0) + 1
    ctx.extra["witness_keys"] = keys
    return ctx.finish()
