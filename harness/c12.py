"""C12 — Inverse circuits undo the circuit and folding leaves it unchanged."""
from __future__ import annotations

import math
import os
import sys

sys.path.insert(0, os.path.dirname(os.path.dirname(os.path.abspath(__file__))))

import c01  # noqa: E402
import qp  # noqa: E402
from common import Ctx, load_known_findings  # noqa: E402
from translate import c12gen  # noqa: E402

KNOWN = {"inv_U2": "inverse_gate.U2", "inv_U3": "inverse_gate.U3"}


def gen(ctx: Ctx):
    with ctx.timed("translate"):
        listed = {k["key"] for k in load_known_findings() if k["property"] == "C12"}
        known = {ident for ident, key in KNOWN.items() if key in listed}
        txt, n, table = c12gen.gen(known)
        ctx.write_generated("C12Inverse", txt)
        ctx.generated_entries += n
        return table


def correspond(ctx: Ctx):
    from quri_parts.algo.mitigation.zne import (
        create_folding_left,
        create_folding_random,
        create_folding_right,
        scaling_circuit_folding,
    )
    from quri_parts.circuit import QuantumCircuit, gates

    rng = ctx.rng
    cases = []
    ns = range(0, 9) if ctx.quick() else range(0, 17)
    qs = [1, 2, 4, 8]
    for n in ns:
        for q in qs:
            ps = list(range(q, 7 * q + 1)) if not ctx.quick() else sorted({rng.randint(q, 7 * q) for _ in range(5)} | {q, 2 * q, 3 * q})
            for p in ps:
                for method in ("left", "right", "random"):
                    cases.append((p, q, n, method))
    if ctx.quick():
        cases = rng.sample(cases, 260) + [(1, 2, 3, "left"), (3, 4, 2, "right")]
    else:
        cases += [(1, 2, 3, "left"), (3, 4, 2, "right"), (0, 1, 1, "left")]
    reqs, metas = [], []
    for p, q, n, method in cases:
        s = p / q  # dyadic: exact
        circ = QuantumCircuit(1)
        for i in range(n):
            circ.add_gate(gates.RZ(0, float(i + 1)))
        seed = rng.randint(0, 10**6)
        fm = {"left": create_folding_left, "right": create_folding_right}.get(method)
        fold = fm() if fm else create_folding_random(seed)
        try:
            added = [int(x) for x in fold(circ, s)]
            out = scaling_circuit_folding(circ, s, fold)
            seq = []
            for g in out.gates:
                a = g.params[0]
                seq.append(int(round(a)) - 1 if a > 0 else -int(round(-a)))
            real = ("ok", added, seq)
        except Exception as e:  # noqa: BLE001
            real = ("err", type(e).__name__, None)
        m = method if method != "random" or real[0] == "err" else "list:" + ",".join(map(str, real[1]))
        if m == "random":
            m = "left"
        reqs.append(f"c12fold {p} {q} {n} {m}")
        metas.append(((p, q, n, method, seed), real))
    resp = ctx.driver(reqs)
    for (key, real), r in zip(metas, resp):
        p, q, n, method, seed = key
        ctx.case(("fold", p, q, n, method), nontrivial=(n > 0), sample={"scale": f"{p}/{q}", "n": n, "method": method, "model": r[:120]})
        ctx.traces += 1
        ctx.count("fold_method", method)
        if r.startswith("err"):
            if real[0] != "err":
                ctx.disagree("folding", {"scale": f"{p}/{q}", "n": n, "method": method}, str(real)[:300], r)
            continue
        if real[0] == "err":
            ctx.disagree("folding", {"scale": f"{p}/{q}", "n": n, "method": method}, "raises " + real[1], r)
            continue
        head, added_s, seq_s = [x.strip() for x in r.split("|")]
        k, a = (int(x) for x in head.split())
        madded = [int(x) for x in added_s.split(",")] if added_s else []
        mseq = [int(x) for x in seq_s.split(",")] if seq_s else []
        if method == "random":
            # documented: indices chosen at random – the count must be the residual and indices distinct & in range
            if len(real[1]) != a or len(set(real[1])) != a or any(not (0 <= i < max(n, 1)) for i in real[1]):
                ctx.disagree("folding-random-selection", {"scale": f"{p}/{q}", "n": n, "seed": seed}, real[1], f"residual {a}")
        elif real[1] != madded:
            ctx.disagree("folding-selection", {"scale": f"{p}/{q}", "n": n, "method": method}, real[1], madded)
        if real[2] != mseq:
            ctx.disagree("folding-sequence", {"scale": f"{p}/{q}", "n": n, "method": method, "seed": seed}, real[2], mseq)
        if len(real[2]) != n * (2 * k + 1) + 2 * a:
            ctx.disagree("folding-length", {"scale": f"{p}/{q}", "n": n, "method": method}, len(real[2]), n * (2 * k + 1) + 2 * a)


def check_translation_instances(ctx: Ctx, table):
    """the translated inverse table, instantiated at random parameters, is what the real function returns"""
    from quri_parts.circuit import gates, inverse_gate

    rng = ctx.rng
    for kind, invkind, status in table:
        if invkind is None:
            continue
        for _ in range(3):
            ps = [rng.uniform(-6, 6) for _ in range(qp.NPARAM.get(kind, 0))]
            if kind in qp.ONE_Q or kind in ("RX", "RY", "RZ", "U1", "U2", "U3"):
                g = getattr(gates, kind)(2, *ps)
            elif kind in ("CNOT", "CZ", "SWAP"):
                g = getattr(gates, kind)(3, 1)
            elif kind == "TOFFOLI":
                g = gates.TOFFOLI(0, 2, 1)
            elif kind == "Pauli":
                g = gates.Pauli([2, 0], [1, 3])
            elif kind == "PauliRotation":
                g = gates.PauliRotation([2, 0], [2, 3], ps[0])
            else:
                continue
            try:
                r = inverse_gate(g)
            except Exception as e:  # noqa: BLE001
                ctx.disagree("inverse-table", kind, "raises " + type(e).__name__, invkind)
                continue
            ctx.case(("invtable", kind), sample=None)
            ctx.traces += 1
            if r.name != invkind or tuple(r.target_indices) != tuple(g.target_indices) or tuple(r.control_indices) != tuple(g.control_indices):
                ctx.disagree("inverse-table", kind, f"{r.name} {r.target_indices} {r.control_indices}", invkind)


def validate(ctx: Ctx, budget_s: float):
    import time

    import numpy as np

    from oracle import dense
    from quri_parts.algo.mitigation.zne import (
        create_folding_left,
        create_folding_random,
        create_folding_right,
        create_polynomial_extrapolate,
        richardson_extrapolation,
        scaling_circuit_folding,
        zne,
    )
    from quri_parts.circuit import QuantumCircuit, gates, inverse_circuit, inverse_gate

    rng = ctx.rng
    t0 = time.time()
    n_eval = 0
    # per-kind inverse on the real code
    one = qp.ONE_Q + ["RX", "RY", "RZ", "U1", "U2", "U3", "CNOT", "CZ", "SWAP", "TOFFOLI", "Pauli", "PauliRotation", "UM1", "UM2"]
    for kind in one:
        for _ in range(6 if ctx.quick() else 40):
            c = c01.random_real_circuit(rng, 3, 1, [kind])
            if not c.gates:
                continue
            g = c.gates[0]
            n_eval += 1
            try:
                inv = inverse_gate(g)
                d = dense.phase_dist(dense.gate_unitary(3, inv) @ dense.gate_unitary(3, g), np.eye(8))
            except Exception as e:  # noqa: BLE001
                ctx.witness(f"inverse_gate.{g.name}", f"inverse_gate raised {type(e).__name__} for {g.name}", c01.describe_circ(c))
                continue
            if d > 1e-7:
                ctx.witness(f"inverse_gate.{g.name}", f"inverse_gate({g.name}) · {g.name} differs from the identity by {d:.3g}",
                            c01.describe_circ(c), {"inverse_params": [float(x) for x in inv.params]})
    safe = [k for k in one if k not in ("U2", "U3")]
    methods = [("left", create_folding_left), ("right", create_folding_right), ("random", lambda: create_folding_random(rng.randint(0, 999)))]
    while time.time() - t0 < budget_s:
        n = rng.randint(1, 3)
        c = c01.random_real_circuit(rng, n, rng.randint(0, 6), safe)
        n_eval += 1
        try:
            ic = inverse_circuit(c)
            d = dense.phase_dist(dense.circuit_unitary(n, list(c.gates) + list(ic.gates)), np.eye(1 << n))
            if d > 1e-6:
                ctx.witness("inverse_circuit", f"circuit·inverse differs from identity by {d:.3g}", c01.describe_circ(c))
            s = rng.choice([1.0, 1.5, 2.0, 2.25, 3.0, 3.7, 4.999, 5.0, 1.0001, 7.3])
            mname, mk = rng.choice(methods)
            fc = scaling_circuit_folding(c, s, mk())
            d = dense.phase_dist(dense.circuit_unitary(n, fc.gates), dense.circuit_unitary(n, c.gates))
            if d > 1e-6:
                ctx.witness("folding", f"folded circuit (s={s}, {mname}) differs by {d:.3g}", c01.describe_circ(c))
            ng = len(c.gates)
            k = int((s - 1) / 2)
            lo, hi = ng * (2 * k + 1), ng * (2 * k + 1) + 2 * ng
            if not (lo <= len(fc.gates) <= hi) or (len(fc.gates) - ng) % 2:
                ctx.witness("folding-count", f"folded gate count {len(fc.gates)} outside [{lo},{hi}] for s={s}", c01.describe_circ(c))
            if ng and abs(len(fc.gates) - s * ng) > 2.0 + 1e-9:
                ctx.witness("folding-count", f"folded gate count {len(fc.gates)} is not within 2 of s·n = {s * ng}", c01.describe_circ(c))
        except Exception as e:  # noqa: BLE001
            ctx.witness("folding-raises", f"{type(e).__name__}: {e}", c01.describe_circ(c))
    # noiseless ZNE returns the exact value
    try:
        from quri_parts.core.operator import Operator, pauli_label
        from quri_parts.core.state import GeneralCircuitQuantumState
        from quri_parts.qulacs.estimator import (
            create_qulacs_vector_concurrent_estimator,
            create_qulacs_vector_estimator,
        )

        est = create_qulacs_vector_estimator()
        cest = create_qulacs_vector_concurrent_estimator()
        for _ in range(6 if ctx.quick() else 60):
            n = rng.randint(1, 3)
            c = c01.random_real_circuit(rng, n, rng.randint(1, 6), [k for k in safe if not k.startswith("UM")])
            op = Operator()
            for _ in range(rng.randint(1, 4)):
                lab = " ".join(f"{rng.choice('XYZ')}{q}" for q in sorted(rng.sample(range(n), rng.randint(1, n))))
                op.add_term(pauli_label(lab), rng.choice([0.5, -1.25, 2.0]))
            exact = est(op, GeneralCircuitQuantumState(n, c)).value.real
            sf = [1.0, 2.0, 3.0]
            for nm, val in (
                ("polynomial", lambda: zne(op, c, cest, sf, create_polynomial_extrapolate(2), create_folding_left())),
                ("richardson", lambda: richardson_extrapolation(op, c, cest, sf, create_folding_right())),
            ):
                n_eval += 1
                v = val()
                if abs(v - exact) > 1e-7:
                    ctx.witness("zne-noiseless", f"{nm} extrapolation on a noiseless estimator gives {v} instead of {exact}", c01.describe_circ(c))
    except ImportError as e:
        ctx.notes.append(f"zne validation skipped: {e}")
    ctx.evaluations += n_eval
    ctx.extra["oracle_validation"] = {"evaluations": n_eval}
    ctx.search_budget_s = budget_s


def run(ctx: Ctx, replay=None) -> int:
    ctx.rule = ("cases = (dyadic scale factor p/q, gate count n, folding method): real scaling_circuit_folding on n distinguishable gates vs "
                "Lean model (selected indices, folded sequence, length); distinct = distinct (p,q,n,method); plus per-kind inverse_gate / "
                "inverse_circuit / folding / noiseless-ZNE validation on the real code against the dense oracle")
    ctx.trusted = c01.TRUSTED[:5] + [
        "float arithmetic of _get_residual_n_gates is exact for the dyadic scale factors used in the correspondence; general floats are validated per instance",
        "polynomial/Richardson extrapolation numerics (numpy Polynomial.fit) validated per instance; exponential fits not covered",
    ]
    ctx.assumptions = ["scale factors ≥ 1", "gates are unitary"]
    table = gen(ctx)
    ok = ctx.prove(["QuriVerif.Props.C12", "QuriVerif.Driver.All"], ["QuriVerif.Props.C12", "QuriVerif.Generated.C12Inverse"])
    if ok:
        names = [f"QV.Props.C12.{n}" for _, n, _ in ctx.count_obligations(["QuriVerif.Props.C12"])]
        ctx.audit(names, ["QuriVerif.Props.C12"])
        with ctx.timed("correspond"):
            check_translation_instances(ctx, table)
            correspond(ctx)
    with ctx.timed("oracle_validation"):
        budget = (12 if ctx.quick() else 150) * (1 if ok and not ctx.disagreements else 3)
        validate(ctx, budget)
    return ctx.finish()
