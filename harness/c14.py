"""C14 — Electron-integral transformations preserve energies."""
from __future__ import annotations

import itertools
import json
import os
import sys
import time

sys.path.insert(0, os.path.dirname(os.path.dirname(os.path.abspath(__file__))))

from common import REPO, VERIF, Ctx, InfraError  # noqa: E402
from oracle import slater  # noqa: E402

LEAN_TARGETS = ["QuriVerif.Props.C14", "QuriVerif.Driver.C14"]
ENTRY = "DriverC14.lean"
PROPS = "QuriVerif.Props.C14"
GENMOD = "QuriVerif.Generated.C14Src"

# repaired defect (fixed: 7a862a3): with zero core electrons and an explicit active list without orbital 0 the core was not
# empty.  Its former witnesses stay in the case streams (and in corpus/C14) as regression inputs; a recurrence is a VIOLATION.

# multiplier of every case budget; raised when the source text no longer has the shape the model implements (translator)
BOOST = 1

TRUSTED = [
    "Lean 4.33 kernel; axioms audited ⊆ {propext, Classical.choice, Quot.sound}; Mathlib.Tactic.Ring (+ its imports) in Proof/C14.lean only",
    "numpy semantics of transpose / tensordot / @ / np.ix_ / trace / item assignment as restated in Model/C14.lean "
    "(validated every run: the real functions vs the model on Gaussian-integer tensors, bit-exact)",
    "the translator translate/c14gen.py (Python ast) is ADVISORY only: it reads transpose axes, tensordot operands/axes, np.ix_ argument "
    "patterns, trace axes, coefficients/signs, spin-index assignment patterns from the source text; a difference from Model.modelShape "
    "triples the correspondence / oracle budgets and is recorded, it is not an obligation (equivalent refactorings raise no alarm)",
    "correspondence harness harness/c14.py and the line-protocol driver Driver/C14.lean (parsing/printing)",
    "oracle/slater.py (independent Fock-space ladder operators, Slater–Condon diagonal rule, Pauli matrices; self-tested every run): "
    "the DEFINITION of determinant energy / spectrum the physics statement is validated against",
    "OpenFermion InteractionOperator / qubit transforms, PySCF integrals and CASCI: not modelled, validated per instance",
]

TOL = 1e-8


def overlay_chem():
    """`/repo/packages/chem/quri_parts/chem` has no `__init__.py` (namespace portion) while the installed wheel has one, so
    the import system would prefer the installed `quri_parts.chem`.  Bind `quri_parts.chem` to the working tree before anything
    imports it (same repair as harness/c13.py)."""
    import types

    if "quri_parts.chem" in sys.modules:
        m = sys.modules["quri_parts.chem"]
        if list(getattr(m, "__path__", [])) and all(str(p).startswith(REPO + "/") for p in m.__path__):
            return
        raise InfraError("quri_parts.chem was imported from outside the working tree before the C14 overlay fix")
    import quri_parts

    path = os.path.join(REPO, "packages", "chem", "quri_parts", "chem")
    if not os.path.isdir(path):
        raise InfraError(f"{path} missing")
    if os.path.exists(os.path.join(path, "__init__.py")):
        return
    mod = types.ModuleType("quri_parts.chem")
    mod.__path__ = [path]
    mod.__package__ = "quri_parts.chem"
    sys.modules["quri_parts.chem"] = mod
    quri_parts.chem = mod


def exc_name(e) -> str:
    return type(e).__name__


# ---------------------------------------------------------------------------
# encodings
# ---------------------------------------------------------------------------
def enc_g(z) -> str:
    z = complex(z)
    re, im = z.real, z.imag
    if re == int(re) and im == int(im) and abs(re) < 2**52 and abs(im) < 2**52:
        return f"{int(re)}:{int(im)}"
    return f"{re!r}:{im!r}"  # never matches a model output → reported as a disagreement


def enc_arr(a) -> str:
    import numpy as np

    return ",".join(enc_g(z) for z in np.asarray(a).reshape(-1))


def enc_ints(l) -> str:
    return ",".join(str(int(x)) for x in l)


def enc_act(act) -> str:
    if act is None:
        return "-"
    if len(act) == 0:
        return "[]"
    return enc_ints(act)


def rand_gint(rng, lim=3, real=False):
    return complex(rng.randint(-lim, lim), 0 if real else rng.randint(-lim, lim))


def rand_t(rng, shape, lim=3, real=False, even=False):
    import numpy as np

    size = 1
    for s in shape:
        size *= s
    mul = 2 if even else 1
    return np.array([mul * rand_gint(rng, lim, real) for _ in range(size)], dtype=np.complex128).reshape(shape)


def vary_dtype(rng, real_only: bool) -> str:
    """dtype of one case: all tensors of a case share it (the documented dtype is complex128; real / integer arrays
    holding the same values are what PySCF and hand-written inputs deliver)"""
    if not real_only:
        return "c"
    return rng.choice(["c", "f", "f", "i"])


def vary_layout(rng, a, dt: str = "c"):
    """the same values in another dtype / memory layout (C order, Fortran order, strided view of a larger buffer)"""
    import numpy as np

    if dt == "f":
        a = np.ascontiguousarray(a.real, dtype=np.float64)
    elif dt == "i":
        a = np.ascontiguousarray(a.real).astype(np.int64)
    r = rng.random()
    if r < 0.25:
        a = np.asfortranarray(a)
    elif r < 0.45 and a.ndim:
        big = np.zeros(tuple(2 * k for k in a.shape), dtype=a.dtype)
        view = big[(slice(1, None, 2),) * a.ndim]
        view[...] = a
        a = view
    return a


def idx_form(rng, lst):
    """an index sequence in one of the forms callers pass: list, tuple, numpy integer array, range"""
    import numpy as np

    lst = [int(x) for x in lst]
    r = rng.random()
    if r < 0.45:
        return list(lst)
    if r < 0.6:
        return tuple(lst)
    if r < 0.75:
        return np.array(lst, dtype=np.int64)
    if r < 0.85:
        return np.array(lst, dtype=np.int32)
    if r < 0.92:
        return [np.int64(x) for x in lst]
    if lst and lst == list(range(lst[0], lst[0] + len(lst))):
        return range(lst[0], lst[0] + len(lst))
    return list(lst)


def same_values(a, b) -> bool:
    import numpy as np

    a, b = np.asarray(a), np.asarray(b)
    return a.shape == b.shape and bool(np.array_equal(a, b))


def enc_set(s, dim=None) -> str:
    h = s.mo_1e_int.array
    g = s.mo_2e_int.array
    d = h.shape[0]
    return f"ok {d} | {enc_g(s.const)} | {enc_arr(h)} | {enc_arr(g)}"


class StubMO:
    """a MolecularOrbitals implementation that is not PySCF-backed"""

    def __init__(self, n_electron, spin, n_spatial_orb, mo_coeff):
        self.n_electron = n_electron
        self.spin = spin
        self.n_spatial_orb = n_spatial_orb
        self.mo_coeff = mo_coeff


class StubIdx:
    """only what get_active_space_spatial_integrals_from_mo_eint reads"""

    def __init__(self, core, act):
        self._c, self._a = core, act

    def get_core_and_active_orb(self):
        return self._c, self._a


def real_call(fn) -> str:
    try:
        return fn()
    except Exception as e:  # noqa: BLE001 – exceptions of the real code are outputs
        return "err " + exc_name(e)


# ---------------------------------------------------------------------------
# K1: index functions
# ---------------------------------------------------------------------------
def valid_for_spec(a, o, e, act) -> bool:
    """inputs on which the property speaks: a physically meaningful active space"""
    if a < 0 or o < 0 or e < a or (e - a) % 2:
        return False
    if act:
        if len(act) != o or len(set(act)) != len(act) or any(x < 0 for x in act):
            return False
    return True


def check_core_spec(ctx: Ctx, a, o, e, act, real: str):
    """the real result against the specification (independent): core = first (e−a)/2 non-active orbitals"""
    if not valid_for_spec(a, o, e, act):
        return
    core, active = slater.spec_core_and_active(a, o, e, act)
    want = f"ok {enc_ints(core)}|{enc_ints(active)}"
    ctx.count("core_spec", "checked")
    if real != want:
        ctx.witness("core-indices", "get_core_and_active_orbital_indices does not return (first (n_e − n_active_e)/2 non-active orbitals, active orbitals)",
                    {"n_active_ele": a, "n_active_orb": o, "n_electrons": e, "active_orbs_indices": act},
                    {"real": real, "specification": want})


def k_index(ctx: Ctx):
    from quri_parts.chem.mol import (ActiveSpace, ActiveSpaceMolecularOrbitals, cas, convert_to_spin_orbital_indices,
                                     get_core_and_active_orbital_indices)

    import numpy as np

    rng = ctx.rng
    reqs, reals, what = [], [], []

    def add_cai(a, o, e, act):
        def f():
            c, ac = get_core_and_active_orbital_indices(a, o, e, act)
            return f"ok {enc_ints(c)}|{enc_ints(ac)}"

        r = real_call(f)
        a, o, e = int(a), int(o), int(e)
        reqs.append(f"cai {a} {o} {e} | {enc_act(act)}")
        reals.append(r)
        what.append(("cai", a, o, e, None if act is None else tuple(int(x) for x in act)))
        check_core_spec(ctx, a, o, e, None if act is None else [int(x) for x in act], r)
        ctx.count("cai_outcome", r.split(" ")[0] + ("" if r.startswith("ok") else ":" + r[4:]))
        ctx.count("cai_branch", "default" if not act else "explicit")

    # the witness of the repaired defect (regression input)
    add_cai(2, 2, 2, [1, 2])
    # exhaustive small scope
    e_max, o_max, m = (5, 3, 4) if ctx.quick() else (8, 4, 5)
    lists = [None, []]
    for k in range(1, o_max + 1):
        for sub in itertools.permutations(range(m), k):
            if ctx.quick() and list(sub) != sorted(sub) and rng.random() < 0.8:
                continue
            lists.append(list(sub))
    for a in range(0, e_max + 1):
        for e in range(a, e_max + 1):
            for o in range(0, o_max + 1):
                for act in lists:
                    if act and len(act) != o and rng.random() < (0.97 if ctx.quick() else 0.9):
                        continue
                    if ctx.quick() and rng.random() < 0.5:
                        continue
                    add_cai(a, o, e, act)
    # random incl. malformed (negative counts, duplicates, negative / large indices, tuples)
    for _ in range(ctx.n(400, 6000) * BOOST):
        a, o, e = rng.randint(-3, 9), rng.randint(-1, 5), rng.randint(-2, 11)
        mode = rng.random()
        if mode < 0.2:
            act = None
        elif mode < 0.25:
            act = rng.choice([[], ()])
        else:
            ln = o if rng.random() < 0.8 else rng.randint(0, 5)
            act = [rng.randint(-2, 8) for _ in range(max(ln, 0))]
            if rng.random() < 0.6:
                act = sorted(set(act))
                while len(act) < ln:
                    act.append((act[-1] if act else 0) + rng.randint(1, 2))
            r = rng.random()
            if r < 0.2:
                act = tuple(act)
            elif r < 0.3:
                act = [np.int64(x) for x in act]
            elif r < 0.4 and act and act == list(range(act[0], act[0] + len(act))):
                act = range(act[0], act[0] + len(act))
        if rng.random() < 0.15:  # numpy integer scalars (what array-derived electron / orbital counts are)
            a, o, e = np.int64(a), np.int32(o), np.int64(e)
        add_cai(a, o, e, act)
    # convert_to_spin_orbital_indices
    for _ in range(ctx.n(60, 600)):
        occ = [rng.randint(-2, 9) for _ in range(rng.randint(0, 5))]
        act = [rng.randint(-2, 9) for _ in range(rng.randint(0, 5))]
        so, sa = convert_to_spin_orbital_indices(occ, act)
        reqs.append(f"spinidx {enc_ints(occ)} | {enc_ints(act)}")
        reals.append(f"{enc_ints(so)}|{enc_ints(sa)}")
        what.append(("spinidx", tuple(occ), tuple(act)))
        # specification
        if list(so) != [2 * o + s for o in occ for s in (0, 1)] or list(sa) != [2 * o + s for o in act for s in (0, 1)]:
            ctx.witness("spin-indices", "convert_to_spin_orbital_indices is not o ↦ (2o, 2o+1)", {"occ": occ, "act": act}, reals[-1])
    # ActiveSpaceMolecularOrbitals: constructor checks, derived counts, get_core_and_active_orb, orb_type
    combos = []
    for _ in range(ctx.n(300, 5000) * BOOST):
        ne, sp, ns = rng.randint(0, 10), rng.randint(-2, 4), rng.randint(0, 7)
        ae, ao = rng.randint(-1, 10), rng.randint(0, 5)
        if rng.random() < 0.6:  # steer towards consistent ones
            k = rng.randint(0, 3)
            ao = rng.randint(1, 4)
            ae = rng.randint(0, 2 * ao)
            ne = 2 * k + ae
            sp = rng.choice([ae % 2, ae % 2, ae % 2 + 2, -(ae % 2)])
            ns = k + ao + rng.randint(0, 2)
        mode = rng.random()
        if mode < 0.4:
            act = None
        else:
            act = sorted(rng.sample(range(max(ns, ao, 1) + 1), min(ao, max(ns, ao, 1) + 1)))
            if rng.random() < 0.2:
                rng.shuffle(act)
            if rng.random() < 0.1:
                act = act[:-1]
        combos.append((ne, sp, ns, ae, ao, act))
    for ne, sp, ns, ae, ao, act in combos:
        qs = list(range(-1, ns + 2))

        def f():
            obj = ActiveSpaceMolecularOrbitals(StubMO(ne, sp, ns, None), cas(ae, ao, act) if rng.random() < 0.5 else ActiveSpace(ae, ao, act))

            def cao():
                c, ac = obj.get_core_and_active_orb()
                return f"ok {enc_ints(c)}|{enc_ints(ac)}"

            def ty(i):
                try:
                    return obj.orb_type(i).name
                except Exception as ex:  # noqa: BLE001
                    return exc_name(ex)

            if (ae - sp) % 2 == 0 and (obj.n_ele_alpha - obj.n_ele_beta != sp or obj.n_ele_alpha + obj.n_ele_beta != ae
                                       or 2 * obj.n_core_orb + ae != ne or obj.n_core_orb + ao + obj.n_vir_orb != ns):
                ctx.witness("asmo-counts", "ActiveSpaceMolecularOrbitals: electron / orbital book-keeping does not add up "
                            "(n_alpha − n_beta = spin, n_alpha + n_beta = n_active_ele, 2 n_core_orb + n_active_ele = n_electron, "
                            "n_core_orb + n_active_orb + n_vir_orb = n_spatial_orb)",
                            {"n_electron": ne, "spin": sp, "n_spatial_orb": ns, "n_active_ele": ae, "n_active_orb": ao},
                            {"n_ele_alpha": obj.n_ele_alpha, "n_ele_beta": obj.n_ele_beta, "n_core_orb": obj.n_core_orb, "n_vir_orb": obj.n_vir_orb})
            return (f"ok nce={obj.n_core_ele} na={obj.n_ele_alpha} nb={obj.n_ele_beta} nco={obj.n_core_orb} nvo={obj.n_vir_orb} "
                    f"cao={real_call(cao)} types={','.join(ty(i) for i in qs)}")

        r = real_call(f)
        reqs.append(f"asmo {ne} {sp} {ns} {ae} {ao} | {enc_act(act)} | {enc_ints(qs)}")
        reals.append(r)
        what.append(("asmo", ne, sp, ns, ae, ao, None if act is None else tuple(act)))
        ctx.count("asmo_outcome", "accepted" if r.startswith("ok") else r[4:])
    resp = ctx.driver(reqs, entry=ENTRY)
    for req, real, w, r in zip(reqs, reals, what, resp):
        ctx.traces += 1
        ctx.case(w, nontrivial=True, sample={"request": req, "real": real} if w[0] == "asmo" and real.startswith("ok") else None)
        if r == "bad-request":
            raise InfraError(f"driver rejected {req[:200]}")
        if r != real:
            ctx.disagree("index:" + w[0], {"request": req}, real, r)


# ---------------------------------------------------------------------------
# K2: tensor formulas on Gaussian integers (bit exact)
# ---------------------------------------------------------------------------
def k_tensor(ctx: Ctx):
    import numpy as np

    import quri_parts.chem.mol as M

    rng = ctx.rng
    reqs, reals, what = [], [], []

    def add(req, real, w):
        reqs.append(req)
        reals.append(real)
        what.append(w)

    sizes2 = [1, 2, 2, 3, 3] if ctx.quick() else [1, 2, 2, 3, 3, 3, 4]
    N = ctx.n(36, 200) * BOOST
    for it in range(N):
        n = rng.choice(sizes2)
        real_only = rng.random() < 0.3
        dt = vary_dtype(rng, real_only)
        C0 = rand_t(rng, (n, n), 2, real_only)
        h0 = rand_t(rng, (n, n), 3, real_only)
        g0 = rand_t(rng, (n, n, n, n), 3, real_only)
        # the arrays handed to the real code: same values, varied dtype / memory layout; the requests are built from the pristine
        # copies C0 / h0 / g0, so a function that writes into its arguments shows up on the later calls of the same case
        C, h, g = vary_layout(rng, C0, dt), vary_layout(rng, h0, dt), vary_layout(rng, g0, dt)
        ctx.count("tensor_dtype", dt)
        kw = rng.random() < 0.4
        ao1, ao2 = M.AO1eIntArray(h), M.AO2eIntArray(g)
        # stored AO arrays are what `.array` returns
        try:
            okarr = same_values(ao1.array, h0) and same_values(ao2.array, g0)
            detail = None
        except Exception as e:  # noqa: BLE001
            okarr, detail = False, exc_name(e)
        ctx.evaluations += 1
        if not okarr:
            ctx.witness("ao-array", "AO1eIntArray.array / AO2eIntArray.array is not the integral array the object was built from",
                        {"n": n, "h_ao": enc_arr(h0), "g_ao": enc_arr(g0)}, detail)
        # AO → MO (the same AO objects are used twice: the second call must see the same integrals)
        for rep in range(2 if it % 3 == 0 else 1):
            add(f"ao2mo1 {n} | {enc_arr(C0)} | {enc_arr(h0)}",
                real_call(lambda: "ok " + enc_arr((ao1.to_spatial_mo1int(mo_coeff=C) if kw else ao1.to_spatial_mo1int(C)).array)),
                ("ao2mo1", n, it, rep))
            add(f"ao2mo2 {n} | {enc_arr(C0)} | {enc_arr(g0)}",
                real_call(lambda: "ok " + enc_arr((ao2.to_spatial_mo2int(mo_coeff=C) if kw else ao2.to_spatial_mo2int(C)).array)),
                ("ao2mo2", n, it, rep))
        # spin expansion: matching and non-matching n_spin_orb
        for nso in {2 * n, rng.randint(0, 2 * n + 3)}:
            if nso > 6 and ctx.quick():
                continue
            add(f"spin1 {nso} {n} | {enc_arr(h0)}",
                real_call(lambda: "ok " + enc_arr(M.spatial_mo_1e_int_to_spin_mo_1e_int(n_spin_orb=nso, spatial_1e_integrals=h) if kw
                                                  else M.spatial_mo_1e_int_to_spin_mo_1e_int(nso, h))), ("spin1", nso, n, it))
            if nso <= 6 or rng.random() < 0.3:
                add(f"spin2 {nso} {n} | {enc_arr(g0)}",
                    real_call(lambda: "ok " + enc_arr(M.spatial_mo_2e_int_to_spin_mo_2e_int(n_spin_orb=nso, spatial_2e_integrals=g) if kw
                                                      else M.spatial_mo_2e_int_to_spin_mo_2e_int(nso, g))), ("spin2", nso, n, it))
        # effective core energy / 1e / 2e with arbitrary (even overlapping, repeated, unsorted) in-range index lists
        for _ in range(3):
            core = [rng.randrange(n) for _ in range(rng.randint(0, n))]
            act = [rng.randrange(n) for _ in range(rng.randint(0, n))]
            if rng.random() < 0.6:
                perm = list(range(n))
                rng.shuffle(perm)
                k = rng.randint(0, n)
                core, act = sorted(perm[:k]), sorted(perm[k:k + rng.randint(0, n - k)])
                if rng.random() < 0.3:
                    core.reverse()
                    act.reverse()
            ec = rand_gint(rng, 5)
            core_f, act_f = idx_form(rng, core), idx_form(rng, act)
            ctx.count("index_form", type(core_f).__name__)
            add(f"effE {n} | {enc_g(ec)} | {enc_arr(h0)} | {enc_arr(g0)} | {enc_ints(core)}",
                real_call(lambda: "ok " + enc_g(
                    M.get_effective_active_space_core_energy(core_energy=ec, mo_1e_int=h, mo_2e_int=g, core_spatial_orb_idx=core_f) if kw
                    else M.get_effective_active_space_core_energy(ec, h, g, core_f))), ("effE", n, it, tuple(core)))
            add(f"eff1 {n} | {enc_arr(h0)} | {enc_arr(g0)} | {enc_ints(core)} | {enc_ints(act)}",
                real_call(lambda: "ok " + enc_arr(
                    M.get_effective_active_space_1e_integrals(mo_1e_int=h, mo_2e_int=g, core_spatial_orb_idx=core_f,
                                                              active_spatial_orb_idx=act_f) if kw
                    else M.get_effective_active_space_1e_integrals(h, g, core_f, act_f))),
                ("eff1", n, it, tuple(core), tuple(act)))
            add(f"eff2 {n} | {enc_arr(g0)} | {enc_ints(act)}",
                real_call(lambda: "ok " + enc_arr(
                    M.get_effective_active_space_2e_integrals(mo_2e_int=g, active_spatial_orb_idx=act_f) if kw
                    else M.get_effective_active_space_2e_integrals(g, act_f))), ("eff2", n, it, tuple(act)))
            # the composed function with raw (possibly negative / out-of-range) index lists
            if rng.random() < 0.5:
                core_i = [c - n if rng.random() < 0.2 else c for c in core]
                act_i = [a - n if rng.random() < 0.2 else a for a in act]
                if rng.random() < 0.25:
                    (core_i if rng.random() < 0.5 else act_i).append(rng.choice([n, n + 1, -n - 1]))
                sset = M.SpatialMOeIntSet(ec, M.SpatialMO1eIntArray(h), M.SpatialMO2eIntArray(g))
                stub = StubIdx(idx_form(rng, core_i), idx_form(rng, act_i))
                add(f"asidx {n} | {enc_g(ec)} | {enc_arr(h0)} | {enc_arr(g0)} | {enc_ints(core_i)} | {enc_ints(act_i)}",
                    real_call(lambda: enc_set(M.get_active_space_spatial_integrals_from_mo_eint(stub, sset))),
                    ("asidx", n, it, tuple(core_i), tuple(act_i)))
        # after all calls of the case the caller's arrays still hold the integrals that were passed in
        ctx.evaluations += 1
        if not (same_values(C, C0) and same_values(h, h0) and same_values(g, g0)):
            ctx.disagree("tensor:arguments-overwritten", {"n": n, "C": enc_arr(C0), "h": enc_arr(h0), "g": enc_arr(g0)},
                         f"C {enc_arr(C)} | h {enc_arr(h)} | g {enc_arr(g)}", "arguments unchanged (the model functions are pure)")
    return reqs, reals, what


# ---------------------------------------------------------------------------
# K3: pipelines through the public classes
# ---------------------------------------------------------------------------
def random_active_space(rng, n, zero_orb: float = 0.0):
    """(n_electron, spin, cas args) accepted by ActiveSpaceMolecularOrbitals on n spatial orbitals; with probability `zero_orb`
    an active space without active orbitals (everything frozen)"""
    for _ in range(1000):
        if rng.random() < zero_orb:
            k = rng.randint(0, n)
            return 2 * k, 0, (0, 0, rng.choice([None, None, [], ()]))
        k = rng.randint(0, n - 1)
        ao = rng.randint(1, n - k)
        ae = rng.randint(0, 2 * ao)
        sp = rng.choice([ae % 2, ae % 2, ae % 2 + 2, ae % 2 - 2])
        nb = (ae - sp) // 2
        na = ae - nb
        if not (0 <= nb <= ao and 0 <= na <= ao):
            continue
        act = None
        if rng.random() < 0.55:
            act = sorted(rng.sample(range(n), ao))
            r = rng.random()
            if r < 0.25:
                rng.shuffle(act)
            elif r < 0.4:
                act.reverse()
            if rng.random() < 0.3:
                act = tuple(act)
        return 2 * k + ae, sp, (ae, ao, act)
    raise InfraError("no active space generated")


def k_pipeline(ctx: Ctx):
    import quri_parts.chem.mol as M

    rng = ctx.rng
    reqs, reals, what = [], [], []
    N = ctx.n(63, 350) * BOOST
    kinds = ["mo_spatial", "mo_spin", "to_spin", "ao_full_spatial", "ao_full_spin", "ao_as_spatial", "ao_as_spin"]
    for it in range(N):
        n = rng.choice([1, 2, 2, 3] if ctx.quick() else [1, 2, 2, 3, 3, 4])
        kind = kinds[it % len(kinds)]
        if n == 4 and kind in ("ao_full_spin",) and rng.random() < 0.7:
            n = 3
        real_only = rng.random() < 0.3
        dt = vary_dtype(rng, real_only)
        C0 = rand_t(rng, (n, n), 2, real_only)
        h0 = rand_t(rng, (n, n), 3, real_only)
        g0 = rand_t(rng, (n, n, n, n), 2, real_only)
        C, h, g = vary_layout(rng, C0, dt), vary_layout(rng, h0, dt), vary_layout(rng, g0, dt)
        const = rand_gint(rng, 5)
        ne, sp, (ae, ao, act) = random_active_space(rng, n, zero_orb=0.1)
        mo = StubMO(ne, sp, n, C)
        fnform = rng.random() < 0.5
        kw = rng.random() < 0.4
        objs = {}

        def f():
            # the integral / orbital objects are built once per case and reused by the repeated call below
            if not objs:
                objs["asmo"] = M.ActiveSpaceMolecularOrbitals(mo, M.cas(ae, ao, act))
                objs["sset"] = M.SpatialMOeIntSet(const, M.SpatialMO1eIntArray(h), M.SpatialMO2eIntArray(g))
                objs["aoset"] = M.AOeIntArraySet(const, M.AO1eIntArray(h), M.AO2eIntArray(g))
            asmo, sset, aoset = objs["asmo"], objs["sset"], objs["aoset"]
            if kind == "mo_spatial":
                return enc_set(M.get_active_space_spatial_integrals_from_mo_eint(active_space_mo=asmo, electron_mo_ints=sset) if kw
                               else M.get_active_space_spatial_integrals_from_mo_eint(asmo, sset))
            if kind == "mo_spin":
                return enc_set(M.get_active_space_spin_integrals_from_mo_eint(active_space_mo=asmo, electron_mo_ints=sset) if kw
                               else M.get_active_space_spin_integrals_from_mo_eint(asmo, sset))
            if kind == "to_spin":
                if fnform:
                    return enc_set(M.spatial_mo_eint_set_to_spin_mo_eint_set(spatial_mo_eint_set=sset) if kw
                                   else M.spatial_mo_eint_set_to_spin_mo_eint_set(sset))
                h1, g1 = (M.to_spin_orbital_integrals(n_spin_orb=2 * n, spatial_1e_integrals=h, spatial_2e_integrals=g) if kw
                          else M.to_spin_orbital_integrals(2 * n, h, g))
                return enc_set(M.SpinMOeIntSet(const, M.SpinMO1eIntArray(h1), M.SpinMO2eIntArray(g1)))
            if kind == "ao_full_spatial":
                return enc_set(aoset.to_full_space_spatial_mo_int(mo=mo) if kw else aoset.to_full_space_spatial_mo_int(mo))
            if kind == "ao_full_spin":
                if fnform:
                    return enc_set(M.SpinMOeIntSet(const, aoset.ao_1e_int.to_mo1int(C), aoset.ao_2e_int.to_mo2int(mo_coeff=C)))
                return enc_set(aoset.to_full_space_mo_int(mo=mo) if kw else aoset.to_full_space_mo_int(mo))
            if kind == "ao_as_spatial":
                if fnform:
                    return enc_set(M.get_active_space_spatial_integrals_from_ao_eint(active_space_mo=asmo, electron_ao_ints=aoset) if kw
                                   else M.get_active_space_spatial_integrals_from_ao_eint(asmo, aoset))
                return enc_set(aoset.to_active_space_spatial_mo_int(active_space_mo=asmo) if kw else aoset.to_active_space_spatial_mo_int(asmo))
            if fnform:
                return enc_set(M.get_active_space_spin_integrals_from_ao_eint(active_space_mo=asmo, electron_ao_ints=aoset) if kw
                               else M.get_active_space_spin_integrals_from_ao_eint(asmo, aoset))
            return enc_set(aoset.to_active_space_mo_int(active_space_mo=asmo) if kw else aoset.to_active_space_mo_int(asmo))

        req = (f"pipe {kind} {n} | {ne} {sp} {n} {ae} {ao} | {enc_act(act)} | {enc_arr(C0)} | {enc_g(const)} | {enc_arr(h0)} | "
               f"{enc_arr(g0)}")
        # every third case: the same call once more on the same objects (nothing may be carried over / overwritten)
        for rep in range(2 if it % 3 == 0 else 1):
            reqs.append(req)
            reals.append(real_call(f))
            what.append(("pipe", kind, n, it, rep))
            ctx.count("pipeline", kind)
        ctx.count("pipeline_active_orb", str(ao))
        if not (same_values(C, C0) and same_values(h, h0) and same_values(g, g0)):
            ctx.disagree("pipe:arguments-overwritten", {"request": req}, f"C {enc_arr(C)} | h {enc_arr(h)} | g {enc_arr(g)}",
                         "arguments unchanged (the model functions are pure)")
    # get_fermionic_hamiltonian (even entries: the division by two is exact)
    import quri_parts.openfermion.mol as OM

    for it in range(ctx.n(16, 100) * BOOST):
        n = rng.choice([2, 2, 3, 4])
        h = rand_t(rng, (n, n), 3, even=rng.random() < 0.5)
        g = rand_t(rng, (n, n, n, n), 3, even=True)
        const = rand_gint(rng, 5, real=True)

        def f():
            op = OM.get_fermionic_hamiltonian(M.SpinMOeIntSet(const, M.SpinMO1eIntArray(h), M.SpinMO2eIntArray(g)))
            return f"ok {op.one_body_tensor.shape[0]} | {enc_g(op.constant)} | {enc_arr(op.one_body_tensor)} | {enc_arr(op.two_body_tensor)}"

        reqs.append(f"ferm {n} | {enc_g(const)} | {enc_arr(h)} | {enc_arr(g)}")
        reals.append(real_call(f))
        what.append(("ferm", n, it))
    return reqs, reals, what


def k_det_rule(ctx: Ctx):
    """the Slater–Condon diagonal rule used in the Lean theorem `det_energy_preserved` (Model.detEnergy) against the
    independent Fock-space oracle, on arbitrary (unsymmetric) integer tensors"""
    import numpy as np

    rng = ctx.rng
    reqs, reals, what = [], [], []
    for it in range(ctx.n(10, 60)):
        n = rng.choice([2, 3, 4])
        one = rand_t(rng, (n, n), 3)
        two = rand_t(rng, (n, n, n, n), 3)
        c = rand_gint(rng, 4)
        H = slater.fock_matrix(c, one, two, n)
        for occ in rng.sample(range(1 << n), min(1 << n, 6)):
            D = [P for P in range(n) if (occ >> P) & 1]
            rng.shuffle(D)
            reqs.append(f"dete {n} | {enc_g(c)} | {enc_arr(one)} | {enc_arr(two)} | {enc_ints(D)}")
            reals.append("ok " + enc_g(np.round(H[occ, occ].real) + 1j * np.round(H[occ, occ].imag)))
            what.append(("dete", n, it, occ))
    return reqs, reals, what


def run_k(ctx: Ctx, parts):
    reqs, reals, what = [], [], []
    for a, b, c in parts:
        reqs += a
        reals += b
        what += c
    resp = ctx.driver(reqs, entry=ENTRY)
    for req, real, w, r in zip(reqs, reals, what, resp):
        ctx.traces += 1
        ctx.count("tensor_op", w[0] + (":err" if real.startswith("err") else ""))
        ctx.case(w, nontrivial=True, sample={"request": req[:160], "real": real[:120]} if w[0] in ("effE", "ferm") else None)
        if r == "bad-request":
            raise InfraError(f"driver rejected {req[:200]}")
        if r != real:
            # first differing position, to keep the replay readable
            i = next((k for k in range(min(len(r), len(real))) if r[k] != real[k]), min(len(r), len(real)))
            what_k = "det-rule(oracle vs model)" if w[0] == "dete" else "tensor:" + w[0]
            ctx.disagree(what_k, {"request": req}, real[:2000] + f"  [first difference at char {i}]", r[:2000])


# ---------------------------------------------------------------------------
# physics validation on the REAL code against the independent oracle (partial part of the property)
# ---------------------------------------------------------------------------
def maxdiff(a, b) -> float:
    import numpy as np

    a, b = np.asarray(a), np.asarray(b)
    if a.shape != b.shape:
        return float("inf")
    return float(np.max(np.abs(a - b))) if a.size else 0.0


class ShapeError(Exception):
    pass


def real_fermionic_tensors(spin_set, n_modes=None):
    """(constant, one-body, two-body) of the real get_fermionic_hamiltonian; ShapeError when the arrays are not the
    (n_modes,)*2 / (n_modes,)*4 tensors the Fock-space oracle needs"""
    import numpy as np

    import quri_parts.openfermion.mol as OM

    op = OM.get_fermionic_hamiltonian(spin_set)
    one, two = np.asarray(op.one_body_tensor), np.asarray(op.two_body_tensor)
    m = one.shape[0] if one.ndim == 2 else -1
    if one.ndim != 2 or one.shape != (m, m) or two.shape != (m, m, m, m) or (n_modes is not None and m != n_modes):
        raise ShapeError(f"one-body {one.shape}, two-body {two.shape}, expected {n_modes} spin orbitals")
    return complex(op.constant), one, two


def qubit_terms(op):
    names = {1: "X", 2: "Y", 3: "Z"}
    return [(complex(c), tuple((int(i), names[int(p)]) for i, p in label)) for label, c in op.items()]


def oracle_fock(const, one, two, m):
    """slater.fock_matrix, also for an empty register (m = 0: the 1×1 matrix (const))"""
    import numpy as np

    if m == 0:
        return np.array([[complex(const)]])
    return slater.fock_matrix(const, one, two, m)


REDUCE_FORMS = {
    "mo": ["spin_fn", "spatial_fn+to_spin"],
    "ao": ["set.to_active_space_mo_int", "spin_fn_ao", "set.to_active_space_spatial_mo_int+to_spin", "spatial_fn_ao+to_spin"],
}


def active_space_case(ctx: Ctx, n, const, h, chem, spaces, tag, C=None, real_dtype=False):
    """P1: reduced Hamiltonian vs the block of the full Hamiltonian on (specification core) ∪ active determinants.

    `h`, `chem` are the integrals the real code is given: MO integrals (C is None, the `*_from_mo_eint` entry points) or AO
    integrals together with the orbital coefficients C (the `AOeIntArraySet` / `*_from_ao_eint` entry points; the oracle then
    transforms to the MO basis by its own einsum).  `spaces` is a list of (n_electron, spin, (n_active_ele, n_active_orb,
    active list)); they are reduced one after the other from the SAME integral objects and the first one once more at the end:
    whatever the order of calls, each result must describe the Hamiltonian of the integrals the caller passed in."""
    import numpy as np

    import quri_parts.chem.mol as M

    rng = ctx.rng
    g = slater.phys_from_chem(chem)
    # the oracle works on pristine copies
    if C is None:
        h_mo, g_mo = h.copy(), g.copy()
    else:
        h_mo, g_mo = slater.mo_one(h, C), slater.phys_from_chem(slater.mo_two_chem(chem, C))
    base = {"n_spatial": n, "const": const, "integrals": "MO" if C is None else "AO", "h": h.tolist(), "eri_chem": chem.tolist(),
            "source": tag}
    if C is not None:
        base["C_re"], base["C_im"] = np.real(C).tolist(), np.imag(C).tolist()
    H_full = oracle_fock(const, slater.spin_one(h_mo), slater.spin_two(g_mo) / 2, 2 * n)  # oracle only
    scale = max(1.0, float(np.max(np.abs(H_full))))
    dt = float if (real_dtype and C is None) else complex
    h_in, g_in = vary_layout(rng, h.astype(dt)), vary_layout(rng, g.astype(dt))
    C_in = None if C is None else vary_layout(rng, C.astype(float if (real_dtype and not np.iscomplexobj(C)) else complex))
    sset = aoset = None
    if C is None:
        sset = M.SpatialMOeIntSet(const, M.SpatialMO1eIntArray(h_in), M.SpatialMO2eIntArray(g_in))
    else:
        aoset = M.AOeIntArraySet(const, M.AO1eIntArray(h_in), M.AO2eIntArray(g_in))

    def full_space_ok(when):
        """the full-space Hamiltonian the real code builds from the same objects"""
        inp = {**base, "call": f"full space {when}"}
        try:
            if C is None:
                full = M.spatial_mo_eint_set_to_spin_mo_eint_set(sset)
            else:
                full = aoset.to_full_space_mo_int(StubMO(spaces[0][0], spaces[0][1], n, C_in))
            c_f, one_f, two_f = real_fermionic_tensors(full, 2 * n)
        except ShapeError as e:
            ctx.witness("integral-shape", "spin-orbital integral arrays do not have 2·(number of spatial orbitals) spin orbitals", inp, str(e))
            return False
        except Exception as e:  # noqa: BLE001
            ctx.witness("full-space-raises", f"full-space spin-orbital integrals raise {exc_name(e)}", inp, str(e)[:200])
            return False
        H_full_real = oracle_fock(c_f, one_f, two_f, 2 * n)
        ctx.evaluations += 1
        if maxdiff(H_full, H_full_real) > TOL * scale:
            ctx.witness("full-space-hamiltonian", "full-space spin-orbital Hamiltonian (AO→MO, spatial→spin expansion, 1/2 assembly) differs "
                        "from the Fock-space oracle built from the integrals that were passed in", inp,
                        {"max_abs_diff": maxdiff(H_full, H_full_real)})
            return False
        return True

    if not full_space_ok("before any reduction"):
        return
    sequence = list(spaces) + ([spaces[0]] if len(spaces) > 1 or rng.random() < 0.5 else [])
    asmos = {}
    for pos, (ne, sp, (ae, ao, act)) in enumerate(sequence):
        form = rng.choice(REDUCE_FORMS["mo" if C is None else "ao"])
        inp = {**base, "n_electron": ne, "spin": sp, "cas": [ae, ao, None if act is None else list(act)],
               "active_list_type": type(act).__name__, "entry_point": form, "call_number_on_these_objects": pos + 1,
               "earlier_active_spaces": [[a, o, None if l is None else list(l)] for _, _, (a, o, l) in sequence[:pos]]}
        try:
            key = (ne, sp, ae, ao, None if act is None else tuple(act))
            if key not in asmos or rng.random() < 0.5:  # sometimes the same ActiveSpaceMolecularOrbitals object again
                asmos[key] = M.ActiveSpaceMolecularOrbitals(StubMO(ne, sp, n, C_in if C is not None else np.eye(n)), M.cas(ae, ao, act))
            asmo = asmos[key]
            if form == "spin_fn":
                red = M.get_active_space_spin_integrals_from_mo_eint(asmo, sset)
            elif form == "spatial_fn+to_spin":
                red = M.spatial_mo_eint_set_to_spin_mo_eint_set(M.get_active_space_spatial_integrals_from_mo_eint(asmo, sset))
            elif form == "set.to_active_space_mo_int":
                red = aoset.to_active_space_mo_int(asmo)
            elif form == "spin_fn_ao":
                red = M.get_active_space_spin_integrals_from_ao_eint(asmo, aoset)
            elif form == "set.to_active_space_spatial_mo_int+to_spin":
                red = M.spatial_mo_eint_set_to_spin_mo_eint_set(aoset.to_active_space_spatial_mo_int(asmo))
            else:
                red = M.spatial_mo_eint_set_to_spin_mo_eint_set(M.get_active_space_spatial_integrals_from_ao_eint(asmo, aoset))
            c_r, one_r, two_r = real_fermionic_tensors(red, 2 * ao)
        except ShapeError as e:
            ctx.witness("integral-shape", "spin-orbital integral arrays do not have 2·(number of active orbitals) spin orbitals", inp, str(e))
            return
        except Exception as e:  # noqa: BLE001
            ctx.witness("active-space-raises", f"active-space reduction raises {exc_name(e)} on a valid active space", inp, str(e)[:200])
            return
        H_red = oracle_fock(c_r, one_r, two_r, 2 * ao)
        core, active = slater.spec_core_and_active(ae, ao, ne, None if act is None else list(act))
        emb = [slater.embed_det(core, active, S) for S in range(1 << (2 * ao))]
        idx = np.array([o for o, _ in emb])
        sg = np.array([s for _, s in emb], dtype=float)
        block = H_full[np.ix_(idx, idx)] * sg[:, None] * sg[None, :]
        d = np.abs(block - H_red)
        ctx.evaluations += d.size
        ctx.count("active_space_entry", form)
        ctx.count("active_space_orb", str(ao))
        if float(d.max()) > TOL * scale:
            r, c = np.unravel_index(int(np.argmax(d)), d.shape)
            diag = np.abs(np.diag(block) - np.diag(H_red))
            S = int(np.argmax(diag)) if float(diag.max()) > TOL * scale else None
            ctx.witness("active-space-energy",
                        "reduced (active-space) Hamiltonian incl. effective core energy differs from the full Hamiltonian on determinants "
                        "compatible with the active space" + (" (determinant ENERGY differs)" if S is not None else " (off-diagonal element)")
                        + (" — on a repeated / later call with the same integral objects" if pos else ""),
                        inp,
                        {"specification_core": core, "active": active,
                         "determinant_active_register_bits": S if S is not None else [int(r), int(c)],
                         "full": str(block[S, S] if S is not None else block[r, c]),
                         "reduced": str(H_red[S, S] if S is not None else H_red[r, c])})
            return
        ctx.count("physics", "active-space-block-ok")
    # and the full space once more: the reductions must not have changed the caller's integrals
    full_space_ok("after the reductions")


def p_active_space(ctx: Ctx, scale: int):
    import numpy as np

    rng = ctx.rng
    # regression input of the repaired defect (zero core electrons, orbital 0 not active)
    h = np.array([[-1.0, 0.2, 0.1], [0.2, -0.5, 0.3], [0.1, 0.3, 0.4]])
    chem = slater.random_eri_chem(__import__("random").Random(14), 3)
    active_space_case(ctx, 3, 0.5, h, chem, [(2, 0, (2, 2, [1, 2]))], "witness:zero-core")
    # always-run, seed-independent section: EVERY ordering of an explicit active list over a contiguous block of 4 orbitals
    # (n = 4: the whole space).  A random shuffle hits a particular
    # ordering class (first = min and last = max, middle exchanged; reversed; rotated ...) with probability ~1e-3 per case,
    # which is not a detection; orderings are a dimension of the quantifier ("any explicit active list").
    import itertools

    det = __import__("random").Random(1409)
    for n, lo in [(4, 0)]:
        h = slater.random_symmetric(det, n)
        chem = slater.random_eri_chem(det, n)
        for perm in itertools.permutations(range(lo, lo + 4)):
            ae = 2 if sum(perm[:2]) % 2 else 4
            C = slater.random_unitary(det, n, real=True) if perm[0] == lo + 1 else None
            active_space_case(ctx, n, 0.25, h, chem, [(2 * lo + ae, 0, (ae, 4, list(perm)))], "all-orderings-of-a-contiguous-block", C=C)
            ctx.count("active_space_orderings", f"n={n}")
    sizes = ([2, 3, 3, 1, 3, 4] if ctx.quick() else [2, 3, 3, 4, 4, 1]) * (ctx.n(6, 24) * scale)
    for n in sizes:
        h = slater.random_symmetric(rng, n)
        chem = slater.random_eri_chem(rng, n)
        spaces = [random_active_space(rng, n, zero_orb=0.08) for _ in range(rng.choice([1, 2, 2, 3]))]
        r = rng.random()
        C = None
        if r < 0.3:
            C = slater.random_unitary(rng, n, real=True)
        elif r < 0.55:
            C = slater.random_unitary(rng, n)
        active_space_case(ctx, n, rng.uniform(-1, 1), h, chem, spaces, "random", C=C, real_dtype=rng.random() < 0.5)
        ctx.count("active_space_n", str(n))
        ctx.count("active_space_integrals", "MO" if C is None else ("AO,real C" if not np.iscomplexobj(C) else "AO,complex C"))
def p_rotation_and_ao(ctx: Ctx, scale: int):
    """P2: AO→MO against einsum in chemist notation; full-space spectra invariant under orbital rotations."""
    import numpy as np

    import quri_parts.chem.mol as M

    rng = ctx.rng
    for it in range(ctx.n(24, 160) * scale):
        n = rng.choice([2, 3, 3]) if it % 4 else 4
        h = slater.random_symmetric(rng, n)
        chem = slater.random_eri_chem(rng, n)
        g = slater.phys_from_chem(chem)
        const = rng.uniform(-1, 1)
        real_c = rng.random() < 0.3
        C = slater.random_unitary(rng, n, real=real_c)
        if rng.random() < 0.3:  # a non-unitary coefficient matrix: the contraction itself must still be right
            C = C @ np.diag([rng.uniform(0.5, 1.5) for _ in range(n)])
        inp = {"n": n, "h_ao": h.tolist(), "eri_ao_chem": chem.tolist(), "C_re": np.real(C).tolist(), "C_im": np.imag(C).tolist()}
        aoset = M.AOeIntArraySet(const, M.AO1eIntArray(h.astype(complex)), M.AO2eIntArray(g.astype(complex)))
        try:
            sp_set = aoset.to_full_space_spatial_mo_int(StubMO(n, 0, n, C))
            h_mo, g_mo = sp_set.mo_1e_int.array, sp_set.mo_2e_int.array
        except Exception as e:  # noqa: BLE001
            ctx.witness("ao2mo-raises", f"AO→MO raises {exc_name(e)}", inp)
            continue
        want_h = slater.mo_one(h, C)
        want_g = slater.phys_from_chem(slater.mo_two_chem(chem, C))
        ctx.evaluations += 2
        if maxdiff(h_mo, want_h) > TOL or maxdiff(g_mo, want_g) > TOL:
            ctx.witness("ao2mo", "AO→MO integrals differ from Σ C*C(pq|rs)C*C in the documented physicist ordering g[p,q,r,s]=(ps|qr)",
                        inp, {"diff_1e": maxdiff(h_mo, want_h), "diff_2e": maxdiff(g_mo, want_g)})
            continue
        ctx.count("physics", "ao2mo-ok")
        if n > 3 or np.max(np.abs(C.conj().T @ C - np.eye(n))) > 1e-9:
            continue
        # spectra of the qubit/fermionic full-space Hamiltonian for C and for C·U
        U = slater.random_unitary(rng, n, real=real_c)
        specs = []
        for CC in (C, C @ U):
            try:
                full = aoset.to_full_space_mo_int(StubMO(n, 0, n, CC))
                c_f, one_f, two_f = real_fermionic_tensors(full, 2 * n)
            except Exception as e:  # noqa: BLE001
                ctx.witness("integral-shape" if isinstance(e, ShapeError) else "ao2mo-raises",
                            f"full-space spin integrals from AO integrals: {exc_name(e)}", inp, str(e)[:200])
                break
            H = slater.fock_matrix(c_f, one_f, two_f, 2 * n)
            if slater.hermiticity_defect(H) > TOL:
                ctx.witness("hermiticity", "full-space Hamiltonian is not Hermitian for a unitary coefficient matrix", inp)
                break
            specs.append([slater.sector_spectrum(H, slater.sector_states(2 * n, N)) for N in range(2 * n + 1)])
        if len(specs) == 2:
            worst = max(maxdiff(a, b) for a, b in zip(*specs))
            ctx.evaluations += 2 * n + 1
            if worst > 1e-7:
                ctx.witness("orbital-rotation", "full-space spectrum changes under a rotation of the molecular orbitals", inp, {"max_diff": worst})
            else:
                ctx.count("physics", "rotation-invariant")


def p_qubit(ctx: Ctx, scale: int):
    """P3: qubit Hamiltonian vs fermionic Hamiltonian (JW / BK element-wise through the state mapper, SCBK per sector)."""
    import numpy as np

    import quri_parts.chem.mol as M
    import quri_parts.openfermion.mol as OM
    import quri_parts.openfermion.transforms as T

    rng = ctx.rng
    for it in range(ctx.n(24, 160) * scale):
        kind = ["jw", "bk", "scbk"][it % 3]
        n = rng.choice([1, 2, 2, 3])
        if kind == "scbk" and n == 1:
            n = 2  # SCBK on 2 spin orbitals is outside this property (fermion-qubit mappings: C13)
        if kind == "jw" and not ctx.quick() and it % 12 == 0:
            n = 4
        h = slater.random_symmetric(rng, n)
        chem = slater.random_eri_chem(rng, n)
        g = slater.phys_from_chem(chem)
        const = rng.uniform(-1, 1)
        H_f = slater.fock_matrix(const, slater.spin_one(h), slater.spin_two(g) / 2, 2 * n)
        sset = M.SpatialMOeIntSet(const, M.SpatialMO1eIntArray(h.astype(complex)), M.SpatialMO2eIntArray(g.astype(complex)))
        spin_set = M.spatial_mo_eint_set_to_spin_mo_eint_set(sset)
        if spin_set.mo_1e_int.array.shape != (2 * n, 2 * n) or spin_set.mo_2e_int.array.shape != (2 * n,) * 4:
            ctx.witness("integral-shape", "spin-orbital integral arrays do not have 2·(number of spatial orbitals) spin orbitals",
                        {"n_spatial": n}, str(spin_set.mo_1e_int.array.shape))
            continue
        na = rng.randint(0, n)
        nb = rng.randint(0, n)
        if kind == "scbk" and (na + nb == 0 or na + nb == 2 * n):
            na, nb = 1, min(1, n)
        nele, sz = na + nb, (na - nb) / 2
        # the ActiveSpace argument only carries (n_active_ele, n_active_orb); an explicit index list must not matter
        act = rng.choice([None, None, list(range(n)), tuple(range(1, n + 1)), sorted(rng.sample(range(2 * n), n), reverse=True)])
        form = rng.choice(["get_qubit_mapped_hamiltonian", "get_qubit_mapped_hamiltonian(keywords)",
                           "operator_from_of_fermionic_op(InteractionOperator)", "operator_from_of_fermionic_op(FermionOperator)"])
        if kind == "jw" and rng.random() < 0.4:
            form = "get_qubit_mapped_hamiltonian(defaults)"
        inp = {"n_spatial": n, "mapping": kind, "n_electrons": nele, "sz": sz, "const": const, "h": h.tolist(), "eri_chem": chem.tolist(),
               "active_orbs_indices": None if act is None else list(act), "entry_point": form}
        ctx.count("qubit_entry", form)
        try:
            fac = {"jw": T.jordan_wigner, "bk": T.bravyi_kitaev, "scbk": T.symmetry_conserving_bravyi_kitaev}[kind]
            space = M.cas(nele, n, act)
            if form == "get_qubit_mapped_hamiltonian(defaults)":
                op, mapping = OM.get_qubit_mapped_hamiltonian(space, spin_set)
            elif form == "get_qubit_mapped_hamiltonian":
                op, mapping = OM.get_qubit_mapped_hamiltonian(space, spin_set, sz, fac)
            elif form == "get_qubit_mapped_hamiltonian(keywords)":
                op, mapping = OM.get_qubit_mapped_hamiltonian(active_space=space, spin_mo_eint_set=spin_set, sz=sz,
                                                              fermion_qubit_mapping=fac)
            else:
                ferm = OM.get_fermionic_hamiltonian(spin_set)
                if form.endswith("(FermionOperator)"):
                    import openfermion

                    ferm = openfermion.get_fermion_operator(ferm)
                op, mapping = OM.operator_from_of_fermionic_op(ferm, space, sz, fac)
            nq = mapping.n_qubits
            H_q = slater.pauli_matrix(nq, qubit_terms(op))
        except Exception as e:  # noqa: BLE001
            ctx.witness("qubit-hamiltonian-raises", f"get_qubit_mapped_hamiltonian raises {exc_name(e)}", inp, str(e)[:200])
            continue
        scale_h = max(1.0, float(np.max(np.abs(H_f))))
        if nq != (2 * n if kind in ("jw", "bk") else 2 * n - 2):
            ctx.witness("qubit-hamiltonian", "qubit Hamiltonian acts on the wrong number of qubits", inp, {"n_qubits": nq})
            continue
        if kind in ("jw", "bk"):
            sm = fac(2 * n).state_mapper  # the unrestricted state mapper (no fermion-number check)
            bits = np.array([sm([P for P in range(2 * n) if (occ >> P) & 1]).bits for occ in range(1 << (2 * n))])
            d = float(np.max(np.abs(H_q[np.ix_(bits, bits)] - H_f)))
            ctx.evaluations += H_f.size
            if kind == "jw" and list(bits) != list(range(1 << (2 * n))):
                ctx.witness("qubit-hamiltonian", "JW state mapper is not the identity on occupation bitmasks", inp)
            elif d > TOL * scale_h:
                ctx.witness("qubit-hamiltonian", "qubit Hamiltonian matrix elements between mapped determinants differ from the fermionic "
                            "Hamiltonian", inp, {"max_abs_diff": d})
            else:
                ctx.count("physics", f"qubit-{kind}-ok")
        else:
            st = slater.sector_states_sz(2 * n, na, nb)
            want = slater.sector_spectrum(H_f, st)
            got = np.linalg.eigvalsh((H_q + H_q.conj().T) / 2)
            ctx.evaluations += len(st)
            # the SCBK register has 2^(2n−2) states; the (N, Sz) sector is embedded in it: every sector eigenvalue must appear
            miss = [float(w) for w in want if np.min(np.abs(got - w)) > 1e-7 * scale_h]
            if miss:
                ctx.witness("qubit-hamiltonian", "SCBK qubit Hamiltonian misses eigenvalues of the (N, Sz) sector of the fermionic Hamiltonian",
                            inp, {"missing": miss[:4]})
            else:
                ctx.count("physics", "qubit-scbk-ok")


# name: (gto.M keyword arguments, active spaces (n_active_ele, n_active_orb, explicit list | None) or None = drawn by
# `auto_spaces`).  The first four are the all-electron sto-3g molecules with hand-picked spaces; the others vary the molecule
# CONFIGURATION (effective core potentials, GTH pseudopotentials, charge, spin multiplicity, basis sets incl. per-atom dictionaries
# and hand-written shells, cartesian d functions, length unit, point-group symmetry): everything PySCF itself accounts for in its
# core Hamiltonian / integrals must reach both integral paths.
STO3G = {"basis": "sto-3g"}
MOLECULES = {
    "H2": ({"atom": "H 0 0 0; H 0 0 0.74", **STO3G},
           [(2, 2, None), (2, 2, [0, 1]), (2, 2, (1, 0)), (0, 0, None), (2, 1, None), (0, 1, [1])]),
    "H3": ({"atom": "H 0 0 0; H 0 0 0.9; H 0 0 1.9", "spin": 1, **STO3G},
           [(1, 1, None), (1, 2, None), (3, 3, None), (1, 2, [2, 1]), (3, 2, [0, 1]), (3, 3, (2, 0, 1)), (1, 1, [2])]),
    "LiH": ({"atom": "Li 0 0 0; H 0 0 1.6", **STO3G},
            [(2, 2, None), (2, 3, [1, 2, 5]), (4, 3, None), (2, 2, [5, 2]), (4, 3, [1, 2, 3]), (0, 0, None), (2, 3, (4, 1, 3))]),
    "H2O": ({"atom": "O 0 0 0; H 0 0.757 0.587; H 0 -0.757 0.587", **STO3G},
            [(4, 4, None), (2, 2, None), (4, 3, [3, 4, 6]), (6, 4, [2, 3, 4, 5]), (4, 3, [6, 4, 3]), (0, 0, [])]),
    "NaH/lanl2dz-ECP": ({"atom": "Na 0 0 0; H 0 0 1.9", "basis": {"Na": "lanl2dz", "H": "sto-3g"}, "ecp": {"Na": "lanl2dz"}}, None),
    "LiH/crenbl-ECP": ({"atom": "Li 0 0 0; H 0 0 1.6", "basis": {"Li": "crenbl", "H": "sto-3g"}, "ecp": {"Li": "crenbl"}}, None),
    "HeH+/6-31g": ({"atom": "He 0 0 0; H 0 0 0.8", "basis": "6-31g", "charge": 1}, None),
    "LiH+ doublet": ({"atom": "Li 0 0 0; H 0 0 1.6", "charge": 1, "spin": 1, **STO3G}, None),
    "H2 triplet/6-31g": ({"atom": "H 0 0 0; H 0 0 1.2", "basis": "6-31g", "spin": 2}, None),
    "H2 cartesian d shell": ({"atom": "H1 0 0 0; H2 0 0 0.8", "cart": True,
                              "basis": {"H1": [[0, [1.2, 1.0]], [2, [0.8, 1.0]]], "H2": [[0, [0.6, 1.0]]]}}, None),
    "H2 spherical d shell": ({"atom": "H1 0 0 0; H2 0 0 0.8",
                              "basis": {"H1": [[0, [1.2, 1.0]], [2, [0.8, 1.0]]], "H2": [[0, [0.6, 1.0]]]}}, None),
    "H2 in Bohr": ({"atom": "H 0 0 0; H 0 0 1.4", "unit": "Bohr", **STO3G}, None),
    "H2/GTH": ({"atom": "H 0 0 0; H 0 0 0.74", "basis": "gth-szv", "pseudo": "gth-pade"}, None),
    "Li2/GTH": ({"atom": "Li 0 0 0; Li 0 0 2.7", "basis": "gth-szv", "pseudo": "gth-pade"}, None),
    "H2O with symmetry": ({"atom": "O 0 0 0; H 0 0.757 0.587; H 0 -0.757 0.587", "symmetry": True, **STO3G}, None),
    "LiH/6-31g* cartesian": ({"atom": "Li 0 0 0; H 0 0 1.6", "basis": "6-31g*", "cart": True}, None),
    "NaH+/lanl2dz-ECP doublet": ({"atom": "Na 0 0 0; H 0 0 1.9", "basis": "lanl2dz", "ecp": {"Na": "lanl2dz"}, "charge": 1, "spin": 1},
                                 None),
}
QUICK_FIXED = ["H2", "H3", "LiH"]
QUICK_CONFIGURED = ["NaH/lanl2dz-ECP", "H2/GTH", "HeH+/6-31g", "LiH+ doublet", "H2 triplet/6-31g", "H2 cartesian d shell",
                    "H2 spherical d shell", "H2 in Bohr", "Li2/GTH"]


def auto_spaces(rng, n_electron, spin, n, count):
    """`count` active spaces (n_active_ele, n_active_orb ≤ 3, list | None) valid for a molecule with the given electron number,
    spin = N_alpha − N_beta and n spatial orbitals"""
    n_beta = (n_electron - spin) // 2
    out = []
    for _ in range(200):
        if len(out) >= count:
            break
        k = rng.randint(0, n_beta)  # doubly occupied frozen orbitals
        ae = n_electron - 2 * k
        na = (ae + spin) // 2
        lo = max(na, 1) if ae else 0
        if k + lo > n or lo > 3:
            continue
        ao = rng.randint(lo, min(3, n - k))
        act = None
        if ao and rng.random() < 0.6:
            act = sorted(rng.sample(range(n), ao))
            r = rng.random()
            if r < 0.3:
                rng.shuffle(act)
            elif r < 0.45:
                act.reverse()
            if rng.random() < 0.3:
                act = tuple(act)
        if (ae, ao, act) not in out:
            out.append((ae, ao, act))
    return out


def raw_core_hamiltonian(mol):
    """PySCF's one-electron AO Hamiltonian restated term by term from its integral engine (not through quri-parts, not through
    scf.hf.get_hcore): kinetic + nuclear attraction (or the GTH pseudopotential) + the scalar effective-core-potential term"""
    h = mol.intor("int1e_kin")
    if getattr(mol, "_pseudo", None):
        from pyscf.gto import pp_int

        h = h + pp_int.get_gth_pp(mol)
    else:
        h = h + mol.intor("int1e_nuc")
    if len(getattr(mol, "_ecpbas", ())):
        h = h + mol.intor("ECPscalar")
    return h


def set_diff(a, b) -> float:
    """largest difference of two integral sets (const, 1e array, 2e array)"""
    return max(maxdiff(a.mo_1e_int.array, b.mo_1e_int.array), maxdiff(a.mo_2e_int.array, b.mo_2e_int.array),
               abs(complex(a.const) - complex(b.const)))


def p_pyscf(ctx: Ctx):
    """P4: real molecules: PySCF-backed path vs in-memory path (every public entry point, Hartree–Fock and rotated orbitals,
    closed and open shell, several active spaces one after the other on the same integral-set objects); anchors independent of
    quri-parts: PySCF's raw AO integrals, Slater–Condon determinant energies, the SCF energy, PySCF CASCI."""
    import numpy as np

    try:
        from pyscf import gto, mcscf, scf
    except Exception as e:  # noqa: BLE001
        ctx.notes.append(f"pyscf not importable ({exc_name(e)}): molecule checks skipped")
        ctx.count("pyscf", "unavailable")
        return
    import quri_parts.chem.mol as M
    import quri_parts.openfermion.mol as OM
    import quri_parts.pyscf.mol as PM

    rng = ctx.rng
    if ctx.quick():
        # all fixed molecules, one ECP and one pseudopotential molecule, and a seed-dependent sample of the other configurations
        names = QUICK_FIXED + QUICK_CONFIGURED[:2] + rng.sample(QUICK_CONFIGURED[2:], 2)
    else:
        names = list(MOLECULES)
    for name in names:
        kw, spaces = MOLECULES[name]
        configured = spaces is None
        inp0 = {"molecule": name, "gto.M": kw}
        try:
            mol = gto.M(verbose=0, **kw)
            spin = int(mol.spin)
            mf = scf.RHF(mol) if spin == 0 else scf.ROHF(mol)
            mf.conv_tol = 1e-12
            mf.run()
            C_hf = mf.mo_coeff
            n = int(C_hf.shape[0])
            # ---- raw AO quantities straight from PySCF's integral engine (not through quri-parts)
            h_ao = raw_core_hamiltonian(mol)
            chem_ao = mol.intor("int2e")
            h_pyscf = mf.get_hcore()
        except Exception as e:  # noqa: BLE001 – this PySCF build cannot set the molecule up: nothing to compare
            ctx.count("pyscf", f"molecule-unavailable:{name}:{exc_name(e)}")
            continue
        if chem_ao.shape != (n,) * 4 or maxdiff(h_ao, h_pyscf) > 1e-9:
            # a configuration whose core Hamiltonian the restatement above does not describe: PySCF's own hcore is the anchor
            ctx.notes.append(f"{name}: restated core Hamiltonian differs from pyscf's get_hcore by {maxdiff(h_ao, h_pyscf):.2e}; get_hcore used")
            h_ao = h_pyscf
        scf_ok = bool(mf.converged)
        if spaces is None:
            spaces = auto_spaces(rng, mol.nelectron, spin, n, 3)
        n_alpha, n_beta = (mol.nelectron + spin) // 2, (mol.nelectron - spin) // 2
        ctx.count("molecule_config", ",".join(sorted(k for k in kw if k not in ("atom", "basis"))) or "plain")
        Z, R = mol.atom_charges(), mol.atom_coords()
        e_nuc = sum(Z[i] * Z[j] / np.linalg.norm(R[i] - R[j]) for i in range(len(Z)) for j in range(i))
        # ONE pair of integral-set objects per molecule, used for every orbital set and every active space below
        mo_hf = PM.PySCFMolecularOrbitals(mol, C_hf)
        try:
            py_set = PM.get_ao_eint_set(mo_hf)
            mem_set = PM.get_ao_eint_set(mo_hf, store_array_on_memory=True) if rng.random() < 0.5 else PM.get_ao_eint_set(mo_hf, True)
            d_ao = max(maxdiff(py_set.ao_1e_int.array, h_ao), maxdiff(mem_set.ao_1e_int.array, h_ao),
                       maxdiff(PM.get_ao_1eint(mo_hf).array, h_ao),
                       maxdiff(py_set.ao_2e_int.array, slater.phys_from_chem(chem_ao)),
                       maxdiff(mem_set.ao_2e_int.array, slater.phys_from_chem(chem_ao)),
                       maxdiff(PM.get_ao_2eint(mo_hf).array, slater.phys_from_chem(chem_ao)),
                       abs(py_set.constant - e_nuc), abs(mem_set.constant - e_nuc), abs(PM.get_nuc_energy(mo_hf) - e_nuc))
            bookkeeping = (mo_hf.n_electron, mo_hf.spin, mo_hf.n_spatial_orb, mo_hf.mol is mol, same_values(mo_hf.mo_coeff, C_hf))
        except Exception as e:  # noqa: BLE001
            ctx.witness("pyscf-raises", f"AO integral sets of the molecule raise {exc_name(e)}", inp0, str(e)[:200])
            continue
        ctx.evaluations += 2
        if d_ao > TOL:
            ctx.witness("pyscf-ao-integrals", "AO integrals / nuclear repulsion of the integral sets differ from PySCF's core Hamiltonian "
                        "(int1e_kin + int1e_nuc | GTH pseudopotential, + ECPscalar), int2e in the documented ordering "
                        "g[p,q,r,s] = (ps|qr), Σ Z_i Z_j / r_ij (effective charges)", inp0, {"max_diff": d_ao})
            continue
        if bookkeeping != (mol.nelectron, spin, n, True, True):
            ctx.witness("pyscf-molecular-orbitals", "PySCFMolecularOrbitals does not report the molecule's electron count / spin / orbital "
                        "count / coefficients", inp0, str(bookkeeping))
            continue
        # orbital sets: Hartree–Fock, and a real rotation of them (the integral paths may not depend on C being an SCF solution)
        coeff_sets = [("HF", C_hf)]
        U = slater.random_unitary(rng, n, real=True)
        coeff_sets.append(("HF·U (random real orthogonal U)", C_hf @ U))
        first_result = None
        for cname, C in coeff_sets:
            rotated = cname != "HF"
            inp1 = {**inp0, "orbitals": cname}
            if rotated:
                inp1["U"] = U.tolist()
            mo = PM.PySCFMolecularOrbitals(mol, C)
            # oracle MO integrals from the raw AO integrals
            h_mo = slater.mo_one(h_ao, C).real
            chem_mo = slater.mo_two_chem(chem_ao, C).real
            g_mo = slater.phys_from_chem(chem_mo)
            # full space: both paths, spatial and spin, against the oracle
            try:
                fs_py, fs_mem = py_set.to_full_space_spatial_mo_int(mo), mem_set.to_full_space_spatial_mo_int(mo)
                d = max(set_diff(fs_py, fs_mem), maxdiff(fs_py.mo_1e_int.array, h_mo), maxdiff(fs_py.mo_2e_int.array, g_mo),
                        abs(fs_py.const - e_nuc))
                ctx.evaluations += 1
                if d > TOL:
                    ctx.witness("pyscf-vs-memory", "full-space spatial MO integrals of the PySCF-backed path, the in-memory path and the "
                                "einsum of PySCF's raw AO integrals differ", inp1, {"max_diff": d})
                    continue
                if n <= 9:
                    sp_py, sp_mem = py_set.to_full_space_mo_int(mo), mem_set.to_full_space_mo_int(mo)
                    as0, sp_mole = PM.get_spin_mo_integrals_from_mole(mol, C)
                    sp_cls = M.SpinMOeIntSet(e_nuc, py_set.ao_1e_int.to_mo1int(C), py_set.ao_2e_int.to_mo2int(C))
                    d = max(set_diff(sp_py, sp_mem), set_diff(sp_mole, sp_mem), set_diff(sp_cls, sp_mem),
                            maxdiff(sp_mem.mo_1e_int.array, slater.spin_one(h_mo)), maxdiff(sp_mem.mo_2e_int.array, slater.spin_two(g_mo)))
                    ctx.evaluations += 1
                    if d > TOL:
                        ctx.witness("pyscf-vs-memory", "full-space spin MO integrals of the paths (set methods, to_mo1int/to_mo2int, "
                                    "get_spin_mo_integrals_from_mole) differ from each other or from the spin expansion of the oracle integrals",
                                    inp1, {"max_diff": d})
                        continue
                    if (as0.n_active_ele, as0.n_active_orb, as0.active_orbs_indices) != (mol.nelectron, n, None):
                        ctx.witness("pyscf-vs-memory", "get_spin_mo_integrals_from_mole without an active space does not report the full space",
                                    inp1, {"active_space": str(as0)})
            except Exception as e:  # noqa: BLE001
                ctx.witness("pyscf-raises", f"full-space integrals raise {exc_name(e)}", inp1, str(e)[:200])
                continue
            # HF determinant energy from the real spatial integrals of EITHER path (oracle Slater–Condon) = PySCF's SCF energy
            if not rotated and scf_ok:
                for path, fs in (("in-memory", fs_mem), ("PySCF-backed", fs_py)):
                    e_hf = slater.det_energy_spatial(fs.const, np.real(fs.mo_1e_int.array),
                                                     slater.chem_from_phys(np.real(fs.mo_2e_int.array)), range(n_alpha), range(n_beta)).real
                    ctx.evaluations += 1
                    if abs(e_hf - mf.e_tot) > 1e-7:
                        ctx.witness("hf-anchor", f"Hartree–Fock determinant energy from the full-space MO integrals ({path} path) differs from "
                                    "PySCF's SCF energy", inp1, {"from_integrals": e_hf, "scf": float(mf.e_tot)})
                    else:
                        ctx.count("physics", "hf-anchor-ok")
            todo = list(spaces)
            if rotated and ctx.quick() and n > 3:
                todo = rng.sample(todo, min(len(todo), 2 if configured else 3))
            if rotated:
                rng.shuffle(todo)
            for ae, ao, act in todo:
                inp = {**inp1, "cas": [ae, ao, None if act is None else list(act)], "active_list_type": type(act).__name__}
                space = M.cas(ae, ao, act)
                try:
                    asmo = M.ActiveSpaceMolecularOrbitals(mo, space)
                    # every public entry point of both paths; the same asmo object throughout
                    res = {
                        "PySCFAOeIntSet.to_active_space_mo_int": py_set.to_active_space_mo_int(asmo),
                        "AOeIntArraySet.to_active_space_mo_int": mem_set.to_active_space_mo_int(asmo),
                        "get_active_space_spin_integrals": PM.get_active_space_spin_integrals(asmo, py_set),
                        "get_spin_mo_integrals_from_mole": PM.get_spin_mo_integrals_from_mole(mol, C, space)[1],
                        "PySCFAOeIntSet.to_active_space_spatial_mo_int+to_spin":
                            M.spatial_mo_eint_set_to_spin_mo_eint_set(py_set.to_active_space_spatial_mo_int(asmo)),
                        "get_active_space_spatial_integrals+to_spin":
                            M.spatial_mo_eint_set_to_spin_mo_eint_set(PM.get_active_space_spatial_integrals(asmo, py_set)),
                        "AOeIntArraySet.to_active_space_spatial_mo_int+to_spin":
                            M.spatial_mo_eint_set_to_spin_mo_eint_set(mem_set.to_active_space_spatial_mo_int(asmo)),
                    }
                    ret_space = PM.get_spin_mo_integrals_from_mole(mol, C, space)[0]
                except Exception as e:  # noqa: BLE001
                    ctx.witness("pyscf-raises", f"active-space integrals raise {exc_name(e)}", inp, str(e)[:200])
                    continue
                a_mem = res["AOeIntArraySet.to_active_space_mo_int"]
                diffs = {k: set_diff(v, a_mem) for k, v in res.items()}
                worst = max(diffs, key=lambda k: diffs[k])
                ctx.evaluations += len(res)
                if diffs[worst] > TOL:
                    ctx.witness("pyscf-vs-memory",
                                "active-space integrals of the PySCF-backed path (CASCI h1eff/h2eff) and the in-memory path differ", inp,
                                {"entry_point": worst, "max_diff": diffs[worst], "const": str(res[worst].const), "const_memory": str(a_mem.const)})
                    continue
                if (ret_space.n_active_ele, ret_space.n_active_orb, ret_space.active_orbs_indices) != (ae, ao, act):
                    ctx.witness("pyscf-vs-memory", "get_spin_mo_integrals_from_mole does not return the active space it was given", inp,
                                str(ret_space))
                    continue
                ctx.count("physics", "pyscf-vs-memory-ok")
                if first_result is None:
                    first_result = (inp, asmo, a_mem)
                if ao > 4:
                    continue
                # the reduced Hamiltonian (from the PySCF-backed path; the in-memory one equals it within TOL)
                a_py = res["PySCFAOeIntSet.to_active_space_mo_int"]
                try:
                    c_r, one_r, two_r = real_fermionic_tensors(a_py, 2 * ao)
                except ShapeError as e:
                    ctx.witness("integral-shape", "active-space spin integrals do not have 2·n_active_orb spin orbitals", inp, str(e))
                    continue
                H_red = oracle_fock(c_r, one_r, two_r, 2 * ao)
                core, active = slater.spec_core_and_active(ae, ao, mol.nelectron, None if act is None else list(act))
                # (a) every active determinant: energy under the reduced Hamiltonian = Slater–Condon energy of the embedded determinant
                #     under the full Hamiltonian of the oracle integrals
                dets = list(range(1 << (2 * ao)))
                if ao == 4:
                    dets = rng.sample(dets, 48)
                bad = None
                for S in dets:
                    occ, _ = slater.embed_det(core, active, S)
                    al, be = slater.occ_to_alpha_beta(occ)
                    e_full = slater.det_energy_spatial(e_nuc, h_mo, chem_mo, al, be).real
                    ctx.evaluations += 1
                    if abs(e_full - H_red[S, S].real) > 1e-7:
                        bad = (S, e_full, float(H_red[S, S].real))
                        break
                if bad:
                    ctx.witness("active-space-energy", "molecule: a determinant compatible with the active space has a different energy under "
                                "the reduced Hamiltonian (effective core energy included) than under the full Hamiltonian", inp,
                                {"specification_core": core, "active": active, "determinant_active_register_bits": bad[0],
                                 "full": bad[1], "reduced": bad[2]})
                    continue
                ctx.count("physics", "molecule-determinants-ok")
                # (b) the Hartree–Fock determinant, when it lies in the active space
                if not rotated and scf_ok:
                    hf_bits = 0
                    for u, orb in enumerate(active):
                        hf_bits |= (1 << (2 * u)) * (orb < n_alpha) | (1 << (2 * u + 1)) * (orb < n_beta)
                    al, be = slater.occ_to_alpha_beta(slater.embed_det(core, active, hf_bits)[0])
                    if sorted(al) == list(range(n_alpha)) and sorted(be) == list(range(n_beta)):
                        ctx.evaluations += 1
                        if abs(H_red[hf_bits, hf_bits].real - mf.e_tot) > 1e-7:
                            ctx.witness("hf-anchor", "HF determinant energy under the reduced Hamiltonian differs from the SCF energy", inp,
                                        {"reduced": float(H_red[hf_bits, hf_bits].real), "scf": float(mf.e_tot)})
                            continue
                        ctx.count("physics", "hf-anchor-reduced-ok")
                # (c) PySCF CASCI with the same orbitals
                na, nb = (ae + spin) // 2, (ae - spin) // 2
                if ao >= 1 and not (rotated and getattr(mol, "symmetry", False)):
                    try:
                        mc = mcscf.CASCI(mf, ao, ae)
                        mc.verbose = 0
                        mo_sorted = mc.sort_mo(list(act), C, base=0) if act else C
                        e_cas = float(mc.kernel(mo_sorted)[0])
                    except Exception as e:  # noqa: BLE001 – the anchor itself is unavailable, nothing to compare
                        ctx.count("pyscf", f"casci-anchor-unavailable:{exc_name(e)}")
                        e_cas = None
                    if e_cas is not None:
                        st = slater.sector_states_sz(2 * ao, na, nb)
                        e_min = float(slater.sector_spectrum(H_red, st)[0])
                        ctx.evaluations += 1
                        if abs(e_min - e_cas) > 1e-7:
                            ctx.witness("casci-anchor", "lowest eigenvalue of the reduced Hamiltonian in the (N_alpha, N_beta) sector differs "
                                        "from PySCF CASCI", inp, {"reduced": e_min, "casci": e_cas})
                            continue
                        ctx.count("physics", "casci-anchor-ok")
                # (d) the qubit Hamiltonian of the molecule (JW): the same matrix
                if 1 <= ao <= 3:
                    try:
                        op, mapping = OM.get_qubit_mapped_hamiltonian(space, a_py)
                        H_q = slater.pauli_matrix(mapping.n_qubits, qubit_terms(op))
                    except Exception as e:  # noqa: BLE001
                        ctx.witness("qubit-hamiltonian-raises", f"get_qubit_mapped_hamiltonian raises {exc_name(e)}", inp, str(e)[:200])
                        continue
                    if maxdiff(H_q, H_red) > TOL * max(1.0, float(np.max(np.abs(H_red)))):
                        ctx.witness("qubit-hamiltonian", "JW qubit Hamiltonian of the molecule differs from the fermionic one", inp)
                    else:
                        ctx.count("physics", "molecule-qubit-ok")
        # history: the very first active space once more, on the same integral-set objects and the same asmo object, after all other
        # orbital sets / active spaces have been processed
        if first_result is not None:
            inp, asmo, a_mem = first_result
            try:
                again = {"PySCFAOeIntSet.to_active_space_mo_int": py_set.to_active_space_mo_int(asmo),
                         "AOeIntArraySet.to_active_space_mo_int": mem_set.to_active_space_mo_int(asmo)}
                d = {k: set_diff(v, a_mem) for k, v in again.items()}
            except Exception as e:  # noqa: BLE001
                ctx.witness("pyscf-raises", f"active-space integrals raise {exc_name(e)} when asked again", inp, str(e)[:200])
                d = {}
            ctx.evaluations += len(d)
            for k, v in d.items():
                if v > TOL:
                    ctx.witness("pyscf-vs-memory", "active-space integrals change when the same active space is reduced again after other "
                                "orbital sets / active spaces were processed with the same integral-set object", inp,
                                {"entry_point": k, "max_diff": v})
        ctx.count("pyscf", name)


# ---------------------------------------------------------------------------
def gen(ctx: Ctx):
    from translate import c14gen

    with ctx.timed("translate"):
        text, n, problems = c14gen.generate()
        ctx.write_generated("C14Src", text)
        ctx.generated_entries += n
        ctx.extra["translator_unparsed"] = [f"{a}: {b}" for a, b in problems]
        return n


def replay_corpus(ctx: Ctx):
    d = os.path.join(VERIF, "corpus", "C14")
    if not os.path.isdir(d):
        return
    from quri_parts.chem.mol import get_core_and_active_orbital_indices

    reqs, reals = [], []
    for f in sorted(os.listdir(d)):
        if not f.endswith(".json"):
            continue
        c = json.load(open(os.path.join(d, f)))
        if c.get("kind") == "cai":
            a, o, e, act = c["n_active_ele"], c["n_active_orb"], c["n_electrons"], c["active_orbs_indices"]

            def fn():
                co, ac = get_core_and_active_orbital_indices(a, o, e, act)
                return f"ok {enc_ints(co)}|{enc_ints(ac)}"

            r = real_call(fn)
            reqs.append(f"cai {a} {o} {e} | {enc_act(act)}")
            reals.append(r)
            check_core_spec(ctx, a, o, e, act, r)
    for req, real, r in zip(reqs, reals, ctx.driver(reqs, entry=ENTRY)):
        ctx.traces += 1
        ctx.case(("corpus", req), sample=None)
        if r != real:
            ctx.disagree("corpus", {"request": req}, real, r)


def run(ctx: Ctx, replay=None) -> int:
    overlay_chem()
    ctx.rule = ("cases = (function, canonical input): index functions on (n_active_ele, n_active_orb, n_electrons, active list) incl. "
                "malformed input and an exhaustive small scope; tensor functions / pipelines on Gaussian-integer tensors (real output vs "
                "Lean model output compared as strings of integers, exceptions by class name); distinct = distinct canonical keys; "
                "oracle validation of the physics statement (matrix elements / spectra, tolerance 1e-8 relative) counted in evaluations only")
    ctx.trusted = TRUSTED
    ctx.assumptions = [
        "spin orbital P = 2p + s, s = 0 alpha; documented convention g[p,q,r,s] = (ps|qr) (OpenFermion ordering)",
        "AO two-electron tensors have the symmetry A[w,x,y,z] = A[y,z,w,x] (real orbitals) — hypothesis of ao2mo_2e_spec_partial",
        "index lists passed to the tensor formulas are in range (negative wrap-around and IndexError are modelled in activeSpaceSpatialIdx only)",
        "determinant energy = Slater–Condon diagonal rule (Model.detEnergy), validated against the Fock-space oracle every run",
        "`2 * x` is modelled as `x + x`, `1 * x` as `x` (exact in any ring; validated bit-exactly on Gaussian integers)",
    ]
    msg = slater.self_test(__import__("random").Random(ctx.seed))
    if msg:
        raise InfraError("oracle self test failed: " + msg)
    gen(ctx)
    ok = ctx.prove([PROPS, "QuriVerif.Driver.C14"], [PROPS])
    if ok:
        names = [f"QV.Props.C14.{n}" for _, n, _ in ctx.count_obligations([PROPS])]
        ctx.audit(names, [PROPS])
    else:
        ok_driver, _ = ctx.lake_build(["QuriVerif.Driver.C14"])
        if not ok_driver:
            raise InfraError("the C14 model/driver does not build: " + ctx.build_output_tail[-800:])
    global BOOST
    shape = ctx.driver(["shape"], entry=ENTRY)[0]
    ctx.extra["source_shape"] = shape
    if shape != "ok" or ctx.extra.get("translator_unparsed"):
        BOOST = 3
        ctx.notes.append(f"source text no longer has the shape the model implements ({shape}; unparsed: "
                         f"{ctx.extra.get('translator_unparsed')}): correspondence and oracle budgets multiplied by {BOOST}")
    with ctx.timed("correspond"):
        replay_corpus(ctx)
        k_index(ctx)
        run_k(ctx, [k_tensor(ctx), k_pipeline(ctx), k_det_rule(ctx)])
    with ctx.timed("oracle_validation"):
        t0 = time.time()
        broken = bool(ctx.failed_obligations or ctx.disagreements)
        scale = 3 if (broken or BOOST > 1) else 1
        p_active_space(ctx, scale)
        p_rotation_and_ao(ctx, scale)
        p_qubit(ctx, scale)
        p_pyscf(ctx)
        ctx.search_budget_s += round(time.time() - t0, 2)
    # replay readability: one witness per distinct (key, what) first
    seen = set()
    firsts, rest = [], []
    for w in ctx.witnesses:
        k = (w["key"], w["what"])
        (rest if k in seen else firsts).append(w)
        seen.add(k)
    ctx.witnesses = firsts + rest
    return ctx.finish()
