"""C14 — Electron-integral transformations preserve energies."""
from __future__ import annotations

import itertools
import json
import os
import sys
import time

sys.path.insert(0, os.path.dirname(os.path.dirname(os.path.abspath(__file__))))

from common import REPO, VERIF, Ctx, InfraError  # noqa: E402
from oracle import slater  # noqa: E402

LEAN_TARGETS = ["QuriVerif.Props.C14", "QuriVerif.Driver.C14"]
ENTRY = "DriverC14.lean"
PROPS = "QuriVerif.Props.C14"
GENMOD = "QuriVerif.Generated.C14Src"

# repaired defect (fixed: 7a862a3): with zero core electrons and an explicit active list without orbital 0 the core was not
# empty.  Its former witnesses stay in the case streams (and in corpus/C14) as regression inputs; a recurrence is a VIOLATION.

# multiplier of every case budget; raised when the source text no longer has the shape the model implements (translator)
BOOST = 1

TRUSTED = [
    "Lean 4.33 kernel; axioms audited ⊆ {propext, Classical.choice, Quot.sound}; Mathlib.Tactic.Ring (+ its imports) in Proof/C14.lean only",
    "numpy semantics of transpose / tensordot / @ / np.ix_ / trace / item assignment as restated in Model/C14.lean "
    "(validated every run: the real functions vs the model on Gaussian-integer tensors, bit-exact)",
    "the translator translate/c14gen.py (Python ast) is ADVISORY only: it reads transpose axes, tensordot operands/axes, np.ix_ argument "
    "patterns, trace axes, coefficients/signs, spin-index assignment patterns from the source text; a difference from Model.modelShape "
    "triples the correspondence / oracle budgets and is recorded, it is not an obligation (equivalent refactorings raise no alarm)",
    "correspondence harness harness/c14.py and the line-protocol driver Driver/C14.lean (parsing/printing)",
    "oracle/slater.py (independent Fock-space ladder operators, Slater–Condon diagonal rule, Pauli matrices; self-tested every run): "
    "the DEFINITION of determinant energy / spectrum the physics statement is validated against",
    "OpenFermion InteractionOperator / qubit transforms, PySCF integrals and CASCI: not modelled, validated per instance",
]

TOL = 1e-8


def overlay_chem():
    """`/repo/packages/chem/quri_parts/chem` has no `__init__.py` (namespace portion) while the installed wheel has one, so
    the import system would prefer the installed `quri_parts.chem`.  Bind `quri_parts.chem` to the working tree before anything
    imports it (same repair as harness/c13.py)."""
    import types

    if "quri_parts.chem" in sys.modules:
        m = sys.modules["quri_parts.chem"]
        if list(getattr(m, "__path__", [])) and all(str(p).startswith(REPO + "/") for p in m.__path__):
            return
        raise InfraError("quri_parts.chem was imported from outside the working tree before the C14 overlay fix")
    import quri_parts

    path = os.path.join(REPO, "packages", "chem", "quri_parts", "chem")
    if not os.path.isdir(path):
        raise InfraError(f"{path} missing")
    if os.path.exists(os.path.join(path, "__init__.py")):
        return
    mod = types.ModuleType("quri_parts.chem")
    mod.__path__ = [path]
    mod.__package__ = "quri_parts.chem"
    sys.modules["quri_parts.chem"] = mod
    quri_parts.chem = mod


def exc_name(e) -> str:
    return type(e).__name__


# ---------------------------------------------------------------------------
# encodings
# ---------------------------------------------------------------------------
def enc_g(z) -> str:
    z = complex(z)
    re, im = z.real, z.imag
    if re == int(re) and im == int(im) and abs(re) < 2**52 and abs(im) < 2**52:
        return f"{int(re)}:{int(im)}"
    return f"{re!r}:{im!r}"  # never matches a model output → reported as a disagreement


def enc_arr(a) -> str:
    import numpy as np

    return ",".join(enc_g(z) for z in np.asarray(a).reshape(-1))


def enc_ints(l) -> str:
    return ",".join(str(int(x)) for x in l)


def enc_act(act) -> str:
    if act is None:
        return "-"
    if len(act) == 0:
        return "[]"
    return enc_ints(act)


def rand_gint(rng, lim=3, real=False):
    return complex(rng.randint(-lim, lim), 0 if real else rng.randint(-lim, lim))


def rand_t(rng, shape, lim=3, real=False, even=False):
    import numpy as np

    size = 1
    for s in shape:
        size *= s
    mul = 2 if even else 1
    return np.array([mul * rand_gint(rng, lim, real) for _ in range(size)], dtype=np.complex128).reshape(shape)


def enc_set(s, dim=None) -> str:
    h = s.mo_1e_int.array
    g = s.mo_2e_int.array
    d = h.shape[0]
    return f"ok {d} | {enc_g(s.const)} | {enc_arr(h)} | {enc_arr(g)}"


class StubMO:
    """a MolecularOrbitals implementation that is not PySCF-backed"""

    def __init__(self, n_electron, spin, n_spatial_orb, mo_coeff):
        self.n_electron = n_electron
        self.spin = spin
        self.n_spatial_orb = n_spatial_orb
        self.mo_coeff = mo_coeff


class StubIdx:
    """only what get_active_space_spatial_integrals_from_mo_eint reads"""

    def __init__(self, core, act):
        self._c, self._a = core, act

    def get_core_and_active_orb(self):
        return self._c, self._a


def real_call(fn) -> str:
    try:
        return fn()
    except Exception as e:  # noqa: BLE001 – exceptions of the real code are outputs
        return "err " + exc_name(e)


# ---------------------------------------------------------------------------
# K1: index functions
# ---------------------------------------------------------------------------
def valid_for_spec(a, o, e, act) -> bool:
    """inputs on which the property speaks: a physically meaningful active space"""
    if a < 0 or o < 0 or e < a or (e - a) % 2:
        return False
    if act:
        if len(act) != o or len(set(act)) != len(act) or any(x < 0 for x in act):
            return False
    return True


def check_core_spec(ctx: Ctx, a, o, e, act, real: str):
    """the real result against the specification (independent): core = first (e−a)/2 non-active orbitals"""
    if not valid_for_spec(a, o, e, act):
        return
    core, active = slater.spec_core_and_active(a, o, e, act)
    want = f"ok {enc_ints(core)}|{enc_ints(active)}"
    ctx.count("core_spec", "checked")
    if real != want:
        ctx.witness("core-indices", "get_core_and_active_orbital_indices does not return (first (n_e − n_active_e)/2 non-active orbitals, active orbitals)",
                    {"n_active_ele": a, "n_active_orb": o, "n_electrons": e, "active_orbs_indices": act},
                    {"real": real, "specification": want})


def k_index(ctx: Ctx):
    from quri_parts.chem.mol import (ActiveSpace, ActiveSpaceMolecularOrbitals, cas, convert_to_spin_orbital_indices,
                                     get_core_and_active_orbital_indices)

    rng = ctx.rng
    reqs, reals, what = [], [], []

    def add_cai(a, o, e, act):
        def f():
            c, ac = get_core_and_active_orbital_indices(a, o, e, act)
            return f"ok {enc_ints(c)}|{enc_ints(ac)}"

        r = real_call(f)
        reqs.append(f"cai {a} {o} {e} | {enc_act(act)}")
        reals.append(r)
        what.append(("cai", a, o, e, None if act is None else tuple(act)))
        check_core_spec(ctx, a, o, e, None if act is None else list(act), r)
        ctx.count("cai_outcome", r.split(" ")[0] + ("" if r.startswith("ok") else ":" + r[4:]))
        ctx.count("cai_branch", "default" if not act else "explicit")

    # the witness of the repaired defect (regression input)
    add_cai(2, 2, 2, [1, 2])
    # exhaustive small scope
    e_max, o_max, m = (5, 3, 4) if ctx.quick() else (8, 4, 5)
    lists = [None, []]
    for k in range(1, o_max + 1):
        for sub in itertools.permutations(range(m), k):
            if ctx.quick() and list(sub) != sorted(sub) and rng.random() < 0.8:
                continue
            lists.append(list(sub))
    for a in range(0, e_max + 1):
        for e in range(a, e_max + 1):
            for o in range(0, o_max + 1):
                for act in lists:
                    if act and len(act) != o and rng.random() < (0.97 if ctx.quick() else 0.9):
                        continue
                    if ctx.quick() and rng.random() < 0.5:
                        continue
                    add_cai(a, o, e, act)
    # random incl. malformed (negative counts, duplicates, negative / large indices, tuples)
    for _ in range(ctx.n(400, 6000) * BOOST):
        a, o, e = rng.randint(-3, 9), rng.randint(-1, 5), rng.randint(-2, 11)
        mode = rng.random()
        if mode < 0.2:
            act = None
        elif mode < 0.25:
            act = rng.choice([[], ()])
        else:
            ln = o if rng.random() < 0.8 else rng.randint(0, 5)
            act = [rng.randint(-2, 8) for _ in range(max(ln, 0))]
            if rng.random() < 0.6:
                act = sorted(set(act))
                while len(act) < ln:
                    act.append((act[-1] if act else 0) + rng.randint(1, 2))
            if rng.random() < 0.2:
                act = tuple(act)
        add_cai(a, o, e, act)
    # convert_to_spin_orbital_indices
    for _ in range(ctx.n(60, 600)):
        occ = [rng.randint(-2, 9) for _ in range(rng.randint(0, 5))]
        act = [rng.randint(-2, 9) for _ in range(rng.randint(0, 5))]
        so, sa = convert_to_spin_orbital_indices(occ, act)
        reqs.append(f"spinidx {enc_ints(occ)} | {enc_ints(act)}")
        reals.append(f"{enc_ints(so)}|{enc_ints(sa)}")
        what.append(("spinidx", tuple(occ), tuple(act)))
        # specification
        if list(so) != [2 * o + s for o in occ for s in (0, 1)] or list(sa) != [2 * o + s for o in act for s in (0, 1)]:
            ctx.witness("spin-indices", "convert_to_spin_orbital_indices is not o ↦ (2o, 2o+1)", {"occ": occ, "act": act}, reals[-1])
    # ActiveSpaceMolecularOrbitals: constructor checks, derived counts, get_core_and_active_orb, orb_type
    combos = []
    for _ in range(ctx.n(300, 5000) * BOOST):
        ne, sp, ns = rng.randint(0, 10), rng.randint(-2, 4), rng.randint(0, 7)
        ae, ao = rng.randint(-1, 10), rng.randint(0, 5)
        if rng.random() < 0.6:  # steer towards consistent ones
            k = rng.randint(0, 3)
            ao = rng.randint(1, 4)
            ae = rng.randint(0, 2 * ao)
            ne = 2 * k + ae
            sp = rng.choice([ae % 2, ae % 2, ae % 2 + 2, -(ae % 2)])
            ns = k + ao + rng.randint(0, 2)
        mode = rng.random()
        if mode < 0.4:
            act = None
        else:
            act = sorted(rng.sample(range(max(ns, ao, 1) + 1), min(ao, max(ns, ao, 1) + 1)))
            if rng.random() < 0.2:
                rng.shuffle(act)
            if rng.random() < 0.1:
                act = act[:-1]
        combos.append((ne, sp, ns, ae, ao, act))
    for ne, sp, ns, ae, ao, act in combos:
        qs = list(range(-1, ns + 2))

        def f():
            obj = ActiveSpaceMolecularOrbitals(StubMO(ne, sp, ns, None), cas(ae, ao, act) if rng.random() < 0.5 else ActiveSpace(ae, ao, act))

            def cao():
                c, ac = obj.get_core_and_active_orb()
                return f"ok {enc_ints(c)}|{enc_ints(ac)}"

            def ty(i):
                try:
                    return obj.orb_type(i).name
                except Exception as ex:  # noqa: BLE001
                    return exc_name(ex)

            if (ae - sp) % 2 == 0 and (obj.n_ele_alpha - obj.n_ele_beta != sp or obj.n_ele_alpha + obj.n_ele_beta != ae
                                       or 2 * obj.n_core_orb + ae != ne or obj.n_core_orb + ao + obj.n_vir_orb != ns):
                ctx.witness("asmo-counts", "ActiveSpaceMolecularOrbitals: electron / orbital book-keeping does not add up "
                            "(n_alpha − n_beta = spin, n_alpha + n_beta = n_active_ele, 2 n_core_orb + n_active_ele = n_electron, "
                            "n_core_orb + n_active_orb + n_vir_orb = n_spatial_orb)",
                            {"n_electron": ne, "spin": sp, "n_spatial_orb": ns, "n_active_ele": ae, "n_active_orb": ao},
                            {"n_ele_alpha": obj.n_ele_alpha, "n_ele_beta": obj.n_ele_beta, "n_core_orb": obj.n_core_orb, "n_vir_orb": obj.n_vir_orb})
            return (f"ok nce={obj.n_core_ele} na={obj.n_ele_alpha} nb={obj.n_ele_beta} nco={obj.n_core_orb} nvo={obj.n_vir_orb} "
                    f"cao={real_call(cao)} types={','.join(ty(i) for i in qs)}")

        r = real_call(f)
        reqs.append(f"asmo {ne} {sp} {ns} {ae} {ao} | {enc_act(act)} | {enc_ints(qs)}")
        reals.append(r)
        what.append(("asmo", ne, sp, ns, ae, ao, None if act is None else tuple(act)))
        ctx.count("asmo_outcome", "accepted" if r.startswith("ok") else r[4:])
    resp = ctx.driver(reqs, entry=ENTRY)
    for req, real, w, r in zip(reqs, reals, what, resp):
        ctx.traces += 1
        ctx.case(w, nontrivial=True, sample={"request": req, "real": real} if w[0] == "asmo" and real.startswith("ok") else None)
        if r == "bad-request":
            raise InfraError(f"driver rejected {req[:200]}")
        if r != real:
            ctx.disagree("index:" + w[0], {"request": req}, real, r)


# ---------------------------------------------------------------------------
# K2: tensor formulas on Gaussian integers (bit exact)
# ---------------------------------------------------------------------------
def k_tensor(ctx: Ctx):
    import numpy as np

    import quri_parts.chem.mol as M

    rng = ctx.rng
    reqs, reals, what = [], [], []

    def add(req, real, w):
        reqs.append(req)
        reals.append(real)
        what.append(w)

    sizes2 = [1, 2, 2, 3, 3] if ctx.quick() else [1, 2, 2, 3, 3, 3, 4]
    N = ctx.n(36, 200) * BOOST
    for it in range(N):
        n = rng.choice(sizes2)
        real_only = rng.random() < 0.2
        C = rand_t(rng, (n, n), 2, real_only)
        h = rand_t(rng, (n, n), 3, real_only)
        g = rand_t(rng, (n, n, n, n), 3, real_only)
        # AO → MO
        add(f"ao2mo1 {n} | {enc_arr(C)} | {enc_arr(h)}",
            real_call(lambda: "ok " + enc_arr(M.AO1eIntArray(h).to_spatial_mo1int(C).array)), ("ao2mo1", n, it))
        add(f"ao2mo2 {n} | {enc_arr(C)} | {enc_arr(g)}",
            real_call(lambda: "ok " + enc_arr(M.AO2eIntArray(g).to_spatial_mo2int(C).array)), ("ao2mo2", n, it))
        # spin expansion: matching and non-matching n_spin_orb
        for nso in {2 * n, rng.randint(0, 2 * n + 3)}:
            if nso > 6 and ctx.quick():
                continue
            add(f"spin1 {nso} {n} | {enc_arr(h)}",
                real_call(lambda: "ok " + enc_arr(M.spatial_mo_1e_int_to_spin_mo_1e_int(nso, h))), ("spin1", nso, n, it))
            if nso <= 6 or rng.random() < 0.3:
                add(f"spin2 {nso} {n} | {enc_arr(g)}",
                    real_call(lambda: "ok " + enc_arr(M.spatial_mo_2e_int_to_spin_mo_2e_int(nso, g))), ("spin2", nso, n, it))
        # effective core energy / 1e / 2e with arbitrary (even overlapping, repeated, unsorted) in-range index lists
        for _ in range(3):
            core = [rng.randrange(n) for _ in range(rng.randint(0, n))]
            act = [rng.randrange(n) for _ in range(rng.randint(0, n))]
            if rng.random() < 0.6:
                perm = list(range(n))
                rng.shuffle(perm)
                k = rng.randint(0, n)
                core, act = sorted(perm[:k]), sorted(perm[k:k + rng.randint(0, n - k)])
            ec = rand_gint(rng, 5)
            add(f"effE {n} | {enc_g(ec)} | {enc_arr(h)} | {enc_arr(g)} | {enc_ints(core)}",
                real_call(lambda: "ok " + enc_g(M.get_effective_active_space_core_energy(ec, h, g, core))), ("effE", n, it, tuple(core)))
            add(f"eff1 {n} | {enc_arr(h)} | {enc_arr(g)} | {enc_ints(core)} | {enc_ints(act)}",
                real_call(lambda: "ok " + enc_arr(M.get_effective_active_space_1e_integrals(h, g, core, act))),
                ("eff1", n, it, tuple(core), tuple(act)))
            add(f"eff2 {n} | {enc_arr(g)} | {enc_ints(act)}",
                real_call(lambda: "ok " + enc_arr(M.get_effective_active_space_2e_integrals(g, act))), ("eff2", n, it, tuple(act)))
            # the composed function with raw (possibly negative / out-of-range) index lists
            if rng.random() < 0.5:
                core_i = [c - n if rng.random() < 0.2 else c for c in core]
                act_i = [a - n if rng.random() < 0.2 else a for a in act]
                if rng.random() < 0.25:
                    (core_i if rng.random() < 0.5 else act_i).append(rng.choice([n, n + 1, -n - 1]))
                sset = M.SpatialMOeIntSet(ec, M.SpatialMO1eIntArray(h), M.SpatialMO2eIntArray(g))
                add(f"asidx {n} | {enc_g(ec)} | {enc_arr(h)} | {enc_arr(g)} | {enc_ints(core_i)} | {enc_ints(act_i)}",
                    real_call(lambda: enc_set(M.get_active_space_spatial_integrals_from_mo_eint(StubIdx(core_i, act_i), sset))),
                    ("asidx", n, it, tuple(core_i), tuple(act_i)))
    return reqs, reals, what


# ---------------------------------------------------------------------------
# K3: pipelines through the public classes
# ---------------------------------------------------------------------------
def random_active_space(rng, n):
    """(n_electron, spin, cas args) accepted by ActiveSpaceMolecularOrbitals on n spatial orbitals"""
    for _ in range(1000):
        k = rng.randint(0, n - 1)
        ao = rng.randint(1, n - k)
        ae = rng.randint(0, 2 * ao)
        sp = rng.choice([ae % 2, ae % 2, ae % 2 + 2, ae % 2 - 2])
        nb = (ae - sp) // 2
        na = ae - nb
        if not (0 <= nb <= ao and 0 <= na <= ao):
            continue
        act = None
        if rng.random() < 0.55:
            act = sorted(rng.sample(range(n), ao))
            if rng.random() < 0.25:
                rng.shuffle(act)
        return 2 * k + ae, sp, (ae, ao, act)
    raise InfraError("no active space generated")


def k_pipeline(ctx: Ctx):
    import quri_parts.chem.mol as M

    rng = ctx.rng
    reqs, reals, what = [], [], []
    N = ctx.n(63, 350) * BOOST
    kinds = ["mo_spatial", "mo_spin", "to_spin", "ao_full_spatial", "ao_full_spin", "ao_as_spatial", "ao_as_spin"]
    for it in range(N):
        n = rng.choice([1, 2, 2, 3] if ctx.quick() else [1, 2, 2, 3, 3, 4])
        kind = kinds[it % len(kinds)]
        if n == 4 and kind in ("ao_full_spin",) and rng.random() < 0.7:
            n = 3
        real_only = rng.random() < 0.2
        C = rand_t(rng, (n, n), 2, real_only)
        h = rand_t(rng, (n, n), 3, real_only)
        g = rand_t(rng, (n, n, n, n), 2, real_only)
        const = rand_gint(rng, 5)
        ne, sp, (ae, ao, act) = random_active_space(rng, n)
        mo = StubMO(ne, sp, n, C)
        fnform = rng.random() < 0.5

        def f():
            asmo = M.ActiveSpaceMolecularOrbitals(mo, M.cas(ae, ao, act))
            sset = M.SpatialMOeIntSet(const, M.SpatialMO1eIntArray(h), M.SpatialMO2eIntArray(g))
            aoset = M.AOeIntArraySet(const, M.AO1eIntArray(h), M.AO2eIntArray(g))
            if kind == "mo_spatial":
                return enc_set(M.get_active_space_spatial_integrals_from_mo_eint(asmo, sset))
            if kind == "mo_spin":
                return enc_set(M.get_active_space_spin_integrals_from_mo_eint(asmo, sset))
            if kind == "to_spin":
                if fnform:
                    return enc_set(M.spatial_mo_eint_set_to_spin_mo_eint_set(sset))
                h1, g1 = M.to_spin_orbital_integrals(2 * n, h, g)
                return enc_set(M.SpinMOeIntSet(const, M.SpinMO1eIntArray(h1), M.SpinMO2eIntArray(g1)))
            if kind == "ao_full_spatial":
                return enc_set(aoset.to_full_space_spatial_mo_int(mo))
            if kind == "ao_full_spin":
                return enc_set(aoset.to_full_space_mo_int(mo))
            if kind == "ao_as_spatial":
                return enc_set(M.get_active_space_spatial_integrals_from_ao_eint(asmo, aoset) if fnform
                               else aoset.to_active_space_spatial_mo_int(asmo))
            return enc_set(M.get_active_space_spin_integrals_from_ao_eint(asmo, aoset) if fnform else aoset.to_active_space_mo_int(asmo))

        reqs.append(f"pipe {kind} {n} | {ne} {sp} {n} {ae} {ao} | {enc_act(act)} | {enc_arr(C)} | {enc_g(const)} | {enc_arr(h)} | {enc_arr(g)}")
        reals.append(real_call(f))
        what.append(("pipe", kind, n, it))
        ctx.count("pipeline", kind)
    # get_fermionic_hamiltonian (even entries: the division by two is exact)
    import quri_parts.openfermion.mol as OM

    for it in range(ctx.n(16, 100) * BOOST):
        n = rng.choice([2, 2, 3, 4])
        h = rand_t(rng, (n, n), 3, even=rng.random() < 0.5)
        g = rand_t(rng, (n, n, n, n), 3, even=True)
        const = rand_gint(rng, 5, real=True)

        def f():
            op = OM.get_fermionic_hamiltonian(M.SpinMOeIntSet(const, M.SpinMO1eIntArray(h), M.SpinMO2eIntArray(g)))
            return f"ok {op.one_body_tensor.shape[0]} | {enc_g(op.constant)} | {enc_arr(op.one_body_tensor)} | {enc_arr(op.two_body_tensor)}"

        reqs.append(f"ferm {n} | {enc_g(const)} | {enc_arr(h)} | {enc_arr(g)}")
        reals.append(real_call(f))
        what.append(("ferm", n, it))
    return reqs, reals, what


def k_det_rule(ctx: Ctx):
    """the Slater–Condon diagonal rule used in the Lean theorem `det_energy_preserved` (Model.detEnergy) against the
    independent Fock-space oracle, on arbitrary (unsymmetric) integer tensors"""
    import numpy as np

    rng = ctx.rng
    reqs, reals, what = [], [], []
    for it in range(ctx.n(10, 60)):
        n = rng.choice([2, 3, 4])
        one = rand_t(rng, (n, n), 3)
        two = rand_t(rng, (n, n, n, n), 3)
        c = rand_gint(rng, 4)
        H = slater.fock_matrix(c, one, two, n)
        for occ in rng.sample(range(1 << n), min(1 << n, 6)):
            D = [P for P in range(n) if (occ >> P) & 1]
            rng.shuffle(D)
            reqs.append(f"dete {n} | {enc_g(c)} | {enc_arr(one)} | {enc_arr(two)} | {enc_ints(D)}")
            reals.append("ok " + enc_g(np.round(H[occ, occ].real) + 1j * np.round(H[occ, occ].imag)))
            what.append(("dete", n, it, occ))
    return reqs, reals, what


def run_k(ctx: Ctx, parts):
    reqs, reals, what = [], [], []
    for a, b, c in parts:
        reqs += a
        reals += b
        what += c
    resp = ctx.driver(reqs, entry=ENTRY)
    for req, real, w, r in zip(reqs, reals, what, resp):
        ctx.traces += 1
        ctx.count("tensor_op", w[0] + (":err" if real.startswith("err") else ""))
        ctx.case(w, nontrivial=True, sample={"request": req[:160], "real": real[:120]} if w[0] in ("effE", "ferm") else None)
        if r == "bad-request":
            raise InfraError(f"driver rejected {req[:200]}")
        if r != real:
            # first differing position, to keep the replay readable
            i = next((k for k in range(min(len(r), len(real))) if r[k] != real[k]), min(len(r), len(real)))
            what_k = "det-rule(oracle vs model)" if w[0] == "dete" else "tensor:" + w[0]
            ctx.disagree(what_k, {"request": req}, real[:2000] + f"  [first difference at char {i}]", r[:2000])


# ---------------------------------------------------------------------------
# physics validation on the REAL code against the independent oracle (partial part of the property)
# ---------------------------------------------------------------------------
def maxdiff(a, b) -> float:
    import numpy as np

    a, b = np.asarray(a), np.asarray(b)
    if a.shape != b.shape:
        return float("inf")
    return float(np.max(np.abs(a - b))) if a.size else 0.0


class ShapeError(Exception):
    pass


def real_fermionic_tensors(spin_set, n_modes=None):
    """(constant, one-body, two-body) of the real get_fermionic_hamiltonian; ShapeError when the arrays are not the
    (n_modes,)*2 / (n_modes,)*4 tensors the Fock-space oracle needs"""
    import numpy as np

    import quri_parts.openfermion.mol as OM

    op = OM.get_fermionic_hamiltonian(spin_set)
    one, two = np.asarray(op.one_body_tensor), np.asarray(op.two_body_tensor)
    m = one.shape[0] if one.ndim == 2 else -1
    if one.ndim != 2 or one.shape != (m, m) or two.shape != (m, m, m, m) or (n_modes is not None and m != n_modes):
        raise ShapeError(f"one-body {one.shape}, two-body {two.shape}, expected {n_modes} spin orbitals")
    return complex(op.constant), one, two


def qubit_terms(op):
    names = {1: "X", 2: "Y", 3: "Z"}
    return [(complex(c), tuple((int(i), names[int(p)]) for i, p in label)) for label, c in op.items()]


def active_space_case(ctx: Ctx, n, const, h, chem, ne, sp, casargs, tag):
    """P1: reduced Hamiltonian vs the block of the full Hamiltonian on (specification core) ∪ active determinants."""
    import numpy as np

    import quri_parts.chem.mol as M

    ae, ao, act = casargs
    g = slater.phys_from_chem(chem)
    inp = {"n_spatial": n, "n_electron": ne, "spin": sp, "cas": [ae, ao, act], "const": const, "h": h.tolist(), "eri_chem": chem.tolist(),
           "source": tag}
    try:
        asmo = M.ActiveSpaceMolecularOrbitals(StubMO(ne, sp, n, np.eye(n)), M.cas(ae, ao, act))
        sset = M.SpatialMOeIntSet(const, M.SpatialMO1eIntArray(h.astype(complex)), M.SpatialMO2eIntArray(g.astype(complex)))
        red = M.get_active_space_spin_integrals_from_mo_eint(asmo, sset)
        full = M.spatial_mo_eint_set_to_spin_mo_eint_set(sset)
        c_r, one_r, two_r = real_fermionic_tensors(red, 2 * ao)
        c_f, one_f, two_f = real_fermionic_tensors(full, 2 * n)
    except ShapeError as e:
        ctx.witness("integral-shape", "spin-orbital integral arrays do not have 2·(number of spatial orbitals) spin orbitals", inp, str(e))
        return
    except Exception as e:  # noqa: BLE001
        ctx.witness("active-space-raises", f"active-space reduction raises {exc_name(e)} on a valid active space", inp, str(e)[:200])
        return
    H_full = slater.fock_matrix(const, slater.spin_one(h), slater.spin_two(g) / 2, 2 * n)  # oracle only
    H_full_real = slater.fock_matrix(c_f, one_f, two_f, 2 * n)
    scale = max(1.0, float(np.max(np.abs(H_full))))
    ctx.evaluations += 1
    if maxdiff(H_full, H_full_real) > TOL * scale:
        ctx.witness("full-space-hamiltonian", "full-space spin-orbital Hamiltonian (spatial→spin expansion + 1/2 assembly) differs from the "
                    "Fock-space oracle built from the spatial integrals", inp, {"max_abs_diff": maxdiff(H_full, H_full_real)})
        return
    H_red = slater.fock_matrix(c_r, one_r, two_r, 2 * ao)
    core, active = slater.spec_core_and_active(ae, ao, ne, act)
    emb = [slater.embed_det(core, active, S) for S in range(1 << (2 * ao))]
    idx = np.array([o for o, _ in emb])
    sg = np.array([s for _, s in emb], dtype=float)
    block = H_full[np.ix_(idx, idx)] * sg[:, None] * sg[None, :]
    d = np.abs(block - H_red)
    ctx.evaluations += d.size
    if float(d.max()) > TOL * scale:
        r, c = np.unravel_index(int(np.argmax(d)), d.shape)
        diag = np.abs(np.diag(block) - np.diag(H_red))
        S = int(np.argmax(diag)) if float(diag.max()) > TOL * scale else None
        ctx.witness("active-space-energy",
                    "reduced (active-space) Hamiltonian incl. effective core energy differs from the full Hamiltonian on determinants "
                    "compatible with the active space" + (" (determinant ENERGY differs)" if S is not None else " (off-diagonal element)"),
                    inp,
                    {"specification_core": core, "active": active,
                     "determinant_active_register_bits": S if S is not None else [int(r), int(c)],
                     "full": str(block[S, S] if S is not None else block[r, c]),
                     "reduced": str(H_red[S, S] if S is not None else H_red[r, c])})
    else:
        ctx.count("physics", "active-space-block-ok")


def p_active_space(ctx: Ctx, scale: int):
    import numpy as np

    rng = ctx.rng
    # regression input of the repaired defect (zero core electrons, orbital 0 not active)
    h = np.array([[-1.0, 0.2, 0.1], [0.2, -0.5, 0.3], [0.1, 0.3, 0.4]])
    chem = slater.random_eri_chem(__import__("random").Random(14), 3)
    active_space_case(ctx, 3, 0.5, h, chem, 2, 0, (2, 2, [1, 2]), "witness:zero-core")
    sizes = ([2, 3, 3, 3, 4] if ctx.quick() else [2, 3, 3, 4, 4]) * (ctx.n(8, 40) * scale)
    for n in sizes:
        h = slater.random_symmetric(rng, n)
        chem = slater.random_eri_chem(rng, n)
        ne, sp, casargs = random_active_space(rng, n)
        active_space_case(ctx, n, rng.uniform(-1, 1), h, chem, ne, sp, casargs, "random")
        ctx.count("active_space_n", str(n))


def p_rotation_and_ao(ctx: Ctx, scale: int):
    """P2: AO→MO against einsum in chemist notation; full-space spectra invariant under orbital rotations."""
    import numpy as np

    import quri_parts.chem.mol as M

    rng = ctx.rng
    for it in range(ctx.n(24, 160) * scale):
        n = rng.choice([2, 3, 3]) if it % 4 else 4
        h = slater.random_symmetric(rng, n)
        chem = slater.random_eri_chem(rng, n)
        g = slater.phys_from_chem(chem)
        const = rng.uniform(-1, 1)
        real_c = rng.random() < 0.3
        C = slater.random_unitary(rng, n, real=real_c)
        if rng.random() < 0.3:  # a non-unitary coefficient matrix: the contraction itself must still be right
            C = C @ np.diag([rng.uniform(0.5, 1.5) for _ in range(n)])
        inp = {"n": n, "h_ao": h.tolist(), "eri_ao_chem": chem.tolist(), "C_re": np.real(C).tolist(), "C_im": np.imag(C).tolist()}
        aoset = M.AOeIntArraySet(const, M.AO1eIntArray(h.astype(complex)), M.AO2eIntArray(g.astype(complex)))
        try:
            sp_set = aoset.to_full_space_spatial_mo_int(StubMO(n, 0, n, C))
            h_mo, g_mo = sp_set.mo_1e_int.array, sp_set.mo_2e_int.array
        except Exception as e:  # noqa: BLE001
            ctx.witness("ao2mo-raises", f"AO→MO raises {exc_name(e)}", inp)
            continue
        want_h = slater.mo_one(h, C)
        want_g = slater.phys_from_chem(slater.mo_two_chem(chem, C))
        ctx.evaluations += 2
        if maxdiff(h_mo, want_h) > TOL or maxdiff(g_mo, want_g) > TOL:
            ctx.witness("ao2mo", "AO→MO integrals differ from Σ C*C(pq|rs)C*C in the documented physicist ordering g[p,q,r,s]=(ps|qr)",
                        inp, {"diff_1e": maxdiff(h_mo, want_h), "diff_2e": maxdiff(g_mo, want_g)})
            continue
        ctx.count("physics", "ao2mo-ok")
        if n > 3 or np.max(np.abs(C.conj().T @ C - np.eye(n))) > 1e-9:
            continue
        # spectra of the qubit/fermionic full-space Hamiltonian for C and for C·U
        U = slater.random_unitary(rng, n, real=real_c)
        specs = []
        for CC in (C, C @ U):
            try:
                full = aoset.to_full_space_mo_int(StubMO(n, 0, n, CC))
                c_f, one_f, two_f = real_fermionic_tensors(full, 2 * n)
            except Exception as e:  # noqa: BLE001
                ctx.witness("integral-shape" if isinstance(e, ShapeError) else "ao2mo-raises",
                            f"full-space spin integrals from AO integrals: {exc_name(e)}", inp, str(e)[:200])
                break
            H = slater.fock_matrix(c_f, one_f, two_f, 2 * n)
            if slater.hermiticity_defect(H) > TOL:
                ctx.witness("hermiticity", "full-space Hamiltonian is not Hermitian for a unitary coefficient matrix", inp)
                break
            specs.append([slater.sector_spectrum(H, slater.sector_states(2 * n, N)) for N in range(2 * n + 1)])
        if len(specs) == 2:
            worst = max(maxdiff(a, b) for a, b in zip(*specs))
            ctx.evaluations += 2 * n + 1
            if worst > 1e-7:
                ctx.witness("orbital-rotation", "full-space spectrum changes under a rotation of the molecular orbitals", inp, {"max_diff": worst})
            else:
                ctx.count("physics", "rotation-invariant")


def p_qubit(ctx: Ctx, scale: int):
    """P3: qubit Hamiltonian vs fermionic Hamiltonian (JW / BK element-wise through the state mapper, SCBK per sector)."""
    import numpy as np

    import quri_parts.chem.mol as M
    import quri_parts.openfermion.mol as OM
    import quri_parts.openfermion.transforms as T

    rng = ctx.rng
    for it in range(ctx.n(18, 120) * scale):
        n = rng.choice([2, 2, 3])
        h = slater.random_symmetric(rng, n)
        chem = slater.random_eri_chem(rng, n)
        g = slater.phys_from_chem(chem)
        const = rng.uniform(-1, 1)
        H_f = slater.fock_matrix(const, slater.spin_one(h), slater.spin_two(g) / 2, 2 * n)
        sset = M.SpatialMOeIntSet(const, M.SpatialMO1eIntArray(h.astype(complex)), M.SpatialMO2eIntArray(g.astype(complex)))
        spin_set = M.spatial_mo_eint_set_to_spin_mo_eint_set(sset)
        if spin_set.mo_1e_int.array.shape != (2 * n, 2 * n) or spin_set.mo_2e_int.array.shape != (2 * n,) * 4:
            ctx.witness("integral-shape", "spin-orbital integral arrays do not have 2·(number of spatial orbitals) spin orbitals",
                        {"n_spatial": n}, str(spin_set.mo_1e_int.array.shape))
            continue
        kind = ["jw", "bk", "scbk"][it % 3]
        na = rng.randint(0, n)
        nb = rng.randint(0, n)
        if kind == "scbk" and (na + nb == 0 or na + nb == 2 * n):
            na, nb = 1, min(1, n)
        nele, sz = na + nb, (na - nb) / 2
        inp = {"n_spatial": n, "mapping": kind, "n_electrons": nele, "sz": sz, "const": const, "h": h.tolist(), "eri_chem": chem.tolist()}
        try:
            fac = {"jw": T.jordan_wigner, "bk": T.bravyi_kitaev, "scbk": T.symmetry_conserving_bravyi_kitaev}[kind]
            if kind == "jw" and rng.random() < 0.5:
                op, mapping = OM.get_qubit_mapped_hamiltonian(M.cas(nele, n), spin_set)
            else:
                op, mapping = OM.get_qubit_mapped_hamiltonian(M.cas(nele, n), spin_set, sz, fac)
            nq = mapping.n_qubits
            H_q = slater.pauli_matrix(nq, qubit_terms(op))
        except Exception as e:  # noqa: BLE001
            ctx.witness("qubit-hamiltonian-raises", f"get_qubit_mapped_hamiltonian raises {exc_name(e)}", inp, str(e)[:200])
            continue
        scale_h = max(1.0, float(np.max(np.abs(H_f))))
        if nq != (2 * n if kind in ("jw", "bk") else 2 * n - 2):
            ctx.witness("qubit-hamiltonian", "qubit Hamiltonian acts on the wrong number of qubits", inp, {"n_qubits": nq})
            continue
        if kind in ("jw", "bk"):
            sm = fac(2 * n).state_mapper  # the unrestricted state mapper (no fermion-number check)
            bits = np.array([sm([P for P in range(2 * n) if (occ >> P) & 1]).bits for occ in range(1 << (2 * n))])
            d = float(np.max(np.abs(H_q[np.ix_(bits, bits)] - H_f)))
            ctx.evaluations += H_f.size
            if kind == "jw" and list(bits) != list(range(1 << (2 * n))):
                ctx.witness("qubit-hamiltonian", "JW state mapper is not the identity on occupation bitmasks", inp)
            elif d > TOL * scale_h:
                ctx.witness("qubit-hamiltonian", "qubit Hamiltonian matrix elements between mapped determinants differ from the fermionic "
                            "Hamiltonian", inp, {"max_abs_diff": d})
            else:
                ctx.count("physics", f"qubit-{kind}-ok")
        else:
            st = slater.sector_states_sz(2 * n, na, nb)
            want = slater.sector_spectrum(H_f, st)
            got = np.linalg.eigvalsh((H_q + H_q.conj().T) / 2)
            ctx.evaluations += len(st)
            # the SCBK register has 2^(2n−2) states; the (N, Sz) sector is embedded in it: every sector eigenvalue must appear
            miss = [float(w) for w in want if np.min(np.abs(got - w)) > 1e-7 * scale_h]
            if miss:
                ctx.witness("qubit-hamiltonian", "SCBK qubit Hamiltonian misses eigenvalues of the (N, Sz) sector of the fermionic Hamiltonian",
                            inp, {"missing": miss[:4]})
            else:
                ctx.count("physics", "qubit-scbk-ok")


MOLECULES = {
    "H2": ("H 0 0 0; H 0 0 0.74", [None, (2, 2, None), (2, 2, [0, 1])]),
    "LiH": ("Li 0 0 0; H 0 0 1.6", [(2, 2, None), (2, 3, [1, 2, 5]), (4, 3, None), (2, 2, [2, 5]), (4, 3, [1, 2, 3])]),
    "H2O": ("O 0 0 0; H 0 0.757 0.587; H 0 -0.757 0.587", [(4, 4, None), (2, 2, None), (4, 3, [3, 4, 6]), (6, 4, [2, 3, 4, 5])]),
}


def p_pyscf(ctx: Ctx):
    """P4: real molecules: PySCF-backed path vs in-memory path; HF energy and CASCI energy as anchors."""
    import numpy as np

    try:
        from pyscf import gto, mcscf, scf
    except Exception as e:  # noqa: BLE001
        ctx.notes.append(f"pyscf not importable ({exc_name(e)}): molecule checks skipped")
        ctx.count("pyscf", "unavailable")
        return
    import quri_parts.chem.mol as M
    import quri_parts.pyscf.mol as PM

    names = ["H2", "LiH"] if ctx.quick() else ["H2", "LiH", "H2O"]
    for name in names:
        geom, spaces = MOLECULES[name]
        mol = gto.M(atom=geom, basis="sto-3g", verbose=0)
        mf = scf.RHF(mol)
        mf.conv_tol = 1e-12
        mf.run()
        C = mf.mo_coeff
        mo = PM.PySCFMolecularOrbitals(mol, C)
        n = mo.n_spatial_orb
        py_set = PM.get_ao_eint_set(mo)
        mem_set = PM.get_ao_eint_set(mo, store_array_on_memory=True)
        inp0 = {"molecule": name, "basis": "sto-3g", "geometry": geom}
        # full space: both paths, spatial and spin
        fs_py, fs_mem = py_set.to_full_space_spatial_mo_int(mo), mem_set.to_full_space_spatial_mo_int(mo)
        d = max(maxdiff(fs_py.mo_1e_int.array, fs_mem.mo_1e_int.array), maxdiff(fs_py.mo_2e_int.array, fs_mem.mo_2e_int.array),
                abs(fs_py.const - fs_mem.const))
        ctx.evaluations += 1
        if d > TOL:
            ctx.witness("pyscf-vs-memory", "full-space spatial MO integrals of the PySCF-backed and the in-memory path differ", inp0, {"max_diff": d})
        if n <= 6:
            sp_py, sp_mem = py_set.to_full_space_mo_int(mo), mem_set.to_full_space_mo_int(mo)
            d = max(maxdiff(sp_py.mo_1e_int.array, sp_mem.mo_1e_int.array), maxdiff(sp_py.mo_2e_int.array, sp_mem.mo_2e_int.array))
            ctx.evaluations += 1
            if d > TOL:
                ctx.witness("pyscf-vs-memory", "full-space spin MO integrals of the two paths differ", inp0, {"max_diff": d})
            as0, sp_mole = PM.get_spin_mo_integrals_from_mole(mol, C)
            d = max(maxdiff(sp_mole.mo_1e_int.array, sp_mem.mo_1e_int.array), maxdiff(sp_mole.mo_2e_int.array, sp_mem.mo_2e_int.array))
            if d > TOL or (as0.n_active_ele, as0.n_active_orb, as0.active_orbs_indices) != (mol.nelectron, n, None):
                ctx.witness("pyscf-vs-memory", "get_spin_mo_integrals_from_mole without an active space is not the full space", inp0,
                            {"max_diff": d, "active_space": str(as0)})
        # HF determinant energy from the real in-memory spatial integrals (oracle Slater–Condon) = SCF energy
        h_mo = np.real(fs_mem.mo_1e_int.array)
        chem_mo = slater.chem_from_phys(np.real(fs_mem.mo_2e_int.array))
        nocc = mol.nelectron // 2
        e_hf = slater.det_energy_spatial(fs_mem.const, h_mo, chem_mo, range(nocc), range(nocc)).real
        ctx.evaluations += 1
        if abs(e_hf - mf.e_tot) > 1e-7:
            ctx.witness("hf-anchor", "Hartree–Fock determinant energy from the MO integrals differs from the SCF energy", inp0,
                        {"from_integrals": e_hf, "scf": float(mf.e_tot)})
        else:
            ctx.count("physics", "hf-anchor-ok")
        for space in spaces:
            if space is None:
                continue
            ae, ao, act = space
            inp = {**inp0, "cas": [ae, ao, act]}
            try:
                asmo = M.ActiveSpaceMolecularOrbitals(mo, M.cas(ae, ao, act))
                a_py = py_set.to_active_space_mo_int(asmo)
                a_mem = mem_set.to_active_space_mo_int(asmo)
                _, a_mole = PM.get_spin_mo_integrals_from_mole(mol, C, M.cas(ae, ao, act))
            except Exception as e:  # noqa: BLE001
                ctx.witness("pyscf-raises", f"active-space integrals raise {exc_name(e)}", inp, str(e)[:200])
                continue
            d = max(maxdiff(a_py.mo_1e_int.array, a_mem.mo_1e_int.array), maxdiff(a_py.mo_2e_int.array, a_mem.mo_2e_int.array),
                    abs(a_py.const - a_mem.const), maxdiff(a_py.mo_2e_int.array, a_mole.mo_2e_int.array), abs(a_py.const - a_mole.const))
            ctx.evaluations += 1
            if d > TOL:
                ctx.witness("pyscf-vs-memory",
                            "active-space integrals of the PySCF-backed path (CASCI h1eff/h2eff) and the in-memory path differ", inp,
                            {"max_diff": d, "const_pyscf": str(a_py.const), "const_memory": str(a_mem.const)})
                continue
            ctx.count("physics", "pyscf-vs-memory-ok")
            # the reduced Hamiltonian: HF determinant energy and CASCI ground state energy
            try:
                c_r, one_r, two_r = real_fermionic_tensors(a_mem, 2 * ao)
            except ShapeError as e:
                ctx.witness("integral-shape", "active-space spin integrals do not have 2·n_active_orb spin orbitals", inp, str(e))
                continue
            H_red = slater.fock_matrix(c_r, one_r, two_r, 2 * ao)
            na = nb = ae // 2
            core, active = slater.spec_core_and_active(ae, ao, mol.nelectron, act)
            hf_bits = 0
            for u, orb in enumerate(active):
                if orb < nocc:
                    hf_bits |= 0b11 << (2 * u)
            ctx.evaluations += 2
            if bin(hf_bits).count("1") == ae and sorted(core + [o for o in active if o < nocc]) == list(range(nocc)):
                if abs(H_red[hf_bits, hf_bits].real - mf.e_tot) > 1e-7:
                    ctx.witness("hf-anchor", "HF determinant energy under the reduced Hamiltonian differs from the SCF energy", inp,
                                {"reduced": float(H_red[hf_bits, hf_bits].real), "scf": float(mf.e_tot)})
                else:
                    ctx.count("physics", "hf-anchor-reduced-ok")
            mc = mcscf.CASCI(mf, ao, ae)
            mc.verbose = 0
            mo_sorted = mc.sort_mo(act, C, base=0) if act else C
            e_cas = mc.kernel(mo_sorted)[0]
            st = slater.sector_states_sz(2 * ao, na, nb)
            e_min = float(slater.sector_spectrum(H_red, st)[0])
            if abs(e_min - e_cas) > 1e-7:
                ctx.witness("casci-anchor", "lowest eigenvalue of the reduced Hamiltonian in the (N_alpha, N_beta) sector differs from PySCF CASCI",
                            inp, {"reduced": e_min, "casci": float(e_cas)})
            else:
                ctx.count("physics", "casci-anchor-ok")
            # and the qubit Hamiltonian of the molecule (JW): same sector ground state
            import quri_parts.openfermion.mol as OM

            if ao <= 3:
                op, mapping = OM.get_qubit_mapped_hamiltonian(M.cas(ae, ao, act), a_mem)
                H_q = slater.pauli_matrix(mapping.n_qubits, qubit_terms(op))
                if maxdiff(H_q, H_red) > TOL * max(1.0, float(np.max(np.abs(H_red)))):
                    ctx.witness("qubit-hamiltonian", "JW qubit Hamiltonian of the molecule differs from the fermionic one", inp)
                else:
                    ctx.count("physics", "molecule-qubit-ok")
        ctx.count("pyscf", name)


# ---------------------------------------------------------------------------
def gen(ctx: Ctx):
    from translate import c14gen

    with ctx.timed("translate"):
        text, n, problems = c14gen.generate()
        ctx.write_generated("C14Src", text)
        ctx.generated_entries += n
        ctx.extra["translator_unparsed"] = [f"{a}: {b}" for a, b in problems]
        return n


def replay_corpus(ctx: Ctx):
    d = os.path.join(VERIF, "corpus", "C14")
    if not os.path.isdir(d):
        return
    from quri_parts.chem.mol import get_core_and_active_orbital_indices

    reqs, reals = [], []
    for f in sorted(os.listdir(d)):
        if not f.endswith(".json"):
            continue
        c = json.load(open(os.path.join(d, f)))
        if c.get("kind") == "cai":
            a, o, e, act = c["n_active_ele"], c["n_active_orb"], c["n_electrons"], c["active_orbs_indices"]

            def fn():
                co, ac = get_core_and_active_orbital_indices(a, o, e, act)
                return f"ok {enc_ints(co)}|{enc_ints(ac)}"

            r = real_call(fn)
            reqs.append(f"cai {a} {o} {e} | {enc_act(act)}")
            reals.append(r)
            check_core_spec(ctx, a, o, e, act, r)
    for req, real, r in zip(reqs, reals, ctx.driver(reqs, entry=ENTRY)):
        ctx.traces += 1
        ctx.case(("corpus", req), sample=None)
        if r != real:
            ctx.disagree("corpus", {"request": req}, real, r)


def run(ctx: Ctx, replay=None) -> int:
    overlay_chem()
    ctx.rule = ("cases = (function, canonical input): index functions on (n_active_ele, n_active_orb, n_electrons, active list) incl. "
                "malformed input and an exhaustive small scope; tensor functions / pipelines on Gaussian-integer tensors (real output vs "
                "Lean model output compared as strings of integers, exceptions by class name); distinct = distinct canonical keys; "
                "oracle validation of the physics statement (matrix elements / spectra, tolerance 1e-8 relative) counted in evaluations only")
    ctx.trusted = TRUSTED
    ctx.assumptions = [
        "spin orbital P = 2p + s, s = 0 alpha; documented convention g[p,q,r,s] = (ps|qr) (OpenFermion ordering)",
        "AO two-electron tensors have the symmetry A[w,x,y,z] = A[y,z,w,x] (real orbitals) — hypothesis of ao2mo_2e_spec_partial",
        "index lists passed to the tensor formulas are in range (negative wrap-around and IndexError are modelled in activeSpaceSpatialIdx only)",
        "determinant energy = Slater–Condon diagonal rule (Model.detEnergy), validated against the Fock-space oracle every run",
        "`2 * x` is modelled as `x + x`, `1 * x` as `x` (exact in any ring; validated bit-exactly on Gaussian integers)",
    ]
    msg = slater.self_test(__import__("random").Random(ctx.seed))
    if msg:
        raise InfraError("oracle self test failed: " + msg)
    gen(ctx)
    ok = ctx.prove([PROPS, "QuriVerif.Driver.C14"], [PROPS])
    if ok:
        names = [f"QV.Props.C14.{n}" for _, n, _ in ctx.count_obligations([PROPS])]
        ctx.audit(names, [PROPS])
    else:
        ok_driver, _ = ctx.lake_build(["QuriVerif.Driver.C14"])
        if not ok_driver:
            raise InfraError("the C14 model/driver does not build: " + ctx.build_output_tail[-800:])
    global BOOST
    shape = ctx.driver(["shape"], entry=ENTRY)[0]
    ctx.extra["source_shape"] = shape
    if shape != "ok" or ctx.extra.get("translator_unparsed"):
        BOOST = 3
        ctx.notes.append(f"source text no longer has the shape the model implements ({shape}; unparsed: "
                         f"{ctx.extra.get('translator_unparsed')}): correspondence and oracle budgets multiplied by {BOOST}")
    with ctx.timed("correspond"):
        replay_corpus(ctx)
        k_index(ctx)
        run_k(ctx, [k_tensor(ctx), k_pipeline(ctx), k_det_rule(ctx)])
    with ctx.timed("oracle_validation"):
        t0 = time.time()
        broken = bool(ctx.failed_obligations or ctx.disagreements)
        scale = 3 if (broken or BOOST > 1) else 1
        p_active_space(ctx, scale)
        p_rotation_and_ao(ctx, scale)
        p_qubit(ctx, scale)
        p_pyscf(ctx)
        ctx.search_budget_s += round(time.time() - t0, 2)
    # replay readability: one witness per distinct (key, what) first
    seen = set()
    firsts, rest = [], []
    for w in ctx.witnesses:
        k = (w["key"], w["what"])
        (rest if k in seen else firsts).append(w)
        seen.add(k)
    ctx.witnesses = firsts + rest
    return ctx.finish()
