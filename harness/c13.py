"""C13 — Fermion-to-qubit mappings treat operators and states consistently."""
from __future__ import annotations

import itertools
import json
import os
import sys
import time

sys.path.insert(0, os.path.dirname(os.path.dirname(os.path.abspath(__file__))))

from common import VERIF, Ctx, InfraError  # noqa: E402
from oracle import fock  # noqa: E402

LEAN_TARGETS = ["QuriVerif.Props.C13", "QuriVerif.Props.C13Lift", "QuriVerif.Generated.C13JW", "QuriVerif.Driver.C13"]
ENTRY = "DriverC13.lean"
PROPS = "QuriVerif.Props.C13"
GENMOD = "QuriVerif.Generated.C13Instances"

# finding on the unchanged tree (see known_findings.txt / final report)
KEY_SCBK2 = "scbk-2-spin-orbitals-UnboundLocalError"

TRUSTED = [
    "Lean 4.33 kernel incl. `decide +kernel` on the generated finite instance table; axioms audited ⊆ {propext, Classical.choice, Quot.sound}",
    "OpenFermion (jordan_wigner, bravyi_kitaev, bravyi_kitaev_tree, reorder, edit_hamiltonian_for_spin, remove_indices): the mapped "
    "operators are an INPUT of the model; validated per instance against oracle/fock.py (independent Fock-space ladder operators, "
    "Pauli action on bitstrings) for every sector of every size in scope",
    "correspondence harness harness/c13.py and the line-protocol driver Driver/C13.lean (parsing/printing)",
    "CPython int/float semantics of `bin`, slicing, `**`, `int()` as restated in Model/C13.lean comments",
    "oracle/fock.py conventions: |occ> = a†_{i1} a†_{i2}…|vac> ascending; SCBK sign σ(occ) = (−1)^{#(down before up) pairs}",
]

KINDS = ("jw", "bk", "scbk")


# ---------------------------------------------------------------------------
# real code access
# ---------------------------------------------------------------------------
def _real():
    import quri_parts.openfermion.transforms as T

    return T


def factory(kind):
    T = _real()
    return {"jw": T.jordan_wigner, "bk": T.bravyi_kitaev, "scbk": T.symmetry_conserving_bravyi_kitaev}[kind]


def mapping_class(kind):
    T = _real()
    return {"jw": T.OpenFermionJordanWigner, "bk": T.OpenFermionBravyiKitaev,
            "scbk": T.OpenFermionSymmetryConservingBravyiKitaev}[kind]


def sz_of(sz2):
    return None if sz2 is None else sz2 / 2


def real_number_ops(kind, n, nf, sz2):
    """the mapped operators of 1 − 2 n_i as the real operator mapper produces them (the model's input).
    Obtained from an instance whose __init__ is bypassed, so that they are available even when the
    constructor raises later (e.g. inside `inverse`).  Returns list of ops or None."""
    from openfermion.ops import FermionOperator

    cls = mapping_class(kind)
    obj = cls.__new__(cls)
    obj._n_spin_orbitals, obj._n_fermions, obj._sz = n, nf, sz_of(sz2)
    try:
        om = obj.of_operator_mapper
        return [om(1 - 2 * FermionOperator(f"{i}^ {i}")) for i in range(n)]
    except Exception:  # noqa: BLE001 – the model does not look at the ops in that case
        return None


def enc_coef(c) -> int:
    c = complex(c)
    if c.imag == 0 and float(c.real).is_integer() and abs(c.real) < 1000:
        return int(c.real)
    return 7  # anything that is not ±1 takes the assertion branch


def enc_ops(ops) -> str:
    if ops is None:
        return ""
    out = []
    for op in ops:
        terms = []
        for label, coef in op.items():
            lab = ",".join(f"{i}.{int(p)}" for i, p in sorted(label))
            terms.append(f"{enc_coef(coef)}@{lab}")
        out.append("&".join(terms))
    return ";".join(out)


def exc_name(e) -> str:
    return type(e).__name__


def rows_of(mat) -> str:
    return ",".join(f"{r.binary}:{len(r)}" for r in mat)


def opt(x) -> str:
    return "-" if x is None else str(x)


# ---------------------------------------------------------------------------
# K1: GF(2) layer
# ---------------------------------------------------------------------------
def rand_rows(rng, nrows, width, p=0.5):
    return [[1 if rng.random() < p else 0 for _ in range(width)] for _ in range(nrows)]


def rand_invertible(rng, n):
    rows = [[1 if i == j else 0 for j in range(n)] for i in range(n)]
    for _ in range(3 * n + rng.randint(0, 6)):
        if n < 2:
            break
        i, j = rng.sample(range(n), 2)
        if rng.random() < 0.3:
            rows[i], rows[j] = rows[j], rows[i]
        else:
            rows[i] = [a ^ b for a, b in zip(rows[i], rows[j])]
    return rows


def enc_rows(rows) -> str:
    if not rows:
        return "-"
    return ",".join(f"{sum(b << k for k, b in enumerate(r))}:{len(r)}" for r in rows)


def safe_make(make):
    """build a real closure; if building raises, every later call reports that exception (an output, not an infra error)"""
    try:
        return make()
    except Exception as e:  # noqa: BLE001
        def raiser(*a, _e=e):
            raise _e

        return raiser


def real_gf2(fn):
    try:
        return "ok " + fn()
    except Exception as e:  # noqa: BLE001
        return "err " + exc_name(e)


def gf2_rank(rows_int, width):
    rows = list(rows_int)
    rank = 0
    for c in range(width):
        p = next((i for i in range(rank, len(rows)) if (rows[i] >> c) & 1), None)
        if p is None:
            continue
        rows[rank], rows[p] = rows[p], rows[rank]
        for i in range(len(rows)):
            if i != rank and (rows[i] >> c) & 1:
                rows[i] ^= rows[rank]
        rank += 1
    return rank


def k_gf2(ctx: Ctx):
    from quri_parts.core.utils.binary_field import BinaryArray, BinaryMatrix, hstack, inverse

    rng = ctx.rng
    reqs, reals, meta = [], [], []

    def add(req, real, m):
        reqs.append(req)
        reals.append(real)
        meta.append(m)

    N = ctx.n(150, 2500)
    # BinaryArray: construction and the three binary operators
    for _ in range(N):
        la = rng.randint(0, 9)
        lb = la if rng.random() < 0.8 else rng.randint(0, 9)
        a = [rng.random() < 0.5 for _ in range(la)]
        b = [rng.randint(0, 1) for _ in range(lb)]
        A, B = BinaryArray(a), BinaryArray(b)
        sa, sb = f"{A.binary}:{len(A)}", f"{B.binary}:{len(B)}"
        add("gf2 pack | " + ("".join("1" if x else "0" for x in a) or "-"), f"{A.binary}:{len(A)}", ("pack", a))
        add(f"gf2 dot | {sa} {sb}", real_gf2(lambda: str(A @ B)), ("dot", a, b))
        add(f"gf2 add | {sa} {sb}", real_gf2(lambda: (lambda r: f"{r.binary}:{len(r)}")(A + B)), ("add", a, b))
        add(f"gf2 mul | {sa} {sb}", real_gf2(lambda: (lambda r: f"{r.binary}:{len(r)}")(A * B)), ("mul", a, b))
    # BinaryMatrix: constructor, transpose, @, hstack
    for _ in range(N):
        r, w = rng.randint(0, 5), rng.randint(0, 5)
        rows = rand_rows(rng, r, w)
        if rows and rng.random() < 0.15:
            rows[rng.randrange(r)] = [rng.randint(0, 1) for _ in range(w + rng.choice([-1, 1, 2]) if w else 1)]
        try:
            M = BinaryMatrix(rows)
        except ValueError:
            ragged = ",".join(f"{sum(b << k for k, b in enumerate(x))}:{len(x)}" for x in rows)
            add("gf2 mk | " + ragged, "err ValueError", ("mk", rows))
            continue
        add("gf2 mk | " + enc_rows(rows), "ok " + rows_of(M), ("mk", rows))
        add("gf2 transpose | " + enc_rows(rows), "ok " + rows_of(M.transpose()), ("transpose", rows))
        vl = w if rng.random() < 0.85 else rng.randint(0, 5)
        v = [rng.randint(0, 1) for _ in range(vl)]
        V = BinaryArray(v)
        add(f"gf2 matvec | {enc_rows(rows)} | {V.binary}:{len(V)}",
            real_gf2(lambda: (lambda x: f"{x.binary}:{len(x)}")(M @ V)), ("matvec", rows, v))
        r2 = w if rng.random() < 0.85 else rng.randint(0, 5)
        rows2 = rand_rows(rng, r2, rng.randint(0, 5))
        M2 = BinaryMatrix(rows2)
        add(f"gf2 matmul | {enc_rows(rows)} | {enc_rows(rows2)}", real_gf2(lambda: rows_of(M @ M2)), ("matmul", rows, rows2))
        r3 = r if rng.random() < 0.85 else rng.randint(0, 5)
        rows3 = rand_rows(rng, r3, rng.randint(0, 4))
        M3 = BinaryMatrix(rows3)
        add(f"gf2 hstack | {enc_rows(rows)} | {enc_rows(rows3)}", real_gf2(lambda: rows_of(hstack(M, M3))), ("hstack", rows, rows3))
    # inverse: exhaustive small, random invertible, random (mostly singular), non-square
    mats = []
    for n in range(0, ctx.n(4, 5)):
        if n <= 3:
            for bits in range(1 << (n * n)):
                mats.append([[(bits >> (i * n + j)) & 1 for j in range(n)] for i in range(n)])
        else:  # thorough: all 65536 4x4 matrices
            for bits in range(1 << (n * n)):
                mats.append([[(bits >> (i * n + j)) & 1 for j in range(n)] for i in range(n)])
    for _ in range(N):
        n = rng.randint(1, 9)
        mats.append(rand_invertible(rng, n))
        mats.append(rand_rows(rng, n, n, rng.choice([0.2, 0.5, 0.5, 0.8])))
        m = rand_invertible(rng, n)  # rank n-1 / n-2 with zero columns (the SCBK shape)
        for c in rng.sample(range(n), min(n, rng.randint(1, 2))):
            for row in m:
                row[c] = 0
        mats.append(m)
        if rng.random() < 0.3:
            mats.append(rand_rows(rng, rng.randint(1, 5), rng.randint(0, 6)))
    n_sing = n_err = 0
    for rows in mats:
        M = BinaryMatrix(rows)
        real = real_gf2(lambda: rows_of(inverse(M)))
        add("gf2 inverse | " + enc_rows(rows), real, ("inverse", rows))
        # independent validation of the real result: T·M = M·T = 1 whenever M is invertible
        n = len(rows)
        if n and all(len(r) == n for r in rows):
            ints = [sum(b << k for k, b in enumerate(r)) for r in rows]
            full = gf2_rank(ints, n) == n
            ctx.count("inverse_input", "invertible" if full else "singular")
            if not full:
                n_sing += 1
                if real.startswith("err"):
                    n_err += 1
            else:
                bad = None
                if real.startswith("err"):
                    bad = real
                else:
                    T = [int(x.split(":")[0]) for x in real[3:].split(",")]
                    for i in range(n):
                        acc = 0
                        for k in range(n):
                            if (T[i] >> k) & 1:
                                acc ^= ints[k]
                        acc2 = 0
                        for k in range(n):
                            if (ints[i] >> k) & 1:
                                acc2 ^= T[k]
                        if acc != 1 << i or acc2 != 1 << i:
                            bad = real
                if bad:
                    ctx.witness("gf2-inverse", "inverse(M) is not the inverse of an invertible matrix", {"rows": rows}, bad)
    resp = ctx.driver(reqs, entry=ENTRY)
    for req, real, m, r in zip(reqs, reals, meta, resp):
        ctx.traces += 1
        ctx.count("gf2_op", m[0])
        ctx.case(("gf2", req), nontrivial=True, sample=None)
        if r == "bad-request":
            raise InfraError(f"driver rejected {req[:200]}")
        if r != real:
            ctx.disagree("gf2:" + m[0], {"request": req}, real, r)
    ctx.samples.append({"gf2_inverse_request": reqs[-1], "real": reals[-1]})
    ctx.extra["gf2_inverse_singular_inputs"] = {"singular": n_sing, "of_which_raise": n_err}


# ---------------------------------------------------------------------------
# K2: mappings (constructor, state mapper, inverse state mapper, BK/SCBK filters)
# ---------------------------------------------------------------------------
def sectors_for(kind, n, rng, ctx):
    """(nf, sz2) pairs to instantiate: unrestricted, all admissible sectors, a few inadmissible ones"""
    out = [(None, None)]
    adm = fock.admissible_sectors(n)
    if kind == "scbk":
        out += adm
        out += [(1, 0), (n + 1, 0), (2, None), (None, 0)]
    else:
        out += rng.sample(adm, min(len(adm), 3))
        out += [(rng.randint(0, n), None), (None, rng.randint(-2, 2)), (n + 1, None)]
    return out


def occupation_queries(rng, n, nf, sz2, exhaustive):
    qs = []
    if exhaustive:
        occs = list(range(1 << n))
    else:
        occs = [rng.getrandbits(n) for _ in range(64)]
        if nf is not None:
            occs += [o for o in (fock.occ_of(rng.sample(range(n), min(nf, n))) for _ in range(64))]
    for o in occs:
        idx = fock.indices_of(o)
        if rng.random() < 0.3:
            rng.shuffle(idx)
        qs.append(idx)
    # malformed
    for _ in range(6):
        k = rng.randint(1, max(1, n))
        idx = [rng.randrange(max(1, n)) for _ in range(k)]
        qs.append(idx + idx[:1])
        qs.append(sorted(set(idx)) + [n + rng.randint(0, 2)])
    return qs


def real_state(sm, idx, nq):
    try:
        st = sm(list(idx))
        if st.qubit_count != nq:
            return f"ok {st.bits} qubit_count={st.qubit_count}"
        return f"ok {st.bits}"
    except Exception as e:  # noqa: BLE001
        return "err " + exc_name(e)


def real_inv(im, bits, width):
    from quri_parts.core.state import ComputationalBasisState

    try:
        st = ComputationalBasisState(width, bits=bits)
    except Exception as e:  # noqa: BLE001
        return None
    try:
        return "ok " + ",".join(str(i) for i in im(st))
    except Exception as e:  # noqa: BLE001
        return "err " + exc_name(e)


def k_mappings(ctx: Ctx):
    import quri_parts.openfermion.utils.post_selection_filters as F

    rng = ctx.rng
    nmax_ex = ctx.n(6, 8)  # exhaustive occupations / bitstrings up to here
    sizes = list(range(0, ctx.n(9, 13)))
    # registers crossing the 32- and 64-bit boundaries (the model works on unbounded naturals)
    wide = [31, 32, 33, 63, 64, 65, 66]
    sizes += [rng.choice(wide[:3]), rng.choice(wide[3:])] if ctx.quick() else wide
    reqs, expect = [], []
    for kind in KINDS:
        for n in sizes:
            if kind == "scbk" and n < 2:
                continue
            secs = sectors_for(kind, n, rng, ctx)
            if n > nmax_ex:
                secs = secs[:1] + rng.sample(secs[1:], min(4 if n < 20 else 2, len(secs) - 1))
            for nf, sz2 in secs:
                ops = real_number_ops(kind, n, nf, sz2)
                head = f"c13map {kind} {n} {opt(nf)} {opt(sz2)} | {enc_ops(ops)} | "
                entry = rng.random() < 0.5
                try:
                    m = factory(kind)(n, nf, sz_of(sz2))
                    if entry:
                        sm, im = m.state_mapper, m.inv_state_mapper
                    else:
                        sm = factory(kind).get_state_mapper(n, nf, sz_of(sz2))
                        im = factory(kind).get_inv_state_mapper(n, nf, sz_of(sz2))
                except Exception as e:  # noqa: BLE001
                    reqs.append(head)
                    expect.append(("err " + exc_name(e), [], (kind, n, nf, sz2)))
                    ctx.count("mapping", f"{kind}:constructor-raises:{exc_name(e)}")
                    continue
                try:
                    nq = m.n_qubits
                    hdr = (f"ok nq={nq} inv={rows_of(m._inv_trans_mat)} signs={''.join('1' if s == -1 else '0' for s in m._signs)} "
                           f"trans={rows_of(m._trans_mat)}")
                except Exception as e:  # noqa: BLE001
                    nq, hdr = None, "err attribute:" + exc_name(e)
                if not isinstance(nq, int) or not (0 <= nq <= 140):
                    reqs.append(head)  # the header comparison reports the disagreement; no queries are meaningful
                    expect.append((hdr, [], (kind, n, nf, sz2)))
                    continue
                qs, rs = [], []
                for idx in occupation_queries(rng, n, nf, sz2, n <= nmax_ex):
                    qs.append("s:" + ",".join(map(str, idx)))
                    rs.append(real_state(sm, idx, nq))
                bitsl = list(range(1 << nq)) if n <= nmax_ex else [rng.getrandbits(nq) for _ in range(64)]
                for b in bitsl:
                    w = nq + (2 if rng.random() < 0.1 else 0)
                    bb = b | ((rng.getrandbits(2) << nq) if w > nq else 0)
                    r = real_inv(im, bb, w)
                    if r is not None:
                        qs.append(f"i:{bb}")
                        rs.append(r)
                # the BK / SCBK filters are closures over a mapping built with exactly these arguments
                if kind == "bk" and nf is None and sz2 is None and n >= 1:
                    for ne, fsz in [(rng.randint(0, n), None)] + rng.sample(fock.admissible_sectors(n), min(3, len(fock.admissible_sectors(n)))):
                        fn = safe_make(lambda: F.create_bk_electron_number_post_selection_filter_fn(n, ne, sz_of(fsz)))
                        for b in bitsl + [1 << nq, (1 << nq) + 3]:
                            qs.append(f"f:{n}:{ne}:{opt(fsz)}:{b}")
                            rs.append(real_gf2(lambda: "1" if fn(b) else "0"))
                if kind == "scbk" and nf is not None and sz2 is not None and nf <= n:
                    fn = safe_make(lambda: F.create_scbk_electron_number_post_selection_filter_fn(nq, nf, sz_of(sz2)))
                    for b in bitsl + [1 << nq]:
                        qs.append(f"f:{nq}:{nf}:{sz2}:{b}")
                        rs.append(real_gf2(lambda: "1" if fn(b) else "0"))
                reqs.append(head + ";".join(qs))
                expect.append((hdr, list(zip(qs, rs)), (kind, n, nf, sz2)))
                ctx.count("mapping", f"{kind}:ok")
    resp = ctx.driver(reqs, entry=ENTRY)
    for req, (hdr, qrs, key), r in zip(reqs, expect, resp):
        kind, n, nf, sz2 = key
        inp = {"kind": kind, "n_spin_orbitals": n, "n_fermions": nf, "two_sz": sz2}
        ctx.traces += 1
        if r == "bad-request":
            raise InfraError(f"driver rejected {req[:300]}")
        mh, _, mq = r.partition(" | ")
        if mh != hdr:
            ctx.disagree("mapping-constructor", inp, hdr, mh)
            ctx.case(("map", key), sample=None)
            continue
        ctx.case(("map", key), nontrivial=True,
                 sample={"mapping": inp, "header": hdr[:200], "queries": len(qrs)} if (n, kind, nf, sz2) == (4, "scbk", 2, 0) else None)
        mrs = mq.split(";") if mq else []
        if len(mrs) != len(qrs):
            raise InfraError(f"driver answered {len(mrs)} of {len(qrs)} queries")
        for (q, real), model in zip(qrs, mrs):
            ctx.traces += 1
            ctx.count("query", f"{kind}:{q[0]}:{'err' if real.startswith('err') else 'ok'}")
            ctx.case(("q", key, q), nontrivial=True, sample=None)
            if real != model:
                ctx.disagree("mapping-query", {**inp, "query": q}, real, model)


# ---------------------------------------------------------------------------
# K3: JW filter, occupation_state_sz, parity factor
# ---------------------------------------------------------------------------
def k_small(ctx: Ctx):
    import quri_parts.openfermion.transforms as T
    import quri_parts.openfermion.utils.post_selection_filters as F
    from quri_parts.chem.utils.spin import occupation_state_sz

    rng = ctx.rng
    reqs, reals, what = [], [], []
    width = ctx.n(10, 12)
    allbits = list(range(1 << width))
    extra = [rng.getrandbits(rng.randint(13, 80)) for _ in range(200)]
    combos = [(ne, sz2) for ne in range(0, width + 1) for sz2 in [None] + list(range(-ne, ne + 1))]
    if ctx.quick():
        combos = rng.sample(combos, 14) + [(0, None), (0, 0), (2, 0), (3, 1)]
    for ne, sz2 in combos:
        # sz as annotated (float) or, for integral spin, as a plain int
        fsz = sz2 // 2 if (sz2 is not None and sz2 % 2 == 0 and rng.random() < 0.5) else sz_of(sz2)
        fn = safe_make(lambda: F.create_jw_electron_number_post_selection_filter_fn(ne, fsz))
        # structured wide registers (spin-orbital indices up to 95, crossing the 32- and 64-bit boundaries): exactly
        # n_e (or n_e ± 1) electrons, spin split equal / near the requested sector, so both verdicts occur
        wide = []
        for _ in range(ctx.n(24, 120)):
            span = rng.choice([34, 40, 66, 72, 96])
            tot = max(0, ne + rng.choice([0, 0, 0, 0, 1, -1]))
            want = sz2 if sz2 is not None else rng.randint(-tot, tot)
            want += rng.choice([0, 0, 0, 2, -2])
            nup = min(max((tot + want) // 2, 0), tot)
            ev = rng.sample(range(0, span, 2), min(nup, span // 2))
            od = rng.sample(range(1, span, 2), min(tot - nup, span // 2))
            if ev + od and rng.random() < 0.7:  # force one occupied orbital above bit 32
                hi = rng.choice(range(32 + (ev + od)[0] % 2, span, 2))
                if hi not in ev + od:
                    (ev if hi % 2 == 0 else od)[0:1] = [hi]
            wide.append(sum(1 << i for i in set(ev + od)))
        bits = allbits + extra + wide

        def one(b):
            try:
                return "1" if fn(b) else "0"
            except Exception:  # noqa: BLE001
                return "E"

        reqs.append(f"c13jw {ne} {opt(sz2)} {','.join(map(str, bits))}")
        reals.append("".join(one(b) for b in bits))
        what.append(("jw-filter", ne, sz2))
        # the filter against the specification (independent oracle): exactly the JW images of the sector
        for b, r in zip(bits, reals[-1]):
            spec = fock.popcount(b) == ne and (sz2 is None or fock.two_sz(b) == sz2)
            if spec != (r == "1"):
                ctx.witness("filter:jw", "JW post-selection filter differs from {popcount = n_e, n_up − n_down = 2 sz}",
                            {"n_electrons": ne, "two_sz": sz2, "bits": b}, {"filter": r})
                break
    for _ in range(ctx.n(200, 3000)):
        occ = [rng.randint(0, rng.choice([20, 20, 95])) for _ in range(rng.randint(0, 9))]
        reqs.append("c13sz " + ",".join(map(str, occ)))
        reals.append(real_gf2(lambda: str(int(2 * occupation_state_sz(occ))))[3:])
        what.append(("sz", tuple(occ)))
    for nf in range(0, 14):
        for sz2 in range(-nf, nf + 1):
            reqs.append(f"c13par {nf} {sz2}")
            try:
                a, b = T._get_scbk_parity_factor(nf, sz2 / 2)
                reals.append(("1" if a == -1 else "0" if a == 1 else "?") + ("1" if b == -1 else "0" if b == 1 else "?"))
            except Exception as e:  # noqa: BLE001
                reals.append("err " + exc_name(e))
            what.append(("parity", nf, sz2))
    from quri_parts.chem.transforms import FermionCreationTerm

    for _ in range(ctx.n(300, 5000)):
        k = rng.randint(0, 7)
        idx = rng.sample(range(12), k) if rng.random() < 0.8 else [rng.randint(0, 5) for _ in range(k)]
        reqs.append("c13fct " + ",".join(map(str, idx)))
        what.append(("creation-term", tuple(idx)))
        try:
            t = FermionCreationTerm(list(idx), 1)
        except Exception as e:  # noqa: BLE001
            reals.append("err " + exc_name(e))
            continue
        reals.append(("1" if t.coef == -1 else "0" if t.coef == 1 else "?") + " " + ",".join(map(str, t.indices)))
        if len(set(idx)) == len(idx):  # independent: reorder the creation operators on the Fock vacuum
            r0 = fock.apply_term(tuple((i, 1) for i in idx), 0)
            if r0 is None or r0[0] != t.coef or fock.indices_of(r0[1]) != list(t.indices):
                ctx.witness("creation-term-sign", "FermionCreationTerm sign/indices differ from reordering a†…a†|vac>",
                            {"indices": list(idx)}, {"coef": str(t.coef), "indices": list(t.indices), "fock": r0})
            # other argument forms: a tuple, the default coefficient, a general complex coefficient
            c = rng.choice(COEFS)
            try:
                t2, t3 = FermionCreationTerm(tuple(idx), c), FermionCreationTerm(tuple(idx))
                got = (complex(t2.coef), list(t2.indices), complex(t3.coef), list(t3.indices))
            except Exception as e:  # noqa: BLE001
                got = "err " + exc_name(e)
            if r0 is not None and got != (complex(c * r0[0]), fock.indices_of(r0[1]), complex(r0[0]), fock.indices_of(r0[1])):
                ctx.witness("creation-term-sign", "FermionCreationTerm(tuple, coef) differs from coef · sign of reordering a†…a†|vac>",
                            {"indices": list(idx), "coef": str(c)}, {"got": repr(got), "fock": r0})
    resp = ctx.driver(reqs, entry=ENTRY)
    shown: set = set()
    for req, real, w, r in zip(reqs, reals, what, resp):
        ctx.traces += 1
        ctx.count("small", w[0])
        show = ((w[0] == "parity" and w[1:] == (3, 1)) or (w[0] == "jw-filter" and w[1:] == (2, 0)) or
                (w[0] == "creation-term" and len(w[1]) == 4)) and w[0] not in shown
        if show:
            shown.add(w[0])
        ctx.case(("small", w), nontrivial=True, sample={"request": req[:80], "real": real[:40], "model": r[:40]} if show else None)
        if r != real:
            if w[0] == "jw-filter":
                bits = [int(x) for x in req.split(" ")[3].split(",")]
                k = next(i for i in range(len(bits)) if i >= len(r) or r[i] != real[i])
                ctx.disagree("jw-filter", {"n_electrons": w[1], "two_sz": w[2], "bits": bits[k]}, real[k], r[k:k + 1])
            else:
                ctx.disagree(w[0], {"request": req[:200]}, real, r)


# ---------------------------------------------------------------------------
# oracle validation of the property on the REAL code (and of the trusted base: OpenFermion)
# ---------------------------------------------------------------------------
def qubit_terms(op):
    return [(complex(c), tuple((i, p.name) for i, p in sorted(label))) for label, c in op.items()]


def fermion_op(terms):
    from openfermion.ops import FermionOperator

    f = FermionOperator()
    for c, t in terms:
        f += FermionOperator(tuple(t), c)
    return f


def random_term(rng, n, kind):
    """a product of ladder operators; for SCBK number- and spin-conserving"""
    for _ in range(200):
        L = rng.choice([1, 1, 2, 2, 3])
        if kind != "scbk" and rng.random() < 0.25:  # JW/BK are exact on all of Fock space
            t = [(rng.randrange(n), rng.randint(0, 1)) for _ in range(rng.randint(1, 4))]
        else:
            t = [(rng.randrange(n), 1) for _ in range(L)] + [(rng.randrange(n), 0) for _ in range(L)]
            rng.shuffle(t)
        if kind != "scbk" or (fock.conserves_number(t) and fock.conserves_spin(t)):
            return tuple(t)
    return ((0, 1), (0, 0))


COEFS = [1, -1, 2, 0.5, 1j, -0.25j, 1 + 1j, 3]


def operators_for(rng, n, kind, budget):
    ops = []
    for p in range(n):
        for q in range(n):
            if kind != "scbk" or p % 2 == q % 2:
                ops.append([(1, ((p, 1), (q, 0)))])
    two = [((p, 1), (q, 1), (r, 0), (s, 0)) for p in range(n) for q in range(n) for r in range(n) for s in range(n)
           if p != q and r != s]
    if kind == "scbk":
        two = [t for t in two if fock.conserves_spin(t)]
    rng.shuffle(two)
    ops += [[(rng.choice(COEFS), t)] for t in two[:budget]]
    for _ in range(budget):
        ops.append([(rng.choice(COEFS), random_term(rng, n, kind)) for _ in range(rng.randint(1, 3))])
    return ops


def compare_elements(ctx: Ctx, kind, inp, S, inv_s, q, terms, shown):
    """columns of the qubit operator `q` (oracle term list) on every mapped state of the sector against the Fock-space
    action of `terms`, restricted to the sector (a term that leaves the sector has no matrix element inside it).
    Returns (ok, evaluations, leakage count)."""
    sig = fock.sigma_up_then_down if kind == "scbk" else (lambda o: 1)
    ev = leak = 0
    for o in S:
        col = fock.qubit_column(q, S[o])
        want = {}
        for c, t in terms:
            r = fock.apply_term(t, o)
            if r is not None:
                want[r[1]] = want.get(r[1], 0) + c * r[0]
        ev += 1
        for o2 in set(want) | {inv_s[b] for b in col if b in inv_s}:
            if o2 not in S:
                continue  # the fermionic operator leaves the sector
            a = col.get(S[o2], 0)
            f = want.get(o2, 0) * sig(o) * sig(o2)
            if abs(a - f) > 1e-9:
                ctx.witness(f"matrix-element:{kind}", "matrix element of the mapped operator between mapped states differs from Fock space",
                            {**inp, "operator": shown[:600], "occ_from": fock.indices_of(o), "occ_to": fock.indices_of(o2)},
                            {"qubit": str(a), "fock_with_sign": str(f)})
                return False, ev, leak
        if kind == "scbk":
            leak += sum(1 for b, a in col.items() if b not in inv_s and abs(a) > 1e-9)
    return True, ev, leak


def hc_terms(terms):
    return [(complex(c).conjugate(), tuple((m, 1 - a) for m, a in reversed(t))) for c, t in terms]


def majorana_terms(idx, coef):
    """γ_{2j} = a_j + a†_j, γ_{2j+1} = −i a_j + i a†_j (OpenFermion's documented convention); product in the given order"""
    out = [(complex(coef), ())]
    for g in idx:
        j, b = divmod(g, 2)
        fac = [(-1j, (j, 0)), (1j, (j, 1))] if b else [(1, (j, 0)), (1, (j, 1))]
        out = [(c * c2, t + (l,)) for c, t in out for c2, l in fac]
    return out


def random_interaction(rng, n, spin_conserving):
    """a Hermitian InteractionOperator (OpenFermion's JW/BK code for it assumes Hermiticity) + its ladder-term list"""
    import numpy as np

    h = np.zeros((n, n), dtype=complex)
    g = np.zeros((n, n, n, n), dtype=complex)
    cf = [0.5, -0.25, 1, 0.125 + 0.25j, -0.5j, 0.75]
    for _ in range(rng.randint(1, 4)):
        p, q = rng.randrange(n), rng.randrange(n)
        if spin_conserving and p % 2 != q % 2:
            continue
        c = rng.choice(cf)
        h[p, q] += c
        h[q, p] += complex(c).conjugate()
    for _ in range(rng.randint(1, 4)):
        p, q, r, s = (rng.randrange(n) for _ in range(4))
        if spin_conserving and not fock.conserves_spin(((p, 1), (q, 1), (r, 0), (s, 0))):
            continue
        c = rng.choice(cf)
        g[p, q, r, s] += c
        g[s, r, q, p] += complex(c).conjugate()
    const = rng.choice([0, 0.3, -1.5])
    terms = [(const, ())] if const else []
    for p in range(n):
        for q in range(n):
            if h[p, q]:
                terms.append((complex(h[p, q]), ((p, 1), (q, 0))))
    for p, q, r, s in itertools.product(range(n), repeat=4):
        if g[p, q, r, s]:
            terms.append((complex(g[p, q, r, s]), ((p, 1), (q, 1), (r, 0), (s, 0))))
    return (const, h, g), terms


def nonconserving_term(rng, n):
    for _ in range(100):
        t = tuple((rng.randrange(n), rng.randint(0, 1)) for _ in range(rng.randint(1, 4)))
        if not (fock.conserves_number(t) and fock.conserves_spin(t)):
            return t
    return ((0, 1),)


def in_place_edit(rng, n, kind):
    """an in-place edit of an OpenFermion-style FermionOperator + the same edit on an oracle term list (the addend has the
    operand's own class: OpenFermion refuses subclass += base class)"""
    x = rng.randrange(4)
    if x == 0:
        c = rng.choice([2.0, -0.5, 3, 1j])
        return f"*= {c}", (lambda o: o.__imul__(c)), (lambda tl: [(k * c, t) for k, t in tl])
    if x == 1:
        return "/= 4", (lambda o: o.__itruediv__(4)), (lambda tl: [(k / 4, t) for k, t in tl])
    c, t = rng.choice(COEFS), random_term(rng, n, kind)
    if x == 2:
        return f"+= {c}·{t}", (lambda o: o.__iadd__(type(o)(tuple(t), c))), (lambda tl: list(tl) + [(c, t)])
    return f"-= {c}·{t}", (lambda o: o.__isub__(type(o)(tuple(t), c))), (lambda tl: list(tl) + [(-c, t)])


def operator_forms(ctx: Ctx, kind, n, inp, S, inv_s, om, om_alt, budget):
    """argument forms and entry points of the operator mapper the in-tree callers rarely use: constant / zero operator,
    the quri-parts FermionOperator wrapper and its hermitian_conjugated(), sums that contain terms violating the
    symmetry (documented: dropped by SCBK – they have no matrix element inside a sector anyway), InteractionOperator,
    MajoranaOperator, the same operator object mapped twice.  Returns (evaluations, ok)."""
    from openfermion.ops import InteractionOperator, MajoranaOperator

    rng = ctx.rng
    ev = 0
    cases = []  # (label, build() -> operator object, oracle terms)
    cases.append(("constant", lambda: fermion_op([(0.75 - 0.5j, ())]), [(0.75 - 0.5j, ())]))
    cases.append(("zero", lambda: fermion_op([]), []))
    cases.append(("constant+number", lambda: fermion_op([(1, ()), (-2, ((0, 1), (0, 0)))]), [(1, ()), (-2, ((0, 1), (0, 0)))]))
    for _ in range(budget):
        terms = [(rng.choice(COEFS), random_term(rng, n, kind)) for _ in range(rng.randint(1, 3))]
        mixed = terms + [(rng.choice(COEFS), nonconserving_term(rng, n)) for _ in range(rng.randint(1, 2))]
        rng.shuffle(mixed)
        cases.append(("with-symmetry-violating-terms", lambda mixed=mixed: fermion_op(mixed), mixed))

        def wrapped(terms=terms, hc=False):
            from quri_parts.openfermion.operator import FermionOperator as QPF

            f = QPF()
            for c, t in terms:
                f += QPF(tuple(t), c)
            return f.hermitian_conjugated() if hc else f

        cases.append(("quri-parts FermionOperator", wrapped, terms))
        cases.append(("quri-parts FermionOperator.hermitian_conjugated()", lambda terms=terms: wrapped(terms, True), hc_terms(terms)))
        (const, h, g), iterms = random_interaction(rng, n, kind == "scbk" and rng.random() < 0.6)
        cases.append(("InteractionOperator", lambda const=const, h=h, g=g: InteractionOperator(const, h, g), iterms))
        mj, mterms = [], []
        for _ in range(rng.randint(1, 3)):
            idx = tuple(sorted(rng.sample(range(2 * n), min(2 * n, rng.choice([1, 2, 2, 3, 4, 4])))))
            if kind == "scbk" and rng.random() < 0.5:  # a form that survives the symmetry gate: i γ_{2j} γ_{2j+1} = 2 n_j − 1 … products
                js = rng.sample(range(n), min(n, rng.randint(1, 2)))
                idx = tuple(sorted(x for j in js for x in (2 * j, 2 * j + 1)))
            c = rng.choice(COEFS)
            mj.append((idx, c))
            mterms += majorana_terms(idx, c)

        def maj(mj=mj):
            mo = MajoranaOperator()
            for idx, c in mj:
                mo += MajoranaOperator(idx, c)
            return mo

        if len({i for i, _ in mj}) == len(mj):
            cases.append(("MajoranaOperator", maj, mterms))
    # histories: an operator DERIVED from another one through the package's conversion / wrapper entry points is a value of
    # its own – after the source (or the result) is edited in place, each object must still map to the Fock-space matrix
    # elements of what IT was created as / edited to.  build() returns the objects in the order they are to be mapped.
    for _ in range(budget):
        terms = [(rng.choice(COEFS), random_term(rng, n, kind)) for _ in range(rng.randint(1, 3))]
        for which in ("source", "result"):
            for deriv in ("fermion_operator_from_openfermion_op", "hermitian_conjugated", "from_openfermion_op∘hermitian_conjugated"):
                edit_name, edit, edit_terms = in_place_edit(rng, n, kind)
                label = f"{deriv}, then {which} {edit_name}"

                def hist(terms=terms, which=which, deriv=deriv, edit=edit):
                    import quri_parts.openfermion.operator as O

                    if deriv == "fermion_operator_from_openfermion_op":
                        src = fermion_op(terms)
                        res = O.fermion_operator_from_openfermion_op(src)
                    else:
                        src = O.FermionOperator()
                        for c, t in terms:
                            src += O.FermionOperator(tuple(t), c)
                        res = src.hermitian_conjugated()
                        if deriv != "hermitian_conjugated":
                            res = O.fermion_operator_from_openfermion_op(res)
                    O.has_particle_number_symmetry(src, check_spin_symmetry=True)  # a query, not an edit
                    edit(src if which == "source" else res)
                    return [src, res]

                rt = terms if deriv == "fermion_operator_from_openfermion_op" else hc_terms(terms)
                cases.append((label + " [the source]", lambda hist=hist: hist()[0], edit_terms(terms) if which == "source" else terms))
                cases.append((label + " [the derived operator]", lambda hist=hist: hist()[1], rt if which == "source" else edit_terms(rt)))
    for label, build, terms in cases:
        use = om if rng.random() < 0.5 else om_alt
        shown = f"{label}: {terms!r}"
        try:
            obj = build()
            first = use(obj)
            q = qubit_terms(first)
            try:  # the caller owns the returned Operator: editing it must not leak into the next call
                first.constant = first.constant + 3.25
            except Exception:  # noqa: BLE001
                pass
            again = use(obj)  # the same object a second time (a mapper that consumed / edited its argument, or cached, would differ)
        except Exception as e:  # noqa: BLE001
            ctx.witness(f"operator-mapper:{kind}", f"operator mapper raises {exc_name(e)} on a {label} argument", {**inp, "operator": shown[:600]},
                        str(e)[:200])
            return ev, False
        ctx.count("operator_form", f"{kind}:{label}")
        if qubit_terms(again) != q:
            ctx.witness(f"operator-mapper:{kind}", "mapping the same operator object twice gives two different qubit operators",
                        {**inp, "operator": shown[:600]}, {"first": str(first)[:200], "second": str(again)[:200]})
            return ev, False
        ok, k, _ = compare_elements(ctx, kind, inp, S, inv_s, q, terms, shown)
        ev += k
        if not ok:
            return ev, False
    return ev, True


def state_forms(ctx: Ctx, kind, n, nf, sz2, inp, S, sm, im, nq):
    """the state mappers on other collection types / orders, on mappings built from other numeric argument types, and
    again after everything else was called on the same mapping object.  Returns (evaluations, ok)."""
    import numpy as np
    from quri_parts.core.state import ComputationalBasisState

    rng = ctx.rng
    ev = 0
    occs = list(S)
    pick = occs if len(occs) <= 8 else rng.sample(occs, 8)
    alt = []
    try:  # same sector, other numeric types for the constructor arguments / the other public entry point
        nf2 = None if nf is None else np.int64(nf)
        szs = [sz_of(sz2)] if sz2 is None else [np.float64(sz2 / 2)] + ([int(sz2 // 2)] if sz2 % 2 == 0 else [])
        for sz in szs:
            alt.append((f"n_fermions={type(nf2).__name__}, sz={type(sz).__name__}", factory(kind)(n, nf2, sz).state_mapper))
        if nf is None and sz2 is None:
            alt.append(("positional n only", factory(kind)(n).state_mapper))
            alt.append(("get_state_mapper(n)", factory(kind).get_state_mapper(n)))
    except Exception as e:  # noqa: BLE001
        ctx.witness(f"construct:{kind}", f"constructing the mapping with numpy / int typed sector arguments raises {exc_name(e)}", inp, str(e)[:200])
        return ev, False
    for o in pick:
        idx = fock.indices_of(o)
        sh = list(idx)
        rng.shuffle(sh)
        forms = [("tuple descending", tuple(reversed(idx))), ("set", set(idx)), ("frozenset", frozenset(idx)),
                 ("shuffled list", sh), ("dict keys", dict.fromkeys(sh).keys()), ("numpy int array", np.array(sh, dtype=np.int64))]
        for name, arg in forms:
            ev += 1
            keep = list(arg) if isinstance(arg, list) else None
            try:
                st = sm(arg)
                got = (st.bits, st.qubit_count)
            except Exception as e:  # noqa: BLE001
                got = "err " + exc_name(e)
            if got != (S[o], nq) or (keep is not None and keep != arg):
                ctx.witness(f"state:{kind}", f"state mapper depends on the collection type / order of the occupied indices ({name})",
                            {**inp, "occ": repr(arg)[:200]}, {"got": got, "expected_bits": S[o]})
                return ev, False
        for name, sm2 in alt:
            ev += 1
            try:
                got = sm2(idx).bits
            except Exception as e:  # noqa: BLE001
                got = "err " + exc_name(e)
            if got != S[o]:
                ctx.witness(f"state:{kind}", f"state mapper of the same sector differs when the mapping is built with {name}",
                            {**inp, "occ": idx}, {"got": got, "expected_bits": S[o]})
                return ev, False
        # history: the same closures after the operator mapper and both state mappers were used many times
        ev += 1
        try:
            again = sm(idx).bits
            back = sorted(im(ComputationalBasisState(nq, bits=S[o])))
        except Exception as e:  # noqa: BLE001
            again, back = "err " + exc_name(e), None
        if again != S[o] or back != idx:
            ctx.witness(f"state:{kind}", "state mapper / inverse mapper answer differently when called again on the same mapping object",
                        {**inp, "occ": idx}, {"first": S[o], "again": again, "inverse": back})
            return ev, False
    return ev, True


def validate_sector(ctx: Ctx, kind, n, nf, sz2, op_budget):
    """returns number of evaluations; registers witnesses"""
    from openfermion.ops import FermionOperator
    from quri_parts.core.state import ComputationalBasisState

    import quri_parts.openfermion.utils.post_selection_filters as F

    rng = ctx.rng
    inp = {"kind": kind, "n_spin_orbitals": n, "n_fermions": nf, "two_sz": sz2}
    ev = 0
    try:
        m = factory(kind)(n, nf, sz_of(sz2))
        sm, im, om = m.state_mapper, m.inv_state_mapper, m.of_operator_mapper
        nq = m.n_qubits
    except Exception as e:  # noqa: BLE001
        key = KEY_SCBK2 if (kind == "scbk" and n == 2 and exc_name(e) == "UnboundLocalError") else f"construct:{kind}"
        if not any(w["key"] == key for w in ctx.witnesses):  # one witness per defect, not one per sector
            ctx.witness(key, f"constructing the {kind} mapping for an admissible sector raises {exc_name(e)}", inp, str(e)[:200])
        return 1
    occs = fock.sector(n, nf, sz2) if nf is not None else list(range(1 << n))
    S = {}
    for o in occs:
        try:
            st = sm(fock.indices_of(o))
            S[o] = st.bits
            if st.qubit_count != nq or not (0 <= st.bits < (1 << nq)):
                ctx.witness(f"state:{kind}", "state mapper returns a state outside the n_qubits register", {**inp, "occ": fock.indices_of(o)})
            back = im(ComputationalBasisState(nq, bits=st.bits))
            if sorted(back) != fock.indices_of(o) or len(list(back)) != len(set(back)):
                ctx.witness(f"inverse-mapper:{kind}", "inv_state_mapper(state_mapper(occ)) != occ",
                            {**inp, "occ": fock.indices_of(o)}, {"bits": st.bits, "back": list(back)})
                return ev + 1
        except Exception as e:  # noqa: BLE001
            ctx.witness(f"state:{kind}", f"state mapper / inverse raises {exc_name(e)} on an admissible occupation",
                        {**inp, "occ": fock.indices_of(o)}, str(e)[:200])
            return ev + 1
        ev += 1
    if len(set(S.values())) != len(S):
        ctx.witness(f"state:{kind}", "state mapper is not injective on the sector", inp)
        return ev
    # number operators read back the occupation
    for i in range(n):
        try:
            q = qubit_terms(om(FermionOperator(((i, 1), (i, 0)))))
        except Exception as e:  # noqa: BLE001
            ctx.witness(f"operator-mapper:{kind}", f"operator mapper raises {exc_name(e)} on a number operator", {**inp, "mode": i})
            return ev
        for o, b in S.items():
            col = fock.qubit_column(q, b)
            v = col.get(b, 0)
            off = [x for x, a in col.items() if x != b and abs(a) > 1e-12]
            ev += 1
            if abs(v - ((o >> i) & 1)) > 1e-12 or off:
                ctx.witness(f"readback:{kind}", "mapped number operator does not read back the occupation on the mapped state",
                            {**inp, "mode": i, "occ": fock.indices_of(o)}, {"bits": b, "value": str(v), "off_diagonal": off[:3]})
                return ev
    # matrix elements
    inv_s = {b: o for o, b in S.items()}
    leak = 0
    om_alt = None
    try:  # the factory-level entry point to the same operator mapper
        om_alt = factory(kind).get_of_operator_mapper(n, nf, sz_of(sz2))
    except Exception as e:  # noqa: BLE001
        ctx.witness(f"operator-mapper:{kind}", f"get_of_operator_mapper raises {exc_name(e)} where the constructor succeeds", inp, str(e)[:200])
        return ev
    for terms in operators_for(rng, n, kind, op_budget):
        use = om if rng.random() < 0.6 else om_alt
        try:
            q = qubit_terms(use(fermion_op(terms)))
        except Exception as e:  # noqa: BLE001
            ctx.witness(f"operator-mapper:{kind}", f"operator mapper raises {exc_name(e)}", {**inp, "operator": repr(terms)})
            return ev
        ok, k, lk = compare_elements(ctx, kind, inp, S, inv_s, q, terms, repr(terms))
        ev += k
        leak += lk
        if not ok:
            return ev
    # other operator argument forms / entry points / call histories
    k, ok = operator_forms(ctx, kind, n, inp, S, inv_s, om, om_alt, max(2, op_budget // 3))
    ev += k
    if not ok:
        return ev
    k, ok = state_forms(ctx, kind, n, nf, sz2, inp, S, sm, im, nq)
    ev += k
    if not ok:
        return ev
    if leak:
        ctx.count("leakage_outside_sector_images", kind, leak)
    if kind == "scbk" and n == 4 and (nf, sz2) == (2, 0) and len(ctx.samples) < 6:
        ctx.samples.append({"oracle_sector": inp, "state_map": {str(fock.indices_of(o)): b for o, b in S.items()},
                            "checked": "inverse mapper, number read-back, matrix elements vs Fock space, filter = images"})
    # filters accept exactly the images of the sector
    images = set(S.values())
    if nf is not None and sz2 is not None and n >= 1:
        try:
            if kind == "jw":
                fn = F.create_jw_electron_number_post_selection_filter_fn(nf, sz_of(sz2))
            elif kind == "bk":
                fn = F.create_bk_electron_number_post_selection_filter_fn(nq, nf, sz_of(sz2))
            else:
                fn = F.create_scbk_electron_number_post_selection_filter_fn(nq, nf, sz_of(sz2))
            for b in range(1 << nq):
                ev += 1
                if bool(fn(b)) != (b in images):
                    ctx.witness(f"filter:{kind}", "post-selection filter does not accept exactly the images of the sector",
                                {**inp, "bits": b}, {"filter": bool(fn(b)), "is_image": b in images})
                    break
        except Exception as e:  # noqa: BLE001
            ctx.witness(f"filter:{kind}", f"post-selection filter raises {exc_name(e)}", inp, str(e)[:200])
    return ev


def replay_finding(ctx: Ctx):
    """the input of the Lean witness theorem `scbk_two_orbitals_witness`, on the real code"""
    inp = {"kind": "scbk", "n_spin_orbitals": 2, "n_fermions": 1, "two_sz": 1}
    try:
        factory("scbk")(2, 1, 0.5)
    except UnboundLocalError as e:
        ctx.witness(KEY_SCBK2, "constructing the scbk mapping for an admissible sector raises UnboundLocalError", inp, str(e)[:200])
    except Exception as e:  # noqa: BLE001 – some other failure: a different defect, reported under its own key
        ctx.witness("construct:scbk", f"constructing the scbk mapping for an admissible sector raises {exc_name(e)}", inp, str(e)[:200])
    else:
        ctx.notes.append("scbk(2, 1, 1/2) no longer raises: finding " + KEY_SCBK2 + " looks fixed – flip the witness theorem")


def validate(ctx: Ctx, scale: int):
    rng = ctx.rng
    t0 = time.time()
    replay_finding(ctx)
    nmax = ctx.n(6, 10)
    n_ev = 0
    for kind in KINDS:
        for n in range(1, nmax + 1):
            if kind == "scbk" and (n % 2 or n < 2):
                continue  # spin orbitals come in up/down pairs; the mapping is defined for even n only
            if n == 9:
                continue
            budget = (ctx.n(10, 200) if n <= 6 else ctx.n(4, 60) if n <= 8 else 6) * scale
            if kind == "scbk":
                for nf, sz2 in fock.admissible_sectors(n):
                    n_ev += validate_sector(ctx, kind, n, nf, sz2, budget)
                    ctx.count("validated_sector", kind)
            else:
                n_ev += validate_sector(ctx, kind, n, None, None, budget)
                ctx.count("validated_sector", kind)
                # the sector-restricted mappers and filters of JW / BK
                secs = fock.admissible_sectors(n)
                for nf, sz2 in (secs if n <= 4 or (not ctx.quick() and n <= 8) else rng.sample(secs, 5)):
                    n_ev += validate_sector(ctx, kind, n, nf, sz2, 2)
                    ctx.count("validated_sector", kind)
    ctx.extra["oracle_validation"] = {"evaluations": n_ev, "max_spin_orbitals": nmax, "seconds": round(time.time() - t0, 2)}
    ctx.evaluations += n_ev
    ctx.search_budget_s += round(time.time() - t0, 2)


# ---------------------------------------------------------------------------
# K4: the rest of the public surface of the anchored files, judged by direct restatements (oracle only)
# ---------------------------------------------------------------------------
def _out(fn):
    try:
        return ("ok", fn())
    except Exception as e:  # noqa: BLE001
        return ("err", exc_name(e))


def k_gf2_api(ctx: Ctx):
    """BinaryArray / BinaryMatrix operations the mappings do not reach (slices, item assignment, ==, vstack, the
    TypeError branches, operand aliasing) against plain Python lists over GF(2)."""
    try:
        from quri_parts.core.utils import binary_field as bf

        BinaryArray, BinaryMatrix, hstack, inverse = bf.BinaryArray, bf.BinaryMatrix, bf.hstack, bf.inverse
    except Exception as e:  # noqa: BLE001
        ctx.disagree("gf2-api:import", {}, "err " + exc_name(e), "BinaryArray, BinaryMatrix, hstack, inverse exist")
        return
    vstack = getattr(bf, "vstack", None)
    rng = ctx.rng
    n_ev = 0

    def W(what, inp, detail):
        ctx.witness("gf2-api:" + what.split(" ")[0], "binary_field: " + what, inp, detail)

    def bits(x):
        return [int(v) for v in x]

    for _ in range(ctx.n(150, 2000)):
        la = rng.choice([0, 1, 2, 3, 5, 8, 9, 33, 65, 70]) if rng.random() < 0.3 else rng.randint(0, 9)
        a = [rng.choice([0, 1, True, False]) for _ in range(la)]
        b = [rng.randint(0, 1) for _ in range(la)]
        ai, bi = bits(a), bits(b)
        A, B = BinaryArray(a), BinaryArray(iter(b))
        n_ev += 1
        # element / iteration / length / binary
        r = _out(lambda: (len(A), list(A), [A[i] for i in range(la)], A.binary))
        if r != ("ok", (la, ai, ai, sum(v << k for k, v in enumerate(ai)))):
            W("elements len/iter/getitem/binary differ from the constructor argument", {"a": ai}, r)
        # slices
        sl = slice(rng.choice([None, 0, 1, 2, -1, -3]), rng.choice([None, 0, 3, la, -1]), rng.choice([None, 1, 2, -1, 3]))
        r = _out(lambda: (lambda x: (type(x).__name__, len(x), list(x)))(A[sl]))
        if r != ("ok", ("BinaryArray", len(ai[sl]), ai[sl])):
            W("slice A[slice] is not the BinaryArray of the sliced elements", {"a": ai, "slice": repr(sl)}, r)
        # item assignment (own object only)
        if la:
            i, v = rng.randrange(la), rng.randint(0, 1)
            C = BinaryArray(a)
            exp = list(ai)
            exp[i] = v
            r = _out(lambda: (C.__setitem__(i, v), list(C), list(A), len(C))[1:])
            if r != ("ok", (exp, ai, la)):
                W("setitem A[i] = v does not set exactly that element", {"a": ai, "i": i, "v": v}, r)
        # equality: same bits and same length
        flip = list(ai)
        if la:
            flip[rng.randrange(la)] ^= 1
        r = _out(lambda: (A == BinaryArray(ai), A != BinaryArray(ai), A == BinaryArray(ai + [0]), A == ai, A == tuple(ai),
                          (A == BinaryArray(flip)) if la else False, A == BinaryArray(ai + [1])))
        if r != ("ok", (True, False, False, False, False, False, False)):
            W("eq BinaryArray equality is not (same elements, same length, same type)", {"a": ai}, r)
        # operands are not modified by + * @ ; += *= work in place
        r = _out(lambda: (list(A + B), list(A * B), A @ B, list(A), list(B)))
        if r != ("ok", ([x ^ y for x, y in zip(ai, bi)], [x & y for x, y in zip(ai, bi)], sum(x & y for x, y in zip(ai, bi)) % 2, ai, bi)):
            W("operands + * @ give a wrong result or modify an operand", {"a": ai, "b": bi}, r)

        def inplace():
            C = BinaryArray(ai)
            D = C
            D += B
            s1 = (D is C, list(C), list(B))
            D *= B
            return s1, (D is C, list(C), list(B))

        x1 = [x ^ y for x, y in zip(ai, bi)]
        if (r := _out(inplace)) != ("ok", ((True, x1, bi), (True, [x & y for x, y in zip(x1, bi)], bi))):
            W("inplace += / *= do not update the left operand in place (or touch the right one)", {"a": ai, "b": bi}, r)
        # documented TypeError branches
        bad = rng.choice([0.5, "1", None, 1.0, [1]])
        pos = rng.randint(0, la)
        if (r := _out(lambda: BinaryArray(ai[:pos] + [bad] + ai[pos:])))[1] != "TypeError":
            W("TypeError-ctor a value that is neither bool nor int is accepted", {"values": repr(ai[:pos] + [bad] + ai[pos:])}, repr(r)[:100])
        other = rng.choice([ai, tuple(ai), 1, None, BinaryMatrix([ai])])
        for name, f in (("+", lambda: A + other), ("*", lambda: A * other), ("@", lambda: A @ other)):
            if (r := _out(f))[1] != "TypeError":
                W(f"TypeError-operand BinaryArray {name} <{type(other).__name__}> does not raise TypeError", {"a": ai, "other": repr(other)[:80]}, repr(r)[:100])
        ctx.count("gf2_api", "array")
    for _ in range(ctx.n(150, 2000)):
        r_, w = rng.randint(1, 5), rng.randint(1, 6)
        rows = rand_rows(rng, r_, w)
        M = BinaryMatrix(rows)
        n_ev += 1
        i, j = rng.randrange(r_), rng.randrange(w)
        r = _out(lambda: (len(M), [list(x) for x in M], [list(M[k]) for k in range(r_)], M[i, j]))
        if r != ("ok", (r_, rows, rows, rows[i][j])):
            W("matrix-elements len/iter/getitem differ from the constructor argument", {"rows": rows, "i": i, "j": j}, r)
        # item assignment, both index forms
        v = rng.randint(0, 1)
        exp = [list(x) for x in rows]
        exp[i][j] = v
        M2 = BinaryMatrix(rows)
        if (r := _out(lambda: (M2.__setitem__((i, j), v), [list(x) for x in M2])[1])) != ("ok", exp):
            W("matrix-setitem M[i, j] = v does not set exactly that element", {"rows": rows, "i": i, "j": j, "v": v}, r)
        newrow = [rng.randint(0, 1) for _ in range(w)]
        exp = [list(x) for x in rows]
        exp[i] = newrow
        M3 = BinaryMatrix(rows)
        if (r := _out(lambda: (M3.__setitem__(i, BinaryArray(newrow)), [list(x) for x in M3], [list(x) for x in M])[1:])) != ("ok", (exp, rows)):
            W("matrix-setitem M[i] = row does not replace exactly that row", {"rows": rows, "i": i, "row": newrow}, r)
        if (r := _out(lambda: M3.__setitem__(i, newrow)))[1] != "ValueError":
            W("matrix-setitem-type M[i] = <list> does not raise ValueError", {"rows": rows}, repr(r)[:100])
        if (r := _out(lambda: M3.__setitem__((i, j), BinaryArray([1]))))[1] != "ValueError":
            W("matrix-setitem-type M[i, j] = <BinaryArray> does not raise ValueError", {"rows": rows}, repr(r)[:100])
        # equality
        diff = [list(x) for x in rows]
        diff[i][j] ^= 1
        r = _out(lambda: (M == BinaryMatrix(rows), M == BinaryMatrix(diff), M == BinaryMatrix(rows + [rows[0]]), M == rows,
                          M == BinaryMatrix(rows[:-1])))
        if r != ("ok", (True, False, False, False, False)):
            W("matrix-eq BinaryMatrix equality is not (same rows, same type)", {"rows": rows}, r)
        # TypeError branch of @
        other = rng.choice([rows, 3, None, tuple(rows[0])])
        if (r := _out(lambda: M @ other))[1] != "TypeError":
            W(f"TypeError-operand BinaryMatrix @ <{type(other).__name__}> does not raise TypeError", {"rows": rows}, repr(r)[:100])
        # vstack
        if vstack is not None:
            rows2 = rand_rows(rng, rng.randint(1, 4), w)
            if (r := _out(lambda: [list(x) for x in vstack(M, BinaryMatrix(rows2))])) != ("ok", rows + rows2):
                W("vstack vstack(a, b) is not a's rows followed by b's rows", {"a": rows, "b": rows2}, r)
            rows3 = rand_rows(rng, rng.randint(1, 4), w + rng.randint(1, 2))
            if (r := _out(lambda: [list(x) for x in vstack(M, BinaryMatrix(rows3))]))[0] != "err":
                W("vstack-width vstack of matrices of different width returns a matrix", {"a": rows, "b": rows3}, repr(r)[:200])
        # transpose / hstack / inverse leave their arguments alone and are repeatable
        sq = rand_invertible(rng, rng.randint(1, 6)) if rng.random() < 0.7 else rand_rows(rng, w, w)
        Q = BinaryMatrix(sq)
        r1 = _out(lambda: [list(x) for x in inverse(Q)])
        r2 = _out(lambda: ([list(x) for x in Q.transpose()], [list(x) for x in hstack(Q, Q)], [list(x) for x in Q @ Q]) and None)
        r3 = _out(lambda: [list(x) for x in inverse(Q)])
        if [list(x) for x in Q] != sq or r1 != r3:
            W("aliasing inverse / transpose / hstack / @ modify their argument (or inverse is not repeatable)", {"rows": sq},
              {"after": [list(x) for x in Q], "first": r1, "second": r3})
        ctx.count("gf2_api", "matrix")
    if vstack is None:
        ctx.disagree("gf2-api:vstack", {}, "missing", "binary_field.vstack exists")
    ctx.evaluations += n_ev
    ctx.extra["gf2_api_cases"] = n_ev


def k_sizes(ctx: Ctx):
    """qubit-count bookkeeping: n_qubits_required / n_spin_orbitals (factory statics, through the instance and through the
    class, and the module-level functions of chem.transforms) against JW, BK: n ↔ n; SCBK: n ↔ n − 2, and against the
    n_qubits / qubit_count of the mapping objects and of the states they return."""
    import quri_parts.chem.transforms as CT

    spec = {"jw": 0, "bk": 0, "scbk": -2}
    fnames = {"jw": ("jordan_wigner_n_qubits_required", "jordan_wigner_n_spin_orbitals"),
              "bk": ("bravyi_kitaev_n_qubits_required", "bravyi_kitaev_n_spin_orbitals"),
              "scbk": ("symmetry_conserving_bravyi_kitaev_n_qubits_required", "symmetry_conserving_bravyi_kitaev_n_spin_orbitals")}
    bases = {"jw": "JordanWignerMapperFactory", "bk": "BravyiKitaevMapperFactory", "scbk": "SymmetryConservingBravyiKitaevMapperFactory"}
    n_ev = 0
    for kind in KINDS:
        fac = factory(kind)
        srcs = [("factory instance", fac), ("factory class", type(fac)), ("chem base class", getattr(CT, bases[kind], None))]
        for n in list(range(2 if kind == "scbk" else 0, 20)) + [32, 33, 64, 65, 128, 1000]:
            nq = n + spec[kind]
            for name, src in srcs:
                n_ev += 1
                r = _out(lambda: (src.n_qubits_required(n), src.n_spin_orbitals(nq)))
                if r != ("ok", (nq, n)):
                    ctx.witness(f"n-qubits:{kind}", f"n_qubits_required / n_spin_orbitals of the {name} differ from n ↔ n{spec[kind] or ''}",
                                {"kind": kind, "n_spin_orbitals": n, "n_qubits": nq}, repr(r))
            r = _out(lambda: (getattr(CT, fnames[kind][0])(n), getattr(CT, fnames[kind][1])(nq)))
            if r != ("ok", (nq, n)):
                ctx.witness(f"n-qubits:{kind}", "module-level n_qubits_required / n_spin_orbitals functions differ from the specification",
                            {"kind": kind, "n_spin_orbitals": n, "n_qubits": nq}, repr(r))
            if n <= 12 and (kind != "scbk" or (n % 2 == 0 and n >= 4)):
                nf, sz2 = (None, None) if kind != "scbk" else (2, 0)
                occ = [] if kind != "scbk" else [0, 1]
                r = _out(lambda: (lambda m: (m.n_qubits, m.n_spin_orbitals, m.state_mapper(occ).qubit_count, m.n_fermions, m.sz))(fac(n, nf, sz_of(sz2))))
                if r != ("ok", (nq, n, nq, nf, sz_of(sz2))):
                    ctx.witness(f"n-qubits:{kind}", "mapping object: n_qubits / n_spin_orbitals / qubit_count of a mapped state / n_fermions / sz "
                                "differ from the constructor arguments", {"kind": kind, "n_spin_orbitals": n, "n_fermions": nf, "two_sz": sz2}, repr(r))
    ctx.evaluations += n_ev
    ctx.count("sizes", "cases", n_ev)


def k_operator_helpers(ctx: Ctx):
    """has_particle_number_symmetry (the SCBK per-term gate), the FermionOperator wrapper and operator_from_openfermion_op,
    called directly with inputs the mappers never pass."""
    import numpy as np
    from openfermion.ops import FermionOperator as OFF
    from openfermion.ops import QubitOperator

    import quri_parts.openfermion.operator as O

    rng = ctx.rng
    n_ev = 0
    for _ in range(ctx.n(300, 4000)):
        n = rng.randint(1, 7)
        terms = {}
        for _ in range(rng.choice([0, 1, 1, 2, 3, 4])):
            x = rng.random()
            if x < 0.45:
                t = random_term(rng, n, "scbk")
            elif x < 0.7:  # number conserving, spin violating (needs both spins)
                L = rng.randint(1, 2)
                t = [(rng.randrange(n), 1) for _ in range(L)] + [(rng.randrange(n), 0) for _ in range(L)]
                rng.shuffle(t)
                t = tuple(t)
            else:
                t = nonconserving_term(rng, n)
            terms[t] = rng.choice(COEFS)
        if rng.random() < 0.2:
            terms[()] = 0.5
        tl = [(c, t) for t, c in terms.items()]
        op = fermion_op(tl)
        keys = list(op.terms)
        num = all(fock.conserves_number(t) for t in keys)
        both = all(fock.conserves_number(t) and fock.conserves_spin(t) for t in keys)
        n_ev += 1
        r = _out(lambda: (O.has_particle_number_symmetry(op), O.has_particle_number_symmetry(op, check_spin_symmetry=False),
                          O.has_particle_number_symmetry(op, check_spin_symmetry=True), O.has_particle_number_symmetry(op, True)))
        ctx.count("symmetry_gate", f"number={num},spin={both}")
        if r != ("ok", (num, num, both, both)):
            ctx.witness("symmetry-gate", "has_particle_number_symmetry differs from {every term conserves N (and N_up, N_down when asked)}",
                        {"operator": repr(tl)[:600]}, {"got": repr(r), "number": num, "number_and_spin": both})
        # FermionOperator wrapper: hermitian conjugate and conversion keep type and meaning
        if n <= 4 and tl:
            def wrap():
                f = O.FermionOperator()
                for c, t in tl:
                    f += O.FermionOperator(tuple(t), c)
                hc = f.hermitian_conjugated()
                conv = O.fermion_operator_from_openfermion_op(op)
                return (type(hc) is O.FermionOperator, type(conv) is O.FermionOperator, isinstance(conv, OFF),
                        [(c, t) for t, c in hc.terms.items()], dict(conv.terms) == dict(op.terms), dict(f.terms) == dict(op.terms))

            r = _out(wrap)
            n_ev += 1
            good = r[0] == "ok" and r[1][0] and r[1][1] and r[1][2] and r[1][4] and r[1][5]
            if good:
                want = fock.fermion_matrix(n, tl).conj().T
                good = bool(np.allclose(fock.fermion_matrix(n, r[1][3]), want, atol=1e-12))
            if not good:
                ctx.witness("fermion-operator-wrapper", "FermionOperator.hermitian_conjugated / fermion_operator_from_openfermion_op: wrong type, "
                            "terms changed, or the conjugate is not the adjoint on Fock space", {"operator": repr(tl)[:600]}, repr(r)[:300])
            # value semantics: the converted / conjugated operator and its source do not follow each other's in-place edits
            def alias():
                src = fermion_op(tl)
                conv = O.fermion_operator_from_openfermion_op(src)
                hc = conv.hermitian_conjugated()
                snap = (dict(src.terms), dict(conv.terms), dict(hc.terms))
                src *= 2.0
                src += OFF(((0, 1), (0, 0)), 0.125)
                a = (dict(conv.terms) == snap[1], dict(hc.terms) == snap[2])
                mid = dict(src.terms)
                conv *= -3.0
                conv -= O.FermionOperator(((0, 1), (0, 0)), 0.5)
                b = (dict(src.terms) == mid, dict(hc.terms) == snap[2])
                keep = dict(conv.terms)
                hc *= 0.5
                return a + b + (dict(conv.terms) == keep, dict(src.terms) == mid)

            r = _out(alias)
            n_ev += 1
            if r != ("ok", (True,) * 6):
                ctx.witness("fermion-operator-wrapper", "an operator made by fermion_operator_from_openfermion_op / hermitian_conjugated changes when "
                            "its source is edited in place (src *= 2.0; src += 0.125 n_0), or the source changes when the result is edited "
                            "(order of the flags: conv, hc after source edit; src, hc after conv edit; conv, src after hc edit)",
                            {"operator": repr(tl)[:600]}, repr(r)[:300])
    # operator_from_openfermion_op on hand-built QubitOperators
    for _ in range(ctx.n(200, 3000)):
        nq = rng.randint(1, 6)
        qop = QubitOperator()
        for _ in range(rng.randint(0, 4)):
            qs = rng.sample(range(nq), rng.randint(0, nq))
            if rng.random() < 0.5:
                qs.sort(reverse=rng.random() < 0.5)
            qop += QubitOperator(tuple((q, rng.choice("XYZ")) for q in qs), rng.choice(COEFS))
        ref = [(complex(c), tuple(t)) for t, c in qop.terms.items()]
        n_ev += 1
        try:
            got = qubit_terms(O.operator_from_openfermion_op(qop))
        except Exception as e:  # noqa: BLE001
            ctx.witness("conversion", f"operator_from_openfermion_op raises {exc_name(e)}", {"qubit_operator": str(qop)[:300]})
            continue
        def qalias():  # the converted Operator and the QubitOperator are independent values
            q2 = QubitOperator()
            for t, c in ref0.items():
                q2 += QubitOperator(t, c)
            res = O.operator_from_openfermion_op(q2)
            before = qubit_terms(res)
            q2 *= 2.0
            q2 += QubitOperator(((0, "Z"),), 0.25)
            a = qubit_terms(res) == before
            mid = dict(q2.terms)
            res.constant = res.constant + 1.5
            for lab in list(res):
                res[lab] = res[lab] * 3
            return a, dict(q2.terms) == mid

        ref0 = dict(qop.terms)
        r = _out(qalias)
        if r != ("ok", (True, True)):
            ctx.witness("conversion", "the Operator returned by operator_from_openfermion_op follows in-place edits of its source "
                        "(q *= 2.0; q += 0.25 Z0) or the source follows edits of the result (flags: result kept, source kept)",
                        {"qubit_operator": repr(ref0)[:300]}, repr(r)[:200])
        for b in range(1 << nq):
            c1, c2 = fock.qubit_column(got, b), fock.qubit_column(ref, b)
            if any(abs(c1.get(k, 0) - c2.get(k, 0)) > 1e-12 for k in set(c1) | set(c2)):
                ctx.witness("conversion", "operator_from_openfermion_op changes the operator", {"qubit_operator": str(qop)[:300], "basis_state": b},
                            {"converted": repr(got)[:300]})
                break
    ctx.evaluations += n_ev
    ctx.count("operator_helpers", "cases", n_ev)


# ---------------------------------------------------------------------------
# K5: a mapping given by hand-made number-operator images (subclassing the public base class): the guards of
# `_inv_state_transformation_matrix` and general linear encodings, against the model
# ---------------------------------------------------------------------------
def custom_mapping(ops):
    """instance-building class whose operator mapper returns ops[i] for the number operator of mode i"""
    from quri_parts.chem.transforms import JordanWigner

    T = _real()

    class HandMade(JordanWigner, T.OpenFermionQubitMapping):
        @property
        def of_operator_mapper(self):
            def mapper(op):
                (key,) = [k for k in op.terms if k]
                return ops[key[0][0]]

            return mapper

    return HandMade


def k_custom(ctx: Ctx):
    from quri_parts.core.operator import Operator, PauliLabel, SinglePauli

    rng = ctx.rng
    reqs, expect = [], []
    P = {1: SinglePauli.X, 2: SinglePauli.Y, 3: SinglePauli.Z}

    def label(ips):
        return PauliLabel([(i, P[p]) for i, p in ips])

    for _ in range(ctx.n(120, 1200)):
        n = rng.randint(1, 7)
        x = rng.random()
        rows = rand_invertible(rng, n) if x < 0.65 else rand_rows(rng, n, n, rng.choice([0.3, 0.5]))
        if rng.random() < 0.15 and n >= 2:  # the well-known encodings: parity / JW
            rows = [[1 if j <= i else 0 for j in range(n)] for i in range(n)] if rng.random() < 0.5 else [[int(i == j) for j in range(n)] for i in range(n)]
        spec = []  # per mode: list of (label as [(i,p)], coef)
        for i in range(n):
            spec.append([([(j, 3) for j in range(n) if rows[i][j]], rng.choice([1, -1, 1 + 0j, -1.0]))])
        fault = None
        if rng.random() < 0.3:
            i = rng.randrange(n)
            fault = rng.choice(["two-terms", "empty", "coef", "pauli", "index"])
            if fault == "empty" and n == 1:
                fault = "coef"  # the line protocol cannot tell [zero operator] from []
            if fault == "two-terms":
                spec[i] = [([], 0.5), ([(rng.randrange(n), 3)], -0.5)]
            elif fault == "empty":
                spec[i] = []
            elif fault == "coef":
                spec[i] = [(spec[i][0][0], rng.choice([2, 0.5, 1j, -1j, 0]))]
            elif fault == "pauli":
                j = rng.randrange(n)
                spec[i] = [([(k, 3) for k in range(n) if rows[i][k] and k != j] + [(j, rng.choice([1, 2]))], spec[i][0][1])]
            else:
                spec[i] = [([(k, 3) for k in range(n) if rows[i][k]] + [(n + rng.randint(0, 2), 3)], spec[i][0][1])]
        try:
            ops = [Operator({label(ips): c for ips, c in terms}) for terms in spec]
        except Exception as e:  # noqa: BLE001
            raise InfraError(f"cannot build the hand-made operators: {e!r}")
        nf = rng.choice([None, None, rng.randint(0, n + 1)])
        sz2 = rng.choice([None, None, rng.randint(-2, 2)])
        head = f"c13map jw {n} {opt(nf)} {opt(sz2)} | {enc_ops(ops)} | "
        key = ("custom", n, enc_ops(ops), nf, sz2)
        ctx.count("custom_mapping", fault or "valid")
        guarded = fault in ("two-terms", "pauli") and not (nf is not None and nf > n)
        try:
            cls = custom_mapping(ops)
            m = cls(n, nf, sz_of(sz2))
            sm, im = m.state_mapper, m.inv_state_mapper
        except Exception as e:  # noqa: BLE001
            reqs.append(head)
            expect.append(("err " + exc_name(e), [], key))
            if guarded and exc_name(e) != "ValueError":
                ctx.witness("mapping-guard", "a number operator mapped to several Pauli terms / to a non-Z action is not rejected with the "
                            "documented ValueError", {"number_operator_images": [str(o) for o in ops], "n_spin_orbitals": n}, exc_name(e))
            continue
        if guarded:
            ctx.witness("mapping-guard", "a number operator mapped to several Pauli terms / to a non-Z action is accepted "
                        "(documented: ValueError) and a state mapper is built from it",
                        {"number_operator_images": [str(o) for o in ops], "n_spin_orbitals": n, "fault": fault}, "constructor returned")
        try:
            nq = m.n_qubits
            hdr = (f"ok nq={nq} inv={rows_of(m._inv_trans_mat)} signs={''.join('1' if s == -1 else '0' for s in m._signs)} "
                   f"trans={rows_of(m._trans_mat)}")
        except Exception as e:  # noqa: BLE001
            reqs.append(head)
            expect.append(("err attribute:" + exc_name(e), [], key))
            continue
        qs, rs = [], []
        for idx in occupation_queries(rng, n, nf, sz2, n <= 5):
            qs.append("s:" + ",".join(map(str, idx)))
            rs.append(real_state(sm, idx, nq))
        for b in (range(1 << nq) if n <= 5 else [rng.getrandbits(nq) for _ in range(32)]):
            r = real_inv(im, b, nq)
            if r is not None:
                qs.append(f"i:{b}")
                rs.append(r)
        reqs.append(head + ";".join(qs))
        expect.append((hdr, list(zip(qs, rs)), key))
    resp = ctx.driver(reqs, entry=ENTRY)
    for req, (hdr, qrs, key), r in zip(reqs, expect, resp):
        ctx.traces += 1
        inp = {"hand_made_number_operator_images": key[2], "n_spin_orbitals": key[1], "n_fermions": key[3], "two_sz": key[4]}
        if r == "bad-request":
            raise InfraError(f"driver rejected {req[:300]}")
        mh, _, mq = r.partition(" | ")
        ctx.case(("custom", key), nontrivial=True, sample=None)
        if mh != hdr:
            ctx.disagree("custom-mapping-constructor", inp, hdr, mh)
            continue
        mrs = mq.split(";") if mq else []
        if len(mrs) != len(qrs):
            raise InfraError(f"driver answered {len(mrs)} of {len(qrs)} queries")
        for (q, real), model in zip(qrs, mrs):
            ctx.traces += 1
            ctx.case(("customq", key, q), nontrivial=True, sample=None)
            if real != model:
                ctx.disagree("custom-mapping-query", {**inp, "query": q}, real, model)


# ---------------------------------------------------------------------------
# K6: wide registers (beyond 32 / 64 spin orbitals): read-back, round trip and the three filters on images
# ---------------------------------------------------------------------------
def wide_occupations(rng, n, nf, sz2, k):
    ups, downs = list(range(0, n, 2)), list(range(1, n, 2))
    out = []
    for _ in range(k):
        if nf is None:
            ne = rng.choice([0, 1, 2, 3, 5, n // 2, n - 1, n])
            nup = min(len(ups), max(ne - len(downs), rng.randint(0, ne)))
        else:
            ne, nup = nf, (nf + sz2) // 2
        occ = rng.sample(ups, nup) + rng.sample(downs, ne - nup)
        if occ and nf is None and rng.random() < 0.5 and (n - 1) not in occ:  # touch the top orbital
            occ[0] = n - 1
        out.append(sorted(set(occ)))
    return out


def k_wide(ctx: Ctx):
    from openfermion.ops import FermionOperator
    from quri_parts.core.state import ComputationalBasisState

    import quri_parts.openfermion.utils.post_selection_filters as F

    rng = ctx.rng
    t0 = time.time()
    n_ev = 0
    plan = []
    for kind in ("jw", "bk"):
        ns = [31, 32, 33, 63, 64, 65, 66, 70]
        for n in (rng.sample(ns[:3], 1) + rng.sample(ns[3:], 2) if ctx.quick() else ns + [96, 127, 128, 129]):
            plan.append((kind, n, None, None))
    for n in ([34, rng.choice([64, 66])] if ctx.quick() else [32, 34, 62, 64, 66, 68, 100]):
        cands = [(2, 0), (3, 1), (3, -1), (4, 0), (4, 2), (5, -1), (6, 0), (n - 2, 0), (n // 2, (n // 2) % 2)]
        adm = set(fock.admissible_sectors(n))
        for nf, sz2 in rng.sample([c for c in cands if c in adm], ctx.n(2, 5)):
            plan.append(("scbk", n, nf, sz2))
    for kind, n, nf, sz2 in plan:
        inp = {"kind": kind, "n_spin_orbitals": n, "n_fermions": nf, "two_sz": sz2}
        try:
            m = factory(kind)(n, nf, sz_of(sz2))
            sm, im, om, nq = m.state_mapper, m.inv_state_mapper, m.of_operator_mapper, m.n_qubits
            numq = [qubit_terms(om(FermionOperator(((i, 1), (i, 0))))) for i in range(n)]
        except Exception as e:  # noqa: BLE001
            ctx.witness(f"construct:{kind}", f"constructing the {kind} mapping / mapping a number operator on a wide register raises {exc_name(e)}",
                        inp, str(e)[:200])
            continue
        ctx.count("wide", f"{kind}:{n}")
        seen = {}
        for occ in wide_occupations(rng, n, nf, sz2, ctx.n(10, 40)):
            n_ev += 1
            try:
                st = sm(occ)
                b = st.bits
                back = list(im(ComputationalBasisState(nq, bits=b)))
            except Exception as e:  # noqa: BLE001
                ctx.witness(f"state:{kind}", f"state mapper / inverse raises {exc_name(e)} on an admissible occupation (wide register)",
                            {**inp, "occ": occ}, str(e)[:200])
                break
            if st.qubit_count != nq or not (0 <= b < (1 << nq)):
                ctx.witness(f"state:{kind}", "state mapper returns a state outside the n_qubits register", {**inp, "occ": occ}, {"bits": b})
                break
            if sorted(back) != occ or len(back) != len(set(back)):
                ctx.witness(f"inverse-mapper:{kind}", "inv_state_mapper(state_mapper(occ)) != occ", {**inp, "occ": occ}, {"bits": b, "back": back})
                break
            if seen.setdefault(b, occ) != occ:
                ctx.witness(f"state:{kind}", "state mapper is not injective", {**inp, "occ": occ, "other": seen[b]}, {"bits": b})
                break
            bad = None
            for i in range(n):
                col = fock.qubit_column(numq[i], b)
                if abs(col.get(b, 0) - (1 if i in occ else 0)) > 1e-12 or any(k != b and abs(a) > 1e-12 for k, a in col.items()):
                    bad = i
                    break
            if bad is not None:
                ctx.witness(f"readback:{kind}", "mapped number operator does not read back the occupation on the mapped state",
                            {**inp, "mode": bad, "occ": occ}, {"bits": b, "value": str(fock.qubit_column(numq[bad], b).get(b, 0))})
                break
            # the filters on this image: sector of the state (accept), neighbouring sectors (reject)
            ne, s2 = len(occ), fock.two_sz(fock.occ_of(occ))
            probes = [(ne, s2, True), (ne, None, True), (ne + 1, None, False), (ne, s2 + 2, False), (max(ne - 1, 0), s2, ne == 0)]
            if kind == "scbk":
                probes = [(ne, s2, True)]
            for pe, ps, want in probes:
                n_ev += 1
                if ps is not None and ps % 2 == 0 and rng.random() < 0.5:
                    fsz = ps // 2  # an int where a float is annotated
                else:
                    fsz = sz_of(ps)
                try:
                    if kind == "jw":
                        fn = F.create_jw_electron_number_post_selection_filter_fn(pe, fsz)
                    elif kind == "bk":
                        fn = F.create_bk_electron_number_post_selection_filter_fn(nq, pe, fsz)
                    else:
                        fn = F.create_scbk_electron_number_post_selection_filter_fn(nq, pe, fsz)
                    got = bool(fn(b))
                except Exception as e:  # noqa: BLE001
                    got = "err " + exc_name(e)
                if got != want:
                    ctx.witness(f"filter:{kind}", "post-selection filter verdict on the image of a state differs from "
                                "{the state has the requested electron number and spin} (wide register)",
                                {**inp, "occ": occ, "bits": b, "filter_n_electrons": pe, "filter_two_sz": ps}, {"filter": got, "expected": want})
                    break
    ctx.evaluations += n_ev
    ctx.extra["wide_registers"] = {"evaluations": n_ev, "mappings": len(plan), "seconds": round(time.time() - t0, 2)}


# ---------------------------------------------------------------------------
# generated instance table: what OpenFermion produces for the mapped number operators
# ---------------------------------------------------------------------------
GEN_SIZES = {"jw": range(0, 13), "bk": range(0, 13), "scbk": range(4, 13, 2)}
GEN_SIZES_BIG = {"jw": range(13, 25), "bk": range(13, 25), "scbk": range(14, 25, 2)}
LEAN_TARGETS_THOROUGH = ["QuriVerif.Props.C13Big"]


def _instances(ctx: Ctx, sizes):
    seen, items = set(), []
    for kind in KINDS:
        for n in sizes[kind]:
            secs = [(None, None)] if kind != "scbk" else [(2, 0), (2, 2), (3, 1), (3, -1)]
            for nf, sz2 in secs:
                try:
                    m = factory(kind)(n, nf, sz_of(sz2))
                    rows = [r.binary for r in m._inv_trans_mat]
                    lens = [len(r) for r in m._inv_trans_mat]
                    signs = [s == -1 for s in m._signs]
                except Exception as e:  # noqa: BLE001
                    ctx.failed_obligations.append({"obligation": f"gen.instance:{kind}:{n}:{nf}:{sz2}", "error": exc_name(e)})
                    continue
                if any(l != n for l in lens):
                    ctx.failed_obligations.append({"obligation": f"gen.instance:{kind}:{n}", "error": "row length != n"})
                    continue
                key = (kind, n, tuple(rows), tuple(signs))
                if key not in seen:
                    seen.add(key)
                    items.append(key)
    return items


def _emit(name, ns, items):
    lines = ["import QuriVerif.Model.C13", "/- GENERATED by harness/c13.py:gen from the working tree (real mappings) – do not edit -/",
             f"namespace {ns}", "open QV.C13", "", "def instances : List Inst := ["]
    ents = []
    for kind, n, rows, signs in items:
        ents.append(f"  ⟨.{kind}, {n}, [{', '.join(map(str, rows))}], [{', '.join('true' if s else 'false' for s in signs)}]⟩")
    lines.append(",\n".join(ents))
    lines += ["]", "", "theorem instances_ok : instances.all Inst.check = true := by decide +kernel", "", f"end {ns}", ""]
    return "\n".join(lines)



JW_MODES_QUICK, JW_MODES_THOROUGH = 10, 24


def gen_jw(ctx: Ctx):
    """Generated/C13JW.lean: what the REAL Jordan-Wigner operator mapper returns for every single ladder operator a_p / a_p^dagger
    (p < N, register of N spin orbitals), coefficients doubled (exact Gaussian integers), labels canonical (ascending index); one
    `decide` obligation: every row is the model's `jwLadder p dag` (Model/C13JW), on which Props/C13Lift's operator-level theorems
    (Fock matrix elements, CAR, words) are stated.  A row that cannot be encoded (non-±1/±i doubled coefficient, an exception) is
    emitted as a row that fails."""
    from openfermion.ops import FermionOperator

    N = JW_MODES_QUICK if ctx.quick() else JW_MODES_THOROUGH
    with ctx.timed("translate"):
        rows = []
        try:
            om = factory("jw")(N).of_operator_mapper
        except Exception as e:  # noqa: BLE001
            om = None
            rows.append(f"  (0, false, [([], ⟨7, 7⟩)])  -- constructor raises {exc_name(e)}")
        for pm in range(N if om else 0):
            for dag in (False, True):
                try:
                    q = om(FermionOperator(((pm, 1 if dag else 0),)))
                    terms = []
                    for label, c in q.items():
                        c2 = 2 * complex(c)
                        re, im = c2.real, c2.imag
                        if not (float(re).is_integer() and float(im).is_integer() and abs(re) < 100 and abs(im) < 100):
                            re, im = 7, 7
                        lab = ", ".join(f"({i}, .{pp.name})" for i, pp in sorted(label, key=lambda t: t[0]))
                        terms.append(f"([{lab}], ⟨{int(re)}, {int(im)}⟩)")
                    rows.append(f"  ({pm}, {'true' if dag else 'false'}, [{', '.join(terms)}])")
                except Exception as e:  # noqa: BLE001
                    rows.append(f"  ({pm}, {'true' if dag else 'false'}, [([], ⟨7, 7⟩)])  -- raises {exc_name(e)}")
        body = "\n".join([
            "-- GENERATED by /verif/harness/c13.py (gen_jw) from the REAL jordan_wigner operator mapper of the working tree; do not edit.",
            "import QuriVerif.Model.C13JW",
            "namespace QV.Gen.C13JW",
            "open QV.C05 QV.C13JW",
            "def rows : List (Nat × Bool × Op) := [",
            ",\n".join(r if "--" not in r else r.replace("  --", ",  --", 1).rstrip(",") for r in rows) if False else ",\n".join(r.split("  --")[0] for r in rows),
            "]",
            "theorem rows_are_ladders : (rows.all fun r => jwRowOk r.1 r.2.1 r.2.2) = true := by decide",
            f"theorem rows_complete : rows.length = {2 * N} := by decide",
            "end QV.Gen.C13JW", ""])
        ctx.write_generated("C13JW", body)
        ctx.generated_entries += len(rows)
        ctx.extra["jw_ladder_rows"] = len(rows)


def gen(ctx: Ctx):
    """Generated/C13Instances.lean (+ C13InstancesBig.lean for the thorough tier): (kind, n, rows, signs) of the real
    mappings + one kernel-checked obligation each: for every instance the model constructor succeeds, the result of
    `inverse` is a left inverse on the first n_qubits rows (the hypothesis of the round-trip theorems) and, for JW/BK,
    every pivot is found and it is a right inverse as well."""
    with ctx.timed("translate"):
        items = _instances(ctx, GEN_SIZES)
        ctx.write_generated("C13Instances", _emit("C13Instances", "QV.Gen.C13", items))
        ctx.generated_entries += len(items)
        if not ctx.quick() or not os.path.exists(os.path.join(VERIF, "lean", "QuriVerif", "Generated", "C13InstancesBig.lean")):
            big = _instances(ctx, GEN_SIZES_BIG)
            ctx.write_generated("C13InstancesBig", _emit("C13InstancesBig", "QV.Gen.C13Big", big))
            if not ctx.quick():
                ctx.generated_entries += len(big)
        return items


# ---------------------------------------------------------------------------
def replay_corpus(ctx: Ctx):
    d = os.path.join(VERIF, "corpus", "C13")
    if not os.path.isdir(d):
        return
    from quri_parts.core.utils.binary_field import BinaryMatrix, inverse

    reqs, reals = [], []
    for f in sorted(os.listdir(d)):
        if not f.endswith(".json"):
            continue
        c = json.load(open(os.path.join(d, f)))
        if c.get("kind") == "inverse":
            rows = c["rows"]
            reqs.append("gf2 inverse | " + enc_rows(rows))
            reals.append(real_gf2(lambda: rows_of(inverse(BinaryMatrix(rows)))))
        elif c.get("kind") == "sector":
            validate_sector(ctx, c["mapping"], c["n"], c.get("nf"), c.get("sz2"), 4)
    for req, real, r in zip(reqs, reals, ctx.driver(reqs, entry=ENTRY)):
        ctx.traces += 1
        ctx.case(("corpus", req), sample=None)
        if r != real:
            ctx.disagree("corpus", {"request": req}, real, r)


def replay_file(ctx: Ctx, path):
    """re-run the concrete inputs of a replay file (written by Ctx.finish) on the real code"""
    from quri_parts.core.utils.binary_field import BinaryMatrix, inverse

    d = json.load(open(path))
    reqs, reals = [], []
    for w in d.get("witnesses", []):
        inp = w.get("input") or {}
        if "kind" in inp and "n_spin_orbitals" in inp:
            validate_sector(ctx, inp["kind"], inp["n_spin_orbitals"], inp.get("n_fermions"), inp.get("two_sz"), 20)
        elif "rows" in inp:
            reqs.append("gf2 inverse | " + enc_rows(inp["rows"]))
            reals.append(real_gf2(lambda: rows_of(inverse(BinaryMatrix(inp["rows"])))))
    for x in d.get("disagreements", []):
        req = (x.get("input") or {}).get("request")
        if req and req.startswith("gf2 inverse"):
            rows = [[(int(t.split(":")[0]) >> k) & 1 for k in range(int(t.split(":")[1]))]
                    for t in req.split("|")[1].strip().split(",") if ":" in t]
            reqs.append(req)
            reals.append(real_gf2(lambda: rows_of(inverse(BinaryMatrix(rows)))))
    for req, real, r in zip(reqs, reals, ctx.driver(reqs, entry=ENTRY)):
        ctx.traces += 1
        ctx.case(("replay", req), sample={"replay": req, "real": real, "model": r})
        if r != real:
            ctx.disagree("replay", {"request": req}, real, r)


def run(ctx: Ctx, replay=None) -> int:
    ctx.rule = ("cases = (GF(2) operation, operands) | (mapping kind, n, sector) | (mapping, query) with query a state-mapper "
                "occupation list, an inverse-mapper bitstring or a filter bitstring | (JW filter, n_e, 2sz) over all bitstrings "
                "of the width; real result vs Lean model result compared as canonical strings (exceptions by class name); "
                "distinct = distinct canonical keys; hand-made linear encodings (subclass of the public base class, incl. the guards of "
                "_inv_state_transformation_matrix) go through the same model; oracle validation (Fock space) of every sector — "
                "FermionOperator / quri-parts wrapper / InteractionOperator / MajoranaOperator arguments, both operator-mapper entry "
                "points, collection types of the occupied indices, wide registers (31…129 spin orbitals), the remaining "
                "binary_field API, n_qubits bookkeeping, has_particle_number_symmetry — counted in evaluations only")
    ctx.trusted = TRUSTED
    ctx.assumptions = [
        "spin orbitals alternate up/down (even index = up); SCBK is claimed for even n ≥ 2 only",
        "OpenFermion's operator transforms are trusted but validated per instance (all sectors, n ≤ 6 quick / ≤ 10 thorough)",
        "model input of the constructor = the mapped number operators the real operator mapper returns",
        "sz is passed as an exact half-integer float; the model carries 2·sz ∈ ℤ",
    ]
    gen(ctx)
    gen_jw(ctx)
    LIFT, GENJW = "QuriVerif.Props.C13Lift", "QuriVerif.Generated.C13JW"
    targets, obl_mods = [PROPS, LIFT, GENJW, "QuriVerif.Driver.C13"], [PROPS, GENMOD, LIFT, GENJW]
    if not ctx.quick():
        targets += LEAN_TARGETS_THOROUGH
        obl_mods += ["QuriVerif.Props.C13Big", "QuriVerif.Generated.C13InstancesBig"]
    ok = ctx.prove(targets, obl_mods)
    if ok:
        names = [f"QV.Props.C13.{n}" for _, n, _ in ctx.count_obligations([PROPS])] + ["QV.Gen.C13.instances_ok"]
        names += [f"QV.Props.C13Lift.{n}" for _, n, _ in ctx.count_obligations([LIFT])]
        names += ["QV.Gen.C13JW.rows_are_ladders", "QV.Gen.C13JW.rows_complete"]
        imports = [PROPS, LIFT, GENJW]
        if not ctx.quick():
            names += [f"QV.Props.C13Big.{n}" for _, n, _ in ctx.count_obligations(["QuriVerif.Props.C13Big"])]
            names += ["QV.Gen.C13Big.instances_ok"]
            imports += ["QuriVerif.Props.C13Big"]
        ctx.audit(names, imports)
    else:
        ok_driver, _ = ctx.lake_build(["QuriVerif.Driver.C13"])
        if not ok_driver:
            raise InfraError("the C13 model/driver does not build: " + ctx.build_output_tail[-800:])
    with ctx.timed("correspond"):
        if replay:
            replay_file(ctx, replay)
        replay_corpus(ctx)
        k_gf2(ctx)
        k_small(ctx)
        k_mappings(ctx)
        k_custom(ctx)
    with ctx.timed("oracle_api"):
        k_gf2_api(ctx)
        k_sizes(ctx)
        k_operator_helpers(ctx)
        k_wide(ctx)
    with ctx.timed("oracle_validation"):
        broken = bool(ctx.failed_obligations or ctx.disagreements)
        validate(ctx, 3 if broken else 1)
    return ctx.finish()
