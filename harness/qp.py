"""Helpers shared by the per-property harnesses: circuit encodings, generators,
canonicalisation of real quri-parts objects, poly evaluation."""
from __future__ import annotations

import cmath
import math

UNIT = math.pi / 64.0  # model angle unit
TWO_PI_UNITS = 128

ONE_Q = ["Identity", "X", "Y", "Z", "H", "S", "Sdag", "SqrtX", "SqrtXdag", "SqrtY", "SqrtYdag", "T", "Tdag"]
ROT = ["RX", "RY", "RZ"]
NPARAM = {"RX": 1, "RY": 1, "RZ": 1, "U1": 1, "U2": 2, "U3": 3, "PauliRotation": 1, "U1q": 2, "RZZ": 1, "XX": 1}


# a "tuple circuit" is a list of (name, controls, targets, params_units, paulis)
def tg(name, controls=(), targets=(), params=(), paulis=()):
    return (name, tuple(controls), tuple(targets), tuple(params), tuple(paulis))


def enc_gate(g) -> str:
    name, c, t, p, ids = g
    return f"{name}/{','.join(map(str, c))}/{','.join(map(str, t))}/{','.join(map(str, p))}/{','.join(map(str, ids))}"


def enc_circuit(gs) -> str:
    return ";".join(enc_gate(g) for g in gs)


def dec_circuit(s: str):
    s = s.strip()
    if not s:
        return []
    out = []
    for part in s.split(";"):
        name, c, t, p, ids = part.split("/")
        f = lambda x: tuple(int(v) for v in x.split(",")) if x else ()
        out.append((name, f(c), f(t), f(p), f(ids)))
    return out


def real_gate(g, unit=UNIT):
    from quri_parts.circuit import QuantumGate

    name, c, t, p, ids = g
    return QuantumGate(
        name=name,
        target_indices=tuple(t),
        control_indices=tuple(c),
        params=tuple(float(x) * unit for x in p),
        pauli_ids=tuple(ids),
    )


def real_circuit(n, gs, unit=UNIT):
    from quri_parts.circuit import QuantumCircuit

    c = QuantumCircuit(n)
    for g in gs:
        c.add_gate(real_gate(g, unit))
    return c


def canon_real(circuit):
    """real circuit -> list of (name, controls, targets, params(float), paulis)"""
    return [
        (g.name, tuple(g.control_indices), tuple(g.target_indices), tuple(g.params), tuple(g.pauli_ids))
        for g in circuit.gates
    ]


def circ_dist_angle(a: float, b: float) -> float:
    d = (a - b) % (2 * math.pi)
    return min(d, 2 * math.pi - d)


def same_gates(real, model, unit=UNIT, tol=1e-9, circular=True):
    """compare canon_real(...) with a tuple circuit in model units; returns None or a reason"""
    if len(real) != len(model):
        return f"length {len(real)} vs {len(model)}"
    for i, (r, m) in enumerate(zip(real, model)):
        if r[0] != m[0] or tuple(r[1]) != tuple(m[1]) or tuple(r[2]) != tuple(m[2]) or tuple(r[4]) != tuple(m[4]):
            return f"gate {i}: {r} vs {m}"
        if len(r[3]) != len(m[3]):
            return f"gate {i}: param count {r} vs {m}"
        for x, y in zip(r[3], m[3]):
            d = circ_dist_angle(x, y * unit) if circular else abs(x - y * unit)
            if d > tol:
                return f"gate {i}: angle {x} vs {y}·π/64"
    return None


def random_grid_circuit(rng, n, length, kinds, angle_pool=None, max_pauli=3):
    gs = []
    for _ in range(length):
        k = rng.choice(kinds)
        gs.append(random_gate(rng, n, k, angle_pool, max_pauli))
    return [g for g in gs if g is not None]


SPECIAL_UNITS = [0, 16, 32, 48, 64, 80, 96, 112, 128, -16, -32, -64, -128, 144, 256, 1, 127, 129, 5, 37, -7, 200]


def rand_angle_units(rng, pool=None):
    if pool is not None:
        return rng.choice(pool)
    if rng.random() < 0.6:
        return rng.choice(SPECIAL_UNITS)
    return rng.randint(-300, 300)


def random_gate(rng, n, k, angle_pool=None, max_pauli=3):
    qs = list(range(n))
    if k in ONE_Q:
        return tg(k, (), (rng.choice(qs),))
    if k in ("RX", "RY", "RZ", "U1"):
        return tg(k, (), (rng.choice(qs),), (rand_angle_units(rng, angle_pool),))
    if k == "U2":
        return tg(k, (), (rng.choice(qs),), tuple(rand_angle_units(rng, angle_pool) for _ in range(2)))
    if k == "U3":
        return tg(k, (), (rng.choice(qs),), tuple(rand_angle_units(rng, angle_pool) for _ in range(3)))
    if k == "U1q":
        return tg(k, (), (rng.choice(qs),), tuple(rand_angle_units(rng, angle_pool) for _ in range(2)))
    if k in ("CNOT", "CZ"):
        if n < 2:
            return None
        a, b = rng.sample(qs, 2)
        return tg(k, (a,), (b,))
    if k == "SWAP":
        if n < 2:
            return None
        a, b = rng.sample(qs, 2)
        return tg(k, (), (a, b))
    if k in ("ZZ",):
        if n < 2:
            return None
        a, b = rng.sample(qs, 2)
        return tg(k, (), (a, b))
    if k in ("RZZ", "XX"):
        if n < 2:
            return None
        a, b = rng.sample(qs, 2)
        return tg(k, (), (a, b), (rand_angle_units(rng, angle_pool),))
    if k == "TOFFOLI":
        if n < 3:
            return None
        a, b, c = rng.sample(qs, 3)
        return tg(k, (a, b), (c,))
    if k in ("Pauli", "PauliRotation"):
        m = rng.randint(1, min(n, max_pauli))
        ts = rng.sample(qs, m)
        ids = tuple(rng.randint(1, 3) for _ in range(m))
        p = (rand_angle_units(rng, angle_pool),) if k == "PauliRotation" else ()
        return tg(k, (), tuple(ts), p, ids)
    raise KeyError(k)


# ---------------------------------------------------------------------------
# numeric evaluation of the model's Poly matrices (driver `gatemat`)
# ---------------------------------------------------------------------------
def eval_poly(s: str, phis) -> complex:
    """s: 'c*eu*e0:e1+...' ; u = exp(iπ/8), x_j = exp(i φ_j / 2)"""
    if s == "0":
        return 0j
    tot = 0j
    for term in s.split("+"):
        c, eu, ex = term.split("*")
        v = complex(int(c)) * cmath.exp(1j * math.pi / 8 * int(eu))
        if ex:
            for j, e in enumerate(ex.split(":")):
                if e:
                    v *= cmath.exp(1j * phis[j] / 2 * int(e))
        tot += v
    return tot


def eval_smat(resp: str, phis):
    import numpy as np

    k, m = resp.split("|")
    rows = [[eval_poly(p, phis) for p in row.split(" ")] for row in m.split(";")]
    return np.array(rows, dtype=complex) / (math.sqrt(2) ** int(k))
