"""C04 — Exact estimators return the true expectation value.

Tie between the Lean model (Model/C04.lean) and the working tree, all parts re-run on every check:

 K1 cache      histories of real `convert_operator` calls (qulacs and stim), with operators mutated in place between
               calls, vs `convert` of the model: hit/miss, cache size, stored key (as a set), returned terms in order.
 K2 batch      every (numOps, numStates) in a small exhaustive scope x every concurrent estimator entry point:
               exception class/kind, result length and the (operator, state) pairing decoded from exactly
               representable values, worker path (single-state / pairs) vs `dispatch` / `coreDispatch`.
 K3 sessions   sequences of estimator calls (single / concurrent / core-lifted; vector, density-matrix, general, stim)
               on computational basis states sharing one conversion cache: exact values, error fields, cache sizes
               vs `estimateOne` / `concurrentEstimate` / `coreConcurrentEstimate`.
 K4 general    `GeneralQuantumEstimator.__call__` with recording stub estimators, all argument shapes vs `generalCall`.
 K5 parametric `convert_parametric_circuit` mappers, the angles actually set on the backend circuit inside the real
               parametric estimators (recording proxy), `bind_parameters`, per-call copies of compiled circuits
               vs `qulacsMapper` / `parametricBackendAngles` / `bindAngles` / `Compiled.run`.
 K6 sparse     `get_sparse_matrix` entries (exact), error branches, stim `_pauli_indices`, histories with results changed in place
               vs `sparseMatrix` / `stimIndices` / `SparseSession.run`.
 N  numeric    all estimator variants x batch shapes x state kinds on random operators / circuits / vectors /
               parametric states vs each other and vs oracle/c04ref.py (independent numpy), tolerance 1e-9·(1+Σ|c|).
 W  witnesses  the two findings of Props/C04.lean and the compiled-circuit finding (W4) replayed on the real code; the pinned
               history of the repaired sparse-table defect (W3) must come out right.
 G  forms      generator extensions judged by independent oracles (no model): `get_sparse_matrix` in every `format` and
               call histories across formats; `convert_gate` on every gate kind / index order and the plain gates inside
               parametric circuits; documented rejections; compiled circuits used through their public accessors in
               histories; quri_parts.qulacs.simulator (`evaluate_state_to_vector`, `run_circuit`, density matrix with the
               empty noise model, `get_marginal_probability`); state construction forms (`with_gates_applied`,
               `with_primitive_circuit`, vector given as list / tuple / array / omitted, circuit omitted); containers and
               bare arguments of the general estimators; parameter containers; registers wide enough for two-digit
               qubit indices (product states; stim beyond 64 qubits).
"""
from __future__ import annotations

import json
import math
import os
import sys
import time

sys.path.insert(0, os.path.dirname(os.path.dirname(os.path.abspath(__file__))))

from common import VERIF, Ctx, InfraError  # noqa: E402
from oracle import c04ref, dense  # noqa: E402

LEAN_TARGETS = ["QuriVerif.Props.C04", "QuriVerif.Props.C04Lift", "QuriVerif.Driver.C04"]
ENTRY = "DriverC04.lean"
SCALE = 16  # fixed-point denominator of coefficients (Model/C04.lean `scale`)
UNIT = 1.0 / 32.0  # grid unit of parameter values and linear coefficients' products (exact in binary)
PN = {1: "X", 2: "Y", 3: "Z"}

K_STOP = "general-estimator.empty-params-StopIteration"
K_SHORT = "qulacs-vector-parametric.short-params-zero-padded"
K_COMPILED = "compiled-circuit.gates-added-after-compile-ignored"
FORMATS = ["csc", "csr", "bsr", "coo", "dok", "dia", "lil"]

TRUSTED = [
    "Lean 4.33 kernel; axioms audited ⊆ {propext, Classical.choice, Quot.sound}",
    "backend expectation values (Qulacs GeneralQuantumOperator.get_expectation_value on QuantumState / DensityMatrix, "
    "stim TableauSimulator.peek_observable_expectation, scipy.sparse.kron): abstract `ev` in the theorems, validated "
    "numerically on every run against oracle/c04ref.py (independent numpy, bit-action Pauli matrices)",
    "the installed quri_parts.rust 0.27 binary (QuantumCircuit, bind_parameters, rust convert_circuit) stands in for "
    "the unbuildable working-tree Rust",
    "correspondence harness: canonicalisers, the recording proxy around qulacs.ParametricQuantumCircuit, decoding of "
    "pairings from exactly representable values",
    "floating point: correspondence inputs are dyadic (coefficients k/16, parameters k/32) so every compared number is "
    "exact; the numeric comparison uses the absolute tolerance 1e-9·(1+Σ|coef|)·max(1, <v|v>) (v the initial vector)",
]


# ---------------------------------------------------------------------------
# encodings  (label = tuple of (qubit, pauli id) sorted by qubit ; coef = (re, im) in units of 1/16)
# ---------------------------------------------------------------------------
def enc_label(l):
    return "-" if not l else ",".join(f"{q}.{p}" for q, p in l)


def enc_term(t):
    return f"{enc_label(t[0])}:{t[1][0]}/{t[1][1]}"


def enc_est(e):
    return ("L" + enc_label(e[1])) if e[0] == "L" else ("O" + ";".join(enc_term(t) for t in e[1]))


def est_terms(e):
    return [(e[1], (SCALE, 0))] if e[0] == "L" else list(e[1])


def cplx(c):
    return complex(c[0] / SCALE, c[1] / SCALE)


def fix(z, what="value"):
    """complex -> (re, im) fixed-point integers; the value must be a multiple of 1/16 up to 1e-9"""
    z = complex(z)
    a, b = z.real * SCALE, z.imag * SCALE
    ra, rb = round(a), round(b)
    if abs(a - ra) > 1e-9 or abs(b - rb) > 1e-9:
        return f"non-dyadic:{z!r}"
    return (int(ra), int(rb))


def real_label(l):
    from quri_parts.core.operator import PAULI_IDENTITY, pauli_label

    return PAULI_IDENTITY if not l else pauli_label(" ".join(f"{PN[p]}{q}" for q, p in l))


def coef_py(rng, c):
    """the same number in one of Python's numeric types (int/float/complex compare and hash equal)"""
    z = cplx(c)
    if z.imag == 0:
        r = rng.random()
        if z.real == int(z.real) and r < 0.3:
            return int(z.real)
        if r < 0.7:
            return z.real
    return z


def real_est(rng, e):
    from quri_parts.core.operator import Operator

    if e[0] == "L":
        return real_label(e[1])
    return Operator({real_label(l): coef_py(rng, c) for l, c in e[1]})


def label_of_real(lab):
    return tuple(sorted((int(q), int(p)) for q, p in lab))


def rand_label(rng, n, allow_id=True, max_index=None):
    hi = n if max_index is None else max_index
    qs = [q for q in range(hi) if rng.random() < 0.5]
    if not qs and not allow_id:
        qs = [rng.randrange(hi)]
    return tuple((q, rng.choice([1, 2, 3])) for q in qs)


HASH_TWINS = [(-16, 0), (-32, 0)]  # -1 and -2: CPython hashes them alike (hash(-1) == hash(-2) == -2), also as floats


def rand_coef(rng, allow_zero=True):
    if rng.random() < 0.2:
        return rng.choice(HASH_TWINS + [(16, 0), (32, 0), (0, -16), (0, -32)])
    while True:
        c = (rng.randint(-40, 40), rng.choice([0, 0, 0, rng.randint(-24, 24)]))
        if allow_zero or c != (0, 0):
            return c


def rand_est(rng, n, zlabels=False, max_index=None):
    """random Estimatable on n qubits; zlabels: only I/Z strings (non-trivial on basis states)"""
    r = rng.random()

    def lab(allow_id=True):
        l = rand_label(rng, n, allow_id, max_index)
        if zlabels and rng.random() < 0.8:
            l = tuple((q, 3) for q, _ in l)
        return l

    if r < 0.15:
        return ("L", lab())
    if r < 0.22:
        return ("O", [])
    k = rng.randint(1, 5)
    terms, seen = [], set()
    for _ in range(k):
        l = lab()
        if l in seen:
            continue
        seen.add(l)
        terms.append((l, rand_coef(rng, allow_zero=rng.random() < 0.1)))
    if rng.random() < 0.4 and () not in seen:
        terms.insert(rng.randint(0, len(terms)), ((), rand_coef(rng)))
    return ("O", terms)


def exc_name(e):
    return type(e).__name__


# ---------------------------------------------------------------------------
# K1  conversion cache
# ---------------------------------------------------------------------------
def qulacs_terms(op, _n=None):
    out = []
    for i in range(op.get_term_count()):
        t = op.get_term(i)
        lab = tuple(sorted(zip(t.get_index_list(), t.get_pauli_id_list())))
        out.append((tuple((int(q), int(p)) for q, p in lab), fix(t.get_coef())))
    return out, op.get_qubit_count()


def stim_terms(lst, n):
    out = []
    for ps, coef in lst:
        if ps.sign != 1:
            return [("bad-sign", (0, 0))], n
        lab = tuple((i, int(p)) for i, p in enumerate(ps) if int(p) != 0)
        out.append((lab, fix(coef)))
    return out, n


def key_canon(k):
    """canonical reading of a cache key of the documented shape (frozenset of (label, coefficient), n_qubits);
    any other shape is reported as opaque (a correspondence difference, not a crash)"""
    try:
        fs, n = k
        return (frozenset((label_of_real(l), fix(c)) for l, c in fs), int(n))
    except Exception:  # noqa: BLE001
        return ("opaque-key", type(k).__name__)


def k_cache(ctx: Ctx):
    import quri_parts.qulacs.operator as qop

    backends = [("qulacs", qop, qulacs_terms)]
    try:
        import quri_parts.stim.operator as sop

        backends.append(("stim", sop, stim_terms))
    except ImportError as e:  # optional backend
        ctx.notes.append(f"stim backend not available: {e}")
    rng = ctx.rng
    hist = []
    for _ in range(ctx.n(60, 600)):
        n = rng.randint(1, 4)
        pool = [rand_est(rng, n) for _ in range(rng.randint(1, 4))]
        steps = []
        for _ in range(rng.randint(2, 9)):
            r = rng.random()
            i = rng.randrange(len(pool))
            if r < 0.25 and pool[i][0] == "O":
                # mutate the operator object in place (new coefficient / new term / dropped term)
                terms = list(pool[i][1])
                m = rng.random()
                if terms and m < 0.4:
                    j = rng.randrange(len(terms))
                    twin = {HASH_TWINS[0]: HASH_TWINS[1], HASH_TWINS[1]: HASH_TWINS[0]}.get(tuple(terms[j][1]))
                    terms[j] = (terms[j][0], twin if (twin and rng.random() < 0.7) else rand_coef(rng))
                    steps.append(("set", i, terms[j]))
                elif terms and m < 0.6:
                    j = rng.randrange(len(terms))
                    steps.append(("del", i, terms[j]))
                    del terms[j]
                else:
                    l = rand_label(rng, n)
                    if l in [t[0] for t in terms]:
                        continue
                    t = (l, rand_coef(rng))
                    terms.append(t)
                    steps.append(("set", i, t))
                pool[i] = ("O", terms)
                continue
            if r < 0.32:
                # same content, items inserted in another order (a different dict, an equal frozenset)
                if pool[i][0] == "O" and len(pool[i][1]) > 1:
                    terms = list(pool[i][1])
                    rng.shuffle(terms)
                    pool.append(("O", terms))
                    i = len(pool) - 1
                    steps.append(("new", i, pool[i]))
            if r > 0.92:
                # a label outside the register
                e = ("O", [(((n + rng.randint(0, 2), 3),), rand_coef(rng))])
                pool.append(e)
                i = len(pool) - 1
                steps.append(("new", i, e))
            nq = n if rng.random() < 0.8 else rng.randint(1, 5)
            steps.append(("req", i, nq, pool[i]))
        hist.append((n, pool, steps))
    # hash-twin histories: the same labels with coefficient -1, then -2 (equal hashes in CPython), once by mutating the
    # operator in place and once with a fresh operator object — a content-keyed cache must tell them apart
    for _ in range(ctx.n(6, 40)):
        n = rng.randint(1, 4)
        labels = []
        while len(labels) < rng.randint(1, 3):
            l = rand_label(rng, n)
            if l not in labels:
                labels.append(l)
        j = rng.randrange(len(labels))
        first, second = HASH_TWINS if rng.random() < 0.5 else HASH_TWINS[::-1]
        t1 = [(l, first if k == j else rand_coef(rng, allow_zero=False)) for k, l in enumerate(labels)]
        t2 = [(l, second if k == j else c) for k, (l, c) in enumerate(t1)]
        if rng.random() < 0.5:
            pool = [("O", t2)]
            steps = [("req", 0, n, ("O", t1)), ("set", 0, t2[j]), ("req", 0, n, ("O", t2))]
        else:
            pool = [("O", t1), ("O", t2)]
            steps = [("req", 0, n, ("O", t1)), ("req", 1, n, ("O", t2)), ("req", 0, n, ("O", t1))]
        hist.append((n, pool, steps))
    for bname, mod, termf in backends:
        reqs, reals = [], []
        for n, pool0, steps in hist:
            mod._operator_cache.clear()
            objs = {}
            line, real = [], []
            for s in steps:
                if s[0] == "new":
                    objs[s[1]] = real_est(rng, s[2])
                elif s[0] == "set":
                    if s[1] in objs:
                        objs[s[1]][real_label(s[2][0])] = coef_py(rng, s[2][1])
                elif s[0] == "del":
                    if s[1] in objs:
                        del objs[s[1]][real_label(s[2][0])]
                else:
                    _, i, nq, e = s
                    if i not in objs:
                        objs[i] = real_est(rng, e)
                    elif e[0] == "O" and sorted(est_terms(e)) != sorted(
                        (label_of_real(l), fix(c)) for l, c in objs[i].items()
                    ):
                        objs[i] = real_est(rng, e)  # first use after mutations recorded before creation
                    line.append(f"{nq}#{enc_est(e)}")
                    cache = mod._operator_cache
                    before = len(cache)
                    try:
                        r = mod.convert_operator(objs[i], nq)
                    except Exception as ex:  # noqa: BLE001
                        real.append(("err:" + exc_name(ex), len(cache)))
                        continue
                    terms, rn = termf(r, nq)
                    if sorted(terms) != sorted(est_terms(e)) or rn != nq:
                        ctx.witness(f"convert_operator:{bname}", f"{bname} convert_operator returns an operator that is not the requested one "
                                    "(after the recorded call history on an initially empty cache)",
                                    {"kind": "cache-history", "backend": bname, "history": list(line)},
                                    {"requested": enc_est(e), "n_qubits": nq, "returned_terms": str(terms), "returned_n": rn})
                    keys = [k for k, v in cache.items() if v is r]
                    kc = key_canon(keys[0]) if len(keys) == 1 else ("keys", len(keys))
                    real.append(("hit" if len(cache) == before else "miss", len(cache), rn, terms, kc))
            reqs.append("c04cache " + " | ".join(line))
            reals.append(real)
            mod._operator_cache.clear()
        resp = ctx.driver(reqs, entry=ENTRY)
        for rq, real, r in zip(reqs, reals, resp):
            ctx.traces += 1
            parts = r.split("|") if r else []
            ok = len(parts) == len(real)
            kinds = []
            if ok:
                for p, rl in zip(parts, real):
                    f = p.split("~")
                    kinds.append(f[0])
                    if f[0].startswith("err"):
                        ok = ok and rl[0] == f[0] and rl[1] == int(f[1])
                        continue
                    mterms = dec_terms(f[3])
                    mkey = (frozenset(dec_terms(f[4])), int(f[2]))
                    ok = ok and rl[0] == f[0] and rl[1] == int(f[1]) and rl[2] == int(f[2]) and rl[3] == mterms and rl[4] == mkey
            for k in kinds:
                ctx.count(f"cache.{bname}", k)
            ctx.case((bname, rq), nontrivial=("hit" in kinds), sample={"backend": bname, "history": rq[:200]} if bname == "qulacs" else None)
            if not ok:
                ctx.disagree(f"cache:{bname}", rq, repr(real)[:600], r[:600])


def dec_label(s):
    s = s.strip()
    if s == "-":
        return ()
    return tuple((int(a), int(b)) for a, b in (x.split(".") for x in s.split(",")))


def dec_terms(s):
    s = s.strip()
    if not s:
        return []
    out = []
    for t in s.split(";"):
        l, c = t.split(":")
        a, b = c.split("/")
        out.append((dec_label(l), (int(a), int(b))))
    return out


# ---------------------------------------------------------------------------
# estimator entry points
# ---------------------------------------------------------------------------
def entry_points():
    """name -> dict(one=, conc=, cache=module, states=kinds) for every concurrent-capable exact estimator"""
    import quri_parts.core.estimator as ce
    import quri_parts.qulacs.estimator as qe
    import quri_parts.qulacs.operator as qop
    from quri_parts.circuit.noise import NoiseModel

    nm = NoiseModel()
    vec = qe.create_qulacs_vector_estimator()
    dmx = qe.create_qulacs_density_matrix_estimator(nm)
    gv = qe.create_qulacs_general_vector_estimator()
    gd = qe.create_qulacs_general_density_matrix_estimator(nm)
    eps = {
        "qulacs.vector": dict(one=vec, conc=qe.create_qulacs_vector_concurrent_estimator(), kind="conc", cache=qop, be="qulacs"),
        "qulacs.dm": dict(one=dmx, conc=qe.create_qulacs_density_matrix_concurrent_estimator(nm), kind="conc", cache=qop, be="qulacs"),
        "qulacs.general.vector": dict(one=lambda o, s: gv(o, s), conc=lambda o, s: gv(o, s), kind="conc", cache=qop, be="qulacs", gen=True),
        "qulacs.general.dm": dict(one=lambda o, s: gd(o, s), conc=lambda o, s: gd(o, s), kind="conc", cache=qop, be="qulacs", gen=True),
        "core.lift.vector": dict(one=ce.create_estimator_from_concurrent_estimator(ce.create_concurrent_estimator_from_estimator(vec)),
                                 conc=ce.create_concurrent_estimator_from_estimator(vec), kind="core", cache=qop, be="qulacs"),
        "core.general.dm": dict(one=ce.create_general_estimator_from_estimator(dmx).estimator,
                                conc=lambda o, s: ce.create_general_estimator_from_estimator(dmx)(o, s), kind="core", cache=qop, be="qulacs", gen=True),
        "core.general.from-conc": dict(one=ce.create_general_estimator_from_concurrent_estimator(qe.create_qulacs_vector_concurrent_estimator()).estimator,
                                       conc=ce.create_general_estimator_from_concurrent_estimator(qe.create_qulacs_vector_concurrent_estimator()).concurrent_estimator,
                                       kind="conc", cache=qop, be="qulacs", one_is_conc=True),
    }
    try:
        import quri_parts.stim.estimator as se
        import quri_parts.stim.operator as sop

        st = se.create_stim_clifford_estimator()
        eps["stim"] = dict(one=st, conc=se.create_stim_clifford_concurrent_estimator(), kind="conc", cache=sop, be="stim")
        eps["core.lift.stim"] = dict(one=st, conc=ce.create_concurrent_estimator_from_estimator(st), kind="core", cache=sop, be="stim")
    except ImportError as e:
        ctx_note = f"stim backend not available: {e}"
        eps["__note__"] = ctx_note
    return eps


def basis_state(rng, n, bits, be):
    """a computational basis state built in one of several ways"""
    import numpy as np

    from quri_parts.circuit import QuantumCircuit
    from quri_parts.core.state import ComputationalBasisState, GeneralCircuitQuantumState, QuantumStateVector

    r = rng.random()
    if r < 0.3:
        return ComputationalBasisState(n, bits=bits)
    c = QuantumCircuit(n)
    for q in range(n):
        if (bits >> q) & 1:
            c.add_X_gate(q)
    if r < 0.6 or be == "stim":
        return GeneralCircuitQuantumState(n, c)
    if r < 0.8:
        from quri_parts.qulacs.circuit.compiled_circuit import compile_circuit

        return GeneralCircuitQuantumState(n, compile_circuit(c))
    v = np.zeros(2**n, dtype=complex)
    v[bits] = 1.0
    return QuantumStateVector(n, v)


def batch_err_kind(e):
    m = str(e)
    if isinstance(e, ValueError):
        if "No operator" in m:
            return "ValueError:noOperator"
        if "No state" in m:
            return "ValueError:noState"
        if "does not match" in m:
            return "ValueError:mismatch"
    return exc_name(e)


# ---------------------------------------------------------------------------
# K2  batch shapes
# ---------------------------------------------------------------------------
def doc_batch(a, b):
    """the documented behaviour of a ConcurrentQuantumEstimator, written down independently of the model"""
    if a == 0:
        return "err:ValueError:noOperator"
    if b == 0:
        return "err:ValueError:noState"
    if a != 1 and b != 1 and a != b:
        return "err:ValueError:mismatch"
    return "ok:" + ",".join(f"{0 if a == 1 else i}.{0 if b == 1 else i}" for i in range(max(a, b)))


def k_batch(ctx: Ctx):
    import quri_parts.qulacs.estimator as qe
    from quri_parts.core.operator import Operator

    rng = ctx.rng
    eps = entry_points()
    note = eps.pop("__note__", None)
    if note:
        ctx.notes.append(note)
    hi = ctx.n(4, 7)
    n = 3
    shapes = [(a, b) for a in range(hi + 1) for b in range(hi + 1)]
    resp = ctx.driver([f"c04batch {a} {b}" for a, b in shapes], entry=ENTRY)
    model = dict(zip(shapes, resp))

    def op_i(i):
        return Operator({real_label(()): 16.0 * (i + 1) + 3.5, real_label(((0, 3),)): -0.5, real_label(((1, 3),)): -1.0, real_label(((2, 3),)): -2.0})

    # path observation for the module-level workers
    paths = []
    saved = {}
    mods = [qe]
    try:
        import quri_parts.stim.estimator as se

        mods.append(se)
    except ImportError:
        pass

    def wrap(mod, name, tag):
        orig = getattr(mod, name)
        saved[(mod, name)] = orig

        def w(a, b):
            paths.append(tag)
            return orig(a, b)

        setattr(mod, name, w)

    for m in mods:
        wrap(m, "_sequential_estimate_single_state", "single")
        wrap(m, "_sequential_estimate", "pairs")
    try:
        for name, ep in eps.items():
            for a, b in shapes:
                ops = [op_i(i) for i in range(a)]
                states = [basis_state(rng, n, j, ep["be"]) for j in range(b)]
                ops_arg = tuple(ops) if rng.random() < 0.3 else ops
                del paths[:]
                try:
                    rs = list(ep["conc"](ops_arg, states))
                    pairs = []
                    bad = None
                    for r in rs:
                        v = complex(r.value)
                        k = round(v.real)
                        if abs(v.real - k) > 1e-9 or abs(v.imag) > 1e-9 or r.error != 0.0:
                            bad = f"value {v!r} error {r.error!r}"
                            break
                        pairs.append((k // 16 - 1, k % 16))
                    real = bad or "ok:" + ",".join(f"{i}.{j}" for i, j in pairs)
                except Exception as e:  # noqa: BLE001
                    real = "err:" + batch_err_kind(e)
                m = model[(a, b)]
                mq, mc = m.split(" core=")
                if ep["kind"] == "core":
                    want = mc.replace("err:", "err:ValueError:")
                    path_ok = True
                else:
                    want = mq.replace("err:", "err:ValueError:")
                    path_ok = True
                    if want.startswith("ok:"):
                        _, pth, prs = want.split(":", 2)
                        want = "ok:" + prs
                        if name in ("qulacs.vector", "stim"):
                            path_ok = paths == [pth]
                doc = doc_batch(a, b)
                if real != doc:
                    ctx.witness(f"batch:{name}", f"{name}: {a} operators x {b} states is not handled as documented (1:N, N:1, N:N; "
                                "ValueError for no operator / no state / N:M)", {"kind": "batch", "entry": name, "numOps": a, "numStates": b},
                                {"real": real, "documented": doc})
                ctx.traces += 1
                ctx.count("batch.outcome", real.split(":")[1] if real.startswith("err") else "ok")
                ctx.case(("batch", name, a, b), nontrivial=(a >= 1 and b >= 1), sample={"entry": name, "numOps": a, "numStates": b, "model": m} if (a, b) == (3, 1) else None)
                if real != want or not path_ok:
                    ctx.disagree(f"batch:{name}", {"numOps": a, "numStates": b}, f"{real} paths={paths}", m)
                # the same shape with batch entries that are one and the same Python object (`[s] * N`, one reference appended
                # several times, the same Operator at several positions): the documented pairing is by position and content,
                # never by object identity
                if a >= 2 or b >= 2:
                    opat, spat = alias_pattern(rng, a), alias_pattern(rng, b)
                    if opat == list(range(a)) and spat == list(range(b)):
                        if b >= 2 and (a < 2 or rng.random() < 0.6):
                            spat = [0] * b
                        else:
                            opat = [0] * a
                    oobj = {c: op_i(c) for c in set(opat)}
                    sobj = {c: basis_state(rng, n, c, ep["be"]) for c in set(spat)}
                    oa_ = [oobj[c] for c in opat]
                    sa_ = [sobj[c] for c in spat]
                    try:
                        rs = list(ep["conc"](tuple(oa_) if rng.random() < 0.3 else oa_, tuple(sa_) if rng.random() < 0.3 else sa_))
                        pairs, bad = [], None
                        for r in rs:
                            v = complex(r.value)
                            k = round(v.real)
                            if abs(v.real - k) > 1e-9 or abs(v.imag) > 1e-9 or r.error != 0.0:
                                bad = f"value {v!r} error {r.error!r}"
                                break
                            pairs.append((k // 16 - 1, k % 16))
                        real2 = bad or "ok:" + ",".join(f"{i}.{j}" for i, j in pairs)
                    except Exception as e:  # noqa: BLE001
                        real2 = "err:" + batch_err_kind(e)
                    doc2 = doc
                    if doc.startswith("ok:"):
                        doc2 = "ok:" + ",".join(f"{opat[int(i)]}.{spat[int(j)]}" for i, j in (x.split(".") for x in doc[3:].split(",")))
                    ctx.traces += 1
                    ctx.count("batch.aliased", ("ops " if opat != list(range(a)) else "") + ("states" if spat != list(range(b)) else ""))
                    ctx.case(("batch-aliased", name, a, b, tuple(opat), tuple(spat)), nontrivial=(a >= 1 and b >= 1))
                    if real2 != doc2:
                        ctx.witness(f"batch-aliased:{name}", f"{name}: {a} operators x {b} states, some entries being one and the same object, "
                                    "is not handled as documented (one estimate per position: 1:N, N:1, N:N)",
                                    {"kind": "batch-aliased", "entry": name, "numOps": a, "numStates": b,
                                     "operator_entry_is_object_number": opat, "state_entry_is_object_number": spat,
                                     "operators": "object c = (16(c+1)+3.5) I - 0.5 Z0 - Z1 - 2 Z2", "states": "object c = basis state |c> on 3 qubits"},
                                    {"real (operator.state per estimate)": real2, "documented": doc2})
    finally:
        for (mod, name), orig in saved.items():
            setattr(mod, name, orig)


# ---------------------------------------------------------------------------
# K3  sessions on basis states
# ---------------------------------------------------------------------------
def run_session(ctx: Ctx, rng, be, lst, n, calls):
    """one call sequence on the real estimators of one backend, starting from an empty conversion cache"""
    cache = lst[0][1]["cache"]._operator_cache
    cache.clear()
    real = []
    for kind, os_, ss in calls:
        cands = [(nm, ep) for nm, ep in lst if (kind == "one") or ep["kind"] == kind]
        nm, ep = rng.choice(cands)
        # equal entries of a batch are, at random, one and the same Python object or equal but distinct objects
        share = rng.random() < 0.6
        omade, smade = {}, {}
        rops = []
        for e in os_:
            k_ = enc_est(e)
            if not (share and k_ in omade):
                omade[k_] = real_est(rng, e)
                rops.append(omade[k_])
            else:
                rops.append(omade[k_])
        rstates = []
        for _, b in ss:
            if not (share and b in smade):
                smade[b] = basis_state(rng, n, b, be)
            rstates.append(smade[b])
        if share and (len(set(map(id, rops))) < len(rops) or len(set(map(id, rstates))) < len(rstates)):
            ctx.count(f"session.{be}", "aliased-batch")
        try:
            if kind == "one":
                if ep.get("one_is_conc"):
                    nm, ep = lst[0]
                rs = [ep["one"](rops[0], rstates[0])]
            else:
                rs = list(ep["conc"](rops, rstates))
            vals = []
            na, nb = len(os_), len(ss)
            for idx, r in enumerate(rs):
                oe = sb = None
                if kind == "one":
                    oe, sb = os_[0], ss[0]
                elif doc_batch(na, nb).startswith("ok") and idx < max(na, nb):
                    oe, sb = os_[0 if na == 1 else idx], ss[0 if nb == 1 else idx]
                if oe is not None:
                    w = c04ref.basis_expectation([(l, cplx(c)) for l, c in est_terms(oe)], n, sb[1])
                    if abs(complex(r.value) - w) > 1e-9 or r.error != 0.0:
                        ctx.witness(f"wrong-value:{nm}", f"{nm} differs from the exact value on a computational basis state "
                                    "(call sequence on an initially empty conversion cache)",
                                    {"kind": "session", "backend": be, "calls": [(k2, [enc_est(x) for x in o2], s2) for k2, o2, s2 in calls]},
                                    {"call": len(real), "index": idx, "got": str(r), "want": str(w)})
                f = fix(r.value)
                vals.append(f"{f[0]}/{f[1]}e{0 if r.error == 0.0 else repr(r.error)}" if isinstance(f, tuple) else f)
            real.append(f"ok:{','.join(vals)}~{len(cache)}")
        except IndexError:
            real.append("err:IndexError")
            break
        except Exception as e:  # noqa: BLE001
            real.append("err:" + batch_err_kind(e))
        ctx.count(f"session.{be}", f"{kind}:{nm}")
    cache.clear()
    return real


def k_sessions(ctx: Ctx):
    rng = ctx.rng
    eps = entry_points()
    eps.pop("__note__", None)
    by_be = {}
    for name, ep in eps.items():
        by_be.setdefault(ep["be"], []).append((name, ep))
    sessions = []
    for _ in range(ctx.n(50, 500)):
        n = rng.randint(1, 4)
        pool = [rand_est(rng, n, zlabels=True) for _ in range(rng.randint(2, 5))]
        calls = []
        ncalls = rng.randint(1, 5)
        for ci in range(ncalls):
            kind = rng.choice(["one", "conc", "conc", "core"])
            last = ci == ncalls - 1
            if kind == "one":
                os_ = [rng.choice(pool)]
                ss = [(n, rng.randrange(2**n))]
            else:
                shape = rng.choice(["1:N", "N:1", "N:N", "1:1", "bad"]) if last else rng.choice(["1:N", "N:1", "N:N", "1:1"])
                k = rng.randint(2, 4)
                a, b = {"1:N": (1, k), "N:1": (k, 1), "N:N": (k, k), "1:1": (1, 1), "bad": rng.choice([(0, 1), (1, 0), (0, 0), (2, 3), (3, 2)])}[shape]
                os_ = [rng.choice(pool) for _ in range(a)]
                ss = [(n, rng.randrange(2**n)) for _ in range(b)]
                if b > 1 and rng.random() < 0.3:
                    ss = [ss[0]] * b  # the same state at every position
            if last and rng.random() < 0.15 and os_:
                os_[-1] = ("O", [(((n + rng.randint(0, 1), 3),), (16, 0))])  # IndexError ends the session
            calls.append((kind, os_, ss))
        sessions.append((n, calls))
    for be, lst in by_be.items():
        reqs, reals = [], []
        for n, calls in sessions:
            real = run_session(ctx, rng, be, lst, n, calls)
            reqs.append("c04session " + " @@ ".join(
                f"{kind}~{'&'.join(enc_est(e) for e in os_)}~{'&'.join(f'{a}.{b}' for a, b in ss)}" for kind, os_, ss in calls))
            reals.append("@@".join(real))
        resp = ctx.driver(reqs, entry=ENTRY)
        for rq, real, r in zip(reqs, reals, resp):
            ctx.traces += 1
            ctx.case((be, rq), nontrivial=True, sample={"backend": be, "session": rq[:240], "model": r[:200]} if be == "qulacs" else None)
            if real != r:
                ctx.disagree(f"session:{be}", rq, real[:600], r[:600])


# ---------------------------------------------------------------------------
# K4  GeneralQuantumEstimator.__call__
# ---------------------------------------------------------------------------
def doc_general(o, s, p):
    """the combinations listed in the class docstring (None = not a documented combination).
    The empty parameter argument is the known finding and is handled by `witnesses`."""
    k = None if o == "S" else int(o[1:])
    m = None if s == "S" else int(s[1:])
    if p == "N":
        if k is None and m is None:
            return "ok:estimator"
        return f"ok:concurrent:{1 if k is None else k}:{1 if m is None else m}"
    if k is None and m is None:
        if p[0] == "F":
            return "ok:parametric"
        if p[0] == "V":
            return f"ok:concurrentParametric:{int(p[1:])}"
    return None


def k_general(ctx: Ctx):
    import numpy as np

    from quri_parts.circuit import ParametricQuantumCircuit, QuantumCircuit
    from quri_parts.core.estimator import GeneralQuantumEstimator
    from quri_parts.core.operator import Operator
    from quri_parts.core.state import GeneralCircuitQuantumState, ParametricCircuitQuantumState

    calls = []

    def est(o, s):
        calls.append("estimator")
        return "E"

    def conc(o, s):
        calls.append(f"concurrent:{len(o)}:{len(s)}")
        return ["E"] * max(len(o), len(s))

    def par(o, s, p):
        calls.append("parametric")
        return "E"

    def cpar(o, s, p):
        calls.append(f"concurrentParametric:{len(list(p))}")
        return ["E"]

    g = GeneralQuantumEstimator(est, conc, par, cpar)
    op1 = Operator({real_label(((0, 3),)): 1.0})
    lab1 = real_label(((0, 1),))
    st = GeneralCircuitQuantumState(1, QuantumCircuit(1))
    pst = ParametricCircuitQuantumState(1, ParametricQuantumCircuit(1))
    rng = ctx.rng
    cases = []
    for o in ["S", "Q0", "Q1", "Q2", "Q3"]:
        for s in ["S", "Q0", "Q1", "Q3"]:
            for p in ["N", "E", "F1", "F3", "V1", "V2"]:
                for rep in range(3):
                    cases.append((o, s, p, rep))
    resp = ctx.driver([f"c04general {o} {s} {p}" for o, s, p, _ in cases], entry=ENTRY)
    for (o, s, p, rep), m in zip(cases, resp):
        single_op = op1 if rep != 1 else lab1
        oa = single_op if o == "S" else [rng.choice([op1, lab1]) for _ in range(int(o[1:]))]
        if o != "S" and rep == 2:
            oa = tuple(oa)
        base = pst if p != "N" else st
        sa = base if s == "S" else [base for _ in range(int(s[1:]))]
        if s != "S" and rep == 1:
            sa = tuple(sa)
        if p == "N":
            pa = None
        elif p == "E":
            pa = [[], (), np.array([])][rep]
        elif p[0] == "F":
            k = int(p[1:])
            pa = [[0.5] * k, tuple([0.25] * k), np.array([0.5] * k)][rep]
        else:
            k = int(p[1:])
            pa = [[[0.5, 0.25]] * k, tuple([(0.5,)] * k), np.array([[0.5, 0.25]] * k)][rep]
        del calls[:]
        try:
            if pa is None:
                g(oa, sa)
            else:
                g(oa, sa, pa)
            real = "ok:" + ",".join(calls)
        except BaseException as e:  # noqa: BLE001  (StopIteration is not an Exception subclass issue, but be safe)
            real = "err:" + exc_name(e)
        doc = doc_general(o, s, p)
        if doc is not None and real != doc:
            ctx.witness("general-call:" + (real if real.startswith("err") else "routing"),
                        "GeneralQuantumEstimator.__call__ does not route a documented argument combination to the documented estimator",
                        {"kind": "general-call", "op": o, "state": s, "param": p, "container_variant": rep}, {"real": real, "documented": doc})
        ctx.traces += 1
        ctx.count("general", m.split(":")[1] if ":" in m else m)
        ctx.case(("general", o, s, p, rep), nontrivial=True, sample={"op": o, "state": s, "param": p, "model": m} if (o, s, p, rep) == ("S", "S", "E", 0) else None)
        if real != m:
            ctx.disagree("general-call", {"op": o, "state": s, "param": p, "variant": rep}, real, m)


# ---------------------------------------------------------------------------
# K5  parametric circuits
# ---------------------------------------------------------------------------
class _Rec:
    """recording proxy around a qulacs.ParametricQuantumCircuit (what the estimator sets and simulates)"""

    def __init__(self, circ, log, is_copy=False):
        self._c = circ
        self._log = log
        self._is_copy = is_copy

    def copy(self):
        self._log.append(("copy",))
        return _Rec(self._c.copy(), self._log, True)

    def set_parameter(self, i, v):
        self._c.set_parameter(i, v)  # raises IndexError itself when out of range
        self._log.append(("set", i, v, self._is_copy))

    def update_quantum_state(self, st):
        self._log.append(("run", tuple(self._c.get_parameter(i) for i in range(self._c.get_parameter_count())), self._is_copy))
        return self._c.update_quantum_state(st)

    def get_parameter(self, i):
        return self._c.get_parameter(i)

    def get_parameter_count(self):
        return self._c.get_parameter_count()


def rand_pcirc(rng, n):
    """plain-data parametric circuit: ('U'|'L', nparams, gates[spec]) ; angles/coefs are integers (grid units)"""
    kind = rng.choice(["U", "L"])
    gates = []
    nparams = rng.randint(0, 3) if kind == "L" else 0
    for _ in range(rng.randint(0, 6)):
        r = rng.random()
        if r < 0.55:
            nm = rng.choice(["ParametricRX", "ParametricRY", "ParametricRZ", "ParametricPauliRotation"])
            if nm == "ParametricPauliRotation":
                k = rng.randint(1, min(3, n))
                t = rng.sample(range(n), k)
                g = dict(name=nm, t=t, pauli=[rng.choice([1, 2, 3]) for _ in t])
            else:
                g = dict(name=nm, t=[rng.randrange(n)])
            if kind == "L":
                coefs = {i: rng.randint(-4, 4) for i in range(nparams) if rng.random() < 0.6}
                coefs = {i: c for i, c in coefs.items() if c != 0}
                const = rng.choice([0, 0, rng.randint(-16, 16)])
                if not coefs and const == 0:
                    const = 3
                g["lin_int"] = dict(coefs=coefs, const=const)
            gates.append(g)
        elif r < 0.65:
            gates.append(dict(name=rng.choice(["H", "X", "S", "T", "SqrtX"]), t=[rng.randrange(n)]))
        elif r < 0.73 and n >= 2:
            a, b = rng.sample(range(n), 2)
            gates.append(dict(name=rng.choice(["CNOT", "CZ"]), c=[a], t=[b]))
        elif r < 0.78:
            gates.append(dict(name="RY", t=[rng.randrange(n)], params=[rng.randint(-20, 20) * UNIT]))
        else:
            # every plain gate kind (U1/U2/U3, TOFFOLI, SWAP, Pauli, PauliRotation, UnitaryMatrix, ...): inside a parametric
            # circuit these go through the Python `convert_gate`, not through the Rust converter of plain circuits
            gates.append(rand_gates(rng, n, 1)[0])
    if kind == "U":
        nparams = sum(1 for g in gates if g["name"].startswith("Parametric"))
    elif rng.random() < 0.2:
        # a one-to-one mapping with unit coefficients in an order different from the declaration order ("trivial" mapping
        # that is not the identity), parameters passed bare or as {p: 1.0}
        pg = [g for g in gates if g["name"].startswith("Parametric")]
        nparams = len(pg)
        perm = list(range(nparams))
        rng.shuffle(perm)
        for g, i in zip(pg, perm):
            g["lin_int"] = dict(coefs={i: 1}, const=0)
            g["bare"] = rng.random() < 0.5
    return kind, nparams, gates


def build_pcirc(kind, n, nparams, gates):
    from quri_parts.circuit import CONST, LinearMappedParametricQuantumCircuit, ParametricQuantumCircuit

    if kind == "U":
        pc = ParametricQuantumCircuit(n)
        ps = None
    else:
        pc = LinearMappedParametricQuantumCircuit(n)
        ps = pc.add_parameters(*[f"p{i}" for i in range(nparams)])
    for g in gates:
        nm = g["name"]
        if nm.startswith("Parametric"):
            args = []
            if ps is not None:
                li = g["lin_int"]
                fn = {ps[i]: float(c) for i, c in li["coefs"].items()}
                if li["const"] != 0:
                    fn[CONST] = li["const"] * UNIT
                args = [fn]
                if g.get("bare") and li["const"] == 0 and list(li["coefs"].values()) == [1]:
                    args = [ps[next(iter(li["coefs"]))]]  # the bare Parameter form of the same function
            if nm == "ParametricPauliRotation":
                pc.add_ParametricPauliRotation_gate(list(g["t"]), list(g["pauli"]), *args)
            else:
                getattr(pc, f"add_{nm}_gate")(g["t"][0], *args)
        else:
            add_plain_gate(pc, g)
    return pc


def add_plain_gate(c, g):
    nm = g["name"]
    t = list(g["t"])
    if nm in dense.ONE:
        getattr(c, f"add_{nm}_gate")(t[0])
    elif nm in ("RX", "RY", "RZ", "U1"):
        getattr(c, f"add_{nm}_gate")(t[0], g["params"][0])
    elif nm == "U2":
        c.add_U2_gate(t[0], *g["params"])
    elif nm == "U3":
        c.add_U3_gate(t[0], *g["params"])
    elif nm in ("CNOT", "CZ"):
        getattr(c, f"add_{nm}_gate")(g["c"][0], t[0])
    elif nm == "SWAP":
        c.add_SWAP_gate(t[0], t[1])
    elif nm == "TOFFOLI":
        c.add_TOFFOLI_gate(g["c"][0], g["c"][1], t[0])
    elif nm == "Pauli":
        c.add_Pauli_gate(t, list(g["pauli"]))
    elif nm == "PauliRotation":
        if hasattr(c, "add_PauliRotation_gate"):
            c.add_PauliRotation_gate(t, list(g["pauli"]), g["params"][0])
        else:  # the installed Rust ParametricQuantumCircuit has no such method (its stub declares one): add the gate object
            from quri_parts.circuit import PauliRotation

            c.add_gate(PauliRotation(t, list(g["pauli"]), g["params"][0]))
    elif nm == "UnitaryMatrix":
        c.add_UnitaryMatrix_gate(t, g["um"])
    else:
        raise InfraError(f"unknown gate {nm}")


def pc_model(kind, nparams, gates):
    if kind == "U":
        return f"U{nparams}"
    outs = []
    for g in gates:
        if g["name"].startswith("Parametric"):
            li = g["lin_int"]
            outs.append(",".join(str(li["coefs"].get(i, 0)) for i in range(nparams)) + f"+{li['const']}")
    return f"L{nparams}:" + ";".join(outs)


def oracle_gates(kind, gates):
    out = []
    for g in gates:
        h = dict(g)
        if g["name"].startswith("Parametric"):
            if kind == "L":
                li = g["lin_int"]
                h["lin"] = dict(coefs={i: float(c) for i, c in li["coefs"].items()}, const=li["const"] * UNIT)
            else:
                h["lin"] = None
        out.append(h)
    return out


def units(xs):
    out = []
    for x in xs:
        k = x / UNIT
        if abs(k - round(k)) > 1e-9:
            return f"off-grid:{x!r}"
        out.append(int(round(k)))
    return out


def show_units(res):
    if isinstance(res, str):
        return res
    return "ok:" + ",".join(str(v) for v in res)


def k_param(ctx: Ctx):
    import quri_parts.qulacs.estimator as qe
    from quri_parts.core.operator import Operator
    from quri_parts.core.state import ParametricCircuitQuantumState
    from quri_parts.qulacs.circuit import convert_parametric_circuit
    from quri_parts.qulacs.circuit.compiled_circuit import compile_parametric_circuit

    rng = ctx.rng
    op = Operator({real_label(((0, 3),)): 1.0})
    par_est = qe.create_qulacs_vector_parametric_estimator()
    cpar_est = qe.create_qulacs_vector_concurrent_parametric_estimator()
    reqs, reals, creqs, creals, meta = [], [], [], [], []
    for _ in range(ctx.n(60, 600)):
        n = rng.randint(1, 3)
        kind, nparams, gates = rand_pcirc(rng, n)
        pvs = []
        for _ in range(rng.randint(1, 4)):
            r = rng.random()
            ln = nparams if r < 0.6 else max(0, nparams + rng.choice([-2, -1, 1, 2]))
            pvs.append([rng.randint(-32, 32) for _ in range(ln)])
        real = []
        fresh_par = []
        pc = build_pcirc(kind, n, nparams, gates)
        npg = sum(1 for g in gates if g["name"].startswith("Parametric"))
        for pv in pvs:
            p = [v * UNIT for v in pv]
            # mapper
            try:
                qc, mp = convert_parametric_circuit(pc)
                if qc.get_parameter_count() != npg:
                    mres = f"param-count:{qc.get_parameter_count()}"
                else:
                    mres = show_units(units(mp(p)))
            except Exception as e:  # noqa: BLE001
                mres = "err:" + exc_name(e)
            # angles set and simulated inside the real estimator (fresh conversion path)
            log = []
            orig = qe.convert_parametric_circuit

            def patched(c, orig=orig, log=log):
                q, m = orig(c)
                return _Rec(q, log), m

            qe.convert_parametric_circuit = patched
            try:
                st = ParametricCircuitQuantumState(n, pc)
                r = par_est(op, st, p)
                runs = [x for x in log if x[0] == "run"]
                pres = show_units(units(runs[-1][1])) if len(runs) == 1 and r.error == 0.0 else f"runs:{len(runs)}"
            except Exception as e:  # noqa: BLE001
                pres = "err:" + exc_name(e)
            finally:
                qe.convert_parametric_circuit = orig
            # binding
            try:
                bc = pc.bind_parameters(p)
                angs = []
                gi = 0
                for g0, g1 in zip(gates, bc.gates):
                    if g0["name"].startswith("Parametric"):
                        if g1.name != c04ref.PARAM_BASE[g0["name"]] or tuple(g1.target_indices) != tuple(g0["t"]):
                            angs = f"gate-mismatch:{g1.name}"
                            break
                        angs.append(g1.params[0])
                    gi += 1
                bres = show_units(angs if isinstance(angs, str) else units(angs))
            except Exception as e:  # noqa: BLE001
                bres = "err:" + exc_name(e)
            bound = bres if not bres.startswith("ok:") else "ok:" + ",".join(str(-int(v)) for v in bres[3:].split(",") if v)
            real.append(f"mapper={mres}~par={pres}~bind={bres}~bound={bound}")
            if len(pv) == nparams:
                # independent expectation: gate i rotates by its affine function of the parameters
                k_ = 0
                exp = []
                for g0 in gates:
                    if g0["name"].startswith("Parametric"):
                        if kind == "U":
                            exp.append(pv[k_])
                        else:
                            li = g0["lin_int"]
                            exp.append(sum(c * pv[i] for i, c in li["coefs"].items()) + li["const"])
                        k_ += 1
                want_b = "ok:" + ",".join(str(-v) for v in exp)
                pinp = {"kind": "parametric-angles", "n": n, "circuit": [kind, nparams, gates], "params_in_units_of_1/32": pv}
                if pres != want_b:
                    ctx.witness("parametric-angles:qulacs.vector.parametric", "the vector parametric estimator simulates the backend circuit "
                                "with angles other than those of the circuit bound to the same parameters", pinp,
                                {"backend_angles_set": pres, "expected(-bound angles)": want_b, "bind_parameters": bres})
                elif bound != want_b:
                    ctx.witness("bind-angles", "bind_parameters gives rotation angles other than the documented affine functions", pinp,
                                {"bind": bres, "expected": want_b})
            fresh_par.append(pres)
            ctx.count("param.len", "exact" if len(pv) == nparams else ("short" if len(pv) < nparams else "long"))
        pm = pc_model(kind, nparams, gates)
        reqs.append(f"c04param {pm} | " + " ; ".join(",".join(map(str, pv)) if pv else "_" for pv in pvs))
        reals.append(" ".join(real))
        meta.append((kind, n, nparams, gates, pvs))
        # compiled circuit: one held backend circuit, a sequence of estimations, copies only
        if rng.random() < 0.7:
            cc = compile_parametric_circuit(pc)
            held = cc._qulacs_circuit
            log = []
            cc._qulacs_circuit = _Rec(held, log)
            if kind == "L":
                cc._qulacs_param_mapper_backup = None
            st = ParametricCircuitQuantumState(n, cc)
            if kind == "U":
                st._circuit = cc  # the state freezes an unbound compiled circuit back to a plain one; hand it through
            out = []
            for pv in pvs:
                p = [v * UNIT for v in pv]
                del log[:]
                try:
                    rs = list(cpar_est(op, st, [p]))
                    runs = [x for x in log if x[0] == "run"]
                    copies = [x for x in log if x[0] == "copy"]
                    if len(runs) != 1 or len(copies) != 1 or not runs[0][2] or any(not x[3] for x in log if x[0] == "set"):
                        out.append(f"no-copy:runs={len(runs)},copies={len(copies)}")
                    else:
                        out.append(show_units(units(runs[0][1])))
                except Exception as e:  # noqa: BLE001
                    out.append("err:" + exc_name(e))
                heldvals = [held.get_parameter(i) for i in range(held.get_parameter_count())]
                if any(v != 0.0 for v in heldvals):
                    out[-1] += f"!held-changed:{heldvals}"
            if out != fresh_par:
                ctx.witness("compiled-vs-fresh", "a sequence of estimations on a compiled parametric circuit uses other backend angles than "
                            "fresh conversions of the same circuit for the same parameter vectors (or does not work on a copy)",
                            {"kind": "compiled-sequence", "n": n, "circuit": [kind, nparams, gates], "params_in_units_of_1/32": pvs},
                            {"compiled": out, "fresh": fresh_par})
            creqs.append(f"c04compiled {pm} | " + " ; ".join(",".join(map(str, pv)) if pv else "_" for pv in pvs))
            creals.append(" ".join(out))
    resp = ctx.driver(reqs + creqs, entry=ENTRY)
    for rq, real, r in zip(reqs + creqs, reals + creals, resp):
        ctx.traces += 1
        ctx.case(rq, nontrivial=("L" in rq.split("|")[0]) or "U0" not in rq, sample={"request": rq[:200], "model": r[:240]} if rq.startswith("c04param L") else None)
        if real != r:
            ctx.disagree("parametric", rq, real[:700], r[:700])


# ---------------------------------------------------------------------------
# K6  sparse matrices, stim indices, histories with results changed in place by the caller
# ---------------------------------------------------------------------------
def sparse_reset(sp, saved):
    for k, (obj, data) in saved.items():
        obj.data[:] = data
        sp._pauli_map[k] = obj


def k_sparse(ctx: Ctx):
    import numpy as np

    import quri_parts.core.operator.sparse as sp
    from quri_parts.core.operator import get_sparse_matrix

    rng = ctx.rng
    saved = {k: (v, v.data.copy()) for k, v in sp._pauli_map.items()}
    snap_mod = _module_sparse_snapshot(sp)  # every sparse object of the module, whatever its name
    reqs, reals = [], []
    try:
        for _ in range(ctx.n(120, 1500)):
            n = rng.randint(0, 3)
            e = rand_est(rng, max(n, 1), max_index=rng.choice([max(n, 1), max(n, 1), n + 1]))
            narg = None if rng.random() < 0.3 else n
            try:
                m = get_sparse_matrix(real_est(rng, e), narg)
                a = np.asarray(m.todense())
                ents = []
                for r in range(a.shape[0]):
                    for c in range(a.shape[1]):
                        f = fix(a[r, c])
                        ents.append(f"{f[0]}/{f[1]}" if isinstance(f, tuple) else f)
                real = f"ok:{a.shape[0]}:" + ",".join(ents) if a.shape[0] == a.shape[1] else f"shape:{a.shape}"
                terms_ = est_terms(e)
                nn = narg if narg is not None else max([q + 1 for l, _ in terms_ for q, _ in l], default=None)
                if nn is not None and terms_ and all(q < nn for l, _ in terms_ for q, _ in l):
                    w = c04ref.operator_matrix([(l, cplx(c)) for l, c in terms_], nn)
                    if a.shape != w.shape or np.abs(a - w).max() > 1e-12:
                        ctx.witness("wrong-matrix:get_sparse_matrix", "get_sparse_matrix differs from the little-endian matrix of the operator",
                                    {"kind": "sparse", "operator": enc_est(e), "n_qubits": narg}, {"got": str(a.tolist())[:400], "want": str(w.tolist())[:400]})
            except Exception as ex:  # noqa: BLE001
                real = "err:" + exc_name(ex)
            reqs.append(f"c04sparse {enc_est(e)} {'none' if narg is None else narg}")
            reals.append(real)
            ctx.count("sparse.outcome", real.split(":")[1] if real.startswith("err") else "ok")
        # stim dense indices
        try:
            from quri_parts.stim.operator import _pauli_indices

            for _ in range(ctx.n(60, 600)):
                n = rng.randint(1, 5)
                l = rand_label(rng, n, max_index=n + (1 if rng.random() < 0.2 else 0))
                try:
                    real = "ok:" + ",".join(str(int(x)) for x in _pauli_indices(real_label(l), n))
                except Exception as ex:  # noqa: BLE001
                    real = "err:" + exc_name(ex)
                reqs.append(f"c04stim {enc_label(l)} {n}")
                reals.append(real)
        except ImportError:
            pass
        # histories in which callers change the matrices they received in place (`m *= k`, `m.data *= k`): every export must
        # be independent of what callers did with earlier results — each `get` returns the true Pauli matrix at the moment
        # of the call, and each result afterwards carries exactly the scalings applied to it (no two results, and no result
        # and the module's table, share storage)
        for _ in range(ctx.n(60, 600)):
            ops, handles, labels, kexp, calls = [], [], [], [], []
            hinp = {"kind": "sparse-mutated-result-history", "calls": calls}
            for _ in range(rng.randint(1, 7)):
                if handles and rng.random() < 0.45:
                    i = rng.randrange(len(handles))
                    k = rng.choice([2, -1, 3, 4])
                    ops.append(f"s:{i}:{k}")
                    try:
                        if rng.random() < 0.7 or getattr(getattr(handles[i], "data", None), "dtype", None) is None or handles[i].data.dtype.kind != "c":
                            handles[i] *= k
                            calls.append(f"r{i} *= {k}")
                        else:
                            handles[i].data *= k
                            calls.append(f"r{i}.data *= {k}")
                    except Exception as ex:  # noqa: BLE001  (an in-place operation the format does not offer: not applied)
                        calls.append(f"r{i} *= {k}  # raised {exc_name(ex)}")
                        ops.pop()
                        continue
                    kexp[i] *= k
                else:
                    n = rng.choice([1, 1, 2, 3])
                    l = rand_label(rng, n, allow_id=False)
                    if n == 1 and rng.random() < 0.7:
                        l = ((0, rng.choice([1, 2, 3])),)
                    if rng.random() < 0.2:
                        l = ()  # the identity label: its one-qubit matrix is the un-kron'ed identity factor itself
                    fmt = rng.choice(["csc", "csc", "csc", "csr", "coo", "lil", "dia", "bsr"])
                    ops.append(f"g:{enc_label(l)}:{n}")
                    calls.append(f"r{len(handles)} = get_sparse_matrix({enc_label(l)}, {n}" + ("" if fmt == "csc" else f", '{fmt}'") + ")")
                    h = get_sparse_matrix(real_label(l), n) if fmt == "csc" else get_sparse_matrix(real_label(l), n, fmt)
                    handles.append(h)
                    labels.append((l, n))
                    kexp.append(1)
                    a = np.asarray(h.toarray())
                    t = c04ref.pauli_matrix(l, n)
                    if a.shape != t.shape or np.abs(a - t).max() > 0:
                        ctx.witness(K_VALUE,
                                    "after callers changed matrices they had received in place, get_sparse_matrix returns a matrix that is "
                                    "not the Pauli matrix of the label (last call of the history)", {"kind": hinp["kind"], "calls": list(calls)},
                                    {"got": str(a.tolist())[:300], "want": str(t.tolist())[:300]})
            out = []
            for idx, (h, (l, n)) in enumerate(zip(handles, labels)):
                a = np.asarray(h.toarray())
                t = c04ref.pauli_matrix(l, n)
                if a.shape != t.shape or np.abs(a - kexp[idx] * t).max() > 0:
                    ctx.witness(K_VALUE,
                                f"result r{idx} is not (the scalings applied to it) x (its Pauli matrix): results share storage with each other "
                                "or with the module's table", {"kind": hinp["kind"], "calls": list(calls)},
                                {"result": idx, "expected_factor": kexp[idx], "got": str(a.tolist())[:300]})
                nz = np.abs(t) > 0
                ratios = a[nz] / t[nz]
                k = ratios[0]
                if not np.allclose(ratios, k) or np.abs(a[~nz]).max(initial=0) > 0 or abs(k - round(k.real)) > 1e-12:
                    out.append("not-a-multiple")
                    continue
                table_obj = [p for p, (obj, _) in saved.items() if obj is h]
                out.append(f"table-object:{int(table_obj[0])}:{int(round(k.real))}" if table_obj else f"fresh:{int(round(k.real))}")
            fac = []
            for p in (1, 2, 3):
                obj, data = saved[p] if p in saved else saved[[k for k in saved if int(k) == p][0]]
                fac.append(int(round((obj.data[0] / data[0]).real)))
            clean = all(f == 1 for f in fac)
            real = ",".join(out) + f" table={fac[0]},{fac[1]},{fac[2]}"
            reqs.append("c04hist " + " ; ".join(ops))
            reals.append(real)
            sparse_reset(sp, saved)
            _module_sparse_restore(snap_mod)
            ctx.count("sparse.history", "table-untouched" if clean else "table-changed")
    finally:
        sparse_reset(sp, saved)
        _module_sparse_restore(snap_mod)
    resp = ctx.driver(reqs, entry=ENTRY)
    for rq, real, r in zip(reqs, reals, resp):
        ctx.traces += 1
        ctx.case(rq, nontrivial=not real.startswith("err"), sample={"request": rq[:160], "model": r[:160]} if rq.startswith("c04sparse O") and real.startswith("ok:4") else None)
        if real != r:
            ctx.disagree("sparse", rq, real[:600], r[:600])


# ---------------------------------------------------------------------------
# N  numeric: all variants vs each other and the oracle
# ---------------------------------------------------------------------------
CLIFF1 = ["X", "Y", "Z", "H", "S", "Sdag", "SqrtX", "SqrtXdag", "SqrtY", "SqrtYdag", "Identity"]


def rand_gates(rng, n, depth, clifford=False):
    gs = []
    for _ in range(depth):
        r = rng.random()
        if clifford:
            if r < 0.5 or n == 1:
                gs.append(dict(name=rng.choice(CLIFF1), t=[rng.randrange(n)]))
            elif r < 0.85:
                a, b = rng.sample(range(n), 2)
                nm = rng.choice(["CNOT", "CZ", "SWAP"])
                gs.append(dict(name=nm, c=[a], t=[b]) if nm != "SWAP" else dict(name=nm, t=[a, b]))
            else:
                k = rng.randint(1, n)
                t = rng.sample(range(n), k)
                gs.append(dict(name="Pauli", t=t, pauli=[rng.choice([1, 2, 3]) for _ in t]))
            continue
        if r < 0.25:
            gs.append(dict(name=rng.choice(CLIFF1 + ["T", "Tdag"]), t=[rng.randrange(n)]))
        elif r < 0.45:
            gs.append(dict(name=rng.choice(["RX", "RY", "RZ", "U1"]), t=[rng.randrange(n)], params=[rng.uniform(-7, 7)]))
        elif r < 0.5:
            gs.append(dict(name="U2", t=[rng.randrange(n)], params=[rng.uniform(-4, 4), rng.uniform(-4, 4)]))
        elif r < 0.55:
            gs.append(dict(name="U3", t=[rng.randrange(n)], params=[rng.uniform(-4, 4) for _ in range(3)]))
        elif r < 0.75 and n >= 2:
            a, b = rng.sample(range(n), 2)
            nm = rng.choice(["CNOT", "CZ", "SWAP"])
            gs.append(dict(name=nm, c=[a], t=[b]) if nm != "SWAP" else dict(name=nm, t=[a, b]))
        elif r < 0.8 and n >= 3:
            a, b, c = rng.sample(range(n), 3)
            gs.append(dict(name="TOFFOLI", c=[a, b], t=[c]))
        elif r < 0.9:
            k = rng.randint(1, n)
            t = rng.sample(range(n), k)
            ids = [rng.choice([1, 2, 3]) for _ in t]
            if rng.random() < 0.5:
                gs.append(dict(name="Pauli", t=t, pauli=ids))
            else:
                gs.append(dict(name="PauliRotation", t=t, pauli=ids, params=[rng.uniform(-7, 7)]))
        else:
            k = 1 if n == 1 or rng.random() < 0.5 else 2
            t = rng.sample(range(n), k)
            gs.append(dict(name="UnitaryMatrix", t=t, um=dense.random_unitary(rng, 2**k).tolist()))
    return gs


def rand_vector(rng, n):
    """initial amplitude vector as plain data. QuantumStateVector accepts ANY vector of length 2^n and no route normalises
    it (established on the unchanged tree: vector, density-matrix, sparse and simulator routes all give <v|U† O U|v>, e.g.
    8 for 2·I on [2,0,0,0]); so besides unit vectors (complex, real, an int basis vector) the generator gives legal vectors
    that are not of unit norm: a scaled unit vector, small-integer amplitudes (possibly all zero), a raw superposition
    with entries in {0, ±1, ±i}"""
    import numpy as np

    dim = 2**n
    r = rng.random()
    if r < 0.08:
        v = [0] * dim
        v[rng.randrange(dim)] = 1
        return v
    if r < 0.2:
        return [rng.choice([0, 0, 1, 1, -1, 1j, -1j]) for _ in range(dim)]
    if r < 0.3:
        if rng.random() < 0.5:
            return [rng.randint(-3, 3) for _ in range(dim)]
        return [complex(rng.randint(-3, 3), rng.randint(-2, 2)) for _ in range(dim)]
    if r < 0.45:
        w = np.array([rng.gauss(0, 1) for _ in range(dim)])
        v = w / np.linalg.norm(w)
    else:
        v = np.array([complex(rng.gauss(0, 1), rng.gauss(0, 1)) for _ in range(dim)])
        v = v / np.linalg.norm(v)
    if rng.random() < 0.3:
        v = v * rng.choice([2, 3, 0.5, 0.25, 1.5, 0.01, -2, 2j])
    return v.tolist()


def vnorm2(vec):
    """<v|v> of a plain-data initial vector (1 for the default |0..0>)"""
    return 1.0 if vec is None else float(sum(abs(complex(x)) ** 2 for x in vec))


def vscale(vec):
    """factor on absolute tolerances of quantities quadratic in the amplitudes"""
    return max(1.0, vnorm2(vec))


def gate_objects(n, gates):
    from quri_parts.circuit import QuantumCircuit

    c = QuantumCircuit(n)
    for g in gates:
        add_plain_gate(c, g)
    return c


def real_state(rng, spec, compiled=False, vector_class_ok=True):
    """the state of a plain-data spec, built in one of the public ways: all gates in the constructor's circuit or a prefix
    there and the rest through `with_gates_applied` (gate list / tuple / circuit); circuit omitted when empty; the vector
    as list / tuple / numpy array, or omitted (QuantumStateVector starts in |0..0>)"""
    import numpy as np

    from quri_parts.circuit import QuantumCircuit
    from quri_parts.core.state import GeneralCircuitQuantumState, QuantumStateVector

    n, gates = spec["n"], spec["gates"]
    k = len(gates)
    if gates and rng.random() < 0.3:
        k = rng.randint(0, len(gates))
    c = QuantumCircuit(n)
    for g in gates[:k]:
        add_plain_gate(c, g)
    if compiled:
        from quri_parts.qulacs.circuit.compiled_circuit import compile_circuit

        c = compile_circuit(c)
    carg = None if (k == 0 and not compiled and rng.random() < 0.5) else c
    vec = spec.get("vec")
    if vec is None:
        if vector_class_ok and rng.random() < 0.15:
            st = QuantumStateVector(n, None, carg) if rng.random() < 0.5 else QuantumStateVector(n, circuit=carg)
        else:
            st = GeneralCircuitQuantumState(n, carg)
    else:
        r = rng.random()
        v = list(vec) if r < 0.4 else (tuple(vec) if r < 0.6 else (np.asarray(vec) if r < 0.8 else np.array(vec, dtype=np.complex128)))
        st = QuantumStateVector(n, v, carg)
    if k < len(gates):
        rest = gate_objects(n, gates[k:])
        r = rng.random()
        st = st.with_gates_applied(rest if r < 0.3 else (list(rest.gates) if r < 0.7 else tuple(rest.gates)))
    return st


def tol(terms):
    return 1e-9 * (1.0 + sum(abs(cplx(c)) for _, c in terms))


def alias_pattern(rng, k):
    """which entries of a batch of k are one and the same item: class ids in first-occurrence order
    (all distinct / all the same, as in `[x] * k` / some repeated, as when one reference is appended several times)"""
    r = rng.random()
    if k < 2 or r < 0.55:
        return list(range(k))
    if r < 0.8:
        return [0] * k
    pat, nxt = [], 0
    for _ in range(k):
        if pat and rng.random() < 0.5:
            pat.append(rng.choice(pat))
        else:
            pat.append(nxt)
            nxt += 1
    return pat


def build_aliased(rng, items, make):
    """real objects for a batch given as plain data. Entries given by the same plain-data object become either one and the
    same Python object or equal but distinct objects (decided per batch); returns (objects, index of the first entry that
    is the identical object) — results must depend on the objects' content only, never on their identity"""
    share = rng.random() < 0.7
    made, out, ids = {}, [], []
    for it in items:
        if share and id(it) in made:
            obj = made[id(it)]
        else:
            obj = make(it)
            made.setdefault(id(it), obj)
        out.append(obj)
        ids.append(next(i for i, o in enumerate(out) if o is obj))
    return out, ids


def same_as(items):
    return [next(j for j, y in enumerate(items) if y is x) for x in items]


def numeric_case(ctx: Ctx, rng, eps):
    """one random batch through every applicable variant; returns the number of comparisons"""
    n = rng.randint(1, 4)
    clifford = rng.random() < 0.35
    shape = rng.choice(["1:1", "1:N", "N:1", "N:N"])
    k = rng.randint(2, 3)
    a, b = {"1:1": (1, 1), "1:N": (1, k), "N:1": (k, 1), "N:N": (k, k)}[shape]
    ops = [rand_est(rng, n) for _ in range(a)]
    if a > 1 and rng.random() < 0.5:
        # related operators: same labels with other coefficients / another insertion order / a bare label of one term
        base = ops[0]
        if base[0] == "O" and base[1]:
            for i in range(1, a):
                terms = list(base[1])
                m = rng.random()
                if m < 0.4:
                    j = rng.randrange(len(terms))
                    terms[j] = (terms[j][0], rand_coef(rng))
                elif m < 0.6:
                    rng.shuffle(terms)
                elif m < 0.8:
                    terms = [(l, (c[0] * 2, c[1] * 2)) for l, c in terms]
                else:
                    ops[i] = ("L", terms[0][0])
                    continue
                ops[i] = ("O", terms)
    if a > 1:
        # the same operator item at several positions (may become one and the same Operator object)
        opat = alias_pattern(rng, a)
        ops = [ops[opat.index(c)] for c in opat]
    distinct = []
    spat = alias_pattern(rng, b)
    for _ in range(max(spat) + 1):
        sp = dict(n=n, gates=rand_gates(rng, n, rng.randint(0, 8), clifford), vec=None)
        if not clifford and rng.random() < 0.4:
            sp["vec"] = rand_vector(rng, n)
        distinct.append(sp)
    sspecs = [distinct[c] for c in spat]
    return numeric_eval(ctx, rng, eps, n, ops, sspecs, shape, clifford)


def numeric_eval(ctx: Ctx, rng, eps, n, ops, sspecs, shape, clifford, sparse_ok=True):
    import numpy as np

    from quri_parts.core.operator import get_sparse_matrix

    a, b = len(ops), len(sspecs)
    want = []
    for i in range(max(a, b)):
        oi = 0 if a == 1 else i
        si = 0 if b == 1 else i
        want.append(c04ref.expectation([(l, cplx(c)) for l, c in est_terms(ops[oi])], sspecs[si]))
    tl = max(tol(est_terms(o)) for o in ops) * max(vscale(sp.get("vec")) for sp in sspecs)
    inp = {"kind": "numeric", "n": n, "ops": [enc_est(o) for o in ops], "states": sspecs, "shape": shape, "clifford": clifford,
           "op_same_item_as": same_as(ops), "state_same_item_as": same_as(sspecs)}
    cmp = 0
    for ep in eps.values():
        ep["cache"]._operator_cache.clear()  # the batch is self-contained: its own call sequence is the only history
    for name, ep in eps.items():
        if ep["be"] == "stim" and not clifford:
            continue
        rops, oids = build_aliased(rng, ops, lambda o: real_est(rng, o))
        sids = None
        try:
            rstates, sids = build_aliased(rng, sspecs, lambda sp: real_state(rng, sp, compiled=(rng.random() < 0.3), vector_class_ok=(ep["be"] != "stim")))
            ctx.count("numeric.identity", ("ops-aliased " if oids != list(range(a)) else "") + ("states-aliased" if sids != list(range(b)) else "") or "distinct-objects")
            # containers: list / tuple; the general estimators also take a bare operator and / or a bare state
            oarg = tuple(rops) if rng.random() < 0.25 else rops
            sarg = tuple(rstates) if rng.random() < 0.25 else rstates
            bare = [False, False]
            if ep.get("gen"):
                if a == 1 and rng.random() < 0.4:
                    oarg, bare[0] = rops[0], True
                if b == 1 and rng.random() < 0.4:
                    sarg, bare[1] = rstates[0], True
            res = ep["conc"](oarg, sarg)
            if all(bare):
                res = [res]
            got = [(complex(r.value), r.error) for r in res]
            via = "conc" + ("/bare-op" if bare[0] else "") + ("/bare-state" if bare[1] else "")
            ctx.count("numeric.argform", via + ("/tuple" if isinstance(oarg, tuple) or isinstance(sarg, tuple) else ""))
            if rng.random() < 0.5:
                got1 = []
                for i in range(max(a, b)):
                    r = ep["one"](rops[0 if a == 1 else i], rstates[0 if b == 1 else i])
                    got1.append((complex(r.value), r.error))
                if len(got1) != len(got) or any(abs(x[0] - y[0]) > tl for x, y in zip(got, got1)):
                    ctx.witness(f"variants-disagree:{name}", f"{name}: concurrent and single estimator disagree", inp,
                                {"concurrent": str(got), "single": str(got1)})
        except Exception as e:  # noqa: BLE001
            ctx.witness(f"raises:{name}", f"{name} raises {exc_name(e)} on a valid input", inp, str(e)[:300])
            continue
        cmp += 1
        ctx.count("numeric.variant", name)
        if len(got) != len(want) or any(abs(g[0] - w) > tl or g[1] != 0.0 for g, w in zip(got, want)):
            ctx.witness(f"wrong-value:{name}", f"{name} ({via}) differs from <psi|O|psi> (oracle), reports a non-zero error or returns "
                        "another number of estimates than the batch shape documents", inp,
                        {"got": str(got), "want": str(want), "tol": tl, "returned": len(got), "documented": len(want),
                         "operator_entry_is_identical_object_as_entry": oids, "state_entry_is_identical_object_as_entry": sids})
    # the simulator's own evaluation of each state (vector, density matrix, marginal probabilities)
    for spc in sspecs:
        cmp += simulator_eval(ctx, rng, spc, inp)
    # sparse evaluation
    if sparse_ok:
        for i in range(max(a, b)):
            o = ops[0 if a == 1 else i]
            spc = sspecs[0 if b == 1 else i]
            try:
                m = get_sparse_matrix(real_est(rng, o), n)
                psi = c04ref.state_vector(spc)
                if rng.random() < 0.5:
                    # the vector the library itself documents for the state
                    from quri_parts.qulacs.simulator import evaluate_state_to_vector

                    psi = np.asarray(evaluate_state_to_vector(real_state(rng, spc, compiled=rng.random() < 0.3)).vector)
                v = complex(np.vdot(psi, m @ psi)) if m.shape[0] == 2**n else None
            except Exception as e:  # noqa: BLE001
                v = f"raises {exc_name(e)}"
            cmp += 1
            if not isinstance(v, complex) or abs(v - want[i]) > tl:
                ctx.witness("wrong-value:sparse", "<psi|get_sparse_matrix(O, n)|psi> differs from the oracle", inp,
                            {"got": str(v), "want": str(want[i]), "index": i})
        ctx.count("numeric.variant", "sparse")
    ctx.case(("numeric", json.dumps(inp, default=str)[:400]), nontrivial=any(abs(w) > 1e-6 for w in want))
    ctx.count("numeric.shape", shape)
    ctx.count("numeric.circuit", "clifford" if clifford else "general")
    return cmp


def parametric_entry_points():
    import quri_parts.core.estimator as ce
    import quri_parts.qulacs.estimator as qe
    from quri_parts.circuit.noise import NoiseModel

    nm = NoiseModel()
    vec = qe.create_qulacs_vector_estimator()
    cvec = qe.create_qulacs_vector_concurrent_estimator()
    gv = qe.create_qulacs_general_vector_estimator()
    gd = qe.create_qulacs_general_density_matrix_estimator(nm)
    pe = {
        "qulacs.vector.parametric": qe.create_qulacs_vector_parametric_estimator(),
        "qulacs.dm.parametric": qe.create_qulacs_density_matrix_parametric_estimator(nm),
        "core.create_parametric_estimator": ce.create_parametric_estimator(vec),
        "core.parametric_from_concurrent": ce.create_parametric_estimator_from_concurrent_estimator(cvec),
        "qulacs.general.vector": lambda o, s, p: gv(o, s, p),
        "qulacs.general.dm": lambda o, s, p: gd(o, s, p),
        "core.general_from_estimator": lambda o, s, p: ce.create_general_estimator_from_estimator(vec)(o, s, p),
    }
    cpe = {
        "qulacs.vector.concurrent_parametric": qe.create_qulacs_vector_concurrent_parametric_estimator(),
        "qulacs.dm.concurrent_parametric": qe.create_qulacs_density_matrix_concurrent_parametric_estimator(nm),
        "core.create_concurrent_parametric_estimator": ce.create_concurrent_parametric_estimator(qe.create_qulacs_vector_parametric_estimator()),
        "core.concurrent_parametric_from_concurrent": ce.create_concurrent_parametric_estimator_from_concurrent_estimator(cvec),
        "qulacs.general.vector": lambda o, s, ps: gv(o, s, ps),
        "qulacs.general.dm": lambda o, s, ps: gd(o, s, ps),
        "core.general_from_concurrent": lambda o, s, ps: ce.create_general_estimator_from_concurrent_estimator(cvec)(o, s, ps),
    }
    return pe, cpe, vec


def numeric_param_case(ctx: Ctx, rng, P):
    import numpy as np

    from quri_parts.core.state import ParametricCircuitQuantumState, ParametricQuantumStateVector
    from quri_parts.qulacs.circuit.compiled_circuit import compile_parametric_circuit

    pe, cpe, vec = P
    n = rng.randint(1, 3)
    kind, nparams, gates = rand_pcirc(rng, n)
    if nparams == 0 and rng.random() < 0.8:
        return 0  # the empty parameter vector through the general estimator is the known StopIteration finding
    pc = build_pcirc(kind, n, nparams, gates)
    vecinit = rand_vector(rng, n) if rng.random() < 0.4 else None
    spec = dict(n=n, gates=oracle_gates(kind, gates), vec=vecinit)
    o = rand_est(rng, n)
    terms = [(l, cplx(c)) for l, c in est_terms(o)]
    pvs = [[rng.uniform(-4, 4) for _ in range(nparams)] for _ in range(rng.randint(1, 3))]
    if rng.random() < 0.2:
        pvs[-1] = [rng.randint(-3, 3) for _ in range(nparams)]  # integer-typed parameter values
    if rng.random() < 0.2:
        pvs = [pvs[0]] * rng.randint(2, 3)  # one and the same parameter vector at every position of the batch
    want = [c04ref.expectation(terms, spec, p) for p in pvs]
    tl = tol(est_terms(o)) * vscale(vecinit)
    inp = {"kind": "numeric-parametric", "n": n, "circuit": [kind, nparams, gates], "vec": vecinit, "op": enc_est(o), "params": pvs}

    def angles(p):
        """the rotation angle of each parametric gate, in gate order, at parameters p (= the primitive circuit's parameters)"""
        out, k_ = [], 0
        for g in spec["gates"]:
            if g["name"] in c04ref.PARAM_BASE:
                out.append(p[k_] if g.get("lin") is None else c04ref.lin_eval(g["lin"], p))
                k_ += 1
        return out

    def mk(compiled):
        """the parametric state in one of its public construction forms, with the translation of a parameter vector:
        plain; a prefix circuit + `with_gates_applied(trailing plain gates)`; `with_primitive_circuit()` (takes the angles)"""
        form = rng.choice(["plain", "plain", "split", "primitive"])
        gs, suffix = gates, []
        if form == "split":
            k_ = len(gates)
            while k_ > 0 and not gates[k_ - 1]["name"].startswith("Parametric"):
                k_ -= 1
            k_ = rng.randint(k_, len(gates))
            gs, suffix = gates[:k_], gates[k_:]
        c = pc if not suffix else build_pcirc(kind, n, nparams, gs)
        if compiled:
            c = compile_parametric_circuit(c)
        if vecinit is None:
            st = ParametricCircuitQuantumState(n, c)
        else:
            r = rng.random()
            st = ParametricQuantumStateVector(n, c, list(vecinit) if r < 0.5 else (tuple(vecinit) if r < 0.7 else np.asarray(vecinit)))
        if suffix:
            rest = gate_objects(n, suffix)
            st = st.with_gates_applied(list(rest.gates) if rng.random() < 0.7 else rest)
        tr = list
        if form == "primitive":
            st = st.with_primitive_circuit()
            tr = angles
        ctx.count("numeric.param_state_form", form + ("+compiled" if compiled else ""))
        return st, tr

    def pform(p):
        r = rng.random()
        if not p or r < 0.5:
            return list(p)
        return tuple(p) if r < 0.75 else np.array(p)

    cmp = 0
    ro = real_est(rng, o)
    for name, f in pe.items():
        if nparams == 0 and "general" in name:
            continue
        try:
            st, tr = mk(rng.random() < 0.4)
        except Exception as e:  # noqa: BLE001
            ctx.witness("raises:parametric-state-construction", f"building a parametric state raises {exc_name(e)} on a valid input", inp, str(e)[:300])
            continue
        for p, w in zip(pvs, want):
            q = tr(p)
            if not q and "general" in name:
                continue
            try:
                r = f(ro, st, pform(q))
                bound = vec(ro, st.bind_parameters(list(q)))
                cmp += 1
                ctx.count("numeric.variant", name)
                if abs(complex(r.value) - w) > tl or r.error != 0.0:
                    ctx.witness(f"wrong-value:{name}", f"{name} differs from the oracle at the bound parameters", inp,
                                {"got": str(r), "want": str(w), "param": p, "passed": q})
                if abs(complex(bound.value) - complex(r.value)) > tl:
                    ctx.witness(f"parametric-vs-bound:{name}", f"{name}(p) differs from estimating bind_parameters(p)", inp,
                                {"parametric": str(r), "bound": str(bound), "param": p, "passed": q})
            except Exception as e:  # noqa: BLE001
                ctx.witness(f"raises:{name}", f"{name} raises {exc_name(e)} on a valid input", inp, str(e)[:300])
    for name, f in cpe.items():
        if nparams == 0 and "general" in name:
            continue
        try:
            st, tr = mk(rng.random() < 0.4)
            made_ = {}
            qs = [made_.setdefault(id(p), tr(p)) for p in pvs]  # repeated vectors stay one object
            if not qs[0] and "general" in name:
                continue
            r = rng.random()
            parg = qs if r < 0.25 else [pform(q) for q in qs] if r < 0.6 else (tuple(tuple(q) for q in qs) if r < 0.8 or not qs[0] else np.array(qs))
            rs = list(f(ro, st, parg))
            cmp += 1
            ctx.count("numeric.variant", name)
            if len(rs) != len(want) or any(abs(complex(r.value) - w) > tl or r.error != 0.0 for r, w in zip(rs, want)):
                ctx.witness(f"wrong-value:{name}", f"{name} differs from the oracle", inp, {"got": str(rs), "want": str(want), "passed": str(qs)})
        except Exception as e:  # noqa: BLE001
            ctx.witness(f"raises:{name}", f"{name} raises {exc_name(e)} on a valid input", inp, str(e)[:300])
    ctx.case(("numeric-param", json.dumps(inp, default=str)[:400]), nontrivial=nparams > 0)
    ctx.count("numeric.param_circuit", kind)
    return cmp


def numeric(ctx: Ctx, budget_s: float, min_cases: int):
    rng = ctx.rng
    eps = entry_points()
    eps.pop("__note__", None)
    P = parametric_entry_points()
    t0 = time.time()
    i = 0
    cmp = 0
    while i < min_cases or time.time() - t0 < budget_s:
        cmp += numeric_case(ctx, rng, eps)
        cmp += numeric_param_case(ctx, rng, P)
        i += 1
        if i >= min_cases and time.time() - t0 >= budget_s:
            break
        if i > 200000:
            break
    ctx.extra["numeric_comparisons"] = cmp
    ctx.extra["numeric_batches"] = i


# ---------------------------------------------------------------------------
# G  generator extensions judged by independent oracles
# ---------------------------------------------------------------------------
def simulator_eval(ctx: Ctx, rng, spc, inp):
    """quri_parts.qulacs.simulator on one plain-data state vs the oracle vector: `evaluate_state_to_vector`, `run_circuit`
    (input left untouched), the density matrix with the empty noise model, `get_marginal_probability`"""
    import numpy as np

    try:
        import quri_parts.qulacs.simulator as sim
        from quri_parts.circuit.noise import NoiseModel
    except Exception as e:  # noqa: BLE001
        ctx.disagree("simulator:import", "quri_parts.qulacs.simulator", exc_name(e), "importable")
        return 0
    n = spc["n"]
    psi = c04ref.state_vector(spc)
    sinp = {"kind": "simulator", "state": spc}
    cmp = 0
    st = None
    try:
        st = real_state(rng, spc, compiled=rng.random() < 0.3)
        out = sim.evaluate_state_to_vector(st)
        v = np.asarray(out.vector)
        cmp += 1
        if v.shape != psi.shape or np.abs(v - psi).max() > 1e-9 * math.sqrt(vscale(spc.get("vec"))) or out.qubit_count != n or len(out.circuit.gates) != 0:
            ctx.witness("wrong-vector:evaluate_state_to_vector", "evaluate_state_to_vector differs from circuit · initial vector "
                        "(or keeps gates on the evaluated state)", sinp, {"got": str(v.tolist())[:400], "want": str(psi.tolist())[:400],
                                                                          "gates_left": len(out.circuit.gates)})
    except Exception as e:  # noqa: BLE001
        ctx.witness("raises:evaluate_state_to_vector", f"evaluate_state_to_vector raises {exc_name(e)} on a valid state", sinp, str(e)[:300])
    try:
        c = gate_objects(n, spc["gates"])
        r = rng.random()
        if r < 0.3:
            carg = c.freeze()
        elif r < 0.6:
            from quri_parts.qulacs.circuit.compiled_circuit import compile_circuit

            carg = compile_circuit(c)
        else:
            carg = c
        init = np.zeros(2**n, dtype=complex)
        if spc.get("vec") is None:
            init[0] = 1.0
        else:
            init[:] = spc["vec"]
        keep = init.copy()
        v = np.asarray(sim.run_circuit(carg, init))
        cmp += 1
        if v.shape != psi.shape or np.abs(v - psi).max() > 1e-9 * math.sqrt(vscale(spc.get("vec"))) or not np.array_equal(init, keep):
            ctx.witness("wrong-vector:run_circuit", "run_circuit differs from circuit · initial vector (or changes its input)", sinp,
                        {"got": str(v.tolist())[:400], "want": str(psi.tolist())[:400], "input_unchanged": bool(np.array_equal(init, keep))})
    except Exception as e:  # noqa: BLE001
        ctx.witness("raises:run_circuit", f"run_circuit raises {exc_name(e)} on a valid input", sinp, str(e)[:300])
    f = getattr(sim, "_evaluate_qp_state_to_qulacs_state", None)
    if f is not None and st is not None and rng.random() < 0.5:
        try:
            rho = np.asarray(f(st, NoiseModel()).get_matrix())
        except Exception as e:  # noqa: BLE001  (private helper: a changed signature is a correspondence difference)
            ctx.disagree("simulator:density-matrix-helper", sinp, exc_name(e), "a qulacs.DensityMatrix")
            rho = None
        if rho is not None:
            cmp += 1
            want = np.outer(psi, psi.conj())
            if rho.shape != want.shape or np.abs(rho - want).max() > 1e-9 * vscale(spc.get("vec")):
                ctx.witness("wrong-density-matrix:simulator", "the density matrix simulated with the empty noise model is not |psi><psi|",
                            sinp, {"max_abs_diff": float(np.abs(rho - want).max()) if rho.shape == want.shape else str(rho.shape)})
    measured = {q: rng.randint(0, 1) for q in range(n) if rng.random() < 0.5} or {rng.randrange(n): rng.randint(0, 1)}
    if rng.random() < 0.5:
        measured = dict(sorted(measured.items(), reverse=True))
    want_p = float(sum(abs(psi[i]) ** 2 for i in range(2**n) if all(((i >> q) & 1) == b for q, b in measured.items())))
    try:
        got_p = float(sim.get_marginal_probability(psi.copy(), measured))
        cmp += 1
        if abs(got_p - want_p) > 1e-9 * vscale(spc.get("vec")):
            ctx.witness("wrong-value:get_marginal_probability", "get_marginal_probability differs from the sum of |amplitude|^2 over "
                        "the basis states with the given bits", {"kind": "marginal", "state": spc, "measured": {str(q): b for q, b in measured.items()}},
                        {"got": got_p, "want": want_p})
    except Exception as e:  # noqa: BLE001
        ctx.witness("raises:get_marginal_probability", f"get_marginal_probability raises {exc_name(e)} on a valid input",
                    {"kind": "marginal", "state": spc, "measured": {str(q): b for q, b in measured.items()}}, str(e)[:300])
    ctx.count("numeric.variant", "simulator")
    return cmp


def _pm_save(sp):
    try:
        return dict(sp._pauli_map)
    except Exception:  # noqa: BLE001
        return None


def _pm_restore(sp, saved):
    if saved is not None:
        try:
            sp._pauli_map.clear()
            sp._pauli_map.update(saved)
        except Exception:  # noqa: BLE001
            pass


def sparse_format_eval(ctx: Ctx, rng, inp):
    """one history of get_sparse_matrix calls in several formats on the same module state; every result is judged"""
    import numpy as np

    import quri_parts.core.operator.sparse as sp
    from quri_parts.core.operator import get_sparse_matrix

    saved = _pm_save(sp)
    done = []
    try:
        for enc, narg, fmt in inp["calls"]:
            e = dec_est(enc)
            terms = est_terms(e)
            nn = narg if narg is not None else max(q + 1 for l, _ in terms for q, _ in l)
            want = c04ref.operator_matrix([(l, cplx(c)) for l, c in terms], nn)
            done.append([enc, narg, fmt])
            hinp = {"kind": "sparse-format-history", "calls": list(done)}
            try:
                ro = real_est(rng, e)
                r = rng.random()
                if fmt == "csc" and r < 0.4:
                    m = get_sparse_matrix(ro, narg) if narg is not None or r < 0.2 else get_sparse_matrix(ro)
                elif r < 0.7:
                    m = get_sparse_matrix(ro, narg, fmt)
                else:
                    m = get_sparse_matrix(ro, n_qubits=narg, format=fmt)
                a = np.asarray(m.toarray())
            except Exception as ex:  # noqa: BLE001
                ctx.witness("raises:get_sparse_matrix", f"get_sparse_matrix raises {exc_name(ex)} on a valid request (last call of the history)",
                            hinp, str(ex)[:300])
                continue
            ctx.count("sparse.format", f"{fmt}:" + ("as-requested" if getattr(m, "format", None) == fmt else f"returned-{getattr(m, 'format', '?')}"))
            if a.shape != want.shape or np.abs(a - want).max() > 1e-12:
                ctx.witness("wrong-matrix:get_sparse_matrix", "get_sparse_matrix differs from the little-endian matrix of the operator "
                            "(last call of the history)", hinp, {"got": str(a.tolist())[:400], "want": str(want.tolist())[:400]})
            else:
                # sparse-matrix evaluation on a vector
                psi = np.array([complex(rng.gauss(0, 1), rng.gauss(0, 1)) for _ in range(2**nn)])
                got = complex(np.vdot(psi, m @ psi))
                w = complex(np.vdot(psi, want @ psi))
                if abs(got - w) > 1e-9 * (1 + abs(w)):
                    ctx.witness("wrong-value:sparse", "<psi|get_sparse_matrix(O, n, format)|psi> differs from the oracle", hinp, {"got": str(got), "want": str(w)})
    finally:
        _pm_restore(sp, saved)
    ctx.case(("sparse-format", json.dumps(inp["calls"])), nontrivial=len({c[2] for c in inp["calls"]}) > 1)


# --- histories in which callers change exported matrices in place: value semantics of every export -----------------
K_VALUE = "sparse-history:result-depends-on-what-callers-did-with-earlier-results"
MUTATIONS = ["imul", "data-scale", "data-set", "setitem-existing", "setitem-new", "indices-reverse"]


def _module_sparse_snapshot(sp):
    """(object, private copy) of every scipy sparse matrix the module holds at top level or inside a top-level dict/list —
    whatever its name — so that a corrupted table can be put back after a history (best effort)"""
    import scipy.sparse as ss

    out = []
    try:
        for v in list(vars(sp).values()):
            cands = list(v.values()) if isinstance(v, dict) else (list(v) if isinstance(v, (list, tuple)) else [v])
            for o in cands:
                if ss.issparse(o) and not any(o is x for x, _ in out):
                    out.append((o, o.copy()))
    except Exception:  # noqa: BLE001
        pass
    return out


def _module_sparse_restore(snap):
    for obj, cp in snap:
        for attr in ("data", "indices", "indptr", "row", "col", "offsets"):
            a, b = getattr(obj, attr, None), getattr(cp, attr, None)
            try:
                if a is not None and b is not None and getattr(a, "shape", None) == getattr(b, "shape", None) and a.dtype == b.dtype and a.dtype.kind != "O":
                    a[...] = b
            except Exception:  # noqa: BLE001
                pass


def _mutate_in_place(rng, m, how):
    """change a matrix the caller owns, in place; returns the text of what was done (falls back to `*=`)"""
    import numpy as np

    data = getattr(m, "data", None)
    numeric = isinstance(data, np.ndarray) and data.dtype.kind in "cf" and data.size > 0
    dense = np.asarray(m.toarray())
    nzpos = [(int(a), int(b)) for a, b in zip(*np.nonzero(dense))]
    zpos = [(int(a), int(b)) for a, b in zip(*np.nonzero(dense == 0))]
    if how == "data-scale" and numeric:
        k = rng.choice([2, -1, 3])
        m.data *= k
        return f".data *= {k}"
    if how == "data-set" and numeric:
        j = rng.randrange(data.size)
        v = rng.choice([2.0, -3.0, 0.5j, 7.0])
        m.data.flat[j] = v
        return f".data.flat[{j}] = {v}"
    if how == "setitem-existing" and nzpos and m.format in ("csc", "csr", "lil", "dok"):
        a, b = rng.choice(nzpos)
        v = rng.choice([2.0, -3.0, 0.5j, 7.0])
        m[a, b] = v
        return f"[{a}, {b}] = {v}"
    if how == "setitem-new" and zpos and m.format in ("csc", "csr", "lil", "dok"):
        a, b = rng.choice(zpos)
        v = rng.choice([2.0, -3.0, 0.5j])
        m[a, b] = v
        return f"[{a}, {b}] = {v}"
    if how == "indices-reverse" and m.format in ("csc", "csr") and getattr(m, "indices", None) is not None and m.indices.size > 1:
        m.indices[:] = m.indices[::-1].copy()
        return ".indices[:] = .indices[::-1]"
    k = rng.choice([2, -1, 3, 4])
    m *= k
    return f" *= {k}"


def sparse_value_history(ctx: Ctx, rng, steps, probe_n):
    """steps: ["get", enc_est, narg, fmt] | ["mut", index of an earlier export, how].  After every mutation: every OTHER exported
    matrix is unchanged, every earlier request exported again gives the true matrix, fresh labels / operators with identity
    factors in several formats give the true matrix, and <psi|M|psi> through them is the oracle's value."""
    import warnings

    import numpy as np

    import quri_parts.core.operator.sparse as sp
    from quri_parts.core.operator import get_sparse_matrix

    snap_mod = _module_sparse_snapshot(sp)
    saved_map = _pm_save(sp)
    calls, handles, snaps, reqs = [], [], [], []

    def want_of(enc, narg):
        terms = est_terms(dec_est(enc))
        nn = narg if narg is not None else max(q + 1 for l, _ in terms for q, _ in l)
        return c04ref.operator_matrix([(l, cplx(c)) for l, c in terms], nn), nn

    def export(enc, narg, fmt):
        ro = real_est(rng, dec_est(enc))
        if fmt == "csc" and rng.random() < 0.5:
            return get_sparse_matrix(ro, narg) if narg is not None else get_sparse_matrix(ro)
        return get_sparse_matrix(ro, narg, fmt)

    def fail(what, detail):
        ctx.witness(K_VALUE, what, {"kind": "sparse-value-history", "calls": list(calls)}, detail)

    def judge(enc, narg, fmt, text):
        calls.append(text)
        try:
            m = export(enc, narg, fmt)
            a = np.asarray(m.toarray())
        except Exception as ex:  # noqa: BLE001
            fail(f"get_sparse_matrix raises {exc_name(ex)} on a valid request after callers changed earlier results in place (last call)", str(ex)[:200])
            return None
        w, nn = want_of(enc, narg)
        if a.shape != w.shape or np.abs(a - w).max() > 1e-12:
            fail("get_sparse_matrix returns a matrix that is not the matrix of the operator after callers changed matrices they had "
                 "received earlier in place (last call of the history)", {"got": str(a.tolist())[:300], "want": str(w.tolist())[:300]})
            return m
        psi = np.array([complex(rng.gauss(0, 1), rng.gauss(0, 1)) for _ in range(2**nn)])
        got, wv = complex(np.vdot(psi, m @ psi)), complex(np.vdot(psi, w @ psi))
        if abs(got - wv) > 1e-9 * (1 + abs(wv)):
            fail("<psi|get_sparse_matrix(O)|psi> differs from the oracle (last call of the history)", {"got": str(got), "want": str(wv)})
        return m

    try:
        with warnings.catch_warnings():
            warnings.simplefilter("ignore")
            for st in steps:
                if st[0] == "get":
                    _, enc, narg, fmt = st
                    m = judge(enc, narg, fmt, f"r{len(handles)} = get_sparse_matrix({enc}, {narg}, '{fmt}')")
                    if m is None:
                        return
                    handles.append(m)
                    snaps.append(np.asarray(m.toarray()).copy())
                    reqs.append((enc, narg, fmt))
                    continue
                _, i, how = st
                if i >= len(handles):
                    continue
                try:
                    txt = _mutate_in_place(rng, handles[i], how)
                except Exception as ex:  # noqa: BLE001  (an operation this format does not offer: nothing was changed)
                    calls.append(f"r{i}: {how} raised {exc_name(ex)}")
                    continue
                calls.append(f"r{i}{txt}" if txt.startswith((" ", ".", "[")) else f"r{i} {txt}")
                ctx.count("sparse.mutation", how)
                try:
                    snaps[i] = np.asarray(handles[i].toarray()).copy()
                except Exception:  # noqa: BLE001  (the caller broke his own matrix: his business)
                    snaps[i] = None
                # (1) every other export is unchanged
                for j, (h, s0) in enumerate(zip(handles, snaps)):
                    if j == i or s0 is None:
                        continue
                    try:
                        aj = np.asarray(h.toarray())
                        same = aj.shape == s0.shape and np.array_equal(aj, s0)
                    except Exception:  # noqa: BLE001
                        aj, same = None, False
                    if not same:
                        fail(f"changing result r{i} in place changed result r{j}: two exports share storage", {"r%d before" % j: str(s0.tolist())[:200], "after": str(None if aj is None else aj.tolist())[:200]})
                        snaps[j] = None if aj is None else aj.copy()
                # (2) everything exported before, exported again
                for j, (enc, narg, fmt) in enumerate(reqs):
                    judge(enc, narg, fmt, f"again request of r{j}: get_sparse_matrix({enc}, {narg}, '{fmt}')")
                    calls.pop()
                # (3) fresh requests with identity factors, in several formats
                n = probe_n
                probes = [("L-", 1, "csc"), ("L-", n, rng.choice(FORMATS)), (f"L{n - 1}.{rng.choice([1, 2, 3])}", n, rng.choice(FORMATS)),
                          ("L0.3", n, "csc"), (f"O-:{rng.randint(1, 40)}/0;0.{rng.choice([1, 2, 3])}:16/0", n, rng.choice(FORMATS)),
                          (f"O{n - 1}.1:-8/4", n, "csc"), (f"L0.{rng.choice([1, 2, 3])}", 1, rng.choice(FORMATS))]
                for enc, narg, fmt in probes:
                    judge(enc, narg, fmt, f"then get_sparse_matrix({enc}, {narg}, '{fmt}')")
                    calls.pop()
    finally:
        _module_sparse_restore(snap_mod)
        _pm_restore(sp, saved_map)
    ctx.case(("sparse-value-history", json.dumps(steps)), nontrivial=any(s[0] == "mut" for s in steps))


def k_sparse_value_hist(ctx: Ctx):
    rng = ctx.rng
    # systematic: one export of each kind (identity / Pauli label, identity / one-term / mixed Operator) on 1..2 qubits in every format,
    # then one in-place change of each kind, then the probes
    kinds = ["L-", "L0.1", "L0.2", "L0.3", "O-:16/0", "O-:-24/8", "O0.1:16/0", "O0.3:16/0;-:8/0"]
    for fmt in FORMATS:
        for n in (1, 2):
            for enc in kinds:
                hows = MUTATIONS if ctx.tier != "quick" else rng.sample(MUTATIONS, 3)
                for how in hows:
                    sparse_value_history(ctx, rng, [["get", enc, n, fmt], ["mut", 0, how]], rng.randint(2, 3))
    # random histories
    for _ in range(ctx.n(80, 800)):
        n = rng.choice([1, 1, 2, 3])
        steps, nget = [], 0
        for _ in range(rng.randint(2, 7)):
            if nget and rng.random() < 0.45:
                steps.append(["mut", rng.randrange(nget), rng.choice(MUTATIONS)])
                continue
            r = rng.random()
            if r < 0.3:
                e = ("L", ())
            elif r < 0.45:
                e = ("O", [((), rand_coef(rng, allow_zero=False))])
            elif r < 0.65:
                e = ("L", ((rng.randrange(n), rng.choice([1, 2, 3])),))
            else:
                e = rand_est(rng, n)
            terms = est_terms(e)
            narg = n if (not any(l for l, _ in terms) or rng.random() < 0.8) else None
            steps.append(["get", enc_est(e), narg, rng.choice(FORMATS + ["csc", "csc", "csc"])])
            nget += 1
        sparse_value_history(ctx, rng, steps, rng.randint(2, 3))
    ctx.traces += 1


def k_sparse_formats(ctx: Ctx):
    rng = ctx.rng
    for _ in range(ctx.n(150, 1500)):
        calls = []
        n = rng.randint(1, 3)
        pool = []
        for _ in range(rng.randint(1, 5)):
            if pool and rng.random() < 0.4:
                e = rng.choice(pool)  # the same operator again in another (or the same) format
            else:
                e = rand_est(rng, n)
                if rng.random() < 0.3:
                    # single-qubit labels / a one-qubit register: the table entry itself is what kron-reduce returns
                    e = ("L", ((rng.randrange(n), rng.choice([1, 2, 3])),))
                pool.append(e)
            terms = est_terms(e)
            has_support = any(l for l, _ in terms)
            narg = n if (not has_support or rng.random() < 0.7) else None
            fmt = rng.choice(FORMATS + ["csc", "csr"])
            calls.append([enc_est(e), narg, fmt])
        sparse_format_eval(ctx, rng, {"kind": "sparse-format-history", "calls": calls})
    ctx.traces += 1


def convert_gate_eval(ctx: Ctx, rng, inp):
    """convert_gate on one gate: the returned Qulacs gate applied to a vector vs the oracle's gate matrix"""
    import numpy as np
    import qulacs

    from quri_parts.qulacs.circuit import convert_gate

    n, g, vec = inp["n"], inp["gate"], inp["vec"]
    want = c04ref.state_vector(dict(n=n, vec=vec, gates=[g]))
    try:
        gate = gate_objects(n, [g]).gates[0]
        qg = convert_gate(gate)
        qc = qulacs.QuantumCircuit(n)
        qc.add_gate(qg)
        qs = qulacs.QuantumState(n)
        qs.load(list(np.array(vec, dtype=complex)))
        qc.update_quantum_state(qs)
        got = np.asarray(qs.get_vector())
    except Exception as e:  # noqa: BLE001
        ctx.witness(f"raises:convert_gate:{g['name']}", f"convert_gate raises {exc_name(e)} on a supported gate", inp, str(e)[:300])
        return
    ctx.count("convert_gate", g["name"])
    ctx.case(("convert-gate", g["name"], tuple(g["t"]), tuple(g.get("c", ())), tuple(g.get("pauli", ()))), nontrivial=True)
    if got.shape != want.shape or np.abs(got - want).max() > 1e-9:
        ctx.witness(f"convert_gate:{g['name']}", "the Qulacs gate returned by convert_gate acts differently from the gate it converts "
                    "(rotation sign, index order, matrix)", inp, {"got": str(got.tolist())[:400], "want": str(want.tolist())[:400]})


ALL_PLAIN = ["Identity", "X", "Y", "Z", "H", "S", "Sdag", "SqrtX", "SqrtXdag", "SqrtY", "SqrtYdag", "T", "Tdag", "RX", "RY", "RZ",
             "U1", "U2", "U3", "CNOT", "CZ", "SWAP", "TOFFOLI", "Pauli", "PauliRotation", "UnitaryMatrix"]


def gate_of_kind(rng, n, nm):
    if nm in ("RX", "RY", "RZ", "U1"):
        return dict(name=nm, t=[rng.randrange(n)], params=[rng.uniform(-7, 7)])
    if nm == "U2":
        return dict(name=nm, t=[rng.randrange(n)], params=[rng.uniform(-4, 4), rng.uniform(-4, 4)])
    if nm == "U3":
        return dict(name=nm, t=[rng.randrange(n)], params=[rng.uniform(-4, 4) for _ in range(3)])
    if nm in ("CNOT", "CZ"):
        a, b = rng.sample(range(n), 2)
        return dict(name=nm, c=[a], t=[b])
    if nm == "SWAP":
        return dict(name=nm, t=rng.sample(range(n), 2))
    if nm == "TOFFOLI":
        a, b, c = rng.sample(range(n), 3)
        return dict(name=nm, c=[a, b], t=[c])
    if nm in ("Pauli", "PauliRotation"):
        t = rng.sample(range(n), rng.randint(1, n))
        g = dict(name=nm, t=t, pauli=[rng.choice([1, 2, 3]) for _ in t])
        if nm == "PauliRotation":
            g["params"] = [rng.uniform(-7, 7)]
        return g
    if nm == "UnitaryMatrix":
        k = rng.randint(1, min(n, 3))
        return dict(name=nm, t=rng.sample(range(n), k), um=dense.random_unitary(rng, 2**k).tolist())
    return dict(name=nm, t=[rng.randrange(n)])


def k_convert_gate(ctx: Ctx):
    rng = ctx.rng
    reps = ctx.n(8, 60)
    for nm in ALL_PLAIN:
        for _ in range(reps):
            lo = 3 if nm == "TOFFOLI" else (2 if nm in ("CNOT", "CZ", "SWAP") else 1)
            n = rng.randint(lo, 4)
            g = gate_of_kind(rng, n, nm)
            v = [complex(rng.gauss(0, 1), rng.gauss(0, 1)) for _ in range(2**n)]
            nrm = math.sqrt(sum(abs(x) ** 2 for x in v))
            convert_gate_eval(ctx, rng, {"kind": "convert-gate", "n": n, "gate": g, "vec": [x / nrm for x in v]})
    ctx.traces += 1


def k_rejections(ctx: Ctx):
    """documented rejections: the call must raise (ValueError where the code documents it); a call that returns normally is
    a concrete input on which an ill-defined request is mis-handled instead of rejected"""
    import numpy as np

    import quri_parts.circuit as qc
    from quri_parts.circuit import ParametricQuantumCircuit, QuantumCircuit, QuantumGate
    from quri_parts.core.operator import get_sparse_matrix
    from quri_parts.core.state import GeneralCircuitQuantumState, ParametricCircuitQuantumState, ParametricQuantumStateVector, QuantumStateVector
    from quri_parts.qulacs.circuit import convert_gate, convert_parametric_circuit
    from quri_parts.qulacs.circuit.compiled_circuit import compile_parametric_circuit

    rng = ctx.rng
    n = rng.randint(1, 3)
    c = QuantumCircuit(n)
    c.add_H_gate(0)
    pc = ParametricQuantumCircuit(n)
    pc.add_ParametricRX_gate(0)
    other = n + rng.choice([1, 2]) if rng.random() < 0.7 or n == 1 else n - 1
    wrong_dim = rng.choice([2**n - 1, 2**n + 1, 2 ** (n + 1), max(1, 2 ** (n - 1))])
    pname = rng.choice(["ParametricRX", "ParametricRY", "ParametricRZ"])
    cases = [
        ("convert_gate(parametric gate)", "ValueError", lambda: convert_gate(getattr(qc, pname)(0))),
        ("convert_gate(ParametricPauliRotation)", "ValueError", lambda: convert_gate(qc.ParametricPauliRotation([0], [1]))),
        ("convert_gate(unknown gate name)", "ValueError", lambda: convert_gate(QuantumGate("Foo", (0,)))),
        ("convert_parametric_circuit(non-parametric circuit)", "ValueError", lambda: convert_parametric_circuit(c)),
        ("compile_parametric_circuit(non-parametric circuit)", "ValueError", lambda: compile_parametric_circuit(c)),
        (f"ParametricCircuitQuantumState({other}, {n}-qubit circuit)", "ValueError", lambda: ParametricCircuitQuantumState(other, pc)),
        (f"ParametricQuantumStateVector({other}, {n}-qubit circuit)", "ValueError", lambda: ParametricQuantumStateVector(other, pc)),
        (f"GeneralCircuitQuantumState({other}, {n}-qubit circuit)", "ValueError", lambda: GeneralCircuitQuantumState(other, c)),
        (f"QuantumStateVector({n}, vector of length {wrong_dim})", "ValueError", lambda: QuantumStateVector(n, [1.0] + [0.0] * (wrong_dim - 1))),
        (f"ParametricQuantumStateVector({n}, circuit, vector of length {wrong_dim})", "ValueError",
         lambda: ParametricQuantumStateVector(n, pc, [1.0] + [0.0] * (wrong_dim - 1))),
        (f"run_circuit({n}-qubit circuit, vector of length {wrong_dim})", "ValueError",
         lambda: __import__("quri_parts.qulacs.simulator", fromlist=["run_circuit"]).run_circuit(c, np.array([1.0] + [0.0] * (wrong_dim - 1), dtype=complex))),
        ("get_sparse_matrix(a string)", "AssertionError", lambda: get_sparse_matrix("X0", 1)),
        ("get_sparse_matrix(PAULI_IDENTITY) without n_qubits", "AssertionError", lambda: get_sparse_matrix(real_label(()))),
        (f"get_sparse_matrix(Z{n}, {n})", "AssertionError", lambda: get_sparse_matrix(real_label(((n, 3),)), n)),
        ("get_sparse_matrix(X0, 1, format='xyz')", None, lambda: get_sparse_matrix(real_label(((0, 1),)), 1, "xyz")),
        ("evaluate_state_to_vector(parametric state)", "TypeError",
         lambda: __import__("quri_parts.qulacs.simulator", fromlist=["evaluate_state_to_vector"]).evaluate_state_to_vector(ParametricCircuitQuantumState(n, pc))),
    ]
    for what, cls, f in cases:
        try:
            r = f()
            out = "returned " + type(r).__name__
        except Exception as e:  # noqa: BLE001
            out = exc_name(e)
        ctx.traces += 1
        ctx.case(("rejection", what), nontrivial=True)
        if out.startswith("returned"):
            ctx.witness("not-rejected:" + what.split("(")[0], f"{what} is accepted instead of being rejected with {cls or 'an exception'}",
                        {"kind": "rejection", "call": what}, out)
        elif cls is not None and out != cls:
            ctx.disagree("rejection", what, out, cls)


def compiled_history_eval(ctx: Ctx, rng, inp):
    """public accessors of compiled circuits inside a history of estimations: the copies handed out may be changed freely,
    one compiled circuit may serve several states and estimators, in any order, and every value is the oracle's"""
    import numpy as np

    import quri_parts.qulacs.estimator as qe
    from quri_parts.core.state import GeneralCircuitQuantumState, ParametricCircuitQuantumState, ParametricQuantumStateVector, QuantumStateVector
    from quri_parts.qulacs.circuit.compiled_circuit import compile_circuit, compile_parametric_circuit
    from quri_parts.qulacs.simulator import evaluate_state_to_vector

    n = inp["n"]
    o = dec_est(inp["op"])
    terms = [(l, cplx(c)) for l, c in est_terms(o)]
    tl = tol(est_terms(o))
    vest = qe.create_qulacs_vector_estimator()
    cest = qe.create_qulacs_vector_concurrent_estimator()
    gest = qe.create_qulacs_general_vector_estimator()
    try:
        if inp["circuit"][0] == "plain":
            gates = inp["circuit"][1]
            cc = compile_circuit(gate_objects(n, gates))
            for step in inp["steps"]:
                if step[0] == "tamper":
                    q = cc.qulacs_circuit
                    q.add_X_gate(0)
                    q.add_H_gate(n - 1)
                    continue
                vecs = step[1]
                states = [GeneralCircuitQuantumState(n, cc) if v is None else QuantumStateVector(n, v, cc) for v in vecs]
                want = [c04ref.expectation(terms, dict(n=n, vec=v, gates=gates)) for v in vecs]
                ro = real_est(rng, o)
                how = step[0]
                if how == "one":
                    got = [complex(vest(ro, s).value) for s in states]
                elif how == "conc":
                    got = [complex(r.value) for r in cest([ro], states)]
                elif how == "general":
                    got = [complex(r.value) for r in gest(ro, states)]
                else:
                    got = []
                    for s, v in zip(states, vecs):
                        psi = np.asarray(evaluate_state_to_vector(s).vector)
                        got.append(complex(np.vdot(psi, c04ref.operator_matrix(terms, n) @ psi)))
                if len(got) != len(want) or any(abs(g - w) > tl * vscale(v) for g, w, v in zip(got, want, vecs)):
                    ctx.witness("compiled-history:plain", "an estimation on a compiled circuit inside a history (copies of its Qulacs circuit "
                                "changed by the caller, several states sharing it) differs from the oracle", inp,
                                {"step": step[0], "got": str(got), "want": str(want)})
        else:
            kind, nparams, gates = inp["circuit"][1]
            pc = build_pcirc(kind, n, nparams, gates)
            cc = compile_parametric_circuit(pc)
            spec = dict(n=n, gates=oracle_gates(kind, gates), vec=inp.get("vec"))
            st = ParametricCircuitQuantumState(n, cc) if inp.get("vec") is None else ParametricQuantumStateVector(n, cc, inp["vec"])
            pest = qe.create_qulacs_vector_parametric_estimator()
            cpest = qe.create_qulacs_vector_concurrent_parametric_estimator()
            for step in inp["steps"]:
                if step[0] == "tamper":
                    q = cc.qulacs_circuit
                    for i in range(q.get_parameter_count()):
                        q.set_parameter(i, 1.25 + i)
                    q.add_X_gate(0)
                    continue
                if step[0] == "mapper":
                    p = step[1]
                    got = [float(x) for x in cc.param_mapper(p)]
                    want_angles = [-a for a in _angles(spec["gates"], p)]
                    if len(got) != len(want_angles) or any(abs(g - w) > 1e-9 for g, w in zip(got, want_angles)):
                        ctx.witness("compiled-history:param_mapper", "the param_mapper of a compiled parametric circuit does not give the "
                                    "negated rotation angles of the gates", inp, {"params": p, "got": got, "want": want_angles})
                    continue
                ps = step[1]
                want = [c04ref.expectation(terms, spec, p) for p in ps]
                ro = real_est(rng, o)
                if step[0] == "one":
                    got = [complex(pest(ro, st, list(p)).value) for p in ps]
                elif step[0] == "conc":
                    got = [complex(r.value) for r in cpest(ro, st, [list(p) for p in ps])]
                else:
                    got = [complex(r.value) for r in gest(ro, st, [list(p) for p in ps])]
                if len(got) != len(want) or any(abs(g - w) > tl * vscale(inp.get("vec")) for g, w in zip(got, want)):
                    ctx.witness("compiled-history:parametric", "an estimation on a compiled parametric circuit inside a history (copies "
                                "changed by the caller, earlier estimations at other parameters) differs from the oracle", inp,
                                {"step": step[0], "params": ps, "got": str(got), "want": str(want)})
    except Exception as e:  # noqa: BLE001
        ctx.witness("raises:compiled-history", f"a history on a compiled circuit raises {exc_name(e)} on valid inputs", inp, str(e)[:300])
    ctx.case(("compiled-history", json.dumps(inp, default=str)[:300]), nontrivial=True)
    ctx.count("compiled.history", inp["circuit"][0])


def _angles(ogates, p):
    out, k = [], 0
    for g in ogates:
        if g["name"] in c04ref.PARAM_BASE:
            out.append(p[k] if g.get("lin") is None else c04ref.lin_eval(g["lin"], p))
            k += 1
    return out


def k_compiled_hist(ctx: Ctx):
    rng = ctx.rng
    for _ in range(ctx.n(60, 600)):
        n = rng.randint(1, 3)
        o = rand_est(rng, n)
        if rng.random() < 0.5:
            gates = rand_gates(rng, n, rng.randint(0, 6))
            steps = []
            for _ in range(rng.randint(2, 5)):
                if rng.random() < 0.3:
                    steps.append(["tamper"])
                else:
                    k = rng.randint(1, 3)
                    steps.append([rng.choice(["one", "conc", "general", "vector"]), [rand_vector(rng, n) if rng.random() < 0.5 else None for _ in range(k)]])
            inp = {"kind": "compiled-history", "n": n, "op": enc_est(o), "circuit": ["plain", gates], "steps": steps}
        else:
            kind, nparams, gates = rand_pcirc(rng, n)
            if kind == "U":
                kind, nparams, gates = "L", *_as_linear(rng, gates)  # only linear-mapped compiled circuits survive inside a state
            steps = []
            for _ in range(rng.randint(2, 5)):
                r = rng.random()
                if r < 0.25:
                    steps.append(["tamper"])
                elif r < 0.4:
                    steps.append(["mapper", [rng.uniform(-4, 4) for _ in range(nparams)]])
                else:
                    how = rng.choice(["one", "conc", "general"]) if nparams > 0 else rng.choice(["one", "conc"])
                    steps.append([how, [[rng.uniform(-4, 4) for _ in range(nparams)] for _ in range(rng.randint(1, 3))]])
            inp = {"kind": "compiled-history", "n": n, "op": enc_est(o), "circuit": ["parametric", [kind, nparams, gates]],
                   "vec": rand_vector(rng, n) if rng.random() < 0.3 else None, "steps": steps}
        compiled_history_eval(ctx, rng, inp)
    ctx.traces += 1


def _as_linear(rng, gates):
    """an unbound parametric gate list as a linear-mapped one: gate i gets its own parameter through a random permutation"""
    pg = [g for g in gates if g["name"].startswith("Parametric")]
    perm = list(range(len(pg)))
    rng.shuffle(perm)
    for g, i in zip(pg, perm):
        g["lin_int"] = dict(coefs={i: rng.choice([1, 1, 2, -3])}, const=rng.choice([0, 0, 5]))
    return len(pg), gates


# product states: each qubit in an eigenstate of one Pauli; <P> of a Pauli string is a product of signs or 0
PROD = {"0": ([], 3, 1), "1": (["X"], 3, -1), "+": (["H"], 1, 1), "-": (["X", "H"], 1, -1), "+i": (["H", "S"], 2, 1), "-i": (["H", "Sdag"], 2, -1)}
PROD_VEC = {"0": (1, 0), "1": (0, 1), "+": (1, 1), "-": (1, -1), "+i": (1, 1j), "-i": (1, -1j)}


def prod_expectation(terms, qubits):
    tot = 0
    for label, coef in terms:
        v = 1
        for q, p in label:
            _, axis, sign = PROD[qubits[q]]
            v = v * sign if axis == p else 0
        tot += coef * v
    return tot


def wide_eval(ctx: Ctx, rng, inp, eps):
    """registers with two-digit qubit indices (and, for stim, more than 64 qubits): product states, exact values"""
    import numpy as np

    from quri_parts.circuit import QuantumCircuit
    from quri_parts.core.operator import get_sparse_matrix
    from quri_parts.core.state import GeneralCircuitQuantumState

    n, qubits = inp["n"], inp["qubits"]
    ops = [dec_est(t) for t in inp["ops"]]
    want = [prod_expectation([(l, cplx(c)) for l, c in est_terms(o)], qubits) for o in ops]
    tl = max(tol(est_terms(o)) for o in ops)

    def state():
        c = QuantumCircuit(n)
        order = list(range(n))
        if rng.random() < 0.5:
            order.reverse()
        for q in order:
            for nm in PROD[qubits[q]][0]:
                getattr(c, f"add_{nm}_gate")(q)
        if rng.random() < 0.3:
            from quri_parts.qulacs.circuit.compiled_circuit import compile_circuit

            c = compile_circuit(c)
        return GeneralCircuitQuantumState(n, c)

    for name, ep in eps.items():
        if ep["be"] == "qulacs" and (n > 12 or (n > 11 and "dm" in name)):
            continue
        if ep["be"] == "qulacs" and rng.random() < (0.8 if "dm" in name else 0.5):
            continue
        for e in eps.values():
            e["cache"]._operator_cache.clear()
        try:
            rops = [real_est(rng, o) for o in ops]
            r = rng.random()
            if len(rops) == 1:
                # 1:1, or 1:N with N references to one state object / N equal states
                k_ = rng.choice([1, 2, 3])
                one_ = state()
                sts = [one_] * k_ if r < 0.6 else [one_] + [state() for _ in range(k_ - 1)]
            elif r < 0.5:
                sts = [state()]
            elif r < 0.75:
                sts = [state()] * len(rops)
            else:
                sts = [state() for _ in rops]
            got = [(complex(r.value), r.error) for r in ep["conc"](rops, sts)]
            if rng.random() < 0.3:
                got1 = [(complex(r.value), r.error) for r in [ep["one"](ro, state()) for ro in rops]]
                if any(abs(x[0] - y[0]) > tl for x, y in zip(got, got1)):
                    ctx.witness(f"variants-disagree:{name}", f"{name}: concurrent and single estimator disagree", inp,
                                {"concurrent": str(got), "single": str(got1)})
        except Exception as e:  # noqa: BLE001
            ctx.witness(f"raises:{name}", f"{name} raises {exc_name(e)} on a valid input", inp, str(e)[:300])
            continue
        ctx.count("wide.variant", name)
        wantk = want * len(sts) if len(rops) == 1 else want
        if len(got) != len(wantk) or any(abs(g[0] - w) > tl or g[1] != 0.0 for g, w in zip(got, wantk)):
            ctx.witness(f"wrong-value:{name}", f"{name} differs from the exact value on a product state of a wide register (or returns "
                        "another number of estimates than the batch shape documents)", inp,
                        {"got": str(got), "want": str(wantk), "numOps": len(rops), "numStates": len(sts), "state_entry_is_identical_object_as_entry": same_as(sts)})
    if n <= 12:
        psi = np.array([1.0 + 0j])
        for q in range(n):
            a = np.array(PROD_VEC[qubits[q]], dtype=complex)
            psi = np.kron(a / np.linalg.norm(a), psi)  # qubit q is bit q of the index
        try:
            from quri_parts.qulacs.simulator import evaluate_state_to_vector

            v = np.asarray(evaluate_state_to_vector(state()).vector)
            if np.abs(v - psi).max() > 1e-9:
                ctx.witness("wrong-vector:evaluate_state_to_vector", "evaluate_state_to_vector differs from the product state", inp,
                            {"max_abs_diff": float(np.abs(v - psi).max())})
        except Exception as e:  # noqa: BLE001
            ctx.witness("raises:evaluate_state_to_vector", f"evaluate_state_to_vector raises {exc_name(e)} on a valid state", inp, str(e)[:300])
        for o, w in zip(ops, want):
            try:
                fmt = rng.choice(["csc", "csr", "coo"])
                m = get_sparse_matrix(real_est(rng, o), n, fmt)
                got = complex(np.vdot(psi, m @ psi))
            except Exception as e:  # noqa: BLE001
                got = f"raises {exc_name(e)}"
            if not isinstance(got, complex) or abs(got - w) > tl:
                ctx.witness("wrong-value:sparse", "<psi|get_sparse_matrix(O, n)|psi> differs from the exact value on a product state", inp,
                            {"got": str(got), "want": str(w)})
    ctx.case(("wide", json.dumps(inp)), nontrivial=any(abs(w) > 1e-9 for w in want))
    ctx.count("wide.n", "<=12" if n <= 12 else ("<=64" if n <= 64 else ">64"))


def k_wide(ctx: Ctx):
    import quri_parts.core.operator.sparse as sp

    rng = ctx.rng
    eps = entry_points()
    eps.pop("__note__", None)
    saved = _pm_save(sp)
    try:
        for i in range(ctx.n(16, 120)):
            n = rng.choice([11, 11, 12]) if i % 2 == 0 else rng.choice([13, 20, 33, 64, 65, 70])
            qubits = [rng.choice(list(PROD)) for _ in range(n)]
            ops = []
            for _ in range(rng.randint(1, 3)):
                terms, seen = [], set()
                for _ in range(rng.randint(1, 4)):
                    qs = sorted(set(rng.sample(range(n), rng.randint(1, 4)) + ([rng.randrange(10, n)] if rng.random() < 0.7 else [])))
                    l = tuple((q, PROD[qubits[q]][1] if rng.random() < 0.85 else rng.choice([1, 2, 3])) for q in qs)
                    if l not in seen:
                        seen.add(l)
                        terms.append((l, rand_coef(rng, allow_zero=False)))
                if rng.random() < 0.3:
                    terms.append(((), rand_coef(rng)))
                ops.append(("L", terms[0][0]) if rng.random() < 0.15 else ("O", terms))
            wide_eval(ctx, rng, {"kind": "wide-product", "n": n, "qubits": qubits, "ops": [enc_est(o) for o in ops]}, eps)
    finally:
        _pm_restore(sp, saved)
        for e in eps.values():
            e["cache"]._operator_cache.clear()
    ctx.traces += 1


# ---------------------------------------------------------------------------
# W  witnesses of the findings, replayed on the real code
# ---------------------------------------------------------------------------
def witnesses(ctx: Ctx):
    import numpy as np

    import quri_parts.core.operator.sparse as sp
    import quri_parts.qulacs.estimator as qe
    from quri_parts.circuit import ParametricQuantumCircuit
    from quri_parts.core.operator import Operator, get_sparse_matrix
    from quri_parts.core.state import ParametricCircuitQuantumState

    op = Operator({real_label(((0, 3), (1, 3))): 0.5, real_label(((0, 1),)): 0.25, real_label(()): 0.25j})
    terms = [(((0, 3), (1, 3)), 0.5), (((0, 1),), 0.25), ((), 0.25j)]
    gen = qe.create_qulacs_general_vector_estimator()
    # W1: empty parameter vector through GeneralQuantumEstimator.__call__
    pc = ParametricQuantumCircuit(2)
    pc.add_H_gate(0)
    pc.add_CNOT_gate(0, 1)
    ps = ParametricCircuitQuantumState(2, pc)
    spec = dict(n=2, vec=None, gates=[dict(name="H", t=[0]), dict(name="CNOT", c=[0], t=[1])])
    want = c04ref.expectation(terms, spec, [])
    try:
        direct = complex(gen.parametric_estimator(op, ps, []).value)
    except Exception as e:  # noqa: BLE001
        direct = f"raises {exc_name(e)}"
    try:
        r = gen(op, ps, [])
        via = complex(r.value)
        outcome = "value"
    except BaseException as e:  # noqa: BLE001
        via = exc_name(e)
        outcome = "raises"
    inp = {"kind": "general-empty-params", "call": "create_qulacs_general_vector_estimator()(op, parametric_state_without_parameters, [])"}
    if outcome == "raises" and via == "StopIteration" and isinstance(direct, complex) and abs(direct - want) < 1e-9:
        ctx.witness(K_STOP, "GeneralQuantumEstimator.__call__(op, state, []) raises StopIteration; its parametric_estimator returns "
                    f"{direct!r} (= oracle) for the same arguments", inp, {"general": via, "parametric_estimator": str(direct), "oracle": str(want)})
    else:
        ctx.disagree("witness:general-empty-params", inp, f"general={via} direct={direct}", "model: StopIteration (Props.C04.general_call_empty_param_witness)")
    # W2: too few parameter values
    pc2 = ParametricQuantumCircuit(2)
    pc2.add_ParametricRX_gate(0)
    pc2.add_ParametricRY_gate(1)
    ps2 = ParametricCircuitQuantumState(2, pc2)
    spec2 = dict(n=2, vec=None, gates=[dict(name="ParametricRX", t=[0], lin=None), dict(name="ParametricRY", t=[1], lin=None)])
    padded = c04ref.expectation(terms, spec2, [0.75, 0.0])
    try:
        got = complex(gen.parametric_estimator(op, ps2, [0.75]).value)
    except Exception as e:  # noqa: BLE001
        got = f"raises {exc_name(e)}"
    try:
        ps2.bind_parameters([0.75])
        bnd = "value"
    except Exception as e:  # noqa: BLE001
        bnd = f"raises {exc_name(e)}"
    inp2 = {"kind": "short-params", "circuit": "ParametricRX(0); ParametricRY(1)", "params": [0.75]}
    if isinstance(got, complex) and abs(got - padded) < 1e-9 and bnd == "raises ValueError":
        ctx.witness(K_SHORT, "vector parametric estimator accepts 1 value for a 2-parameter circuit (second angle silently 0) "
                    "while bind_parameters raises ValueError", inp2, {"parametric": str(got), "zero_padded_oracle": str(padded), "bind": bnd})
    else:
        ctx.disagree("witness:short-params", inp2, f"parametric={got} bind={bnd}", "model: ok [-p0, 0] vs ValueError (Props.C04.parametric_short_vector_witness)")
    # W3: the history of the repaired defect (fix 60b9f57; Props.C04.sparse_mutated_result_does_not_leak): a one-qubit result
    # changed in place by the caller must not show up in any later export
    saved = {k: (v, v.data.copy()) for k, v in sp._pauli_map.items()} if isinstance(getattr(sp, "_pauli_map", None), dict) else {}
    inp3 = {"kind": "sparse-mutated-result-history", "calls": ["r0 = get_sparse_matrix(X0)", "r0 *= 2", "r1 = get_sparse_matrix(X0 X1)", "r2 = get_sparse_matrix(X0, 1)"]}
    try:
        m = get_sparse_matrix(real_label(((0, 1),)))
        m *= 2
        xx = np.asarray(get_sparse_matrix(real_label(((0, 1), (1, 1)))).toarray())
        x1 = np.asarray(get_sparse_matrix(real_label(((0, 1),)), 1).toarray())
        bad3 = None
        if np.abs(xx - c04ref.pauli_matrix(((0, 1), (1, 1)), 2)).max() > 0:
            bad3 = {"call": "r1", "got": str(xx.tolist())}
        elif np.abs(x1 - c04ref.pauli_matrix(((0, 1),), 1)).max() > 0:
            bad3 = {"call": "r2", "got": str(x1.tolist())}
        elif np.abs(np.asarray(m.toarray()) - 2 * c04ref.pauli_matrix(((0, 1),), 1)).max() > 0:
            bad3 = {"call": "r0 after the later calls", "got": str(np.asarray(m.toarray()).tolist())}
    except Exception as e:  # noqa: BLE001
        bad3 = {"raises": exc_name(e), "message": str(e)[:200]}
    finally:
        if saved:
            sparse_reset(sp, saved)
    if bad3 is not None:
        ctx.witness(K_VALUE,
                    "a matrix returned by get_sparse_matrix and then changed in place by its caller shows up in a later export", inp3, bad3)
    # W4: gates added to a compiled circuit after compilation (no Lean counterpart: found by the oracle comparison)
    inp4 = {"kind": "compiled-then-extended", "history": ["c = QuantumCircuit(2); c.add_H_gate(1)", "cc = compile_circuit(c)", "cc.add_X_gate(0)",
                                                           "s = GeneralCircuitQuantumState(2, cc)", "create_qulacs_vector_estimator()(Z0, s)"]}
    try:
        from quri_parts.circuit import QuantumCircuit
        from quri_parts.circuit.noise import NoiseModel
        from quri_parts.core.state import GeneralCircuitQuantumState
        from quri_parts.qulacs.circuit.compiled_circuit import compile_circuit

        c4 = QuantumCircuit(2)
        c4.add_H_gate(1)
        cc4 = compile_circuit(c4)
        cc4.add_X_gate(0)  # a compiled circuit that rejects this is not affected
        s4 = GeneralCircuitQuantumState(2, cc4)
        doc = [dict(name=g.name, t=list(g.target_indices), c=list(g.control_indices)) for g in s4.circuit.gates]
        z0 = real_label(((0, 3),))
        want4 = c04ref.expectation([(((0, 3),), 1.0)], dict(n=2, vec=None, gates=doc))
        got4 = complex(qe.create_qulacs_vector_estimator()(z0, s4).value)
        dm4 = complex(qe.create_qulacs_density_matrix_estimator(NoiseModel())(z0, s4).value)
        plain4 = complex(qe.create_qulacs_vector_estimator()(z0, GeneralCircuitQuantumState(2, QuantumCircuit(2, gates=s4.circuit.gates))).value)
        ctx.extra["compiled_then_extended"] = {"documented_gates": [g["name"] for g in doc], "vector": str(got4), "dm": str(dm4), "plain": str(plain4)}
        stale4 = c04ref.expectation([(((0, 3),), 1.0)], dict(n=2, vec=None, gates=[dict(name="H", t=[1])]))  # the circuit as compiled
        if abs(got4 - want4) > 1e-9 and not (abs(got4 - stale4) < 1e-9 and abs(plain4 - want4) < 1e-9):
            # some other failure than the recorded one (which is exactly: the value of the circuit as compiled)
            ctx.witness("compiled-then-extended:unexpected-value", "the vector estimator on a compiled circuit extended after compilation gives "
                        "neither the value of the documented gates nor that of the circuit as compiled", inp4,
                        {"vector_estimator": str(got4), "oracle": str(want4), "as_compiled": str(stale4), "plain": str(plain4)})
        elif abs(got4 - want4) > 1e-9:
            ctx.witness(K_COMPILED, "compile_circuit returns a mutable circuit: a gate added after compilation is listed in state.circuit.gates "
                        "but the vector estimator still simulates the circuit as compiled", inp4,
                        {"state.circuit.gates": [g["name"] + str(g["t"]) for g in doc], "vector_estimator": str(got4), "oracle": str(want4),
                         "density_matrix_estimator": str(dm4), "vector_estimator_on_plain_circuit_with_the_same_gates": str(plain4)})
    except Exception as e:  # noqa: BLE001
        ctx.extra["compiled_then_extended"] = f"raises {exc_name(e)}"
    # the mirror image outside the anchored files (recorded, not a C04 witness)
    try:
        from quri_parts.circuit import LinearMappedParametricQuantumCircuit

        lc = LinearMappedParametricQuantumCircuit(1)
        (a,) = lc.add_parameters("a")
        lc.add_ParametricRX_gate(0, {a: 2.0})
        lc.bind_parameters([0.5, 0.25])
        ctx.extra["linear_mapped_bind_ignores_surplus_values"] = True
    except Exception as e:  # noqa: BLE001
        ctx.extra["linear_mapped_bind_ignores_surplus_values"] = f"raises {exc_name(e)}"


# ---------------------------------------------------------------------------
def load_corpus(ctx: Ctx):
    d = os.path.join(VERIF, "corpus", "C04")
    lines = []
    if os.path.isdir(d):
        for f in sorted(os.listdir(d)):
            if f.endswith(".json"):
                with open(os.path.join(d, f)) as fh:
                    j = json.load(fh)
                lines += [(f, x["request"], x["expect"]) for x in j.get("driver", [])]
    if lines:
        resp = ctx.driver([rq for _, rq, _ in lines], entry=ENTRY)
        for (f, rq, ex), r in zip(lines, resp):
            ctx.traces += 1
            if r != ex:
                ctx.disagree(f"corpus:{f}", rq, ex, r)
    ctx.extra["corpus_lines"] = len(lines)


def dec_est(t):
    t = t.strip()
    if t.startswith("L"):
        return ("L", dec_label(t[1:]))
    return ("O", dec_terms(t[1:]))


def replay_file(ctx: Ctx, path):
    """--replay <file>: re-evaluate the concrete inputs of a replay file on the current tree (numeric batches, batch shapes,
    sparse requests, general-call shapes); the three findings' witnesses are replayed on every run anyway"""
    try:
        with open(path) as f:
            rp = json.load(f)
    except Exception as e:  # noqa: BLE001
        raise InfraError(f"cannot read replay file {path}: {e}")
    eps = entry_points()
    eps.pop("__note__", None)
    done = 0
    for w in rp.get("witnesses", []):
        inp = w.get("input") or {}
        kind = inp.get("kind") if isinstance(inp, dict) else None
        if kind == "numeric":
            for sp in inp["states"]:
                for g in sp["gates"]:
                    if g.get("um") is not None:
                        g["um"] = [[complex(x) if not isinstance(x, str) else complex(x.replace(" ", "")) for x in row] for row in g["um"]]
                if sp.get("vec") is not None:
                    sp["vec"] = [complex(x) if not isinstance(x, str) else complex(x.replace(" ", "")) for x in sp["vec"]]
            rops_ = [dec_est(t) for t in inp["ops"]]
            osame = inp.get("op_same_item_as") or list(range(len(rops_)))
            ssame = inp.get("state_same_item_as") or list(range(len(inp["states"])))
            for _ in range(4):  # argument forms and object sharing are drawn per run
                numeric_eval(ctx, ctx.rng, eps, inp["n"], [rops_[j] for j in osame], [inp["states"][j] for j in ssame], inp["shape"], inp.get("clifford", False))
            done += 1
        elif kind == "session":
            lst = [(nm, ep) for nm, ep in eps.items() if ep["be"] == inp["backend"]]
            calls = [(k2, [dec_est(t) for t in o2], [tuple(x) for x in s2]) for k2, o2, s2 in inp["calls"]]
            nq = max([x[0] for _, _, s2 in calls for x in s2], default=1)
            if lst:
                for _ in range(8):  # the entry point of each call is drawn at random: try several assignments
                    run_session(ctx, ctx.rng, inp["backend"], lst, nq, calls)
                done += 1
        elif kind == "batch" and inp.get("entry") in eps:
            from quri_parts.core.operator import Operator

            ep = eps[inp["entry"]]
            a, b = inp["numOps"], inp["numStates"]
            ops = [Operator({real_label(()): 16.0 * (i + 1) + 3.5, real_label(((0, 3),)): -0.5, real_label(((1, 3),)): -1.0,
                             real_label(((2, 3),)): -2.0}) for i in range(a)]
            states = [basis_state(ctx.rng, 3, j, ep["be"]) for j in range(b)]
            try:
                rs = list(ep["conc"](ops, states))
                real = "ok:" + ",".join(f"{round(complex(r.value).real) // 16 - 1}.{round(complex(r.value).real) % 16}" for r in rs)
            except Exception as e:  # noqa: BLE001
                real = "err:" + batch_err_kind(e)
            if real != doc_batch(a, b):
                ctx.witness(w["key"], w["what"], inp, {"real": real, "documented": doc_batch(a, b)})
            done += 1
        elif kind == "sparse-format-history":
            sparse_format_eval(ctx, ctx.rng, inp)
            done += 1
        elif kind == "convert-gate":
            if inp["gate"].get("um") is not None:
                inp["gate"]["um"] = [[complex(str(x).replace(" ", "")) for x in row] for row in inp["gate"]["um"]]
            inp["vec"] = [complex(str(x).replace(" ", "")) for x in inp["vec"]]
            convert_gate_eval(ctx, ctx.rng, inp)
            done += 1
        elif kind == "wide-product":
            for _ in range(4):
                wide_eval(ctx, ctx.rng, inp, eps)
            done += 1
    ctx.extra["replayed_inputs"] = done


def run(ctx: Ctx, replay=None) -> int:
    ctx.rule = ("case = one cache history | one (entry point, numOps, numStates) | one estimator session | one __call__ shape | "
                "one parametric circuit with its parameter vectors | one sparse request / history | one numeric batch; "
                "distinct_nontrivial = distinct canonical inputs that reach a non-default branch (cache hit, admissible shape, "
                "non-error sparse result, parametric circuit with parameters, non-zero expectation value)")
    ctx.trusted = TRUSTED
    ctx.assumptions = [
        "operators: labels with distinct qubit indices inside the register, coefficients multiples of 1/16 in the exact "
        "correspondence runs (arbitrary in the theorems); numeric runs: 1–4 qubits, ≤ 8 gates, all gate kinds, random vectors",
        "executor=None (chunking with an executor is C11's subject)",
        "density-matrix estimators with the empty NoiseModel only",
        "stim estimator on Clifford circuits (named Clifford gates, CNOT/CZ/SWAP, Pauli gates) only",
        "initial vectors: any vector of length 2^n is legal (QuantumStateVector does not normalise and no exact route does: the value "
        "documented and returned on the unchanged tree is <v|U† O U|v>); unit, scaled, integer-valued, raw {0,±1,±i} and zero vectors are "
        "generated, absolute tolerances scale with max(1, <v|v>)",
        "wide registers (11-12 qubits for Qulacs, up to 70 for stim): product states of single-qubit Pauli eigenstates only",
        "get_sparse_matrix formats: values (and <psi|M|psi>) are judged, the storage class of the returned matrix is only counted",
        "samplers of quri_parts.qulacs.simulator are not C04's subject (C07/C08/C11)",
    ]
    mods = ["QuriVerif.Props.C04", "QuriVerif.Props.C04Lift"]
    ok = ctx.prove(LEAN_TARGETS, mods)
    if ok:
        names = [f"QV.{m.split('.', 1)[1]}.{n}" for m, n, _ in ctx.count_obligations(mods)]
        ctx.audit(names, mods + ["QuriVerif.Driver.C04"])
    else:
        drv_ok, out = ctx.lake_build(["QuriVerif.Driver.C04"])
        if not drv_ok:
            raise InfraError("cannot build the C04 driver: " + out[-800:])
    if replay:
        replay_file(ctx, replay)
    with ctx.timed("correspond"):
        load_corpus(ctx)
        witnesses(ctx)
        k_cache(ctx)
        k_batch(ctx)
        k_sessions(ctx)
        k_general(ctx)
        k_param(ctx)
        k_sparse(ctx)
    with ctx.timed("forms"):
        k_rejections(ctx)
        k_convert_gate(ctx)
        k_sparse_formats(ctx)
        k_sparse_value_hist(ctx)
        k_compiled_hist(ctx)
        k_wide(ctx)
    with ctx.timed("numeric"):
        broken = bool(ctx.failed_obligations or ctx.disagreements)
        budget = (10 if ctx.quick() else 200) * (4 if broken else 1)
        ctx.search_budget_s = budget
        numeric(ctx, budget, ctx.n(40, 400))
    return ctx.finish()
