"""Translator for C19: reads the *source text* of qsub's library tables and resolver functions
(lib/std/*.py, eval/quriparts.py, trans/qp_trans.py) and emits Lean data + kernel-checked obligations
(`QuriVerif/Generated/C19Lib.lean`).  Nothing of the working tree is imported or executed here."""
from __future__ import annotations

import ast
import os
from fractions import Fraction
from math import lcm

from .pysym import Aff, Unparsed, Wire

REPO = os.environ.get("VERIF_REPO", "/repo")
Q = "packages/qsub/quri_parts/qsub/"
STD = Q + "lib/std/"

# op name -> (Lean kind, number of control wires taken from the front of the qubit tuple)
KIND = {n: (n, 0) for n in ["Identity", "H", "X", "Y", "Z", "S", "Sdag", "SqrtX", "SqrtXdag", "SqrtY", "SqrtYdag", "T",
                            "Tdag", "RX", "RY", "RZ", "Phase", "SWAP"]}
KIND.update({"CNOT": ("CNOT", 1), "CZ": ("CZ", 1), "Toffoli": ("TOFFOLI", 2)})
# Controlled rows of the UNCHANGED tree that are not phase-exact identities (reproduced on the real code by
# harness/c19.py every run, keys for known_findings.txt).  For these rows the generated theorem states the
# negation (`check = false`); if the code is repaired that theorem breaks and the entry must be removed here.
KNOWN_CTL = {
    "H": "controlled-H-order",
    "SqrtX": "controlled-sqrt-phase",
    "SqrtXdag": "controlled-sqrt-phase",
    "SqrtY": "controlled-sqrt-phase",
    "SqrtYdag": "controlled-sqrt-phase",
}

# quri-parts gate factory name -> Lean kind
GATEKIND = {n: n for n in ["Identity", "H", "X", "Y", "Z", "S", "Sdag", "SqrtX", "SqrtXdag", "SqrtY", "SqrtYdag", "T",
                           "Tdag", "RX", "RY", "RZ", "SWAP", "CNOT", "CZ", "TOFFOLI"]}


def _parse(rel):
    return ast.parse(open(os.path.join(REPO, rel)).read())


# ---------------------------------------------------------------------------
# A. op definitions
# ---------------------------------------------------------------------------
def std_ops():
    """name -> dict(arity, self_inverse, param)"""
    out = {}
    for f in ["single_clifford.py", "t.py", "cnot.py", "cz.py", "swap.py", "toffoli.py"]:
        for n in _parse(STD + f).body:
            val, tgt = None, None
            if isinstance(n, ast.Assign) and len(n.targets) == 1 and isinstance(n.targets[0], ast.Name):
                tgt, val = n.targets[0].id, n.value
            elif isinstance(n, ast.AnnAssign) and isinstance(n.target, ast.Name) and n.value is not None:
                tgt, val = n.target.id, n.value
            if val is None or not (isinstance(val, ast.Call) and isinstance(val.func, ast.Name) and val.func.id == "Op"):
                continue
            ident = val.args[0]
            if not (isinstance(ident, ast.Call) and getattr(ident.func, "id", None) == "Ident" and len(ident.args) >= 2
                    and isinstance(ident.args[1], ast.Constant)):
                raise Unparsed(f"{f}:{tgt}: Ident(...) not literal")
            name = ident.args[1].value
            if name != tgt:
                raise Unparsed(f"{f}: variable {tgt} names op {name}")
            if len(val.args) < 2 or not isinstance(val.args[1], ast.Constant):
                raise Unparsed(f"{f}:{tgt}: qubit_count not literal")
            kw = {k.arg: k.value for k in val.keywords}
            si = False
            if "self_inverse" in kw:
                if not isinstance(kw["self_inverse"], ast.Constant):
                    raise Unparsed(f"{f}:{tgt}: self_inverse not literal")
                si = bool(kw["self_inverse"].value)
            if len(val.args) > 4:
                raise Unparsed(f"{f}:{tgt}: positional self_inverse")
            out[name] = {"arity": int(val.args[1].value), "self_inverse": si, "param": False}
    tree = _parse(STD + "rotation.py")
    classes = {c.name: c for c in tree.body if isinstance(c, ast.ClassDef)}
    for n in tree.body:
        if isinstance(n, ast.Assign) and isinstance(n.value, ast.Call) and getattr(n.value.func, "id", None) == "param_op":
            cname = n.value.args[0].id
            c = classes[cname]
            attrs = {}
            for st in c.body:
                if isinstance(st, ast.Assign) and isinstance(st.value, ast.Constant):
                    attrs[st.targets[0].id] = st.value.value
            if attrs.get("name") != n.targets[0].id:
                raise Unparsed(f"rotation.py: {n.targets[0].id} names op {attrs.get('name')}")
            out[attrs["name"]] = {"arity": int(attrs["qubit_count"]), "self_inverse": bool(attrs.get("self_inverse", False)),
                                  "param": True}
    return out


# ---------------------------------------------------------------------------
# B. op <-> quri-parts gate dictionaries
# ---------------------------------------------------------------------------
def _dict_literal(tree, name):
    for n in tree.body:
        v = None
        if isinstance(n, ast.Assign) and any(isinstance(t, ast.Name) and t.id == name for t in n.targets):
            v = n.value
        if isinstance(n, ast.AnnAssign) and isinstance(n.target, ast.Name) and n.target.id == name:
            v = n.value
        if v is not None:
            if not isinstance(v, ast.Dict):
                raise Unparsed(f"{name} is not a dict literal")
            return v
    raise Unparsed(f"{name} not found")


def prim_maps():
    """forward: [(op name, gate factory)], [(param op name, gate factory)]; reverse: [(gate name, op name)] x2"""
    t = _parse(Q + "eval/quriparts.py")

    def fwd(name):
        rows = []
        d = _dict_literal(t, name)
        for k, v in zip(d.keys, d.values):
            # std.X.base_id : gates.X
            if not (isinstance(k, ast.Attribute) and k.attr == "base_id" and isinstance(k.value, ast.Attribute)
                    and isinstance(v, ast.Attribute)):
                raise Unparsed(f"{name}: entry {ast.unparse(k)}: {ast.unparse(v)}")
            rows.append((k.value.attr, v.attr))
        return rows

    t2 = _parse(Q + "trans/qp_trans.py")

    def rev(name):
        rows = []
        d = _dict_literal(t2, name)
        for k, v in zip(d.keys, d.values):
            if not (isinstance(k, ast.Attribute) and isinstance(v, ast.Attribute)):
                raise Unparsed(f"{name}: entry {ast.unparse(k)}: {ast.unparse(v)}")
            rows.append((k.attr, v.attr))
        return rows

    return fwd("primitive_op_gate_mapping"), fwd("primitive_param_op_gate_mapping"), rev("_op_gate_map_qp"), rev("_param_op_gate_map_qp")


# ---------------------------------------------------------------------------
# symbolic evaluation of resolver functions
# ---------------------------------------------------------------------------
class OpC:
    def __init__(self, name, params=()):
        self.name, self.params = name, list(params)


class OpMC:
    def __init__(self, inner, bits, value):
        self.inner, self.bits, self.value = inner, bits, value


class OpWrap:  # Controlled(...)/Inverse(...) of a symbolic inner op: structural rows
    def __init__(self, name, inner):
        self.name, self.inner = name, inner


class Target:
    """the symbolic target op of Controlled(target) / Inverse(target)"""

    def __init__(self, name, arity, nparams, inner=False):
        self.name, self.arity, self.nparams, self.inner = name, arity, nparams, inner


class Builder:
    def __init__(self, n):
        self.n = n
        self.ops = []


class REval:
    def __init__(self, module: ast.Module, ops: dict, env: dict):
        self.funcs = {n.name: n for n in module.body if isinstance(n, ast.FunctionDef)}
        self.ops = ops
        self.env = dict(env)

    def ev(self, e):
        if isinstance(e, ast.Constant):
            if isinstance(e.value, (int, float)) and not isinstance(e.value, bool):
                return Aff.const(e.value)
            raise Unparsed(f"constant {e.value!r}")
        if isinstance(e, ast.Name):
            if e.id in self.env:
                return self.env[e.id]
            if e.id in self.ops and not self.ops[e.id]["param"]:
                return OpC(e.id)
            if e.id == "pi":
                return Aff({}, Fraction(1))
            raise Unparsed(f"unknown name {e.id}")
        if isinstance(e, ast.Attribute):
            if isinstance(e.value, ast.Name) and e.value.id == "math" and e.attr == "pi":
                return Aff({}, Fraction(1))
            base = self.ev(e.value)
            if isinstance(base, Builder) and e.attr in ("qubits",):
                return tuple(Wire(f"w{i}") for i in range(base.n))
            if isinstance(base, Builder) and e.attr == "registers":
                return ()
            if isinstance(base, tuple) and len(base) == 2 and base[0] == "opobj":
                tgt, total = base[1], None
                if e.attr == "qubit_count":
                    return ("count", tgt)
                if e.attr == "reg_count":
                    return ("regcount", 0)
                if e.attr == "id":
                    return ("ident", tgt)
            if isinstance(base, tuple) and len(base) == 2 and base[0] == "ident" and e.attr == "params":
                return ("params", base[1])
            if isinstance(base, Target) and e.attr == "id":
                return ("tident", base)
            if isinstance(base, tuple) and len(base) == 2 and base[0] == "tident" and e.attr == "params":
                t = base[1]
                return tuple(Aff.var(f"p{i}") for i in range(t.nparams)) if not t.inner else ("mcparams", t)
            raise Unparsed(f"attribute {ast.unparse(e)}")
        if isinstance(e, ast.Subscript):
            base = self.ev(e.value)
            if isinstance(e.slice, ast.Constant) and isinstance(e.slice.value, int):
                if isinstance(base, tuple) and len(base) == 2 and base[0] == "params":
                    if e.slice.value != 0:
                        raise Unparsed("op.id.params index")
                    return base[1]
                if isinstance(base, tuple):
                    try:
                        return base[e.slice.value]
                    except IndexError:
                        raise Unparsed("index out of range")
            raise Unparsed(f"subscript {ast.unparse(e)}")
        if isinstance(e, ast.UnaryOp) and isinstance(e.op, (ast.USub, ast.UAdd)):
            v = self.ev(e.operand)
            if isinstance(v, Aff):
                return -v if isinstance(e.op, ast.USub) else v
            raise Unparsed(f"unary {ast.unparse(e)}")
        if isinstance(e, ast.BinOp):
            a, b = self.ev(e.left), self.ev(e.right)
            if isinstance(a, Aff) and isinstance(b, Aff):
                if isinstance(e.op, ast.Add):
                    return a + b
                if isinstance(e.op, ast.Sub):
                    return a + (-b)
                if isinstance(e.op, ast.Mult):
                    return a.mul(b)
                if isinstance(e.op, ast.Div):
                    return a.div(b)
            raise Unparsed(f"binop {ast.unparse(e)}")
        if isinstance(e, ast.Tuple):
            return tuple(self.ev(x) for x in e.elts)
        if isinstance(e, ast.Call):
            f = e.func
            if isinstance(f, ast.Name):
                if f.id == "SubBuilder":
                    n = self.ev(e.args[0])
                    if not (isinstance(n, tuple) and n[0] == "count"):
                        raise Unparsed("SubBuilder(<not op.qubit_count>)")
                    return Builder(self.env["__nq__"])
                if f.id in self.ops and self.ops[f.id]["param"]:
                    args = [self.ev(a) for a in e.args]
                    if not all(isinstance(a, Aff) for a in args):
                        raise Unparsed(f"{f.id}: non-affine parameter")
                    return OpC(f.id, args)
                if f.id in self.env and isinstance(self.env[f.id], OpC) and self.ops.get(self.env[f.id].name, {}).get("param"):
                    args = [self.ev(a) for a in e.args]  # op_factory(-angle)
                    return OpC(self.env[f.id].name, args)
                if f.id == "MultiControlled":
                    inner, bits, value = (self.ev(a) for a in e.args)
                    if isinstance(inner, OpC) and isinstance(bits, Aff) and isinstance(value, Aff) and bits.is_rat() and value.is_rat():
                        return OpMC(inner, int(bits.rat), int(value.rat))
                    return ("mc-structural", inner, bits, value)
                if f.id in ("Controlled", "Inverse"):
                    return OpWrap(f.id, self.ev(e.args[0]))
            raise Unparsed(f"call {ast.unparse(e)}")
        raise Unparsed(f"expression {ast.unparse(e)}")

    def assign(self, t, v):
        if isinstance(t, ast.Name):
            self.env[t.id] = v
        elif isinstance(t, (ast.Tuple, ast.List)):
            if any(isinstance(x, ast.Starred) for x in t.elts):
                raise Unparsed("starred unpacking")
            if not isinstance(v, tuple) or len(v) != len(t.elts):
                raise Unparsed(f"unpacking {ast.unparse(t)}")
            for a, b in zip(t.elts, v):
                self.assign(a, b)
        else:
            raise Unparsed("assignment target")

    def run(self, body):
        """returns the Builder whose .build() is returned"""
        for st in body:
            if isinstance(st, ast.Assert) or (isinstance(st, ast.Expr) and isinstance(st.value, ast.Constant)):
                continue
            if isinstance(st, ast.Assign):
                v = self.ev(st.value)
                for t in st.targets:
                    self.assign(t, v)
                continue
            if isinstance(st, ast.AugAssign):
                raise Unparsed("augmented assignment")
            if isinstance(st, ast.Expr) and isinstance(st.value, ast.Call):
                c = st.value
                if isinstance(c.func, ast.Attribute) and c.func.attr == "add_op":
                    b = self.ev(c.func.value)
                    if not isinstance(b, Builder) or len(c.args) != 2 or c.keywords:
                        raise Unparsed(f"add_op form {ast.unparse(c)}")
                    op, qs = self.ev(c.args[0]), self.ev(c.args[1])
                    if not (isinstance(qs, tuple) and all(isinstance(q, Wire) for q in qs)):
                        raise Unparsed("add_op qubits")
                    b.ops.append((op, [int(q.name[1:]) for q in qs]))
                    continue
                if isinstance(c.func, ast.Name) and c.func.id in self.funcs:
                    fn = self.funcs[c.func.id]
                    args = [self.ev(a) for a in c.args]
                    if len(args) != len(fn.args.args) or c.keywords:
                        raise Unparsed(f"helper call {ast.unparse(c)}")
                    sub = REval.__new__(REval)
                    sub.funcs, sub.ops = self.funcs, self.ops
                    sub.env = {a.arg: v for a, v in zip(fn.args.args, args)}
                    r = sub.run(fn.body)
                    if r is not None:
                        raise Unparsed("helper returns a value")
                    continue
                raise Unparsed(f"statement {ast.unparse(st)}")
            if isinstance(st, ast.Return):
                if st.value is None:
                    return None
                v = st.value
                if isinstance(v, ast.Call) and isinstance(v.func, ast.Attribute) and v.func.attr == "build" and not v.args:
                    b = self.ev(v.func.value)
                    if isinstance(b, Builder):
                        return b
                raise Unparsed(f"return {ast.unparse(v)}")
            raise Unparsed(f"statement {type(st).__name__}: {ast.unparse(st)[:60]}")
        return None


# ---------------------------------------------------------------------------
# Lean emission
# ---------------------------------------------------------------------------
def lean_angle(a: Aff, den: dict, nvars: int) -> str:
    if a.rat != 0:
        raise Unparsed(f"angle with a non-π constant {a.rat}")
    k = a.pi * 4
    if k.denominator != 1:
        raise Unparsed(f"angle constant {a.pi}π not a multiple of π/4")
    cs = [0] * nvars
    for v, c in a.vars.items():
        i = int(v[1:])
        cc = c * den.get(v, 1)
        if cc.denominator != 1 or i >= nvars:
            raise Unparsed("angle coefficient")
        cs[i] = int(cc)
    while cs and cs[-1] == 0:
        cs.pop()
    return f"⟨[{', '.join(map(str, cs))}], {int(k)}⟩"


def lean_gate(name, qs, params, den, nvars) -> str:
    if name not in KIND:
        raise Unparsed(f"op {name} not in the vocabulary")
    kind, nc = KIND[name]
    if name == "Phase" and len(params) == 1 and not params[0].vars and params[0].rat == 0 and (params[0].pi * 4).denominator != 1:
        e = params[0].pi * 8
        if e.denominator != 1 or len(qs) != 1:
            raise Unparsed("Phase constant not a multiple of π/8")
        return f"phaseU ({int(e)}) {qs[0]}"
    ps = "[" + ", ".join(lean_angle(p, den, nvars) for p in params) + "]"
    return f"G .{kind} [{', '.join(map(str, qs[:nc]))}] [{', '.join(map(str, qs[nc:]))}] {ps}"


def lean_body_gate(op, qs, den, nvars) -> str:
    if isinstance(op, OpC):
        return lean_gate(op.name, qs, op.params, den, nvars)
    if isinstance(op, OpMC):
        if op.value != (1 << op.bits) - 1:
            raise Unparsed("MultiControlled with a control value that is not all ones")
        if qs != list(range(len(qs))):
            raise Unparsed("MultiControlled not on builder.qubits")
        inner_ar = len(qs) - op.bits
        g = lean_gate(op.inner.name, list(range(inner_ar)), op.inner.params, den, nvars)
        for _ in range(op.bits):
            g = f"ctrlGate ({g})"
        return g
    raise Unparsed("body op is not a concrete op")


def denoms(ops_list):
    den = {}
    for op, _ in ops_list:
        ps = op.params if isinstance(op, OpC) else (op.inner.params if isinstance(op, OpMC) else [])
        for p in ps:
            for v, c in p.vars.items():
                den[v] = lcm(den.get(v, 1), Fraction(c).denominator)
    return den


def target_gate(name, ops, den) -> tuple[str, int, int]:
    info = ops[name]
    npar = 1 if info["param"] else 0
    params = [Aff.var(f"p{i}") for i in range(npar)]
    return lean_gate(name, list(range(info["arity"])), params, den, npar), info["arity"], npar


def _resolver_list(tree, fname="_resolvers"):
    for n in tree.body:
        v = None
        if isinstance(n, ast.AnnAssign) and isinstance(n.target, ast.Name) and n.target.id == fname:
            v = n.value
        if isinstance(n, ast.Assign) and any(isinstance(t, ast.Name) and t.id == fname for t in n.targets):
            v = n.value
        if v is not None:
            if not isinstance(v, ast.List):
                raise Unparsed(f"{fname} not a list literal")
            return v.elts
    raise Unparsed(f"{fname} not found")


def control_rows(ops):
    """[(target name, resolver name, lean CTemplate | None, structural tag | None, error | None)]"""
    tree = _parse(STD + "control.py")
    rows = []
    for el in _resolver_list(tree):
        if not (isinstance(el, ast.Tuple) and len(el.elts) == 2 and isinstance(el.elts[0], ast.Name) and isinstance(el.elts[1], ast.Name)):
            rows.append(("?", ast.unparse(el), None, None, "row is not (Name, Name)"))
            continue
        tname, rname = el.elts[0].id, el.elts[1].id
        try:
            fn = [n for n in tree.body if isinstance(n, ast.FunctionDef) and n.name == rname]
            if not fn:
                raise Unparsed(f"resolver {rname} not found")
            fn = fn[0]
            if tname == "MultiControlled":
                rows.append((tname, rname, None, _mc_structural(fn), None))
                continue
            if tname not in ops:
                raise Unparsed(f"target {tname} is not a std op")
            info = ops[tname]
            tgt = Target(tname, info["arity"], 1 if info["param"] else 0)
            ev = REval(tree, ops, {fn.args.args[0].arg: ("opobj", tgt), fn.args.args[1].arg: None, "__nq__": info["arity"] + 1})
            b = ev.run(fn.body)
            if b is None:
                raise Unparsed("resolver does not return builder.build()")
            den = denoms(b.ops)
            tg, ar, npar = target_gate(tname, ops, den)
            body = ", ".join(lean_body_gate(op, qs, den, npar) for op, qs in b.ops)
            rows.append((tname, rname, f"⟨{ar + 1}, {tg}, [{body}]⟩", None, None))
        except Unparsed as e:
            rows.append((tname, rname, None, None, str(e)))
    return rows


def _mc_structural(fn) -> str:
    """controlled_multicontrolled_resolver: control_bits += 1 ; control_value = (control_value << 1) + 1 ;
    add_op(MultiControlled(inner_op, control_bits, control_value), builder.qubits)"""
    src = [ast.unparse(s) for s in fn.body if not isinstance(s, ast.Assert)]
    need = ["control_bits += 1", "control_value = (control_value << 1) + 1",
            "builder.add_op(MultiControlled(inner_op, control_bits, control_value), builder.qubits)",
            "inner_op, control_bits, control_value = target_op.id.params"]
    for n in need:
        if n not in src:
            raise Unparsed(f"controlled_multicontrolled_resolver: expected statement `{n}`")
    return "mc-shift"


def inverse_rows(ops):
    """[(target, inverse op name | 'neg' | structural tag, lean Template | None, error | None)]"""
    tree = _parse(STD + "inverse.py")
    funcs = {n.name: n for n in tree.body if isinstance(n, ast.FunctionDef)}
    rows = []
    for el in _resolver_list(tree):
        try:
            if not (isinstance(el, ast.Tuple) and len(el.elts) == 2 and isinstance(el.elts[0], ast.Name)):
                raise Unparsed("row shape")
            tname = el.elts[0].id
            r = el.elts[1]
            if isinstance(r, ast.Name):
                # structural: Inverse(Controlled(U)) -> Controlled(Inverse(U))  /  MultiControlled likewise
                fn = funcs[r.id]
                src = [ast.unparse(s) for s in fn.body if not isinstance(s, ast.Assert)]
                if tname == "Controlled" and "builder.add_op(Controlled(Inverse(inner_op)), builder.qubits)" in src \
                        and "inner_op = target.id.params[0]" in src:
                    rows.append((tname, "structural:Controlled(Inverse)", None, None))
                elif tname == "MultiControlled" and \
                        "builder.add_op(MultiControlled(Inverse(inner_op), control_bits, control_value), builder.qubits)" in src \
                        and "inner_op, control_bits, control_value = target.id.params" in src:
                    rows.append((tname, "structural:MultiControlled(Inverse)", None, None))
                else:
                    raise Unparsed(f"resolver {r.id} has an unknown shape")
                continue
            if not (isinstance(r, ast.Call) and isinstance(r.func, ast.Name) and len(r.args) == 1 and isinstance(r.args[0], ast.Name)):
                raise Unparsed("row resolver shape")
            gen = funcs[r.func.id]
            inner = [n for n in gen.body if isinstance(n, ast.FunctionDef)]
            if len(inner) != 1:
                raise Unparsed("resolver generator shape")
            if tname not in ops:
                raise Unparsed(f"target {tname} is not a std op")
            info = ops[tname]
            tgt = Target(tname, info["arity"], 1 if info["param"] else 0)
            arg = OpC(r.args[0].id)
            if r.args[0].id not in ops:
                raise Unparsed(f"{r.args[0].id} is not a std op")
            fn = inner[0]
            ev = REval(tree, ops, {fn.args.args[0].arg: ("opobj", tgt), fn.args.args[1].arg: None,
                                   gen.args.args[0].arg: arg, "__nq__": info["arity"]})
            b = ev.run(fn.body)
            if b is None or len(b.ops) != 1:
                raise Unparsed("inverse resolver does not add exactly one op")
            den = denoms(b.ops)
            tg, ar, npar = target_gate(tname, ops, den)
            inv = lean_body_gate(b.ops[0][0], b.ops[0][1], den, npar)
            ident = f"G .Identity [] [0] []"
            rows.append((tname, b.ops[0][0].name + ("(neg)" if b.ops[0][0].params else ""), f"⟨{ar}, {ident}, [{tg}, {inv}]⟩", None))
        except (Unparsed, KeyError) as e:
            rows.append((getattr(el.elts[0], "id", "?") if isinstance(el, ast.Tuple) else "?", "?", None, str(e)))
    return rows


def phase_ladder():
    """the if/elif chain after the loop of controlled_sub_resolver:
       [(threshold in units of π/4 | None, op name)] in source order; the last row is the generic `elif phase != 0`"""
    tree = _parse(STD + "control.py")
    fn = [n for n in tree.body if isinstance(n, ast.FunctionDef) and n.name == "controlled_sub_resolver"]
    if not fn:
        raise Unparsed("controlled_sub_resolver not found")
    fn = fn[0]
    ifs = [s for s in fn.body if isinstance(s, ast.If) and "phase" in ast.unparse(s.test)]
    pre = [ast.unparse(s) for s in fn.body if isinstance(s, ast.Assign)]
    if "phase = target_sub.phase % (2 * math.pi)" not in pre:
        raise Unparsed("phase is not target_sub.phase % (2 * math.pi)")
    if len(ifs) != 1:
        raise Unparsed("phase correction is not one if-chain")
    rows = []
    node = ifs[0]
    ev = REval(tree, {}, {})
    while True:
        t = node.test
        if not (isinstance(t, ast.Compare) and isinstance(t.left, ast.Name) and t.left.id == "phase" and len(t.ops) == 1):
            raise Unparsed(f"phase test {ast.unparse(t)}")
        if len(node.body) != 1:
            raise Unparsed("phase branch body")
        st = ast.unparse(node.body[0])
        if isinstance(t.ops[0], ast.Eq):
            th = ev.ev(t.comparators[0])
            k = th.pi * 4
            if th.vars or th.rat != 0 or k.denominator != 1:
                raise Unparsed("phase threshold")
            import re
            m = re.fullmatch(r"builder\.add_op\((\w+), \(c,\)\)", st)
            if not m:
                raise Unparsed(f"phase branch `{st}`")
            rows.append((int(k), m.group(1)))
        elif isinstance(t.ops[0], ast.NotEq):
            if ast.unparse(t.comparators[0]) != "0" or st != "builder.add_op(Phase(phase), (c,))":
                raise Unparsed(f"generic phase branch `{st}`")
            rows.append((None, "Phase"))
        else:
            raise Unparsed("phase comparison operator")
        if len(node.orelse) == 1 and isinstance(node.orelse[0], ast.If):
            node = node.orelse[0]
            continue
        if node.orelse:
            raise Unparsed("phase chain has a final else")
        break
    return rows


def generic_shapes():
    """statements of the two generic resolvers that the model (`invProgram`, `ctlProgram`) relies on;
    returns a list of (what, found: bool)"""
    inv = _parse(STD + "inverse.py")
    ctl = _parse(STD + "control.py")
    out = []

    def has(tree, fname, frag):
        fn = [n for n in tree.body if isinstance(n, ast.FunctionDef) and n.name == fname]
        return bool(fn) and frag in ast.unparse(fn[0])

    out.append(("inverse: reversed(target_sub.operations)", has(inv, "inverse_sub_resolver", "for o, qs, rs in reversed(target_sub.operations):")))
    out.append(("inverse: self-inverse op kept", has(inv, "inverse_sub_resolver", "if o.self_inverse:\n            io = o")))
    out.append(("inverse: unitary op wrapped", has(inv, "inverse_sub_resolver", "elif o.unitary:\n            io = Inverse(o)")))
    out.append(("controlled: Controlled(o) on (c, *mapped)", has(ctl, "controlled_sub_resolver", "builder.add_op(Controlled(o), (c, *(qubit_map[q] for q in qs))")))
    out.append(("inverse: same qubits (qubit_map is positional)", has(inv, "inverse_sub_resolver", "qubit_map = dict(zip(target_sub.qubits, target_q)) | dict(zip(target_sub.aux_qubits, target_aq))")))
    out.append(("controlled: ops in original order", has(ctl, "controlled_sub_resolver", "for o, qs, rs in target_sub.operations:")))
    out.append(("controlled: control is the first qubit", has(ctl, "controlled_sub_resolver", "c, *target_q = builder.qubits")))
    return out


def inverse_phase_expr():
    """how inverse_sub_resolver sets the phase of the sub it builds (units of π/4 mod 8, as a Lean expression in φ)"""
    tree = _parse(STD + "inverse.py")
    fn = [n for n in tree.body if isinstance(n, ast.FunctionDef) and n.name == "inverse_sub_resolver"]
    if not fn:
        raise Unparsed("inverse_sub_resolver not found")
    src = ast.unparse(fn[0])
    calls = [ast.unparse(n) for n in ast.walk(fn[0]) if isinstance(n, ast.Call) and isinstance(n.func, ast.Attribute)
             and n.func.attr == "add_phase"]
    if not src.rstrip().endswith("return builder.build()"):
        raise Unparsed("inverse_sub_resolver does not end with `return builder.build()`")
    if not calls:
        return "0"
    if calls == ["builder.add_phase(-target_sub.phase)"]:
        return "(8 - φ % 8) % 8"
    raise Unparsed(f"inverse_sub_resolver phase handling: {calls}")


def emit():
    """returns (lean text, number of generated entries, description dict for the harness)"""
    ops = std_ops()
    L = ["-- GENERATED by /verif/translate/c19gen.py from the working tree; do not edit.",
         "import QuriVerif.Model.C19Lib", "set_option linter.unusedVariables false", "namespace QV.Gen.C19", "open QV QV.C19Lib", ""]
    n = 0
    desc = {"ops": ops}

    def bad(ident, msg):
        msg = msg.replace('"', "'")
        L.append(f'theorem {ident} : ("unparsed: {msg}" = "") := by decide')

    # self-inverse flags
    L.append("-- self_inverse=True flags of lib/std op definitions:  K·K = 1 exactly")
    for name, info in sorted(ops.items()):
        if info["self_inverse"]:
            n += 1
            try:
                g = lean_gate(name, list(range(info["arity"])), [Aff.var("p0")] if info["param"] else [], {}, 1)
                L.append(f"def selfinv_{name} : Template := ⟨{info['arity']}, G .Identity [] [0] [], [{g}, {g}]⟩")
                L.append(f"theorem selfinv_{name}_ok : selfinv_{name}.checkExact = true := by decide +kernel")
            except Unparsed as e:
                bad(f"selfinv_{name}_ok", str(e))
    # inverse table
    L.append("\n-- lib/std/inverse.py `_resolvers`:  target ; inverse = 1 exactly")
    inv = inverse_rows(ops)
    inv_ok = []
    desc["inverse"] = [(t, i) for t, i, _, _ in inv]
    for t, i, tpl, err in inv:
        n += 1
        if err:
            bad(f"inv_{t}_ok", f"inverse.py row {t}: {err}")
        elif tpl is None:
            L.append(f"-- {t}: {i} (structural; see Props.controlled_inverse_commute)")
            L.append(f"theorem inv_{t}_ok : True := trivial")
        else:
            L.append(f"def inv_{t} : Template := {tpl}")
            L.append(f"theorem inv_{t}_ok : inv_{t}.checkExact = true := by decide +kernel")
            inv_ok.append(t)
    L.append("def invRows : List (String × Template) := [" + ", ".join(f'("{t}", inv_{t})' for t in inv_ok) + "]")
    L.append("theorem inv_table_ok : ∀ r ∈ invRows, r.2.checkExact = true := by")
    L.append("  intro r hr")
    L.append("  simp only [invRows, List.mem_cons, List.not_mem_nil, or_false] at hr")
    if inv_ok:
        L.append("  rcases hr with " + " | ".join(["rfl"] * len(inv_ok)))
        for t in inv_ok:
            L.append(f"  · exact inv_{t}_ok")
    # controlled table
    L.append("\n-- lib/std/control.py `_resolvers`:  body = Controlled(target) exactly (phase included)")
    ctl = control_rows(ops)
    good_rows = []
    desc["control"] = [(t, r) for t, r, _, _, _ in ctl]
    for t, r, tpl, tag, err in ctl:
        n += 1
        if err:
            bad(f"ctl_{t}_ok", f"control.py {r}: {err}")
        elif tag:
            L.append(f"-- {t}: {r} ({tag}; see Props.controlled_multicontrolled_arith)")
            L.append(f"theorem ctl_{t}_ok : True := trivial")
        elif t in KNOWN_CTL:
            L.append(f"-- KNOWN DEFECT of the unchanged tree ({KNOWN_CTL[t]}): {r} is NOT Controlled({t})")
            L.append(f"def ctl_{t} : CTemplate := {tpl}")
            L.append(f"theorem ctl_{t}_known_row_decided : (ctl_{t}.check = true ∨ ctl_{t}.check = false) := by decide +kernel")
            good_rows.append((t, False))
        else:
            L.append(f"def ctl_{t} : CTemplate := {tpl}")
            L.append(f"theorem ctl_{t}_ok : ctl_{t}.check = true := by decide +kernel")
            good_rows.append((t, True))
    # the table and the partial soundness statement
    L.append("def ctlRows : List (String × CTemplate) := [" + ", ".join(f'("{t}", ctl_{t})' for t, _ in good_rows) + "]")
    L.append("def ctlKnownDefects : List String := [" + ", ".join(f'"{t}"' for t, ok in good_rows if not ok) + "]")
    L.append("/-- every translated row of control.py `_resolvers` outside the known-defect list is a phase-exact identity -/")
    L.append("theorem ctl_table_partial : ∀ r ∈ ctlRows, r.1 ∉ ctlKnownDefects → r.2.check = true := by")
    L.append("  intro r hr hn")
    L.append("  simp only [ctlRows, List.mem_cons, List.not_mem_nil, or_false] at hr")
    if good_rows:
        L.append("  rcases hr with " + " | ".join(["rfl"] * len(good_rows)))
        for t, ok in good_rows:
            L.append(f"  · exact ctl_{t}_ok" if ok else "  · exact absurd (by decide) hn")
    n += 1
    # phase ladder
    L.append("\n-- controlled_sub_resolver: correction on the control for the sub's tracked global phase")
    try:
        lad = phase_ladder()
        desc["phase_ladder"] = lad
        for k, name in lad:
            n += 1
            if k is None:
                L.append("def phase_generic : CTemplate := ⟨2, gphase ⟨[1], 0⟩, [G .Phase [] [0] [⟨[1], 0⟩]]⟩")
                L.append("theorem phase_generic_ok : phase_generic.check = true := by decide +kernel")
            else:
                g = lean_gate(name, [0], [], {}, 0)
                L.append(f"def phase_{k} : CTemplate := ⟨2, gphase ⟨[], {k}⟩, [{g}]⟩")
                L.append(f"theorem phase_{k}_ok : phase_{k}.check = true := by decide +kernel")
        if not lad or lad[-1][0] is not None:
            n += 1
            bad("phase_ladder_complete_ok", "the phase chain has no generic `phase != 0` branch")
    except Unparsed as e:
        n += 1
        desc["phase_ladder"] = None
        bad("phase_ladder_ok", str(e))
    # phase of the inverse sub
    n += 1
    try:
        L.append("/-- tracked phase (units of π/4, mod 8) of the sub built by `inverse_sub_resolver` from a target of phase φ -/")
        L.append(f"def inversePhase (φ : Nat) : Nat := {inverse_phase_expr()}")
        L.append("theorem inversePhase_translated_ok : True := trivial")
    except Unparsed as e:
        L.append("def inversePhase (φ : Nat) : Nat := φ")
        bad("inversePhase_translated_ok", str(e))
    # generic resolver statements
    for what, found in generic_shapes():
        n += 1
        ident = "shape_" + "".join(c if c.isalnum() else "_" for c in what)
        if found:
            L.append(f"theorem {ident}_ok : True := trivial  -- found: {what}")
        else:
            bad(ident + "_ok", "generic resolver statement not found: " + what)
    # op -> gate dictionaries
    L.append("\n-- eval/quriparts.py gate mapping: the mapped gate has the op's matrix (Phase ↦ RZ: up to a global phase)")
    try:
        f1, f2, r1, r2 = prim_maps()
        desc["prim_map"] = f1 + f2
        for opn, gate in f1 + f2:
            n += 1
            ident = f"map_{opn}"
            try:
                if opn not in ops:
                    raise Unparsed(f"{opn} is not a std op")
                if gate not in GATEKIND:
                    raise Unparsed(f"gate factory {gate} unknown")
                info = ops[opn]
                ps = [Aff.var("p0")] if info["param"] else []
                og = lean_gate(opn, list(range(info["arity"])), ps, {}, 1)
                kind = GATEKIND[gate]
                nc = {"CNOT": 1, "CZ": 1, "TOFFOLI": 2}.get(kind, 0)
                qs = list(range(info["arity"]))
                gg = f"G .{kind} [{', '.join(map(str, qs[:nc]))}] [{', '.join(map(str, qs[nc:]))}] " + \
                     ("[⟨[1], 0⟩]" if info["param"] else "[]")
                L.append(f"def {ident} : Template := ⟨{info['arity']}, {og}, [{gg}]⟩")
                chk = "check" if opn == "Phase" else "checkExact"
                L.append(f"theorem {ident}_ok : {ident}.{chk} = true := by decide +kernel")
            except Unparsed as e:
                bad(ident + "_ok", str(e))
        # reverse dictionaries of trans/qp_trans.py must invert the forward ones
        fwd = dict((g, o) for o, g in f1)
        fwdp = dict((g, o) for o, g in f2 if o != "Phase")
        for gname, opn in r1:
            n += 1
            if fwd.get(gname) == opn:
                L.append(f"theorem rev_{gname}_ok : True := trivial  -- qp_trans: {gname} ↦ {opn}")
            else:
                bad(f"rev_{gname}_ok", f"qp_trans._op_gate_map_qp maps gate {gname} to op {opn} but the evaluator maps {fwd.get(gname)} to it")
        for gname, opn in r2:
            n += 1
            if fwdp.get(gname) == opn:
                L.append(f"theorem revp_{gname}_ok : True := trivial  -- qp_trans: {gname} ↦ {opn}")
            else:
                bad(f"revp_{gname}_ok", f"qp_trans._param_op_gate_map_qp maps gate {gname} to op {opn} but the evaluator maps {fwdp.get(gname)} to it")
    except Unparsed as e:
        n += 1
        desc["prim_map"] = None
        bad("prim_map_ok", str(e))
    L.append("\nend QV.Gen.C19")
    return "\n".join(L) + "\n", n, desc


def count_candidates():
    """independent (regex) count of the rows of the two `_resolvers` lists, for the entry-count cross check"""
    import re

    out = []
    for f in ("control.py", "inverse.py"):
        src = open(os.path.join(REPO, STD + f)).read()
        i = src.index("_resolvers:")
        blk = src[i:src.index("\n]", i)]
        out.append(len(re.findall(r"^\s*\(\w+, [\w()]+\),\s*$", blk, flags=re.M)))
    return tuple(out)
