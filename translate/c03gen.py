"""Translator for C03.  For every adapter:
  * the literal name tables (quri-parts gate kind ↦ backend constructor, and back) are read from source and become
    Lean rows; how each table's constructor receives wires/angles (plain, negated, U2 as U(π/2,…), half-turns …) is a
    per-table role that is valid only while the branch code has the shape the model was written for, so
  * the functions that hold that branch code (`convert_gate`, `convert_circuit`, `circuit_from_*`, the Rust match arms)
    are compared, as normalised ASTs / token streams, with golden copies committed under translate/golden/.
A changed shape is an undischarged obligation (`shape_*`), never a silent pass."""
from __future__ import annotations

import ast
import hashlib
import os
import re

from . import tables

HERE = os.path.dirname(os.path.abspath(__file__))
GOLD = os.path.join(HERE, "golden")
REPO = os.environ.get("VERIF_REPO", "/repo")

P = "packages/"
FILES = {
    "qulacs": P + "qulacs/quri_parts/qulacs/circuit/__init__.py",
    "qulacs_rev": P + "qulacs/quri_parts/qulacs/circuit/qulacs_circuit_converter.py",
    "qulacs_rs": P + "rust/src/qulacs/mod.rs",
    "qiskit": P + "qiskit/quri_parts/qiskit/circuit/circuit_converter.py",
    "qiskit_rev": P + "qiskit/quri_parts/qiskit/circuit/qiskit_circuit_converter.py",
    "cirq": P + "cirq/quri_parts/cirq/circuit/circuit_converter.py",
    "cirq_rev": P + "cirq/quri_parts/cirq/circuit/cirq_circuit_converter.py",
    "braket": P + "braket/quri_parts/braket/circuit/__init__.py",
    "braket_rev": P + "braket/quri_parts/braket/circuit/braket_circuit_converter.py",
    "tket": P + "tket/quri_parts/tket/circuit/circuit_converter.py",
    "tket_rev": P + "tket/quri_parts/tket/circuit/tket_circuit_converter.py",
    "stim": P + "stim/quri_parts/stim/circuit/__init__.py",
    "openqasm": P + "openqasm/quri_parts/openqasm/circuit/__init__.py",
}

# forward tables: (file key, dict name, role) ; role tells how the constructor is fed (valid under the golden shapes)
FORWARD = [
    ("qulacs", "_single_qubit_gate_qulacs", "plain"),
    ("qulacs", "_single_qubit_reverse_rotation_gate_qulacs", "neg"),
    ("qulacs", "_two_qubit_gate_qulacs", "plain"),
    ("qulacs", "_three_qubit_gate_qulacs", "plain"),
    ("qulacs", "_multi_pauli_gate_qulacs", "plain"),
    ("qulacs", "_multi_pauli_rotation_gate_qulacs", "neg"),
    ("qiskit", "_single_qubit_gate_qiskit", "plain"),
    ("qiskit", "_single_qubit_rotation_gate_qiskit", "plain"),
    ("qiskit", "_two_qubit_gate_qiskit", "plain"),
    ("qiskit", "_three_qubits_gate_qiskit", "plain"),
    ("cirq", "_single_qubit_gate_cirq", "plain"),
    ("cirq", "_single_qubit_rotation_gate_cirq", "plain"),
    ("cirq", "_two_qubit_gate_cirq", "plain"),
    ("cirq", "_three_qubit_gate_cirq", "plain"),
    ("braket", "_single_qubit_gate_braket", "plain"),
    ("braket", "_single_qubit_rotation_gate_braket", "plain"),
    ("braket", "_two_qubit_gate_braket", "plain"),
    ("braket", "_three_qubit_gate_braket", "plain"),
    ("tket", "_single_qubit_gate_tket", "plain"),
    ("tket", "_single_qubit_rotation_gate_tket", "halfturns"),
    ("tket", "_two_qubit_gate_tket", "plain"),
    ("tket", "_three_qubit_gate_tket", "plain"),
    ("stim", "_stim_gate_str", "plain"),
    ("openqasm", "_single_qubit_gate_stdgates_symbol", "plain"),
    ("openqasm", "_single_qubit_rotation_gate_stdgates_symbol", "plain"),
    ("openqasm", "_two_qubit_gate_stdgates_symbol", "plain"),
    ("openqasm", "_three_qubit_gate_stdgates_symbol", "plain"),
    ("openqasm", "_U_gate_stdgates_symbol", "plain"),
]
REVERSE = [
    ("qulacs_rev", "_single_qubit_gate_qulacs_quri_parts"),
    ("qulacs_rev", "_single_qubit_rotation_gate_qulacs_quri_parts"),
    ("qulacs_rev", "_two_qubit_gate_qulacs_quri_parts"),
    ("qulacs_rev", "_multi_qubits_gate_qulacs_quri_parts"),
    ("qiskit_rev", "_single_qubit_gate_qiskit_quri_parts"),
    ("qiskit_rev", "_single_qubit_rotation_gate_qiskit_quri_parts"),
    ("qiskit_rev", "_two_qubit_gate_qiskit_quri_parts"),
    ("qiskit_rev", "_three_qubits_gate_quri_parts"),
    ("qiskit_rev", "_U_gate_qiskit_quri_parts"),
]
# functions whose code carries the argument order / sign / endianness logic
SHAPES = [
    ("qulacs", "convert_gate"), ("qulacs", "convert_parametric_circuit"), ("qulacs_rev", "circuit_from_qulacs"),
    ("qiskit", "convert_gate"), ("qiskit", "convert_circuit"), ("qiskit_rev", "circuit_from_qiskit"),
    ("cirq", "convert_gate"), ("cirq", "convert_circuit"), ("cirq_rev", "circuit_from_cirq"),
    ("cirq", "U1"), ("cirq", "U2"), ("cirq", "U3"),
    ("braket", "convert_gate"), ("braket", "convert_circuit"), ("braket_rev", "gate_from_braket"), ("braket_rev", "circuit_from_braket"),
    ("tket", "convert_gate"), ("tket", "convert_circuit"), ("tket_rev", "circuit_from_tket"),
    ("stim", "convert_gate"), ("stim", "convert_circuit"),
    ("openqasm", "convert_gate_to_qasm_line"), ("openqasm", "convert_to_qasm"), ("openqasm", "_ref_q_str"),
]
# module-level literals that are part of the semantics
LITERALS = [("qiskit", "_special_named_gate_matrix"), ("braket", "_special_named_gate_matrix"), ("tket", "_special_named_gate_matrix"),
            ("braket", "_U_gate_matrix"), ("openqasm", "_not_implemented_gates")]


def _strip_doc(node):
    for n in ast.walk(node):
        if isinstance(n, (ast.FunctionDef, ast.ClassDef)) and n.body and isinstance(n.body[0], ast.Expr) and isinstance(
                n.body[0].value, ast.Constant) and isinstance(n.body[0].value.value, str):
            n.body = n.body[1:] or [ast.Pass()]
    return node


def shape_of(fkey: str, name: str) -> str:
    tree = tables.parse(FILES[fkey])
    for n in tree.body:
        if isinstance(n, (ast.FunctionDef, ast.ClassDef)) and n.name == name:
            return ast.dump(_strip_doc(n), annotate_fields=False, include_attributes=False)
    raise tables.TableError(f"{name} not found in {FILES[fkey]}")


def literal_shape(fkey: str, name: str) -> str:
    tree = tables.parse(FILES[fkey])
    return ast.dump(tables.module_assign(tree, name), annotate_fields=False, include_attributes=False)


def rust_arms():
    """(kind, backend method or constructor, argument list as written) for every arm of convert_add_gate"""
    src = open(os.path.join(REPO, FILES["qulacs_rs"])).read()
    m = re.search(r"pub fn convert_add_gate.*?\n\}\n", src, re.S)
    if not m:
        raise tables.TableError("convert_add_gate not found")
    body = m.group(0)
    arms = []
    for am in re.finditer(r"QuantumGate::(\w+)\(([^)]*)\)\s*=>\s*\{(.*?)\n        \}", body, re.S):
        kind, binders, code = am.group(1), am.group(2), am.group(3)
        toks = re.sub(r"\s+", " ", code).strip()
        arms.append((kind, re.sub(r"\s+", "", binders), toks))
    return arms


CONV = {"plain": "same", "neg": "opposite", "halfturns": "halfturns"}


def sanitize(backend: str, ctor: str) -> str:
    c = ctor.replace("**", "pow").replace("-", "m").replace(".", "p")
    return backend + "_" + re.sub(r"\W+", "_", c).strip("_")


def golden_path(tag: str) -> str:
    return os.path.join(GOLD, "c03_" + tag + ".txt")


def digest(s: str) -> str:
    return hashlib.sha256(s.encode()).hexdigest()[:24]


def write_golden():
    """(re)create the golden files from the current tree – run by hand when the model is updated"""
    os.makedirs(GOLD, exist_ok=True)
    for fkey, name in SHAPES:
        open(golden_path(f"{fkey}.{name}"), "w").write(shape_of(fkey, name))
    for fkey, name in LITERALS:
        open(golden_path(f"{fkey}.{name}.lit"), "w").write(literal_shape(fkey, name))
    open(golden_path("qulacs_rs.arms"), "w").write("\n".join("|".join(a) for a in rust_arms()))


def value_str(node) -> str:
    return ast.unparse(node).replace('"', "'")


def table_rows(fkey, dname, env):
    tree = tables.parse(FILES[fkey])
    node = tables.module_assign(tree, dname)
    if not isinstance(node, ast.Dict):
        raise tables.TableError(f"{dname} is not a dict literal")
    rows = []
    for k, v in zip(node.keys, node.values):
        kk = tables.literal(k, env)
        rows.append((kk, value_str(v)))
    return rows


def gen():
    env = tables.gate_name_env()
    env.update({f"gate_names.{k}": v for k, v in list(env.items()) if isinstance(v, str)})
    env["ECR"] = "ECR"
    lines = [
        "-- GENERATED by /verif/translate/c03gen.py from the working tree; do not edit.",
        "import QuriVerif.Model.C03",
        "namespace QV.Gen.C03",
        "open QV QV.C03",
    ]
    n = 0
    rows_py = []
    fwd = []
    for fkey, dname, role in FORWARD:
        try:
            for kind, ctor in table_rows(fkey, dname, env):
                if kind == "ECR":  # qiskit-only native gate, outside quri-parts' documented vocabulary
                    continue
                fwd.append(f'(.{kind}, .{sanitize(fkey, ctor)}, .{CONV[role]})')
                rows_py.append({"backend": fkey, "kind": kind, "ctor": ctor, "role": role, "table": dname})
                n += 1
        except (tables.TableError, Exception) as e:  # noqa: BLE001
            lines.append(f"-- UNPARSED {fkey}.{dname}: {e}")
            lines.append(f"theorem unparsed_{fkey}_{dname} : (0 : Nat) = 1 := by decide")
            n += 1
    # the Rust converter actually used by convert_circuit for qulacs
    try:
        for kind, binders, code in rust_arms():
            g = re.search(r'getattr\("(\w+)"\)', code)
            mm = re.search(r'call_method1\(\s*"(\w+)"\s*,(.*)\)\?;$', code)
            if g:  # gate object built through qulacs.gate.<Name>(...) and added with add_gate
                meth = "gate." + g.group(1)
                am = re.search(r'\.call1\(\((.*?)\)\)\?', code)
                args = re.sub(r"\s+", "", am.group(1)) if am else "?"
            elif mm:
                meth = mm.group(1)
                args = re.sub(r"\s+", "", mm.group(2))
            else:
                meth, args = "?", "?"
            neg = "neg" if "-*" in args else "plain"
            fwd.append(f'(.{kind}, .{sanitize("qulacs_rs", meth)}, .{CONV[neg]})')
            rows_py.append({"backend": "qulacs_rs", "kind": kind, "ctor": meth, "role": neg, "args": args})
            n += 1
    except (tables.TableError, OSError) as e:
        lines.append(f"-- UNPARSED rust arms: {e}")
        lines.append("theorem unparsed_rust_arms : (0 : Nat) = 1 := by decide")
        n += 1
    lines.append("def forwardRows : List (Kind × BCtor × Conv) := [\n  " + ",\n  ".join(fwd) + "]")
    rev = []
    for fkey, dname in REVERSE:
        try:
            tree = tables.parse(FILES[fkey])
            d = tables.literal(tables.module_assign(tree, dname), env)
            for bname, kind in d.items():
                if kind == "ECR":
                    continue
                rev.append(f'("{fkey}", "{bname}", Kind.{kind})')
                n += 1
        except (tables.TableError, Exception) as e:  # noqa: BLE001
            lines.append(f"-- UNPARSED {fkey}.{dname}: {e}")
            lines.append(f"theorem unparsed_{fkey}_{dname} : (0 : Nat) = 1 := by decide")
            n += 1
    lines.append("def reverseRows : List (String × String × Kind) := [\n  " + ",\n  ".join(rev) + "]")
    # shapes
    flags = []
    for tag, cur in ([(f"{fk}.{nm}", lambda fk=fk, nm=nm: shape_of(fk, nm)) for fk, nm in SHAPES]
                     + [(f"{fk}.{nm}.lit", lambda fk=fk, nm=nm: literal_shape(fk, nm)) for fk, nm in LITERALS]
                     + [("qulacs_rs.arms", lambda: "\n".join("|".join(a) for a in rust_arms()))]):
        n += 1
        ident = "shape_" + re.sub(r"\W", "_", tag)
        try:
            c = cur()
            g = open(golden_path(tag)).read()
            ok = c == g
            why = "" if ok else f" -- differs from golden {digest(g)} (now {digest(c)})"
        except (tables.TableError, OSError, SyntaxError) as e:
            ok, why = False, f" -- {e}"
        lines.append(f"def {ident} : Bool := {'true' if ok else 'false'}{why}")
        flags.append(ident)
    lines.append("def shapeFlags : List (String × Bool) := [" + ", ".join(f'("{f}", {f})' for f in flags) + "]")
    lines.append("end QV.Gen.C03")
    return "\n".join(lines) + "\n", n, rows_py
