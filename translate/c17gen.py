"""Translator for C17: reads noise_instruction.py (stdlib `ast`, never imported) and the two anchored Rust files
(token patterns) of the working tree and regenerates

  Generated/C17Data.lean   -- data only (imports Model.C17): translated `_check_valid_probability`, the validation
                              statements of every scalar factory, the closed-form Kraus templates, the thermal
                              Choi matrix, shape descriptors of the list factories, Rust field type / name table
  Generated/C17Obl.lean    -- kernel-checked obligations about that data (imports Proof.C17)

Grammar accepted for a scalar factory body (anything else -> the factory is UNPARSED -> obligation `False`):
    docstring | nested `def` helper | `_check_valid_probability(<expr>, <str>)`
    | `if <cond>: raise ValueError(...)` | `<name> = <helper>(<param names>)` | `return GateNoiseInstruction(...)`
  <expr> ::= parameter name | number | np.inf | <expr> (+|-|*) <expr>
  <cond> ::= <expr> (<|<=|>|>=) <expr> | <cond> (or|and) <cond> | not <cond>
Kraus helper: `return ( <op>, ... )`, <op> ::= [[e,..],..] | np.sqrt(<expr>) * np.array([[e,..],..]),
  e ::= 0 | 1 | np.sqrt(<expr>)
"""
from __future__ import annotations

import ast
import os
import re
from fractions import Fraction

REPO = os.environ.get("VERIF_REPO", "/repo")


class common:  # minimal reader (the translator never imports the harness or quri-parts)
    @staticmethod
    def read_repo(rel: str) -> str:
        with open(os.path.join(REPO, rel)) as f:
            return f.read()


PY = "packages/circuit/quri_parts/circuit/noise/noise_instruction.py"
RS_INSTR = "packages/rust/src/circuit/noise/noise_instruction.rs"
RS_QULACS = "packages/rust/src/qulacs/noise.rs"
PY_INIT = "packages/circuit/quri_parts/circuit/noise/__init__.py"
PY_QULACS = "packages/qulacs/quri_parts/qulacs/circuit/noise/__init__.py"

SCALAR = {
    "BitFlipNoise": ("bitFlip", 1), "PhaseFlipNoise": ("phaseFlip", 1), "BitPhaseFlipNoise": ("bitPhaseFlip", 1),
    "DepolarizingNoise": ("depolarizing", 1), "ResetNoise": ("reset", 2), "PhaseDampingNoise": ("phaseDamping", 1),
    "AmplitudeDampingNoise": ("amplitudeDamping", 2), "PhaseAmplitudeDampingNoise": ("phaseAmplitudeDamping", 3),
    "ThermalRelaxationNoise": ("thermalRelaxation", 4),
}
FLIPS = ["BitFlipNoise", "PhaseFlipNoise", "BitPhaseFlipNoise", "DepolarizingNoise"]
TEMPLATED = ["ResetNoise", "PhaseDampingNoise", "AmplitudeDampingNoise", "PhaseAmplitudeDampingNoise"]
LIST_FACTORIES = ["PauliNoise", "GeneralDepolarizingNoise", "ProbabilisticNoise", "KrausNoise"]
ALL_FACTORIES = list(SCALAR) + LIST_FACTORIES


class Unparsed(Exception):
    pass


def rat(q: Fraction) -> str:
    if q.denominator == 1:
        return f"({q.numerator} : Rat)"
    return f"({q.numerator}/{q.denominator} : Rat)"


# ---------------------------------------------------------------------------
# expressions
# ---------------------------------------------------------------------------
def is_np_attr(node, attr):
    return isinstance(node, ast.Attribute) and node.attr == attr and isinstance(node.value, ast.Name) and node.value.id in ("np", "numpy", "math")


def tr_expr(node, env: dict) -> str:
    """-> Lean `Expr` term; env: name -> Lean Expr term"""
    if isinstance(node, ast.Name):
        if node.id in env:
            return env[node.id]
        raise Unparsed(f"unknown name {node.id}")
    if isinstance(node, ast.Constant) and isinstance(node.value, (int, float)) and not isinstance(node.value, bool):
        return f"(.num {rat(Fraction(repr(node.value)))})"
    if is_np_attr(node, "inf"):
        return ".inf"
    if isinstance(node, ast.UnaryOp) and isinstance(node.op, ast.USub) and isinstance(node.operand, ast.Constant):
        return f"(.num {rat(-Fraction(repr(node.operand.value)))})"
    if isinstance(node, ast.BinOp) and isinstance(node.op, (ast.Add, ast.Sub, ast.Mult)):
        op = {ast.Add: "add", ast.Sub: "sub", ast.Mult: "mul"}[type(node.op)]
        return f"(.{op} {tr_expr(node.left, env)} {tr_expr(node.right, env)})"
    raise Unparsed(f"expression not in grammar: {ast.dump(node)[:80]}")


def tr_cond(node, env) -> str:
    if isinstance(node, ast.Compare) and len(node.ops) == 1:
        op = {ast.Lt: "lt", ast.LtE: "le", ast.Gt: "gt", ast.GtE: "ge"}.get(type(node.ops[0]))
        if op is None:
            raise Unparsed("comparison operator")
        return f"(.{op} {tr_expr(node.left, env)} {tr_expr(node.comparators[0], env)})"
    if isinstance(node, ast.Compare) and len(node.ops) == 2:
        # a <= x <= b  ==  (a <= x) and (x <= b)
        l = ast.Compare(node.left, [node.ops[0]], [node.comparators[0]])
        r = ast.Compare(node.comparators[0], [node.ops[1]], [node.comparators[1]])
        return f"(.and {tr_cond(l, env)} {tr_cond(r, env)})"
    if isinstance(node, ast.BoolOp):
        op = "or" if isinstance(node.op, ast.Or) else "and"
        out = tr_cond(node.values[0], env)
        for v in node.values[1:]:
            out = f"(.{op} {out} {tr_cond(v, env)})"
        return out
    if isinstance(node, ast.UnaryOp) and isinstance(node.op, ast.Not):
        return f"(.not {tr_cond(node.operand, env)})"
    raise Unparsed(f"condition not in grammar: {ast.dump(node)[:80]}")


def raises_value_error(stmts) -> bool:
    return (len(stmts) == 1 and isinstance(stmts[0], ast.Raise) and isinstance(stmts[0].exc, ast.Call)
            and isinstance(stmts[0].exc.func, ast.Name) and stmts[0].exc.func.id == "ValueError")


# ---------------------------------------------------------------------------
# scalar factories
# ---------------------------------------------------------------------------
class Factory:
    def __init__(self, name):
        self.name = name
        self.guards: list[str] = []
        self.kraus: list[str] | None = None  # Lean KMat terms
        self.error: str | None = None
        self.ret_name = None
        self.ret_params: list[int] | None = None
        self.ret_qubit_count = None
        self.kraus_after_guards = True
        self.thermal: dict = {}


def parse_module():
    src = common.read_repo(PY)
    return ast.parse(src), src


def func(tree, name):
    for n in tree.body:
        if isinstance(n, ast.FunctionDef) and n.name == name:
            return n
    return None


def tr_entry(node, env, scal: list[str]) -> str:
    rs = list(scal)
    if isinstance(node, ast.Constant) and node.value in (0, 1, 0.0, 1.0) and not isinstance(node.value, bool):
        coef = int(node.value)
    elif isinstance(node, ast.Call) and is_np_attr(node.func, "sqrt") and len(node.args) == 1:
        coef = 1
        rs.append(tr_expr(node.args[0], env))
    else:
        raise Unparsed(f"Kraus entry not in grammar: {ast.dump(node)[:80]}")
    return f"⟨{coef}, [{', '.join(rs)}]⟩"


def tr_matrix(node, env, scal) -> str:
    if not isinstance(node, ast.List):
        raise Unparsed("matrix literal expected")
    rows = []
    for r in node.elts:
        if not isinstance(r, ast.List):
            raise Unparsed("matrix row literal expected")
        rows.append("[" + ", ".join(tr_entry(e, env, scal) for e in r.elts) + "]")
    return "[" + ", ".join(rows) + "]"


def tr_kraus_op(node, env) -> str:
    if isinstance(node, ast.List):
        return tr_matrix(node, env, [])
    if isinstance(node, ast.BinOp) and isinstance(node.op, ast.Mult):
        l, r = node.left, node.right
        if (isinstance(l, ast.Call) and is_np_attr(l.func, "sqrt") and isinstance(r, ast.Call) and is_np_attr(r.func, "array")
                and len(r.args) == 1):
            return tr_matrix(r.args[0], env, [tr_expr(l.args[0], env)])
    raise Unparsed(f"Kraus operator not in grammar: {ast.dump(node)[:80]}")


def tr_kraus_helper(helper: ast.FunctionDef, call: ast.Call, env) -> list[str]:
    if call.keywords or len(call.args) != len(helper.args.args):
        raise Unparsed("helper call shape")
    henv = {}
    for a, arg in zip(helper.args.args, call.args):
        henv[a.arg] = tr_expr(arg, env)
    body = [s for s in helper.body if not (isinstance(s, ast.Expr) and isinstance(s.value, ast.Constant))]
    if len(body) != 1 or not isinstance(body[0], ast.Return) or not isinstance(body[0].value, ast.Tuple):
        raise Unparsed("helper must be a single `return (..)`")
    return [tr_kraus_op(e, henv) for e in body[0].value.elts]


def tr_thermal_helper(helper: ast.FunctionDef, src: str) -> dict:
    seg = ast.get_source_segment(src, helper) or ""
    calls = {n.func.attr for n in ast.walk(helper) if isinstance(n, ast.Call) and isinstance(n.func, ast.Attribute)}
    takes_real = bool(re.search(r"\.real\b|np\.real\(|astype\(\s*(float|np\.float64)", seg))
    out = {"uses_general_eig": ("eig" in calls and "eigh" not in calls and not takes_real), "decomposition": sorted(calls & {"eig", "eigh", "sqrtm", "cholesky", "svd"})}
    # the Choi matrix literal, over (a = p_reset, e = exp_t2, s = esp)
    arg_names = [a.arg for a in helper.args.args]
    if len(arg_names) != 4:
        raise Unparsed("thermal helper arity")
    env = {"p_reset": "(.par 0)", "exp_t2": "(.par 1)", arg_names[3]: "(.par 2)"}
    choi = None
    for s in helper.body:
        if isinstance(s, ast.Assign) and len(s.targets) == 1 and isinstance(s.targets[0], ast.Tuple) and isinstance(s.value, ast.Tuple):
            names = [t.id for t in s.targets[0].elts if isinstance(t, ast.Name)]
            if names == ["p0", "p1"]:
                env["p0"] = tr_expr(s.value.elts[0], env)
                env["p1"] = tr_expr(s.value.elts[1], env)
        tgt = None
        if isinstance(s, ast.AnnAssign) and isinstance(s.target, ast.Name):
            tgt, val = s.target.id, s.value
        elif isinstance(s, ast.Assign) and len(s.targets) == 1 and isinstance(s.targets[0], ast.Name):
            tgt, val = s.targets[0].id, s.value
        if tgt == "choi_matrix":
            if not (isinstance(val, ast.Call) and is_np_attr(val.func, "array") and isinstance(val.args[0], ast.List)):
                raise Unparsed("choi_matrix literal")
            rows = []
            for r in val.args[0].elts:
                rows.append("[" + ", ".join(tr_expr(e, env) for e in r.elts) + "]")
            choi = "[" + ", ".join(rows) + "]"
    if choi is None:
        raise Unparsed("choi_matrix not found")
    out["choi"] = choi
    # the normalised text of the relaxation-rate prelude (t == inf branches) and of the Kraus extraction
    out["prelude"] = [ast.unparse(s) for s in helper.body if isinstance(s, ast.If)]
    ret = [s for s in helper.body if isinstance(s, ast.Return)]
    out["extraction"] = ast.unparse(ret[0].value) if ret else ""
    return out


def tr_factory(tree, src, name) -> Factory:
    f = Factory(name)
    fn = func(tree, name)
    if fn is None:
        f.error = "factory not found"
        return f
    try:
        params = [a.arg for a in fn.args.args]
        arity = SCALAR[name][1]
        env = {p: f"(.par {i})" for i, p in enumerate(params[:arity])}
        if params[arity:arity + 2] != ["qubit_indices", "target_gates"]:
            raise Unparsed(f"signature {params}")
        helpers = {}
        seen_kraus = False
        for s in fn.body:
            if isinstance(s, ast.Expr) and isinstance(s.value, ast.Constant) and isinstance(s.value.value, str):
                continue
            if isinstance(s, ast.FunctionDef):
                helpers[s.name] = s
                continue
            if isinstance(s, ast.Expr) and isinstance(s.value, ast.Call) and isinstance(s.value.func, ast.Name) \
                    and s.value.func.id == "_check_valid_probability":
                f.guards.append(f".prob {tr_expr(s.value.args[0], env)}")
                if seen_kraus:
                    f.kraus_after_guards = False
                continue
            if isinstance(s, ast.If) and not s.orelse and raises_value_error(s.body):
                f.guards.append(f".raiseIf {tr_cond(s.test, env)}")
                if seen_kraus:
                    f.kraus_after_guards = False
                continue
            if isinstance(s, ast.Assign) and len(s.targets) == 1 and isinstance(s.targets[0], ast.Name) \
                    and isinstance(s.value, ast.Call) and isinstance(s.value.func, ast.Name) and s.value.func.id in helpers:
                seen_kraus = True
                h = helpers[s.value.func.id]
                if name == "ThermalRelaxationNoise":
                    f.thermal = tr_thermal_helper(h, src)
                    f.kraus = []
                else:
                    f.kraus = tr_kraus_helper(h, s.value, env)
                continue
            if isinstance(s, ast.Return):
                c = s.value
                if not (isinstance(c, ast.Call) and isinstance(c.func, ast.Name) and c.func.id == "GateNoiseInstruction"):
                    raise Unparsed("return is not GateNoiseInstruction(..)")
                kw = {k.arg: k.value for k in c.keywords}
                f.ret_name = kw["name"].value if isinstance(kw.get("name"), ast.Constant) else None
                f.ret_qubit_count = kw["qubit_count"].value if isinstance(kw.get("qubit_count"), ast.Constant) else None
                ps = kw.get("params")
                if isinstance(ps, ast.Tuple) and all(isinstance(e, ast.Name) and e.id in params for e in ps.elts):
                    f.ret_params = [params.index(e.id) for e in ps.elts]
                continue
            raise Unparsed(f"statement not in grammar: {ast.unparse(s)[:70]}")
        if f.ret_name is None:
            raise Unparsed("no return")
    except Unparsed as e:
        f.error = str(e)
    except Exception as e:  # noqa: BLE001 – anything the reader cannot handle is an unparsed entry, never a crash
        f.error = f"{type(e).__name__}: {e}"
    return f


def tr_prob_check(tree):
    fn = func(tree, "_check_valid_probability")
    if fn is None:
        raise Unparsed("_check_valid_probability not found")
    body = [s for s in fn.body if not (isinstance(s, ast.Expr) and isinstance(s.value, ast.Constant))]
    if len(body) != 1 or not isinstance(body[0], ast.If) or body[0].orelse or not raises_value_error(body[0].body):
        raise Unparsed("_check_valid_probability body shape")
    x = fn.args.args[0].arg
    cond = tr_cond(body[0].test, {x: "(.par 0)"})
    # does the condition reject NaN?  evaluate the real condition text on float('nan')
    code = compile(ast.Expression(body[0].test), "<probcheck>", "eval")
    rejects_nan = bool(eval(code, {"__builtins__": {}}, {x: float("nan")}))  # noqa: S307 – comparison expression only (grammar-checked above)
    return cond, rejects_nan


# ---------------------------------------------------------------------------
# list factories: the ordered sequence of rejecting conditions / helper calls (normalised text)
# ---------------------------------------------------------------------------
def steps_of(fn: ast.FunctionDef) -> list[str]:
    out = []
    for s in fn.body:
        if isinstance(s, ast.Expr) and isinstance(s.value, ast.Constant):
            continue
        if isinstance(s, ast.FunctionDef):
            out.append(f"def {s.name}: " + " ;; ".join(steps_of(s)))
            continue
        if isinstance(s, ast.If) and raises_value_error(s.body) and not s.orelse:
            out.append("raise-if " + ast.unparse(s.test))
            continue
        if isinstance(s, ast.If):
            out.append("if " + ast.unparse(s.test) + ": " + " ;; ".join(ast.unparse(x) for x in s.body))
            continue
        if isinstance(s, ast.For):
            out.append("for " + ast.unparse(s.target) + " in " + ast.unparse(s.iter) + ": " + " ;; ".join(ast.unparse(x) for x in s.body))
            continue
        out.append(re.sub(r"\s+", " ", ast.unparse(s)))
    return out


EXPECTED_STEPS = {
    "_check_valid_qubit_indices": [
        "raise-if qubit_indices and qubit_count > 1 and (qubit_count != len(qubit_indices))",
    ],
    "_is_aligned_square_matrices": [
        "ss: npt.NDArray[np.int64] = np.array([np.array(x).shape for x in xss])",
        "return ss[0, 0] >= 2 and ss[0, 0] == ss[0, 1] and cast(bool, np.all(ss == ss[0]))",
    ],
    "PauliNoise": [
        "def _get_qubit_count: raise-if np.setdiff1d(pauli_list, np.arange(4)).size > 0 ;; ls: 'npt.NDArray[np.int_]' = np.array([len(x) for x in pauli_list]) ;; raise-if not np.all(ls == ls[0]) ;; return cast(int, ls[0])",
        "raise-if not pauli_list",
        "raise-if not prob_list",
        "raise-if len(pauli_list) != len(prob_list)",
        "for (i, prob) in enumerate(prob_list): _check_valid_probability(prob, f'prob_list[{i}]')",
        "raise-if sum(prob_list) - 1.0 > eq_tolerance",
        "qubit_count = _get_qubit_count(tuple(pauli_list))",
        "_check_valid_qubit_indices(qubit_count, qubit_indices)",
        "return GateNoiseInstruction(name=name, qubit_count=qubit_count, params=(), qubit_indices=tuple(qubit_indices), target_gates=tuple(target_gates), pauli_list=tuple(pauli_list), prob_list=tuple(prob_list))",
    ],
    "GeneralDepolarizingNoise": [
        "raise-if not qubit_count > 0",
        "_check_valid_probability(error_prob, 'error_prob')",
        "_check_valid_qubit_indices(qubit_count, qubit_indices)",
        "term_counts = 4 ** qubit_count",
        "prob_identity = 1.0 - error_prob",
        "prob_pauli = error_prob / (term_counts - 1)",
        "prob_list = [prob_identity] + (term_counts - 1) * [prob_pauli]",
        "pauli_list = tuple(it.product([0, 1, 2, 3], repeat=qubit_count))",
        "return PauliNoise(pauli_list=pauli_list, prob_list=prob_list, qubit_indices=tuple(qubit_indices), target_gates=tuple(target_gates), name='GeneralDepolarizingNoise')",
    ],
    "ProbabilisticNoise": [
        "def _get_prob_and_matrix: pl = list(prob_list) ;; dl = list(gate_matrices) ;; sum_prob = sum(prob_list) ;; if sum_prob < 1.0: dl.append(np.identity(2 ** qubit_count).tolist()) ;; pl.append(1.0 - sum_prob) ;; return (tuple(pl), tuple(dl))",
        "def _get_qubit_count: message = 'Each gate matrix must be a 2^n by 2^n matrix, where n is the number of qubits.' ;; raise-if not _is_aligned_square_matrices(gate_matrices) ;; qubit_count = np.log2(len(gate_matrices[0])) ;; raise-if not qubit_count.is_integer() ;; return int(qubit_count)",
        "raise-if not gate_matrices",
        "raise-if not prob_list",
        "raise-if len(gate_matrices) != len(prob_list)",
        "for (i, prob) in enumerate(prob_list): _check_valid_probability(prob, f'prob_list[{i}]')",
        "raise-if sum(prob_list) - 1.0 > eq_tolerance",
        "qubit_count = _get_qubit_count(gate_matrices)",
        "(_prob_list, _gate_matrices) = _get_prob_and_matrix(qubit_count, prob_list, gate_matrices)",
        "_check_valid_qubit_indices(qubit_count, qubit_indices)",
        "return GateNoiseInstruction(name='ProbabilisticNoise', qubit_count=qubit_count, params=(), qubit_indices=tuple(qubit_indices), target_gates=tuple(target_gates), prob_list=_prob_list, gate_matrices=_gate_matrices)",
    ],
    "KrausNoise": [
        "def _get_qubit_count: message = 'Each Kraus operator must be a 2^n by 2^n matrix, where n is the number of qubits.' ;; raise-if not _is_aligned_square_matrices(kraus_list) ;; qubit_count = np.log2(len(kraus_list[0])) ;; raise-if not qubit_count.is_integer() ;; return int(qubit_count)",
        "raise-if not kraus_list",
        "qubit_count = _get_qubit_count(kraus_list)",
        "_check_valid_qubit_indices(qubit_count, qubit_indices)",
        "return GateNoiseInstruction(name='KrausNoise', qubit_count=qubit_count, params=(), qubit_indices=tuple(qubit_indices), target_gates=tuple(target_gates), kraus_operators=kraus_list)",
    ],
}

EXPECTED_THERMAL_PRELUDE = [
    "if t1 == np.inf:\n    (rate1, p_reset) = (0.0, 0.0)\nelse:\n    rate1 = 1.0 / t1\n    p_reset = 1.0 - np.exp(-gate_time * rate1)",
    "if t2 == np.inf:\n    (rate2, exp_t2) = (0.0, 1.0)\nelse:\n    rate2 = 1.0 / t2\n    exp_t2 = np.exp(-gate_time * rate2)",
]
EXPECTED_THERMAL_EXTRACTION = (
    "(np.transpose(res[:, 0].reshape(2, 2)).tolist(), np.transpose(res[:, 1].reshape(2, 2)).tolist(), "
    "np.transpose(res[:, 2].reshape(2, 2)).tolist(), np.transpose(res[:, 3].reshape(2, 2)).tolist())"
)

# Rust: convert_add_noise arms, expected (name -> (converter, explicit Qulacs gate name or None))
EXPECTED_ARMS = {
    "BitFlipNoise": ("single", "BitFlipNoise"), "DepolarizingNoise": ("single", "DepolarizingNoise"),
    "PhaseFlipNoise": ("single", "DephasingNoise"), "BitPhaseFlipNoise": ("single", "IndependentXZNoise"),
    "PauliNoise": ("pauli", None), "GeneralDepolarizingNoise": ("pauli", None), "ProbabilisticNoise": ("probabilistic", None),
    "KrausNoise": ("kraus", None), "ResetNoise": ("kraus", None), "PhaseDampingNoise": ("kraus", None),
    "AmplitudeDampingNoise": ("kraus", None), "PhaseAmplitudeDampingNoise": ("kraus", None), "ThermalRelaxationNoise": ("kraus", None),
}


def rust_facts() -> dict:
    out = {}
    src = common.read_repo(RS_INSTR)
    m = re.search(r"pub struct GateNoiseInstruction\s*\{(.*?)\n\}", src, re.S)
    fields = dict(re.findall(r"pub\s+(\w+)\s*:\s*([^,\n]+),", m.group(1))) if m else {}
    out["fields"] = fields
    out["kraus_field_real"] = fields.get("kraus_operators", "").replace(" ", "") == "Vec<Vec<Vec<f64>>>"
    out["params_field_real"] = fields.get("params", "").replace(" ", "") == "Vec<f64>"
    out["prob_field_real"] = fields.get("prob_list", "").replace(" ", "") == "Vec<f64>"
    q = common.read_repo(RS_QULACS)
    m = re.search(r"fn convert_add_noise.*?match noise\.name\.as_str\(\)\s*\{(.*?)\n    \}\n", q, re.S)
    arms = {}
    if m:
        body = m.group(1)
        for am in re.finditer(r"((?:name @ \()?(?:\s*\|?\s*\"[A-Za-z]+\")+\)?)\s*=>\s*\{(.*?)\n        \}", body, re.S):
            names = re.findall(r"\"([A-Za-z]+)\"", am.group(1))
            blk = am.group(2)
            conv = re.search(r"convert_add_(\w+?)_noise", blk)
            kind = conv.group(1) if conv else "?"
            kind = {"single_param": "single"}.get(kind, kind)
            lit = re.findall(r"\"([A-Za-z]+)\"", blk)
            for nm in names:
                arms[nm] = (kind, (lit[0] if lit else nm) if kind == "single" else None)
    out["arms"] = arms
    pm = re.search(r"fn convert_add_pauli_noise.*?\n\}\n", q, re.S)
    ptxt = pm.group(0) if pm else ""
    out["pauli_uses_filter_indices"] = bool(re.search(r"pauli_noise\.qubit_indices\.clone\(\)", ptxt)) and not re.search(r"[^_]qubits\.clone\(\)", ptxt)
    out["kraus_uses_gate_qubits"] = bool(re.search(r"fn convert_add_kraus_noise.*?make_dense_matrix\(py, qubits\.clone\(\)", q, re.S))
    return out


def exports_ok() -> list[str]:
    """every factory is exported by noise/__init__.py; the qulacs package re-exports the Rust converter"""
    problems = []
    init = ast.parse(common.read_repo(PY_INIT))
    names = set()
    for n in init.body:
        if isinstance(n, ast.ImportFrom) and n.module == "noise_instruction":
            names |= {a.name for a in n.names}
    for f in ALL_FACTORIES + ["MeasurementNoise"]:
        if f not in names:
            problems.append(f"{f} not imported in noise/__init__.py")
    qsrc = common.read_repo(PY_QULACS)
    if "from quri_parts.rust.qulacs import convert_circuit_with_noise_model" not in qsrc:
        problems.append("qulacs noise package no longer re-exports the Rust converter")
    return problems


# ---------------------------------------------------------------------------
def _norm(s: str) -> str:
    """`ast.unparse` parenthesises tuples differently across Python versions"""
    return re.sub(r"[()\s]", "", s)


def lean_str_list(xs):
    return "[" + ", ".join('"' + x.replace("\\", "\\\\").replace('"', '\\"').replace("\n", "\\n") + '"' for x in xs) + "]"


def generate():
    """-> (data_text, obl_text, info)"""
    tree, src = parse_module()
    info: dict = {"factories": {}, "unparsed": [], "defect_forms": [], "entries": 0}
    D = ["-- GENERATED by /verif/translate/c17gen.py from the working tree; do not edit.",
         "import QuriVerif.Model.C17", "namespace QV.Gen.C17", "open QV.C17", ""]
    O = ["-- GENERATED by /verif/translate/c17gen.py from the working tree; do not edit.",
         "import QuriVerif.Proof.C17", "import QuriVerif.Generated.C17Data",
         "set_option linter.unusedSimpArgs false", "set_option linter.unusedSectionVars false",
         "set_option linter.unnecessarySeqFocus false", "set_option linter.unusedVariables false",
         "namespace QV.Gen.C17", "open QV.C17", ""]
    # --- _check_valid_probability
    try:
        pc, rejects_nan = tr_prob_check(tree)
        pc_ok = True
    except Unparsed as e:
        pc, rejects_nan, pc_ok = "specProbCheck", False, False
        info["unparsed"].append(f"_check_valid_probability: {e}")
    D.append(f"@[simp] def probCheck : BExpr := {pc}")
    D.append(f"def probCheckRejectsNaN : Bool := {'true' if rejects_nan else 'false'}")
    info["prob_check_rejects_nan"] = rejects_nan
    info["entries"] += 1
    if pc_ok:
        O += ["/-- the translated `_check_valid_probability` raises exactly outside [0,1] (non-NaN arguments) -/",
              "theorem probCheck_ok (A : Arith) (x : XR) (h : x.isNaN = false) : probCheck.eval A [x] = !x.isProb := by",
              "  cases x <;> simp_all [probCheck, BExpr.eval, Expr.eval, XR.lt, XR.le, XR.isProb, XR.isNaN] <;> grind",
              f"theorem probCheck_nan : probCheck.eval exact [.nan] = {'true' if rejects_nan else 'false'} := by decide +kernel", ""]
    else:
        O += ["theorem probCheck_ok : False := by decide  -- UNPARSED _check_valid_probability", ""]
    # --- scalar factories
    facs = {}
    for name, (kind, arity) in SCALAR.items():
        f = tr_factory(tree, src, name)
        facs[name] = f
        info["entries"] += 1
        xs = [f"x{i}" for i in range(arity)]
        info["factories"][name] = {"guards": f.guards, "error": f.error, "n_kraus": len(f.kraus or [])}
        if f.error:
            info["unparsed"].append(f"{name}: {f.error}")
            D.append(f"-- UNPARSED {name}: {f.error}")
            D.append(f"@[simp] def guards_{kind} : List Guard := specGuards .{kind}")
            D.append(f"@[simp] def kraus_{kind} : List KMat := specKraus .{kind}")
            O.append(f"theorem parsed_{kind} : False := by decide  -- UNPARSED {name}: {f.error}")
            continue
        D.append(f"@[simp] def guards_{kind} : List Guard := [{', '.join(f.guards)}]")
        D.append(f"@[simp] def kraus_{kind} : List KMat := [{', '.join(f.kraus or [])}]")
        # return statement
        ret_ok = (f.ret_name == name and f.ret_qubit_count == 1 and f.ret_params == list(range(arity)) and f.kraus_after_guards)
        O.append(f"theorem return_{kind} : ({'true' if ret_ok else 'false'} : Bool) = true := by decide"
                 f"  -- name={f.ret_name!r} qubit_count={f.ret_qubit_count} params={f.ret_params} kraus_after_validation={f.kraus_after_guards}")
        # rejects_iff
        nan_h = " ".join(f"(h{i} : x{i}.isNaN = false)" for i in range(arity))
        xl = ", ".join(xs)
        cases = " <;> ".join(f"cases x{i}" for i in range(arity))
        hs = ", ".join(f"h{i}" for i in range(arity))
        if True:
            O += [f"/-- `{name}`: validation prefix = documented range (NaN-free arguments, exact arithmetic) -/",
                  f"theorem rejects_iff_{kind} ({' '.join(xs)} : XR) {nan_h} :",
                  f"    accepts exact probCheck guards_{kind} [{xl}] = Kind.inRange .{kind} [{xl}] := by",
                  f"  simp only [guards_{kind}, accepts_cons, accepts_nil, Guard.fails, Expr.eval, List.getD_cons_zero, List.getD_cons_succ,",
                  f"    probCheck_ok, {hs}, BExpr.eval]",
                  f"  {cases} <;> simp_all [XR.isProb, Kind.inRange, XR.isNaN, XR.add, XR.sub, XR.neg, XR.lt, XR.le, XR.mul, XR.mulInf, XR.isPosTime] <;> grind"]
        # completeness
        if name in TEMPLATED:
            ps = ", ".join(f"a{i}" for i in range(arity))
            fins = ", ".join(f".fin a{i}" for i in range(arity))
            O += [f"/-- `{name}`: the translated Kraus operators are complete on the documented range, in every SqrtRing -/",
                  f"theorem complete_{kind} {{R : Type}} [CommRing R] (S : SqrtRing R) ({' '.join(f'a{i}' for i in range(arity))} : Rat)",
                  f"    (h : Kind.inRange .{kind} [{fins}] = true) :",
                  f"    completeQ (kraus_{kind}.map (KMat.value exact [{fins}])) = true ∧ Complete S (kraus_{kind}.map (KMat.value exact [{fins}])) := by",
                  "  simp only [Kind.inRange, XR.isProb, Bool.and_eq_true, decide_eq_true_eq] at h",
                  f"  exact complete_of_tplGram S exact [{ps}] kraus_{kind} (by c17_finite) (by c17_rads) (by c17_gram)"]
        O.append("")
    # --- thermal
    th = facs["ThermalRelaxationNoise"].thermal if not facs["ThermalRelaxationNoise"].error else {}
    rf = rust_facts()
    info["rust"] = {k: v for k, v in rf.items() if k != "fields"}
    info["thermal"] = {k: v for k, v in th.items() if k != "choi"}
    D.append(f"def thermalUsesGeneralEig : Bool := {'true' if th.get('uses_general_eig') else 'false'}")
    D.append(f"def krausFieldReal : Bool := {'true' if rf['kraus_field_real'] else 'false'}")
    D.append(f"def thermalChoiExpr : List (List Expr) := {th.get('choi', '[]')}")
    D.append(f"def pauliConvUsesFilterIndices : Bool := {'true' if rf['pauli_uses_filter_indices'] else 'false'}")
    info["entries"] += 3
    if th:
        pre_ok = ([_norm(x) for x in th["prelude"]] == [_norm(x) for x in EXPECTED_THERMAL_PRELUDE]
                  and _norm(th["extraction"]) == _norm(EXPECTED_THERMAL_EXTRACTION))
        info["thermal"]["prelude_ok"] = pre_ok
        O += ["/-- the Choi matrix literal of the source is the matrix `thermalChoi` of the model (a = p_reset, e = exp_t2, s = population) -/",
              "theorem thermalChoi_matches (a e s : Rat) :",
              "    thermalChoiExpr.map (fun r => r.map (·.evalQ exact [a, e, s])) = thermalChoi a e s := by",
              "  simp [thermalChoiExpr, thermalChoi, Expr.evalQ] <;> (try constructor) <;> (try ring_nf) <;> (try simp) <;> ring_nf",
              f"theorem thermal_prelude_and_extraction : ({'true' if pre_ok else 'false'} : Bool) = true := by decide"
              "  -- the `t == inf` branches defining p_reset / exp_t2 and the column-reshape Kraus extraction are the expected text",
              ""]
    # --- Rust
    arms_ok = rf["arms"] == EXPECTED_ARMS
    info["rust"]["arms_ok"] = arms_ok
    O += [f"theorem rust_field_types : ({'true' if rf['params_field_real'] and rf['prob_field_real'] else 'false'} : Bool) = true := by decide"
          "  -- params / prob_list are Vec<f64>",
          f"theorem rust_qulacs_name_table : ({'true' if arms_ok else 'false'} : Bool) = true := by decide"
          f"  -- convert_add_noise arms = expected table ({len(rf['arms'])} names)",
          f"theorem rust_kraus_on_gate_qubits : ({'true' if rf['kraus_uses_gate_qubits'] else 'false'} : Bool) = true := by decide", ""]
    info["entries"] += len(rf["arms"])
    if rf["pauli_uses_filter_indices"]:
        info["defect_forms"].append("PauliNoise.convert-uses-filter-indices")
    # --- list factories and helpers: ordered step text
    for nm, exp in EXPECTED_STEPS.items():
        fn = func(tree, nm)
        got = steps_of(fn) if fn is not None else ["<missing>"]
        same = [_norm(x) for x in got] == [_norm(x) for x in exp]
        info["entries"] += 1
        info["factories"].setdefault(nm, {})["steps_ok"] = same
        if not same:
            diff = [f"{i}: {g!r} != {e!r}" for i, (g, e) in enumerate(zip(got + [""] * 20, exp + [""] * 20)) if g != e][:2]
            info["unparsed"].append(f"{nm}: steps differ {diff}")
        ident = nm.strip("_")
        O.append(f"theorem steps_{ident} : ({'true' if same else 'false'} : Bool) = true := by decide"
                 f"  -- ordered validation / construction steps of {nm} are the ones the model transcribes")
    # --- entry-count cross check: every public *Noise factory of the module is covered
    public = [n.name for n in tree.body if isinstance(n, ast.FunctionDef) and n.name.endswith("Noise")]
    missing = [n for n in public if n not in ALL_FACTORIES]
    absent = [n for n in ALL_FACTORIES if n not in public]
    probs = exports_ok()
    info["public_factories"] = public
    cov = not missing and not absent and not probs
    O.append(f"theorem factory_coverage : ({'true' if cov else 'false'} : Bool) = true := by decide"
             f"  -- uncovered={missing} absent={absent} export-problems={probs}")
    D += ["", "end QV.Gen.C17", ""]
    O += ["", "end QV.Gen.C17", ""]
    return "\n".join(D), "\n".join(O), info
