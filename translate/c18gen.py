"""C18 shape translator: reads the *source text* of qubit_remapping.py and qubit_mapping.py with `ast`
(never imports them) and emits `QuriVerif/Generated/C18Shape.lean`: one `Shape` value describing which of the
catalogued forms each small function has, plus the kernel-checked obligation that the shape is one the model
(Model/C18.lean) and the theorems (Props/C18.lean) are about.  A function that does not match any catalogued
form yields `false`/`"?"` fields, hence a failing obligation (never a silent skip)."""
from __future__ import annotations

import ast
import os

REPO = os.environ.get("VERIF_REPO", "/repo")
F_REMAP = "packages/circuit/quri_parts/circuit/transpile/qubit_remapping.py"
F_MAP = "packages/core/quri_parts/backend/qubit_mapping.py"


def _parse(rel):
    with open(os.path.join(REPO, rel)) as f:
        return ast.parse(f.read())


def _func(tree, name, cls=None):
    scope = tree.body
    if cls is not None:
        for n in tree.body:
            if isinstance(n, ast.ClassDef) and n.name == cls:
                scope = n.body
                break
        else:
            return None
    for n in scope:
        if isinstance(n, (ast.FunctionDef,)) and n.name == name:
            return n
    return None


def _body(fn):
    """statements without the docstring"""
    b = list(fn.body)
    if b and isinstance(b[0], ast.Expr) and isinstance(getattr(b[0], "value", None), ast.Constant) and isinstance(b[0].value.value, str):
        b = b[1:]
    return b


def u(n):
    return ast.unparse(n).replace(" ", "")


def shape_create_reverse_map(tree, notes):
    fn = _func(tree, "_create_reverse_map")
    try:
        (ret,) = _body(fn)
        dc = ret.value
        assert isinstance(dc, ast.DictComp) and len(dc.generators) == 1
        g = dc.generators[0]
        assert not g.ifs and u(g.iter) == f"{fn.args.args[0].arg}.items()"
        k, v = (e.id for e in g.target.elts)
        return u(dc.key) == f"1<<{v}", u(dc.value) == f"1<<{k}"
    except Exception as e:  # noqa: BLE001
        notes.append(f"_create_reverse_map: unrecognised form ({type(e).__name__})")
        return False, False


def shape_reverse_map_bits(tree, notes):
    fn = _func(tree, "_reverse_map_bits")
    try:
        x, rm = (a.arg for a in fn.args.args)
        init, loop, ret = _body(fn)
        res = init.targets[0].id
        assert u(init.value) == "0" and u(ret.value) == res
        assert isinstance(loop, ast.For) and u(loop.iter) == f"{rm}.items()" and not loop.orelse
        mb, ob = (e.id for e in loop.target.elts)
        (cond,) = loop.body
        assert isinstance(cond, ast.If) and not cond.orelse and len(cond.body) == 1
        test_ok = u(cond.test) in (f"{x}&{mb}!=0", f"({x}&{mb})!=0", f"{mb}&{x}!=0", f"({mb}&{x})!=0")
        st = cond.body[0]
        op = "?"
        if isinstance(st, ast.AugAssign) and u(st.target) == res and u(st.value) == ob:
            op = {ast.Add: "add", ast.BitOr: "or", ast.BitXor: "xor", ast.Sub: "sub"}.get(type(st.op), "?")
        return op, test_ok
    except Exception as e:  # noqa: BLE001
        notes.append(f"_reverse_map_bits: unrecognised form ({type(e).__name__})")
        return "?", False


def shape_reverse_map_counts(tree, notes):
    fn = _func(tree, "_reverse_map_counts")
    try:
        m, rm = (a.arg for a in fn.args.args)
        init, loop, ret = _body(fn)
        d = init.target.id if isinstance(init, ast.AnnAssign) else init.targets[0].id
        assert u(init.value) in ("{}", "dict()") and u(ret.value) == d
        assert isinstance(loop, ast.For) and u(loop.iter) == f"{m}.items()" and not loop.orelse
        b, cnt = (e.id for e in loop.target.elts)
        s1, s2 = loop.body
        rb = s1.targets[0].id
        assert u(s1.value) == f"_reverse_map_bits({b},{rm})"
        assert u(s2.targets[0]) == f"{d}[{rb}]"
        return u(s2.value) in (f"{d}.get({rb},0)+{cnt}", f"{cnt}+{d}.get({rb},0)")
    except Exception as e:  # noqa: BLE001
        notes.append(f"_reverse_map_counts: unrecognised form ({type(e).__name__})")
        return False


def shape_wrappers(tree, notes):
    want = {
        ("BackendQubitMapping", "circuit_transpiler"): "returnQubitRemappingTranspiler(self.mapping)",
        ("BackendQubitMapping", "_reverse_bit_map"): "return_create_reverse_map(self.mapping)",
        ("BackendQubitMapping", "unmap_sampling_counts"): "return_reverse_map_counts(m,self._reverse_bit_map)",
        ("QubitMappedSamplingResult", "counts"): "returnself.qubit_mapping.unmap_sampling_counts(self.sampling_result.counts)",
        ("QubitMappedSamplingJob", "result"): "returnQubitMappedSamplingResult(self.sampling_job.result(),self.qubit_mapping)",
    }
    ok = True
    for (cls, name), src in want.items():
        fn = _func(tree, name, cls)
        try:
            (st,) = _body(fn)
            if u(st) != src:
                ok = False
                notes.append(f"{cls}.{name}: body is `{ast.unparse(st)}`")
        except Exception as e:  # noqa: BLE001
            ok = False
            notes.append(f"{cls}.{name}: unrecognised form ({type(e).__name__})")
    return ok


def shape_transpiler(tree, notes):
    out = {"dup": False, "width": False, "cbit": "?", "ctrl": "?", "targ": "?", "args": [], "keyerr": False}
    init = _func(tree, "__init__", "QubitRemappingTranspiler")
    call = _func(tree, "__call__", "QubitRemappingTranspiler")
    try:
        qm = init.args.args[1].arg
        chk, a1, a2 = _body(init)
        assert isinstance(chk, ast.If) and not chk.orelse
        out["dup"] = (u(chk.test) in (f"len({qm})!=len(set({qm}.values()))", f"len(set({qm}.values()))!=len({qm})")
                      and isinstance(chk.body[0], ast.Raise) and u(chk.body[0].exc).startswith("ValueError("))
        assigns = {u(a.targets[0]): u(a.value) for a in (a1, a2)}
        assert assigns.get("self._qubit_mapping") == qm
        mx_ok = assigns.get("self._max_index") == f"max({qm}.values())"
    except Exception as e:  # noqa: BLE001
        notes.append(f"QubitRemappingTranspiler.__init__: unrecognised form ({type(e).__name__})")
        mx_ok = False
    try:
        circ = call.args.args[1].arg
        mk, al, tr, ret = _body(call)
        t = u(mk.targets[0])
        assert u(ret.value) == t and u(al.value) == "self._qubit_mapping"
        qmv = u(al.targets[0])
        args = [u(a) for a in mk.value.args]
        assert u(mk.value.func) == "QuantumCircuit" and not mk.value.keywords
        out["width"] = mx_ok and args[:1] == ["self._max_index+1"]
        out["cbit"] = "dropped" if len(args) == 1 else ("kept" if args[1:] == [f"{circ}.cbit_count"] else "?")
        assert isinstance(tr, ast.Try) and len(tr.handlers) == 1 and not tr.orelse and not tr.finalbody
        h = tr.handlers[0]
        out["keyerr"] = (u(h.type) == "KeyError" and len(h.body) == 1 and isinstance(h.body[0], ast.Raise)
                         and u(h.body[0].exc).startswith("ValueError("))
        (loop,) = tr.body
        assert isinstance(loop, ast.For) and u(loop.iter) == f"{circ}.gates"
        gv = loop.target.id
        names = {}
        for st in loop.body[:-1]:
            names[st.targets[0].id] = u(st.value)
        add = loop.body[-1]
        gvar = [k for k, v in names.items() if v.startswith("QuantumGate(")]
        assert u(add) == f"{t}.add_gate({gvar[0]})"
        for st in loop.body[:-1]:
            if st.targets[0].id == gvar[0]:
                gargs = [u(a) for a in st.value.args]
                assert not st.value.keywords
        def origin(var):
            src = names.get(var, "")
            for f in ("control_indices", "target_indices"):
                if src == f"tuple(({qmv}[index]forindexin{gv}.{f}))" or src == f"tuple({qmv}[index]forindexin{gv}.{f})":
                    return f
            return "?"
        out["args"] = [a.replace(gv + ".", "") if a.startswith(gv + ".") else origin(a) + "*" for a in gargs]
    except Exception as e:  # noqa: BLE001
        notes.append(f"QubitRemappingTranspiler.__call__: unrecognised form ({type(e).__name__}: {e})")
    return out


def generate():
    notes: list[str] = []
    tm = _parse(F_MAP)
    tr = _parse(F_REMAP)
    key_v, val_k = shape_create_reverse_map(tm, notes)
    op, test_ok = shape_reverse_map_bits(tm, notes)
    acc = shape_reverse_map_counts(tm, notes)
    wr = shape_wrappers(tm, notes)
    t = shape_transpiler(tr, notes)
    b = lambda x: "true" if x else "false"
    args = ", ".join('"' + a + '"' for a in t["args"])
    txt = f"""import QuriVerif.Model.C18
/- GENERATED by translate/c18gen.py from
     {F_MAP}
     {F_REMAP}
   — do not edit. -/
namespace QV.Gen.C18
open QV.C18

def shape : Shape :=
  {{ revKeyIsShiftOfValue := {b(key_v)}
    revValIsShiftOfKey := {b(val_k)}
    accOp := "{op}"
    testsMaskNonzero := {b(test_ok)}
    countsAccumulate := {b(acc)}
    wrappersDelegate := {b(wr)}
    rejectsDuplicateValues := {b(t['dup'])}
    widthIsMaxPlusOne := {b(t['width'])}
    cbitCount := "{t['cbit']}"
    keyErrorBecomesValueError := {b(t['keyerr'])}
    gateArgs := [{args}] }}

/-- the working tree's functions have the forms Model/C18.lean transcribes -/
theorem shape_supported : shape.supported = true := by decide

end QV.Gen.C18
"""
    return txt, 11, notes
