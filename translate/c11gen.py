"""C11 translator: census of the `execute_concurrently` call sites in the anchored files, read from
the working tree's *source text* (ast).  For each call site: enclosing function, worker
expression, whether the worker is a nested function (hence not picklable by a process pool),
the shape of the worker body.  Nothing is imported from /repo."""
from __future__ import annotations

import ast
import os

ANCHORS = [
    "packages/core/quri_parts/core/utils/concurrent.py",
    "packages/qulacs/quri_parts/qulacs/estimator.py",
    "packages/qulacs/quri_parts/qulacs/sampler.py",
    "packages/qulacs/quri_parts/qulacs/simulator.py",
    "packages/qulacs/quri_parts/qulacs/overlap_estimator.py",
    "packages/stim/quri_parts/stim/estimator/__init__.py",
]


class _Visitor(ast.NodeVisitor):
    def __init__(self):
        self.stack = []
        self.sites = []
        self.defs = {}  # qualname -> (node, depth)

    def visit_FunctionDef(self, node):
        self.stack.append(node.name)
        qual = ".".join(self.stack)
        self.defs[qual] = (node, len(self.stack))
        self.generic_visit(node)
        self.stack.pop()

    visit_AsyncFunctionDef = visit_FunctionDef

    def visit_ClassDef(self, node):
        self.stack.append(node.name)
        self.generic_visit(node)
        self.stack.pop()

    def visit_Call(self, node):
        f = node.func
        name = f.id if isinstance(f, ast.Name) else (f.attr if isinstance(f, ast.Attribute) else None)
        if name == "execute_concurrently":
            self.sites.append(
                {
                    "function": ".".join(self.stack),
                    "lineno": node.lineno,
                    "end_lineno": node.end_lineno,
                    "worker": ast.unparse(node.args[0]) if node.args else "?",
                    "common": ast.unparse(node.args[1]) if len(node.args) > 1 else "?",
                    "n_args": len(node.args) + len(node.keywords),
                }
            )
        self.generic_visit(node)


def _shape(fn: ast.FunctionDef) -> str:
    """'listcomp' (return [f(x) for x in <2nd arg>]), 'loop' (for x in <2nd arg>: ...append),
    or 'other' — informational; the homomorphism itself is checked dynamically"""
    args = [a.arg for a in fn.args.args]
    if len(args) < 2:
        return "other"
    seq = args[1]
    body = [s for s in fn.body if not (isinstance(s, ast.Expr) and isinstance(s.value, ast.Constant))]
    last = body[-1] if body else None
    if isinstance(last, ast.Return) and isinstance(last.value, ast.ListComp):
        gen = last.value.generators
        if len(gen) == 1 and isinstance(gen[0].iter, ast.Name) and gen[0].iter.id == seq:
            return "listcomp"
    for s in body:
        if isinstance(s, ast.For) and isinstance(s.iter, ast.Name) and s.iter.id == seq:
            return "loop"
    return "other"


def census(read_repo):
    """-> (sites, workers): sites = call sites in the anchored files (execute_concurrently's own
    definition file has none); workers = {qualname: {"nested": bool, "shape": str}} for every
    function whose second parameter is iterated and that is passed as a worker somewhere"""
    sites, workers = [], {}
    for rel in ANCHORS:
        try:
            src = read_repo(rel)
        except OSError:
            continue
        tree = ast.parse(src)
        v = _Visitor()
        v.visit(tree)
        for s in v.sites:
            s["file"] = rel
            sites.append(s)
        for qual, (node, depth) in v.defs.items():
            sh = _shape(node)
            if sh != "other":
                workers[f"{os.path.basename(os.path.dirname(rel)) if rel.endswith('__init__.py') else os.path.basename(rel)[:-3]}:{qual}"] = {
                    "nested": depth > 1,
                    "shape": sh,
                    "file": rel,
                    "qualname": qual,
                }
    return sites, workers
