"""T-dynamic translator for C15 (DESIGN §4.1 `ansatz_extract.py`): builds the REAL ansatz objects of the working
tree (the overlay must be active), reads the data a LinearMappedParametricQuantumCircuit already holds exactly –
(gate kind, wires, affine angle function over the circuit's Parameters) – and cuts every gate list into minimal
weight-conserving windows (blocks).  The segmentation is guided by a numerical test only; every distinct block, in
canonical form, becomes a Lean obligation that is checked symbolically for all parameter values."""
from __future__ import annotations

import math
from fractions import Fraction
from math import lcm

import numpy as np


def ansatz_catalogue(tier: str):
    """(name, builder, promise) – promise ⊆ {"N", "Sz", "parity", "real"}"""
    from quri_parts.algo.ansatz import SymmetryPreserving, SymmetryPreservingReal, Z2SymmetryPreservingReal
    from quri_parts.chem.ansatz import AllSinglesDoubles, GateFabric, ParticleConservingU1, ParticleConservingU2

    out = []
    big = tier != "quick"
    for n in (2, 3, 4, 5) + ((6,) if big else ()):
        for reps in (1, 2):
            out.append((f"SymmetryPreserving({n},{reps})", lambda n=n, r=reps: SymmetryPreserving(n, r), {"N"}))
            out.append((f"SymmetryPreservingReal({n},{reps})", lambda n=n, r=reps: SymmetryPreservingReal(n, r), {"N", "real"}))
            out.append((f"Z2SymmetryPreservingReal({n},{reps})", lambda n=n, r=reps: Z2SymmetryPreservingReal(n, r), {"parity", "real"}))
    # explicit entangler maps ("all entangler maps"): the library's CIRCULAR / FULL patterns (CIRCULAR has the descending
    # wrap-around pair (n-1, 0)) and hand-written maps with descending and repeated pairs
    from quri_parts.algo.ansatz.two_local import EntanglementPatternType, build_entangler_map

    for n in (3, 4) + ((5,) if big else ()):
        maps = {
            "circular": build_entangler_map(n, [EntanglementPatternType.CIRCULAR]),
            "full": build_entangler_map(n, [EntanglementPatternType.FULL]),
            "descending": [[(n - 1, n - 2), (1, 0)]],
            "mixed": [[(0, n - 1), (n - 1, 1)], [(1, 0), (0, 1)]],
        }
        for mname, em in maps.items():
            r = len(em)
            out.append((f"SymmetryPreserving({n},{r},map={mname})", lambda n=n, r=r, em=em: SymmetryPreserving(n, r, em), {"N"}))
            out.append((f"SymmetryPreservingReal({n},{r},map={mname})", lambda n=n, r=r, em=em: SymmetryPreservingReal(n, r, em), {"N", "real"}))
            out.append((f"Z2SymmetryPreservingReal({n},{r},map={mname})", lambda n=n, r=r, em=em: Z2SymmetryPreservingReal(n, r, em), {"parity", "real"}))
    for n in (2, 4) + ((6,) if big else ()):
        for d in (1, 2):
            # the U1/U2 exchange gates act on neighbouring qubits of opposite spin: particle number only
            out.append((f"ParticleConservingU1({n},{d})", lambda n=n, d=d: ParticleConservingU1(n, d), {"N"}))
            out.append((f"ParticleConservingU2({n},{d})", lambda n=n, d=d: ParticleConservingU2(n, d), {"N"}))
    for n in (4, 6) + ((8,) if big else ()):
        for d in (1, 2):
            for pi in (False, True):
                out.append((f"GateFabric({n},{d},{pi})", lambda n=n, d=d, pi=pi: GateFabric(n, d, pi), {"N", "Sz"}))
    # closed- and open-shell electron counts (odd counts shift the parity of the first virtual spin orbital)
    for n, f in ((4, 2), (6, 2), (4, 1), (6, 3)) + (((6, 4), (8, 2), (4, 3), (6, 1), (6, 5), (8, 3)) if big else ()):
        out.append((f"AllSinglesDoubles({n},{f})", lambda n=n, f=f: AllSinglesDoubles(n, f), {"N", "Sz"}))
    # the anchored gadgets themselves ("particle-conserving … excitation circuit", "orbital rotation gate … conserves the
    # number of particles"), driven through every form of ParameterOrLinearFunction their signature admits – the ansatz
    # classes only ever pass a bare Parameter, so the linear-function branches are reachable only from here
    from quri_parts.chem.utils.excitations import add_double_excitation_circuit, add_single_excitation_circuit
    from quri_parts.chem.utils.orbital_rotation import add_orbital_rotation_gate
    from quri_parts.circuit import CONST, LinearMappedParametricQuantumCircuit

    def gadget(fn, n, idx, form):
        def build():
            c = LinearMappedParametricQuantumCircuit(n)
            a, b = c.add_parameters("a", "b")
            pf = {"param": a, "scaled": {a: 2.0}, "two": {a: 1.0, b: -1.0}, "offset": {a: 0.5, CONST: 2 * math.pi}}[form]
            fn(c, idx, pf)
            return c

        return build

    for form in ("param", "scaled", "two", "offset"):
        out.append((f"gadget:single_excitation((0,1),{form})", gadget(add_single_excitation_circuit, 2, (0, 1), form), {"N"}))
        out.append((f"gadget:single_excitation((0,2),{form})", gadget(add_single_excitation_circuit, 3, (0, 2), form), {"N", "Sz"}))
        out.append((f"gadget:double_excitation((0,1,2,3),{form})", gadget(add_double_excitation_circuit, 4, (0, 1, 2, 3), form), {"N", "Sz"}))
        out.append((f"gadget:double_excitation((2,1,0,3),{form})", gadget(add_double_excitation_circuit, 4, (2, 1, 0, 3), form), {"N", "Sz"}))
        out.append((f"gadget:orbital_rotation((0,1,2,3),{form})", gadget(add_orbital_rotation_gate, 4, (0, 1, 2, 3), form), {"N", "Sz"}))
    try:
        from quri_parts.openfermion.ansatz import KUpCCGSD, TrotterUCCSD

        for n, e in ((4, 2), (6, 2), (4, 1), (6, 3)) + (((6, 4), (8, 4), (4, 3), (6, 1), (6, 5)) if big else ()):
            for sing in ((False, True) if e % 2 == 0 else (False,)):  # singlet excitations are refused for odd electron counts
                out.append((f"TrotterUCCSD({n},{e},singlet={sing})",
                            lambda n=n, e=e, s=sing: TrotterUCCSD(n, e, singlet_excitation=s), {"N", "Sz"}))
        for n in (4, 6):
            for k in (1, 2):
                for sing in (False, True):
                    out.append((f"KUpCCGSD({n},k={k},singlet={sing})",
                                lambda n=n, k=k, s=sing: KUpCCGSD(n, k=k, singlet_excitation=s), {"N", "Sz"}))
    except ImportError:
        pass
    return out


def gates_with_functions(circ):
    """list of (name, controls, targets, pauli_ids, params) where each param is ({param_index: Fraction}, const float)"""
    prim = circ.primitive_circuit()
    mapping = circ.param_mapping.mapping
    in_params = list(circ.param_mapping.in_params)
    idx = {p: i for i, p in enumerate(in_params)}
    out = []
    for g, p in prim.gates_and_params:
        if p is None:
            ps = [({}, float(x)) for x in g.params]
        else:
            from quri_parts.circuit import CONST

            fn = mapping[p]
            if not hasattr(fn, "items"):
                fn = {fn: 1.0}
            lin, const = {}, 0.0
            for k, v in fn.items():
                if k == CONST:
                    const += float(v)
                elif k in idx:
                    lin[idx[k]] = lin.get(idx[k], 0) + Fraction(float(v)).limit_denominator(1 << 20)
                else:
                    raise ValueError(f"parameter {k} of a gate function is not an input parameter")
            ps = [(lin, const)]
        name = g.name.replace("Parametric", "")
        out.append((name, tuple(g.control_indices), tuple(g.target_indices), tuple(g.pauli_ids), ps))
    return out, len(in_params)


def weight(kind, idx, wires=None):
    """weight of basis index under N / Sz / parity; wires = original qubit label of each local bit"""
    bits = [(idx >> i) & 1 for i in range(len(wires))]
    if kind == "N":
        return sum(bits)
    if kind == "parity":
        return sum(bits) % 2
    if kind == "Sz":
        return sum(b if w % 2 == 0 else -b for b, w in zip(bits, wires))
    raise KeyError(kind)


def block_unitary(gs, wires, values):
    from oracle import dense

    loc = {w: i for i, w in enumerate(wires)}
    n = len(wires)
    u = np.eye(1 << n, dtype=complex)
    for name, cs, ts, ids, ps in gs:
        params = tuple(sum(float(c) * values[k] for k, c in lin.items()) + const for lin, const in ps)
        m = dense.local_matrix(name, params, ids)
        u = dense.embed(n, [loc[w] for w in cs + ts], m) @ u
    return u


def conserves(gs, wires, kinds, nparams, rng, tol=1e-9):
    for _ in range(2):
        vals = [rng.uniform(-3, 3) for _ in range(nparams)]
        u = block_unitary(gs, wires, vals)
        dim = u.shape[0]
        for kind in kinds:
            if kind == "real":
                if np.max(np.abs(u.imag)) > tol:
                    return False
                continue
            ws = [weight(kind, i, wires) for i in range(dim)]
            for r in range(dim):
                for c in range(dim):
                    if ws[r] != ws[c] and abs(u[r, c]) > tol:
                        return False
    return True


def segment(gs, kinds, nparams, rng, max_wires=4, max_pauli_wires=8):
    """greedy minimal conserving windows; a window that never closes within max_wires is returned as is"""
    blocks = []
    i = 0
    while i < len(gs):
        j = i
        wires = []
        done = False
        while j < len(gs):
            for w in gs[j][1] + gs[j][2]:
                if w not in wires:
                    wires.append(w)
            j += 1
            pauli_only = all(g[0] == "PauliRotation" for g in gs[i:j])
            if len(wires) > (max_pauli_wires if pauli_only else max_wires):
                break
            if conserves(gs[i:j], sorted(wires), kinds, nparams, rng):
                done = True
                break
        blocks.append((gs[i:j], sorted(set(wires)), done))
        i = j
    return blocks


def angle_units(const):
    k = const / (math.pi / 4)
    if abs(k - round(k)) > 1e-9:
        return None
    return int(round(k))


def canonical(block_gates, wires, kinds):
    """canonical form: wires relabelled 0.. in sorted order (spin = parity of the original label kept), parameters
    relabelled by first appearance and scaled to integer coefficients; returns a hashable key or None if an angle
    constant is not a multiple of π/4"""
    loc = {w: i for i, w in enumerate(wires)}
    pidx = {}
    den = {}
    for _, _, _, _, ps in block_gates:
        for lin, _ in ps:
            for k, c in lin.items():
                pidx.setdefault(k, len(pidx))
                den[k] = lcm(den.get(k, 1), Fraction(c).denominator)
    gl = []
    for name, cs, ts, ids, ps in block_gates:
        pl = []
        for lin, const in ps:
            u = angle_units(const)
            if u is None:
                return None
            coefs = [0] * len(pidx)
            for k, c in lin.items():
                coefs[pidx[k]] = int(Fraction(c) * den[k])
            while coefs and coefs[-1] == 0:
                coefs.pop()
            pl.append((tuple(coefs), u))
        gl.append((name, tuple(loc[w] for w in cs), tuple(loc[w] for w in ts), tuple(ids), tuple(pl)))
    spins = tuple(w % 2 for w in wires) if "Sz" in kinds else ()
    return (len(wires), spins, tuple(sorted(k for k in kinds)), tuple(gl))


def lean_block(key) -> str:
    nq, spins, kinds, gl = key
    gs = []
    for name, cs, ts, ids, pl in gl:
        ps = ", ".join(f"⟨[{', '.join(map(str, c))}], {u}⟩" for c, u in pl)
        pa = f" [{', '.join(map(str, ids))}]" if ids else ""
        gs.append(f"G .{name} [{', '.join(map(str, cs))}] [{', '.join(map(str, ts))}] [{ps}]{pa}")
    return "[" + ", ".join(gs) + "]"
