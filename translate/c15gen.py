"""T-dynamic translator for C15 (DESIGN §4.1 `ansatz_extract.py`): builds the REAL ansatz objects of the working
tree (the overlay must be active), reads the data a LinearMappedParametricQuantumCircuit already holds exactly –
(gate kind, wires, affine angle function over the circuit's Parameters) – and cuts every gate list into minimal
weight-conserving windows (blocks).  The segmentation is guided by a numerical test only; every distinct block, in
canonical form, becomes a Lean obligation that is checked symbolically for all parameter values."""
from __future__ import annotations

import math
from fractions import Fraction
from math import lcm

import numpy as np


def ansatz_catalogue(tier: str):
    """(name, builder, promise) – promise ⊆ {"N", "Sz", "parity", "real"}"""
    from quri_parts.algo.ansatz import SymmetryPreserving, SymmetryPreservingReal, Z2SymmetryPreservingReal
    from quri_parts.chem.ansatz import AllSinglesDoubles, GateFabric, ParticleConservingU1, ParticleConservingU2

    out = []
    big = tier != "quick"
    for n in (2, 3, 4, 5) + ((6,) if big else ()):
        for reps in (1, 2):
            out.append((f"SymmetryPreserving({n},{reps})", lambda n=n, r=reps: SymmetryPreserving(n, r), {"N"}))
            out.append((f"SymmetryPreservingReal({n},{reps})", lambda n=n, r=reps: SymmetryPreservingReal(n, r), {"N", "real"}))
            out.append((f"Z2SymmetryPreservingReal({n},{reps})", lambda n=n, r=reps: Z2SymmetryPreservingReal(n, r), {"parity", "real"}))
    # explicit entangler maps ("all entangler maps"): the library's CIRCULAR / FULL patterns (CIRCULAR has the descending
    # wrap-around pair (n-1, 0)) and hand-written maps with descending and repeated pairs
    from quri_parts.algo.ansatz.two_local import EntanglementPatternType, build_entangler_map

    for n in (3, 4) + ((5,) if big else ()):
        maps = {
            "circular": build_entangler_map(n, [EntanglementPatternType.CIRCULAR]),
            "full": build_entangler_map(n, [EntanglementPatternType.FULL]),
            "descending": [[(n - 1, n - 2), (1, 0)]],
            "mixed": [[(0, n - 1), (n - 1, 1)], [(1, 0), (0, 1)]],
        }
        for mname, em in maps.items():
            r = len(em)
            out.append((f"SymmetryPreserving({n},{r},map={mname})", lambda n=n, r=r, em=em: SymmetryPreserving(n, r, em), {"N"}))
            out.append((f"SymmetryPreservingReal({n},{r},map={mname})", lambda n=n, r=r, em=em: SymmetryPreservingReal(n, r, em), {"N", "real"}))
            out.append((f"Z2SymmetryPreservingReal({n},{r},map={mname})", lambda n=n, r=r, em=em: Z2SymmetryPreservingReal(n, r, em), {"parity", "real"}))
    for n in (2, 4) + ((6,) if big else ()):
        for d in (1, 2):
            # the U1/U2 exchange gates act on neighbouring qubits of opposite spin: particle number only
            out.append((f"ParticleConservingU1({n},{d})", lambda n=n, d=d: ParticleConservingU1(n, d), {"N"}))
            out.append((f"ParticleConservingU2({n},{d})", lambda n=n, d=d: ParticleConservingU2(n, d), {"N"}))
    for n in (4, 6) + ((8,) if big else ()):
        for d in (1, 2):
            for pi in (False, True):
                out.append((f"GateFabric({n},{d},{pi})", lambda n=n, d=d, pi=pi: GateFabric(n, d, pi), {"N", "Sz"}))
    # closed- and open-shell electron counts (odd counts shift the parity of the first virtual spin orbital)
    for n, f in ((4, 2), (6, 2), (4, 1), (6, 3)) + (((6, 4), (8, 2), (4, 3), (6, 1), (6, 5), (8, 3)) if big else ()):
        out.append((f"AllSinglesDoubles({n},{f})", lambda n=n, f=f: AllSinglesDoubles(n, f), {"N", "Sz"}))
    # the anchored gadgets themselves ("particle-conserving … excitation circuit", "orbital rotation gate … conserves the
    # number of particles"), driven through every form of ParameterOrLinearFunction their signature admits – the ansatz
    # classes only ever pass a bare Parameter, so the linear-function branches are reachable only from here
    from quri_parts.chem.utils.excitations import add_double_excitation_circuit, add_single_excitation_circuit
    from quri_parts.chem.utils.orbital_rotation import add_orbital_rotation_gate
    from quri_parts.circuit import CONST, LinearMappedParametricQuantumCircuit

    def gadget(fn, n, idx, form):
        def build():
            c = LinearMappedParametricQuantumCircuit(n)
            a, b = c.add_parameters("a", "b")
            pf = {"param": a, "scaled": {a: 2.0}, "two": {a: 1.0, b: -1.0}, "offset": {a: 0.5, CONST: 2 * math.pi}}[form]
            fn(c, idx, pf)
            return c

        return build

    for form in ("param", "scaled", "two", "offset"):
        out.append((f"gadget:single_excitation((0,1),{form})", gadget(add_single_excitation_circuit, 2, (0, 1), form), {"N"}))
        out.append((f"gadget:single_excitation((0,2),{form})", gadget(add_single_excitation_circuit, 3, (0, 2), form), {"N", "Sz"}))
        out.append((f"gadget:double_excitation((0,1,2,3),{form})", gadget(add_double_excitation_circuit, 4, (0, 1, 2, 3), form), {"N", "Sz"}))
        out.append((f"gadget:double_excitation((2,1,0,3),{form})", gadget(add_double_excitation_circuit, 4, (2, 1, 0, 3), form), {"N", "Sz"}))
        out.append((f"gadget:orbital_rotation((0,1,2,3),{form})", gadget(add_orbital_rotation_gate, 4, (0, 1, 2, 3), form), {"N", "Sz"}))
    # argument forms the ansatz classes never use: descending / interleaved excitation indices, a list instead of a tuple,
    # a constant-only function (GateFabric's include_pi form), integer coefficients, one dict object reused by two gadgets
    def gadget2(n, calls, pf_of):
        def build():
            c = LinearMappedParametricQuantumCircuit(n)
            a, b = c.add_parameters("a", "b")
            pf = pf_of(a, b)
            for fn, idx in calls:
                fn(c, idx, pf)
            return c

        return build

    sx, dx, orb = add_single_excitation_circuit, add_double_excitation_circuit, add_orbital_rotation_gate
    out.append(("gadget:single_excitation((1,0),scaled)", gadget2(2, [(sx, (1, 0))], lambda a, b: {a: 2.0}), {"N"}))
    out.append(("gadget:single_excitation([2,0],param)", gadget2(3, [(sx, [2, 0])], lambda a, b: a), {"N", "Sz"}))
    out.append(("gadget:single_excitation((1,3),int-coef)", gadget2(4, [(sx, (1, 3))], lambda a, b: {a: 2, b: -1}), {"N", "Sz"}))
    out.append(("gadget:double_excitation((3,2,1,0),two)", gadget2(4, [(dx, (3, 2, 1, 0))], lambda a, b: {a: 1.0, b: -1.0}), {"N", "Sz"}))
    out.append(("gadget:double_excitation([1,0,3,2],int-coef)", gadget2(4, [(dx, [1, 0, 3, 2])], lambda a, b: {a: 2}), {"N", "Sz"}))
    out.append(("gadget:double_excitation((0,1,2,3),const)", gadget2(4, [(dx, (0, 1, 2, 3))], lambda a, b: {CONST: 2 * math.pi}), {"N", "Sz"}))
    out.append(("gadget:orbital_rotation((3,2,1,0),const)", gadget2(4, [(orb, (3, 2, 1, 0))], lambda a, b: {CONST: math.pi}), {"N", "Sz"}))
    out.append(("gadget:orbital_rotation([2,3,0,1],scaled)", gadget2(4, [(orb, [2, 3, 0, 1])], lambda a, b: {b: -2.0}), {"N", "Sz"}))
    out.append(("gadget:reused-dict(double(0,1,2,3);single(0,2);orbital(0,1,2,3))",
                gadget2(4, [(dx, (0, 1, 2, 3)), (sx, (0, 2)), (orb, (0, 1, 2, 3)), (dx, (1, 0, 3, 2))], lambda a, b: {a: 1.0, b: 2.0}), {"N", "Sz"}))

    # the TwoLocal skeleton with rotation layers (the library's own subclasses only ever use "e…e" patterns and no
    # rotation indices): RZ rotations and a Givens entangler (public gadget) both conserve the particle number
    from quri_parts.algo.ansatz.two_local import TwoLocal

    def two_local(n, pattern, rot_idx, emap):
        def rot(c, arg):
            li, q = arg
            c.add_ParametricRZ_gate(q, c.add_parameter(f"r_{li}_{q}"))

        def ent(c, arg):
            li, (i, j) = arg
            add_single_excitation_circuit(c, (i, j), c.add_parameter(f"e_{li}_{i}_{j}"))

        return lambda: TwoLocal(n, pattern, rot, ent, rot_idx, emap)

    out.append(("TwoLocal(3,'rer',RZ,Givens)", two_local(3, "rer", [0, 1, 2], [[(0, 1), (1, 2)]]), {"N"}))
    out.append(("TwoLocal(4,'erre',RZ,Givens,rot=(3,1))", two_local(4, "erre", (3, 1), [[(0, 1), (2, 3)], [(3, 0), (2, 1)]]), {"N"}))
    out.append(("TwoLocal(3,'rr',RZ,Givens,rot=range)", two_local(3, "rr", range(3), []), {"N"}))
    try:
        from quri_parts.openfermion.ansatz import KUpCCGSD, TrotterUCCSD
        from quri_parts.openfermion.transforms import jordan_wigner

        # optional flags and argument forms: no singles, Trotter number > 1 (angle coefficient 1/t), a mapping INSTANCE
        # instead of the factory, a float delta_sz
        out.append(("TrotterUCCSD(4,2,use_singles=False)", lambda: TrotterUCCSD(4, 2, use_singles=False), {"N", "Sz"}))
        out.append(("TrotterUCCSD(4,2,trotter_number=2)", lambda: TrotterUCCSD(4, 2, trotter_number=2), {"N", "Sz"}))
        out.append(("TrotterUCCSD(6,2,singlet,use_singles=False,trotter_number=2)",
                    lambda: TrotterUCCSD(6, 2, use_singles=False, trotter_number=2, singlet_excitation=True), {"N", "Sz"}))
        out.append(("TrotterUCCSD(4,2,mapping=jordan_wigner(4,2))", lambda: TrotterUCCSD(4, 2, jordan_wigner(4, 2)), {"N", "Sz"}))
        out.append(("TrotterUCCSD(6,3,delta_sz=0.0)", lambda: TrotterUCCSD(6, 3, delta_sz=0.0), {"N", "Sz"}))
        out.append(("KUpCCGSD(4,trotter_number=2)", lambda: KUpCCGSD(4, trotter_number=2), {"N", "Sz"}))
        out.append(("KUpCCGSD(4,k=2,mapping=jordan_wigner(4),singlet)",
                    lambda: KUpCCGSD(4, 2, jordan_wigner(4), singlet_excitation=True), {"N", "Sz"}))

        for n, e in ((4, 2), (6, 2), (4, 1), (6, 3)) + (((6, 4), (8, 4), (4, 3), (6, 1), (6, 5)) if big else ()):
            for sing in ((False, True) if e % 2 == 0 else (False,)):  # singlet excitations are refused for odd electron counts
                out.append((f"TrotterUCCSD({n},{e},singlet={sing})",
                            lambda n=n, e=e, s=sing: TrotterUCCSD(n, e, singlet_excitation=s), {"N", "Sz"}))
        for n in (4, 6):
            for k in (1, 2):
                for sing in (False, True):
                    out.append((f"KUpCCGSD({n},k={k},singlet={sing})",
                                lambda n=n, k=k, s=sing: KUpCCGSD(n, k=k, singlet_excitation=s), {"N", "Sz"}))
    except ImportError:
        pass
    return out


class HelperMissing(Exception):
    """a private helper of the library that a case wants to reuse is not there (renamed / removed): not a verdict"""


def extra_catalogue(tier: str):
    """numeric-only cases, judged by the independent oracle alone (no Lean block obligations are generated for them):
    (name, builder, promise, mode) with mode "build" (the builder must succeed) or "may-raise" (an exception of the real
    code is an accepted outcome – a documented rejection – but a circuit that IS returned must keep the promise).
    promise may contain "Sz%k": 2·S_z may only change by multiples of k (delta_sz = ±k/2 excitations)."""
    from quri_parts.algo.ansatz import SymmetryPreserving, SymmetryPreservingReal, Z2SymmetryPreservingReal
    from quri_parts.algo.ansatz.two_local import EntanglementPatternType, TwoLocal, build_entangler_map
    from quri_parts.chem.ansatz import AllSinglesDoubles, GateFabric, ParticleConservingU1, ParticleConservingU2
    from quri_parts.chem.utils.excitations import add_double_excitation_circuit, add_single_excitation_circuit
    from quri_parts.chem.utils.orbital_rotation import add_orbital_rotation_gate
    from quri_parts.circuit import CONST, LinearMappedParametricQuantumCircuit

    big = tier != "quick"
    out = []
    B, R = "build", "may-raise"
    P = EntanglementPatternType
    NS = {"N", "Sz"}

    # ---- sizes the block catalogue never builds (odd sizes, wrap-around maps on both parities of n, wide registers)
    for n in (7, 9, 10) + ((11, 12) if big else ()):
        for pats in ([P.CIRCULAR], [P.FULL, P.LINEAR], [P.LINEAR, P.CIRCULAR, P.FULL]):
            em = build_entangler_map(n, pats)
            tag = "+".join(p.name for p in pats)
            out.append((f"SymmetryPreserving({n},{len(em)},{tag})", lambda n=n, em=em: SymmetryPreserving(n, len(em), em), {"N"}, B))
            out.append((f"SymmetryPreservingReal({n},{len(em)},{tag})", lambda n=n, em=em: SymmetryPreservingReal(n, len(em), em), {"N", "real"}, B))
            out.append((f"Z2SymmetryPreservingReal({n},{len(em)},{tag})", lambda n=n, em=em: Z2SymmetryPreservingReal(n, len(em), em), {"parity", "real"}, B))
        out.append((f"SymmetryPreserving({n},3)", lambda n=n: SymmetryPreserving(n, 3), {"N"}, B))
        out.append((f"SymmetryPreservingReal({n},3)", lambda n=n: SymmetryPreservingReal(n, 3), {"N", "real"}, B))
        out.append((f"Z2SymmetryPreservingReal({n},3)", lambda n=n: Z2SymmetryPreservingReal(n, 3), {"parity", "real"}, B))
    for n in (3, 5, 8, 10) + ((7, 12) if big else ()):
        out.append((f"ParticleConservingU1({n},3)", lambda n=n: ParticleConservingU1(n, 3), {"N"}, B))
        out.append((f"ParticleConservingU2({n},3)", lambda n=n: ParticleConservingU2(n, 3), {"N"}, B))
    for n in (5, 7, 8, 10) + ((9, 12) if big else ()):
        for pi in (False, True):
            out.append((f"GateFabric({n},3,{pi})", lambda n=n, pi=pi: GateFabric(n, 3, pi), NS, B))
    for n, f in ((5, 2), (7, 3), (8, 4), (8, 3), (10, 4)) + (((8, 5), (8, 6), (10, 5), (10, 6), (12, 4)) if big else ()):
        out.append((f"AllSinglesDoubles({n},{f})", lambda n=n, f=f: AllSinglesDoubles(n, f), NS, B))
    # degenerate sizes: nothing to excite / a register too small for one block
    for name, b in (("AllSinglesDoubles(4,4)", lambda: AllSinglesDoubles(4, 4)), ("AllSinglesDoubles(4,0)", lambda: AllSinglesDoubles(4, 0)),
                    ("AllSinglesDoubles(2,1)", lambda: AllSinglesDoubles(2, 1)), ("ParticleConservingU1(1,2)", lambda: ParticleConservingU1(1, 2)),
                    ("ParticleConservingU2(1,2)", lambda: ParticleConservingU2(1, 2)), ("GateFabric(4,0)", lambda: GateFabric(4, 0)),
                    ("ParticleConservingU1(4,0)", lambda: ParticleConservingU1(4, 0)), ("ParticleConservingU2(2,0)", lambda: ParticleConservingU2(2, 0)),
                    ("GateFabric(6,1,include_pi=1)", lambda: GateFabric(6, 1, 1))):
        out.append((name, b, NS if name.startswith(("All", "Gate")) else {"N"}, B))
    for n in (0, 1, 2, 3):
        out.append((f"GateFabric({n},1)", lambda n=n: GateFabric(n, 1), NS, R))  # "requires at least 4 qubits"
    for cls, pr in ((SymmetryPreserving, {"N"}), (SymmetryPreservingReal, {"N", "real"}), (Z2SymmetryPreservingReal, {"parity", "real"})):
        out.append((f"{cls.__name__}(1,1)", lambda cls=cls: cls(1, 1), pr, R))  # "Raises ValueError: if number of qubits is less than 2"
        out.append((f"{cls.__name__}(3,0)", lambda cls=cls: cls(3, 0), pr, B))
        out.append((f"{cls.__name__}(4,1,map longer than reps)", lambda cls=cls: cls(4, 1, [[(3, 2)], [(0, 1)]]), pr, B))
        out.append((f"{cls.__name__}(4,2,map shorter than reps)", lambda cls=cls: cls(4, 2, [[(3, 2)]]), pr, R))
        out.append((f"{cls.__name__}(4,2,numpy map)", lambda cls=cls: cls(4, 2, np.array([[[0, 1], [3, 2]], [[2, 0], [1, 3]]])), pr, R))
        out.append((f"{cls.__name__}(4,2,tuple map)", lambda cls=cls: cls(4, 2, (((2, 1), (1, 2), (2, 1)), ((0, 3),))), pr, B))
        out.append((f"{cls.__name__}(5,2,generator layer)", lambda cls=cls: cls(5, 2, [((i + 1, i) for i in range(4)), [(4, 0)]]), pr, B))

    # ---- the TwoLocal skeleton itself, with the library's entanglers when they can be reached and RZ rotation layers
    def two_local(n, pattern, rot_idx, emap, ent_of):
        def rot(c, arg):
            li, q = arg
            c.add_ParametricRZ_gate(q, {c.add_parameter(f"r_{li}_{q}"): -1.0})

        def build():
            ent = ent_of()
            if ent is None:
                raise HelperMissing("entangler of the library class not reachable")
            return TwoLocal(n, pattern, rot, ent, rot_idx, emap)

        return build

    def givens():
        def ent(c, arg):
            li, (i, j) = arg
            add_single_excitation_circuit(c, (i, j), c.add_parameter(f"e_{li}_{i}_{j}"))

        return ent

    ents = [("Givens", givens, {"N"}), ("A", lambda: getattr(SymmetryPreserving, "_add_entanglement_gate", None), {"N"}),
            ("SO4", lambda: getattr(SymmetryPreservingReal, "_add_entanglement_gate", None), {"N"}),
            ("RxxRz", lambda: getattr(Z2SymmetryPreservingReal, "_add_entanglement_gates", None), {"parity"})]
    for ename, ent_of, pr in ents:
        for n, pattern, rot_idx, emap in ((4, "rere", [0, 1, 2, 3], build_entangler_map(4, [P.CIRCULAR, P.FULL])),
                                          (5, "eerr", (4, 2, 0), [[(4, 0), (1, 3)], [(3, 1), (2, 4), (4, 2)]]),
                                          (3, "rrer", range(2, -1, -1), [[(2, 0), (0, 2)]]),
                                          (6, "r", [5, 0, 3, 0], []),
                                          (9, "erer", list(range(0, 9, 2)), build_entangler_map(9, [P.CIRCULAR, P.LINEAR]))):
            out.append((f"TwoLocal({n},{pattern!r},RZ,{ename},rot={list(rot_idx)})", two_local(n, pattern, rot_idx, emap, ent_of), pr, B))
        out.append((f"TwoLocal(3,'rxe',RZ,{ename})", two_local(3, "rxe", [0], [[(0, 1)]], ent_of), pr, R))  # "Raises ValueError: other characters"
        out.append((f"TwoLocal(3,'',RZ,{ename})", two_local(3, "", [0], [[(0, 1)]], ent_of), pr, B))
        out.append((f"TwoLocal(6,'re',RZ,{ename},numpy indices)", two_local(6, "re", np.array([5, 0, 3]), np.array([[[1, 0], [4, 5]]]), ent_of), pr, R))

    # ---- the gadgets on wide registers, far-apart / descending indices, exotic index containers
    def gadget(n, calls, pf_of):
        def build():
            c = LinearMappedParametricQuantumCircuit(n)
            a, b = c.add_parameters("a", "b")
            pf = pf_of(a, b)
            for fn, idx in calls:
                fn(c, idx, pf)
            return c

        return build

    sx, dx, orb = add_single_excitation_circuit, add_double_excitation_circuit, add_orbital_rotation_gate
    forms = {"param": lambda a, b: a, "b": lambda a, b: b, "two": lambda a, b: {a: 0.7, b: -1.3}, "offset": lambda a, b: {a: 3, CONST: 0.37},
             "const": lambda a, b: {CONST: 1.234}}
    for fname, pf in forms.items():
        out.append((f"gadget:single_excitation((6,2),{fname})", gadget(7, [(sx, (6, 2))], pf), NS, B))
        out.append((f"gadget:single_excitation((0,5),{fname})", gadget(6, [(sx, (0, 5))], pf), {"N"}, B))
        out.append((f"gadget:double_excitation((7,0,3,4),{fname})", gadget(8, [(dx, (7, 0, 3, 4))], pf), NS, B))
        out.append((f"gadget:double_excitation((0,2,4,6),{fname})", gadget(7, [(dx, (0, 2, 4, 6))], pf), NS, B))
        out.append((f"gadget:double_excitation((0,1,2,4),{fname})", gadget(5, [(dx, (0, 1, 2, 4))], pf), {"N"}, B))
        out.append((f"gadget:orbital_rotation((6,1,2,5),{fname})", gadget(7, [(orb, (6, 1, 2, 5))], pf), NS, B))
        out.append((f"gadget:orbital_rotation((0,1,3,4),{fname})", gadget(5, [(orb, (0, 1, 3, 4))], pf), {"N"}, B))
    out.append(("gadget:double_excitation(numpy (0,1,2,3),two)", gadget(4, [(dx, np.array([0, 1, 2, 3]))], forms["two"]), NS, R))
    out.append(("gadget:single_excitation(numpy (2,0),param)", gadget(3, [(sx, np.array([2, 0]))], forms["param"]), NS, R))
    out.append(("gadget:orbital_rotation(numpy (1,0,3,2),offset)", gadget(4, [(orb, np.array([1, 0, 3, 2]))], forms["offset"]), NS, R))
    out.append(("gadget:double_excitation((0,1,2,3),empty dict)", gadget(4, [(dx, (0, 1, 2, 3))], lambda a, b: {}), NS, R))
    out.append(("gadget:single_excitation((0,2),empty dict)", gadget(3, [(sx, (0, 2))], lambda a, b: {}), NS, R))

    try:
        from quri_parts.openfermion.ansatz import KUpCCGSD, TrotterUCCSD
        from quri_parts.openfermion.transforms import jordan_wigner
        from quri_parts.openfermion.utils import add_exp_excitation_gates_trotter_decomposition as trot
    except ImportError:
        return out

    def sz_promise(d):
        return {"N", "Sz"} if d == 0 else {"N", f"Sz%{int(round(2 * abs(d)))}"}

    # same-spin double excitations of the singlet parametrisation need ≥ 2 occupied and ≥ 2 virtual spatial orbitals
    for n, e in ((8, 4),) + (((10, 4), (10, 6), (12, 6)) if big else ()):
        for kw in ({"singlet_excitation": True}, {"singlet_excitation": True, "use_singles": False, "trotter_number": 2}, {}):
            out.append((f"TrotterUCCSD({n},{e},{kw})", lambda n=n, e=e, kw=kw: TrotterUCCSD(n, e, **kw), NS, B))
    for n, e in ((8, 2), (8, 6), (8, 3), (10, 4), (10, 5)) + (((10, 7), (12, 4), (12, 5)) if big else ()):
        out.append((f"TrotterUCCSD({n},{e})", lambda n=n, e=e: TrotterUCCSD(n, e), NS, B))
        if e % 2 == 0:
            out.append((f"TrotterUCCSD({n},{e},singlet,mapping instance)",
                        lambda n=n, e=e: TrotterUCCSD(n, e, jordan_wigner(n, e), 1, True, 0, True), NS, B))
    # delta_sz ≠ 0: no S_z promise, but 2·S_z can only move in steps of 2·delta_sz; the particle number stays
    for n, e, d in ((4, 2, 1), (4, 2, -1), (6, 3, 1), (6, 2, -1.0), (8, 4, 2), (8, 4, -2), (8, 3, 1), (6, 4, 2), (6, 2, 0.5), (6, 3, -0.0)):
        out.append((f"TrotterUCCSD({n},{e},delta_sz={d})", lambda n=n, e=e, d=d: TrotterUCCSD(n, e, delta_sz=d), sz_promise(d), B))
        out.append((f"TrotterUCCSD({n},{e},delta_sz={d},no singles,trotter 3)",
                    lambda n=n, e=e, d=d: TrotterUCCSD(n, e, use_singles=False, trotter_number=3, delta_sz=d), sz_promise(d), B))
    for n, d in ((4, 1), (4, -1), (6, 1), (6, 0.0), (8, -1), (6, 2)):
        for k in (1, 2):
            out.append((f"KUpCCGSD({n},k={k},delta_sz={d},trotter 2)",
                        lambda n=n, k=k, d=d: KUpCCGSD(n, k, trotter_number=2, delta_sz=d), sz_promise(d), B))
    for n in (2, 8, 10) + ((12,) if big else ()):
        for sing in (False, True):
            out.append((f"KUpCCGSD({n},k=2,singlet={sing})", lambda n=n, s=sing: KUpCCGSD(n, 2, singlet_excitation=s), NS, B))
    out.append(("KUpCCGSD(6,k=0)", lambda: KUpCCGSD(6, k=0), NS, B))
    out.append(("KUpCCGSD(4,k=3,mapping instance)", lambda: KUpCCGSD(4, 3, jordan_wigner(4)), NS, B))
    # documented rejections (either an error or a circuit that keeps the promise; never a circuit that breaks it)
    out.append(("TrotterUCCSD(4,1,singlet)", lambda: TrotterUCCSD(4, 1, singlet_excitation=True), NS, R))
    out.append(("TrotterUCCSD(6,3,singlet,no singles)", lambda: TrotterUCCSD(6, 3, use_singles=False, singlet_excitation=True), NS, R))
    out.append(("TrotterUCCSD(4,4)", lambda: TrotterUCCSD(4, 4), NS, R))
    out.append(("TrotterUCCSD(4,5)", lambda: TrotterUCCSD(4, 5), NS, R))
    out.append(("TrotterUCCSD(4,2,delta_sz=1,singlet)", lambda: TrotterUCCSD(4, 2, delta_sz=1, singlet_excitation=True), {"N"}, R))
    out.append(("TrotterUCCSD(4,2,mapping for 6 orbitals)", lambda: TrotterUCCSD(4, 2, jordan_wigner(6, 2)), NS, R))
    out.append(("TrotterUCCSD(4,2,mapping without n_fermions)", lambda: TrotterUCCSD(4, 2, jordan_wigner(4)), NS, R))
    out.append(("TrotterUCCSD(4,0)", lambda: TrotterUCCSD(4, 0), NS, R))
    out.append(("TrotterUCCSD(4,2,trotter_number=0)", lambda: TrotterUCCSD(4, 2, trotter_number=0), NS, R))
    out.append(("KUpCCGSD(4,delta_sz=1,singlet)", lambda: KUpCCGSD(4, delta_sz=1, singlet_excitation=True), {"N"}, R))
    out.append(("KUpCCGSD(4,mapping for 6 orbitals)", lambda: KUpCCGSD(4, 1, jordan_wigner(6)), NS, R))

    # ---- the Trotterised exponentials as a public entry point of their own: generalised (not occupied→virtual),
    # descending and repeated excitations, list-typed indices, shared parameters, arbitrary real coefficient
    def trotter(n, excs, coef, share=False):
        def build():
            c = LinearMappedParametricQuantumCircuit(n)
            ps = [c.add_parameter(f"t{i}") for i in range(1 if share else len(excs))]
            trot(c, excs, ps * len(excs) if share else ps, jordan_wigner(n).of_operator_mapper, coef)
            return c

        return build

    def spin_ok(ex):
        h = len(ex) // 2
        return sum(1 if q % 2 == 0 else -1 for q in ex[:h]) == sum(1 if q % 2 == 0 else -1 for q in ex[h:])

    exc_sets = [
        (6, [(0, 2), (4, 2), (5, 1), (3, 5)], 1.0),
        (6, [(2, 0), (0, 2), (0, 2)], -0.5),
        (5, [(0, 3), (4, 1), (2, 3)], 0.3),
        (8, [(0, 1, 6, 7), (7, 6, 1, 0), (2, 5, 4, 3), (0, 2, 4, 6)], 0.25),
        (6, [[0, 1, 2, 3], [5, 4, 1, 0], [1, 3, 5, 0]], 2.0),
        (7, [(0, 1, 2, 4), (3, 6), (6, 5, 0, 1)], 1 / 3),
        (8, [(0, 7, 2, 3), (5, 1, 3, 7), (6, 4, 0, 2)], 0.5),
        (10, [(0, 9, 4, 5), (8, 2), (9, 1, 3, 7), (1, 9)], 1.0),
    ]
    for n, excs, coef in exc_sets:
        pr = NS if all(spin_ok(tuple(e)) for e in excs) else {"N"}
        out.append((f"trotter_decomposition({n},{excs},coef={coef:.3g})", trotter(n, excs, coef), pr, B))
        out.append((f"trotter_decomposition({n},{excs},coef={coef:.3g},shared parameter)", trotter(n, excs, coef, True), pr, B))
    out.append(("trotter_decomposition(4,[],1.0)", trotter(4, [], 1.0), NS, B))
    return out


def gates_with_functions(circ):
    """list of (name, controls, targets, pauli_ids, params) where each param is ({param_index: Fraction}, const float)"""
    prim = circ.primitive_circuit()
    mapping = circ.param_mapping.mapping
    in_params = list(circ.param_mapping.in_params)
    idx = {p: i for i, p in enumerate(in_params)}
    out = []
    for g, p in prim.gates_and_params:
        if p is None:
            ps = [({}, float(x)) for x in g.params]
        else:
            from quri_parts.circuit import CONST

            fn = mapping[p]
            if not hasattr(fn, "items"):
                fn = {fn: 1.0}
            lin, const = {}, 0.0
            for k, v in fn.items():
                if k == CONST:
                    const += float(v)
                elif k in idx:
                    lin[idx[k]] = lin.get(idx[k], 0) + Fraction(float(v)).limit_denominator(1 << 20)
                else:
                    raise ValueError(f"parameter {k} of a gate function is not an input parameter")
            ps = [(lin, const)]
        name = g.name.replace("Parametric", "")
        out.append((name, tuple(g.control_indices), tuple(g.target_indices), tuple(g.pauli_ids), ps))
    return out, len(in_params)


def weight(kind, idx, wires=None):
    """weight of basis index under N / Sz / parity; wires = original qubit label of each local bit"""
    bits = [(idx >> i) & 1 for i in range(len(wires))]
    if kind == "N":
        return sum(bits)
    if kind == "parity":
        return sum(bits) % 2
    if kind == "Sz":
        return sum(b if w % 2 == 0 else -b for b, w in zip(bits, wires))
    raise KeyError(kind)


def block_unitary(gs, wires, values):
    from oracle import dense

    loc = {w: i for i, w in enumerate(wires)}
    n = len(wires)
    u = np.eye(1 << n, dtype=complex)
    for name, cs, ts, ids, ps in gs:
        params = tuple(sum(float(c) * values[k] for k, c in lin.items()) + const for lin, const in ps)
        m = dense.local_matrix(name, params, ids)
        u = dense.embed(n, [loc[w] for w in cs + ts], m) @ u
    return u


def conserves(gs, wires, kinds, nparams, rng, tol=1e-9):
    for _ in range(2):
        vals = [rng.uniform(-3, 3) for _ in range(nparams)]
        u = block_unitary(gs, wires, vals)
        dim = u.shape[0]
        for kind in kinds:
            if kind == "real":
                if np.max(np.abs(u.imag)) > tol:
                    return False
                continue
            ws = [weight(kind, i, wires) for i in range(dim)]
            for r in range(dim):
                for c in range(dim):
                    if ws[r] != ws[c] and abs(u[r, c]) > tol:
                        return False
    return True


def segment(gs, kinds, nparams, rng, max_wires=4, max_pauli_wires=8):
    """greedy minimal conserving windows; a window that never closes within max_wires is returned as is"""
    blocks = []
    i = 0
    while i < len(gs):
        j = i
        wires = []
        done = False
        while j < len(gs):
            for w in gs[j][1] + gs[j][2]:
                if w not in wires:
                    wires.append(w)
            j += 1
            pauli_only = all(g[0] == "PauliRotation" for g in gs[i:j])
            if len(wires) > (max_pauli_wires if pauli_only else max_wires):
                break
            if conserves(gs[i:j], sorted(wires), kinds, nparams, rng):
                done = True
                break
        blocks.append((gs[i:j], sorted(set(wires)), done))
        i = j
    return blocks


def angle_units(const):
    k = const / (math.pi / 4)
    if abs(k - round(k)) > 1e-9:
        return None
    return int(round(k))


def canonical(block_gates, wires, kinds):
    """canonical form: wires relabelled 0.. in sorted order (spin = parity of the original label kept), parameters
    relabelled by first appearance and scaled to integer coefficients; returns a hashable key or None if an angle
    constant is not a multiple of π/4"""
    loc = {w: i for i, w in enumerate(wires)}
    pidx = {}
    den = {}
    for _, _, _, _, ps in block_gates:
        for lin, _ in ps:
            for k, c in lin.items():
                pidx.setdefault(k, len(pidx))
                den[k] = lcm(den.get(k, 1), Fraction(c).denominator)
    gl = []
    for name, cs, ts, ids, ps in block_gates:
        pl = []
        for lin, const in ps:
            u = angle_units(const)
            if u is None:
                return None
            coefs = [0] * len(pidx)
            for k, c in lin.items():
                coefs[pidx[k]] = int(Fraction(c) * den[k])
            while coefs and coefs[-1] == 0:
                coefs.pop()
            pl.append((tuple(coefs), u))
        gl.append((name, tuple(loc[w] for w in cs), tuple(loc[w] for w in ts), tuple(ids), tuple(pl)))
    spins = tuple(w % 2 for w in wires) if "Sz" in kinds else ()
    return (len(wires), spins, tuple(sorted(k for k in kinds)), tuple(gl))


def lean_block(key) -> str:
    nq, spins, kinds, gl = key
    gs = []
    for name, cs, ts, ids, pl in gl:
        ps = ", ".join(f"⟨[{', '.join(map(str, c))}], {u}⟩" for c, u in pl)
        pa = f" [{', '.join(map(str, ids))}]" if ids else ""
        gs.append(f"G .{name} [{', '.join(map(str, cs))}] [{', '.join(map(str, ts))}] [{ps}]{pa}")
    return "[" + ", ".join(gs) + "]"
