"""Translator for C14: reads the *shape* of the tensor formulas from the working tree's source text (Python `ast`, never
importing it) into `QuriVerif/Generated/C14Src.lean`:

  chem/mol/non_relativistic_models.py   to_spatial_mo1int (matrix product), to_spatial_mo2int (transpose axes, tensordot
                                        operands / axes), effective core energy / 1e / 2e (np.ix_ arguments, trace axes,
                                        coefficients, signs), the two spin-expansion loops (range, index definitions,
                                        assignment patterns)
  pyscf/mol/non_relativistic.py         every `.transpose(...)` (chemist → physicist)
  openfermion/mol/hamiltonian.py        get_fermionic_hamiltonian (divisor, constructor arguments)

`srcDiff` (evaluated by the driver) lists the fields that differ from `QV.C14.modelShape`, the shape the Lean model implements.
A difference is NOT a failed obligation by itself (an equivalent refactoring must not raise an alarm; the behavioural tie is the
bit-exact correspondence): it makes the harness multiply the correspondence and oracle budgets and is recorded in the evidence.
Anything the translator cannot read becomes "unparsed:<what>" / an empty list in the corresponding field and is returned in
`problems`.
"""
from __future__ import annotations

import ast
import os

REPO = os.environ.get("VERIF_REPO", "/repo")
NR = "packages/chem/quri_parts/chem/mol/non_relativistic_models.py"
PY = "packages/pyscf/quri_parts/pyscf/mol/non_relativistic.py"
HAM = "packages/openfermion/quri_parts/openfermion/mol/hamiltonian.py"


FIELDS = ['ao1', 'ao2AxesIn', 'ao2Dots', 'ao2AxesOut', 'effE', 'effERet', 'eff1', 'eff1Out', 'eff2Ix', 'spinLoops', 'spinDefs', 'spin1', 'spin2', 'pyscfTransposes', 'hamDivisor', 'hamArgs']


class Unparsed(Exception):
    pass


def parse(rel: str) -> ast.Module:
    with open(os.path.join(REPO, rel)) as f:
        return ast.parse(f.read())


def text(node) -> str:
    return ast.unparse(node).replace(" ", "")


def find_func(tree, name, cls=None):
    body = tree.body
    if cls is not None:
        c = [n for n in body if isinstance(n, ast.ClassDef) and n.name == cls]
        if not c:
            raise Unparsed(f"class {cls} not found")
        body = c[0].body
    f = [n for n in body if isinstance(n, ast.FunctionDef) and n.name == name]
    if not f:
        raise Unparsed(f"function {name} not found")
    return f[0]


def stmts(fn):
    """body without the docstring"""
    b = fn.body
    if b and isinstance(b[0], ast.Expr) and isinstance(b[0].value, ast.Constant) and isinstance(b[0].value.value, str):
        b = b[1:]
    return b


def const_ints(nodes) -> list[int]:
    out = []
    for a in nodes:
        if isinstance(a, ast.Constant) and isinstance(a.value, int) and not isinstance(a.value, bool):
            out.append(a.value)
        else:
            raise Unparsed("non-literal axis " + text(a))
    return out


# ---------------------------------------------------------------------------
def ao1(tree):
    fn = find_func(tree, "to_spatial_mo1int", "AO1eIntArray")
    names = {"mo_coeff.conjugate().T": "conj(C).T", "mo_coeff.conj().T": "conj(C).T", "self._ao1eint_array": "ao", "mo_coeff": "C"}
    arg = fn.args.args[1].arg
    if arg != "mo_coeff":
        names = {k.replace("mo_coeff", arg): v for k, v in names.items()}
    body = stmts(fn)
    if len(body) != 2 or not isinstance(body[0], ast.Assign) or not isinstance(body[1], ast.Return):
        raise Unparsed("to_spatial_mo1int: expected one assignment and a return")
    var = text(body[0].targets[0])
    if text(body[1].value) != f"SpatialMO1eIntArray({var})":
        raise Unparsed("to_spatial_mo1int: return " + text(body[1].value))

    def flat(e):
        if isinstance(e, ast.BinOp) and isinstance(e.op, ast.MatMult):
            right = names.get(text(e.right), "(" + text(e.right) + ")")
            return flat(e.left) + [right]
        return [names.get(text(e), text(e))]

    return flat(body[0].value)


def ao2(tree):
    fn = find_func(tree, "to_spatial_mo2int", "AO2eIntArray")
    arg = fn.args.args[1].arg
    body = stmts(fn)
    if not body or not isinstance(body[-1], ast.Return):
        raise Unparsed("to_spatial_mo2int: no return")
    seq = []
    var = None
    for st in body[:-1]:
        if not isinstance(st, ast.Assign) or len(st.targets) != 1 or not isinstance(st.targets[0], ast.Name):
            raise Unparsed("to_spatial_mo2int: statement " + text(st))
        if var is None:
            var = st.targets[0].id
        if st.targets[0].id != var:
            raise Unparsed("to_spatial_mo2int: second variable " + st.targets[0].id)
        v = st.value
        if isinstance(v, ast.Call) and isinstance(v.func, ast.Attribute) and v.func.attr == "transpose":
            seq.append(("T", text(v.func.value), const_ints(v.args)))
        elif isinstance(v, ast.Call) and text(v.func) in ("tensordot", "np.tensordot") and len(v.args) == 2:
            m, t = text(v.args[0]), text(v.args[1])
            if t != var:
                raise Unparsed("tensordot second operand " + t)
            if m == arg:
                cj = False
            elif m in (arg + ".conjugate()", arg + ".conj()"):
                cj = True
            else:
                raise Unparsed("tensordot first operand " + m)
            ax = [k.value for k in v.keywords if k.arg == "axes"]
            if len(ax) != 1 or not isinstance(ax[0], ast.Tuple) or len(ax[0].elts) != 2:
                raise Unparsed("tensordot axes")
            a0, a1 = ax[0].elts
            if not all(isinstance(x, (ast.List, ast.Tuple)) and len(x.elts) == 1 for x in (a0, a1)):
                raise Unparsed("tensordot axes " + text(ax[0]))
            seq.append(("D", cj, const_ints(a0.elts)[0], const_ints(a1.elts)[0]))
        else:
            raise Unparsed("to_spatial_mo2int: statement " + text(st))
    if text(body[-1].value) != f"SpatialMO2eIntArray({var})":
        raise Unparsed("to_spatial_mo2int: return " + text(body[-1].value))
    if len(seq) < 2 or seq[0][0] != "T" or seq[-1][0] != "T" or seq[0][1] != "self._ao2eint_array" or seq[-1][1] != var:
        raise Unparsed("to_spatial_mo2int: expected transpose … transpose")
    dots = seq[1:-1]
    if any(d[0] != "D" for d in dots):
        raise Unparsed("to_spatial_mo2int: transpose in the middle")
    return seq[0][2], [(d[1], d[2], d[3]) for d in dots], seq[-1][2]


IDX_NAMES = {"core_spatial_orb_idx": "core", "active_spatial_orb_idx": "active", "full_idx": "full"}


def ix_args(call) -> list[str]:
    if not (isinstance(call, ast.Call) and text(call.func) == "np.ix_"):
        raise Unparsed("expected np.ix_: " + text(call))
    out = []
    for a in call.args:
        t = text(a)
        if isinstance(a, ast.Call) and text(a.func) == "np.asarray" and a.args:
            t = text(a.args[0])
        if t not in IDX_NAMES:
            raise Unparsed("np.ix_ argument " + t)
        out.append(IDX_NAMES[t])
    return out


def norm_expr(e, env) -> str:
    """trace / subscript expressions of the effective-core formulas"""
    if isinstance(e, ast.Name):
        if e.id in env:
            return env[e.id]
        raise Unparsed("name " + e.id)
    if isinstance(e, ast.Call) and text(e.func) in ("trace", "np.trace"):
        inner = norm_expr(e.args[0], env)
        kw = {k.arg: k.value for k in e.keywords}
        if not kw and len(e.args) == 1:
            return f"trace({inner})"
        if set(kw) == {"axis1", "axis2"} and len(e.args) == 1:
            a = const_ints([kw["axis1"], kw["axis2"]])
            return f"trace({inner},{a[0]},{a[1]})"
        raise Unparsed("trace arguments " + text(e))
    if isinstance(e, ast.Subscript) and isinstance(e.value, ast.Name) and e.value.id in ("mo_1e_int", "mo_2e_int"):
        base = "h" if e.value.id == "mo_1e_int" else "g"
        sl = e.slice
        if isinstance(sl, ast.Name) and sl.id in env:
            return f"{base}[{env[sl.id]}]"
        return f"{base}[{','.join(ix_args(sl))}]"
    raise Unparsed("expression " + text(e))


def coef_times(e):
    """c * expr → (c, expr)"""
    if isinstance(e, ast.BinOp) and isinstance(e.op, ast.Mult) and isinstance(e.left, ast.Constant) and isinstance(e.left.value, int):
        return e.left.value, e.right
    raise Unparsed("expected <int> * <expr>: " + text(e))


def eff_e(tree):
    fn = find_func(tree, "get_effective_active_space_core_energy")
    env = {}
    terms = []
    init = None
    ret = None
    for st in stmts(fn):
        if isinstance(st, ast.Assign) and len(st.targets) == 1 and isinstance(st.targets[0], ast.Name):
            n, v = st.targets[0].id, st.value
            if n == "delta_E":
                init = text(v)
            elif isinstance(v, ast.Call) and text(v.func) == "np.ix_":
                env[n] = ",".join(ix_args(v))
            else:
                env[n] = norm_expr(v, env)
        elif isinstance(st, ast.AugAssign) and text(st.target) == "delta_E" and isinstance(st.op, (ast.Add, ast.Sub)):
            c, e = coef_times(st.value)
            terms.append((isinstance(st.op, ast.Add), c, norm_expr(e, env)))
        elif isinstance(st, ast.Return):
            ret = text(st.value)
        else:
            raise Unparsed("core energy: statement " + text(st))
    if init != "0":
        raise Unparsed(f"core energy: delta_E starts at {init}")
    return terms, ret or "unparsed:no-return"


def eff_1(tree):
    fn = find_func(tree, "get_effective_active_space_1e_integrals")
    env = {}
    acc = None
    upd = []
    out = None
    full_ok = False
    for st in stmts(fn):
        if isinstance(st, ast.Assign) and len(st.targets) == 1 and isinstance(st.targets[0], ast.Name):
            n, v = st.targets[0].id, st.value
            if n == "full_idx":
                if text(v) not in ("arange(mo_1e_int.shape[0])", "np.arange(mo_1e_int.shape[0])"):
                    raise Unparsed("full_idx = " + text(v))
                full_ok = True
            elif isinstance(v, ast.Call) and text(v.func) == "np.ix_":
                env[n] = ix_args(v)
            elif text(v) == "mo_1e_int.copy()":
                acc = n
            elif isinstance(v, ast.Call) and text(v.func) == "np.array" and isinstance(v.args[0], ast.Subscript) \
                    and text(v.args[0].value) == acc:
                out = (n, ix_args(v.args[0].slice))
            else:
                raise Unparsed("1e integrals: assignment " + text(st))
        elif isinstance(st, ast.AugAssign) and acc and text(st.target) == acc and isinstance(st.op, (ast.Add, ast.Sub)):
            c, e = coef_times(st.value)
            if not (isinstance(e, ast.Call) and text(e.func) in ("trace", "np.trace") and len(e.args) == 1):
                raise Unparsed("1e integrals: update " + text(st))
            sub = e.args[0]
            if not (isinstance(sub, ast.Subscript) and text(sub.value) == "mo_2e_int" and isinstance(sub.slice, ast.Name)
                    and sub.slice.id in env):
                raise Unparsed("1e integrals: traced array " + text(sub))
            kw = {k.arg: k.value for k in e.keywords}
            if set(kw) != {"axis1", "axis2"}:
                raise Unparsed("1e integrals: trace axes")
            a = const_ints([kw["axis1"], kw["axis2"]])
            upd.append((isinstance(st.op, ast.Add), c, env[sub.slice.id], a[0], a[1]))
        elif isinstance(st, ast.Return):
            if out is None or text(st.value) != out[0]:
                raise Unparsed("1e integrals: return " + text(st.value))
        else:
            raise Unparsed("1e integrals: statement " + text(st))
    if not full_ok or out is None:
        raise Unparsed("1e integrals: full_idx / result missing")
    return upd, out[1]


def eff_2(tree):
    fn = find_func(tree, "get_effective_active_space_2e_integrals")
    body = stmts(fn)
    if len(body) != 2 or not isinstance(body[0], ast.Assign) or not isinstance(body[1], ast.Return):
        raise Unparsed("2e integrals: shape")
    v = body[0].value
    if not (isinstance(v, ast.Subscript) and text(v.value) == "mo_2e_int"):
        raise Unparsed("2e integrals: " + text(v))
    r = body[1].value
    if not (isinstance(r, ast.Call) and text(r.func) == "np.array" and text(r.args[0]) == text(body[0].targets[0])):
        raise Unparsed("2e integrals: return " + text(r))
    return ix_args(v.slice)


def spin_loop(tree, name, arr_out, arr_in):
    fn = find_func(tree, name)
    loops = [s for s in stmts(fn) if isinstance(s, ast.For)]
    if len(loops) != 1:
        raise Unparsed(name + ": expected one loop")
    lp = loops[0]
    it = lp.iter
    if not (isinstance(it, ast.Call) and text(it.func) in ("product", "itertools.product") and len(it.args) == 1):
        raise Unparsed(name + ": loop iterator " + text(it))
    rng = it.args[0]
    if not (isinstance(rng, ast.Call) and text(rng.func) == "range" and len(rng.args) == 1):
        raise Unparsed(name + ": loop range " + text(rng))
    rep = [k.value for k in it.keywords if k.arg == "repeat"]
    loop = (text(rng.args[0]), const_ints(rep)[0])
    lvars = [text(t) for t in lp.target.elts] if isinstance(lp.target, ast.Tuple) else [text(lp.target)]
    defs, assigns = [], []
    for st in lp.body:
        if isinstance(st, ast.Assign) and len(st.targets) == 1 and isinstance(st.targets[0], ast.Tuple) and isinstance(st.value, ast.Tuple):
            for t, v in zip(st.targets[0].elts, st.value.elts):
                off = 0
                if isinstance(v, ast.BinOp) and isinstance(v.op, ast.Add) and isinstance(v.right, ast.Constant):
                    off, v = v.right.value, v.left
                if not (isinstance(v, ast.BinOp) and isinstance(v.op, ast.Mult) and isinstance(v.left, ast.Constant)
                        and isinstance(v.right, ast.Name) and v.right.id in lvars and isinstance(off, int) and off >= 0):
                    raise Unparsed(name + ": index definition " + text(st))
                defs.append((text(t), v.left.value, v.right.id, off))
        elif isinstance(st, ast.Assign) and len(st.targets) == 1 and isinstance(st.targets[0], ast.Subscript):
            t, v = st.targets[0], st.value
            if text(t.value) != arr_out or not (isinstance(v, ast.Subscript) and text(v.value) == arr_in):
                raise Unparsed(name + ": assignment " + text(st))
            ti = [text(x) for x in (t.slice.elts if isinstance(t.slice, ast.Tuple) else [t.slice])]
            vi = [text(x) for x in (v.slice.elts if isinstance(v.slice, ast.Tuple) else [v.slice])]
            assigns.append((ti, vi))
        else:
            raise Unparsed(name + ": loop statement " + text(st))
    return loop, defs, assigns


def pyscf_transposes(tree):
    out = []
    for node in ast.walk(tree):
        if isinstance(node, ast.Call) and isinstance(node.func, ast.Attribute) and node.func.attr == "transpose":
            out.append((node.lineno, const_ints(node.args)))
    return [a for _, a in sorted(out)]


def hamiltonian(tree):
    fn = find_func(tree, "get_fermionic_hamiltonian")
    arg = fn.args.args[0].arg
    env = {}
    div = None
    ret = None
    for st in stmts(fn):
        if isinstance(st, ast.Assign) and len(st.targets) == 1 and isinstance(st.targets[0], ast.Name):
            n, v = st.targets[0].id, st.value
            if isinstance(v, ast.BinOp) and isinstance(v.op, ast.Div) and isinstance(v.right, ast.Constant) and isinstance(v.right.value, int):
                div = v.right.value
                env[n] = text(v.left) + f"/{div}"
            else:
                env[n] = text(v)
        elif isinstance(st, ast.Return):
            ret = st.value
        else:
            raise Unparsed("get_fermionic_hamiltonian: statement " + text(st))
    if not (isinstance(ret, ast.Call) and text(ret.func) == "InteractionOperator") or ret.keywords:
        raise Unparsed("get_fermionic_hamiltonian: return")
    args = []
    for a in ret.args:
        t = env.get(text(a), text(a))
        t = t.replace(arg + ".", "").replace(".array", "")
        args.append(t)
    return div if div is not None else 1, args


# ---------------------------------------------------------------------------
def lean_str(s: str) -> str:
    return '"' + s.replace("\\", "\\\\").replace('"', '\\"') + '"'


def lean_list(xs, f) -> str:
    return "[" + ", ".join(f(x) for x in xs) + "]"


def lean_bool(b) -> str:
    return "true" if b else "false"


def generate():
    """returns (lean text, number of entries, problems)"""
    problems = []
    entries = 0

    def attempt(what, fn, default):
        nonlocal entries
        try:
            v = fn()
            entries += 1
            return v
        except Unparsed as e:
            problems.append((what, str(e)))
        except (OSError, SyntaxError, IndexError, AttributeError, KeyError, TypeError) as e:
            problems.append((what, f"{type(e).__name__}: {e}"))
        return default

    try:
        nr = parse(NR)
    except (OSError, SyntaxError) as e:
        nr = ast.parse("")
        problems.append(("non_relativistic_models", str(e)))
    try:
        py = parse(PY)
    except (OSError, SyntaxError) as e:
        py = ast.parse("")
        problems.append(("pyscf.non_relativistic", str(e)))
    try:
        ham = parse(HAM)
    except (OSError, SyntaxError) as e:
        ham = ast.parse("")
        problems.append(("hamiltonian", str(e)))

    v_ao1 = attempt("ao1", lambda: ao1(nr), ["unparsed:ao1"])
    v_ao2 = attempt("ao2", lambda: ao2(nr), ([], [], []))
    v_effe = attempt("effE", lambda: eff_e(nr), ([], "unparsed:effE"))
    v_eff1 = attempt("eff1", lambda: eff_1(nr), ([], ["unparsed:eff1"]))
    v_eff2 = attempt("eff2", lambda: eff_2(nr), ["unparsed:eff2"])
    l1 = attempt("spin1", lambda: spin_loop(nr, "spatial_mo_1e_int_to_spin_mo_1e_int", "spin_1e_integrals", "spatial_1e_integrals"),
                 (("unparsed:spin1", 0), [], []))
    l2 = attempt("spin2", lambda: spin_loop(nr, "spatial_mo_2e_int_to_spin_mo_2e_int", "spin_2e_integrals", "spatial_2e_integrals"),
                 (("unparsed:spin2", 0), [], []))
    v_py = attempt("pyscf", lambda: pyscf_transposes(py), [])
    v_ham = attempt("hamiltonian", lambda: hamiltonian(ham), (0, ["unparsed:hamiltonian"]))
    entries += len(v_ao2[1]) + len(v_effe[0]) + len(v_eff1[0]) + len(l1[2]) + len(l2[2]) + len(v_py)

    def pair_ss(p):
        return f"({lean_list(p[0], lean_str)}, {lean_list(p[1], lean_str)})"

    lines = [
        "import QuriVerif.Model.C14",
        "/- GENERATED by translate/c14gen.py from the working tree's source text – do not edit -/",
        "namespace QV.Gen.C14",
        "open QV.C14",
        "",
        "def src : SrcShape where",
        f"  ao1 := {lean_list(v_ao1, lean_str)}",
        f"  ao2AxesIn := {lean_list(v_ao2[0], str)}",
        f"  ao2Dots := {lean_list(v_ao2[1], lambda d: f'({lean_bool(d[0])}, {d[1]}, {d[2]})')}",
        f"  ao2AxesOut := {lean_list(v_ao2[2], str)}",
        f"  effE := {lean_list(v_effe[0], lambda t: f'({lean_bool(t[0])}, {t[1]}, {lean_str(t[2])})')}",
        f"  effERet := {lean_str(v_effe[1])}",
        f"  eff1 := {lean_list(v_eff1[0], lambda t: f'({lean_bool(t[0])}, {t[1]}, {lean_list(t[2], lean_str)}, {t[3]}, {t[4]})')}",
        f"  eff1Out := {lean_list(v_eff1[1], lean_str)}",
        f"  eff2Ix := {lean_list(v_eff2, lean_str)}",
        f"  spinLoops := {lean_list([l1[0], l2[0]], lambda t: f'({lean_str(t[0])}, {t[1]})')}",
        f"  spinDefs := {lean_list(l1[1] + l2[1], lambda t: f'({lean_str(t[0])}, {t[1]}, {lean_str(t[2])}, {t[3]})')}",
        f"  spin1 := {lean_list(l1[2], pair_ss)}",
        f"  spin2 := {lean_list(l2[2], pair_ss)}",
        f"  pyscfTransposes := {lean_list(v_py, lambda a: lean_list(a, str))}",
        f"  hamDivisor := {v_ham[0]}",
        f"  hamArgs := {lean_list(v_ham[1], lean_str)}",
        "",
        "/-- the fields in which the source text no longer has the shape the Lean model implements (read by the harness through the driver) -/",
        "def srcDiff : List String :=",
        "  " + " ++ ".join(f"(if src.{f} = modelShape.{f} then [] else [\"{f}\"])" for f in FIELDS),
        "",
        "end QV.Gen.C14",
        "",
    ]
    return "\n".join(lines), entries, problems


if __name__ == "__main__":
    t, n, p = generate()
    print(t)
    print("-- entries", n, "problems", p)
