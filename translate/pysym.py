"""Symbolic evaluator for the small Python subset in which quri-parts writes its
gate rewrite templates.  It reads *source text* (stdlib `ast`) of the working
tree – nothing is imported or executed.

Values
  Wire(name)                     symbolic qubit index
  Aff(vars, pi, rat)             affine angle  Σ c·var + pi·π + rat   (Fractions)
  tuple/list of values
  SymGate                        the symbolic input gate
  GateV(kind, controls, targets, params, paulis)  a constructed gate

Anything outside the subset raises Unparsed – the caller turns that into an
undischargeable obligation (never a silent omission).
"""
from __future__ import annotations

import ast
from dataclasses import dataclass, field
from fractions import Fraction


class Unparsed(Exception):
    pass


class NoReturn(Unparsed):
    pass


@dataclass(frozen=True)
class Wire:
    name: str


@dataclass
class Aff:
    vars: dict
    pi: Fraction = Fraction(0)
    rat: Fraction = Fraction(0)

    @staticmethod
    def const(x) -> "Aff":
        return Aff({}, Fraction(0), Fraction(x).limit_denominator(10**9) if isinstance(x, float) else Fraction(x))

    @staticmethod
    def var(n: str) -> "Aff":
        return Aff({n: Fraction(1)})

    def is_rat(self) -> bool:
        return not self.vars and self.pi == 0

    def __add__(self, o: "Aff") -> "Aff":
        v = dict(self.vars)
        for k, c in o.vars.items():
            v[k] = v.get(k, Fraction(0)) + c
        return Aff({k: c for k, c in v.items() if c != 0}, self.pi + o.pi, self.rat + o.rat)

    def scale(self, r: Fraction) -> "Aff":
        return Aff({k: c * r for k, c in self.vars.items() if c * r != 0}, self.pi * r, self.rat * r)

    def __neg__(self) -> "Aff":
        return self.scale(Fraction(-1))

    def mul(self, o: "Aff") -> "Aff":
        if o.is_rat():
            return self.scale(o.rat)
        if self.is_rat():
            return o.scale(self.rat)
        raise Unparsed("non-linear angle expression")

    def div(self, o: "Aff") -> "Aff":
        if o.is_rat() and o.rat != 0:
            return self.scale(1 / o.rat)
        raise Unparsed("division by non-constant")


@dataclass
class GateV:
    kind: str
    controls: list
    targets: list
    params: list
    paulis: list = field(default_factory=list)
    same_as_input: bool = False  # `gate` itself returned unchanged
    matrix: object = None


@dataclass(frozen=True)
class FactoryRef:
    name: str


@dataclass(frozen=True)
class MatSym:
    """the unitary_matrix of the symbolic input gate with a sequence of operations applied"""
    ops: tuple = ()


@dataclass
class SymGate:
    kind: str
    controls: tuple
    targets: tuple
    params: tuple
    paulis: tuple = ()


# factory signatures  (validated against the real factories by harness/c01.py)
ONE_Q = ["Identity", "X", "Y", "Z", "H", "S", "Sdag", "SqrtX", "SqrtXdag", "SqrtY", "SqrtYdag", "T", "Tdag"]
ROT = ["RX", "RY", "RZ", "U1"]
FACTORY = {}
for _k in ONE_Q:
    FACTORY[_k] = ("t",)
for _k in ROT:
    FACTORY[_k] = ("t", "p")
FACTORY["U2"] = ("t", "p", "p")
FACTORY["U3"] = ("t", "p", "p", "p")
FACTORY["CNOT"] = ("c", "t")
FACTORY["CZ"] = ("c", "t")
FACTORY["SWAP"] = ("t", "t")
FACTORY["TOFFOLI"] = ("c", "c", "t")
FACTORY["Pauli"] = ("T", "I")
FACTORY["PauliRotation"] = ("T", "I", "p")
FACTORY["UnitaryMatrix"] = ("T", "M")

ARITY = {k: (0, 1, 0) for k in ONE_Q}  # controls, targets, params
ARITY.update({"RX": (0, 1, 1), "RY": (0, 1, 1), "RZ": (0, 1, 1), "U1": (0, 1, 1), "U2": (0, 1, 2), "U3": (0, 1, 3),
              "CNOT": (1, 1, 0), "CZ": (1, 1, 0), "SWAP": (0, 2, 0), "TOFFOLI": (2, 1, 0)})


def sym_gate(kind: str, extra_arity=None) -> SymGate:
    ar = (extra_arity or {}).get(kind) or ARITY.get(kind)
    if ar is None:
        raise Unparsed(f"no arity for target kind {kind}")
    nc, nt, np_ = ar
    return SymGate(kind, tuple(Wire(f"c{i}") for i in range(nc)), tuple(Wire(f"t{i}") for i in range(nt)),
                   tuple(Aff.var(f"p{i}") for i in range(np_)))


class Evaluator:
    """evaluates a function body; `env` maps names to values"""

    PI_NAMES = {("np", "pi"), ("numpy", "pi"), ("math", "pi")}

    def __init__(self, env: dict, gate_modules=("gates", "gf"), extra_factories=None, consts=None):
        self.env = dict(env)
        self.gate_modules = set(gate_modules)
        self.factories = dict(FACTORY)
        if extra_factories:
            self.factories.update(extra_factories)
        self.consts = consts or {}
        self.used_mod_2pi = False
        self.predicates = {}

    # ---- expressions ----------------------------------------------------
    def ev(self, e):
        if isinstance(e, ast.Constant):
            if isinstance(e.value, bool) or e.value is None or isinstance(e.value, str):
                return e.value
            if isinstance(e.value, (int, float)):
                return Aff.const(e.value)
            raise Unparsed(f"constant {e.value!r}")
        if isinstance(e, ast.Name):
            if e.id in self.env:
                return self.env[e.id]
            if e.id == "pi":
                return Aff({}, Fraction(1))
            if e.id in self.consts:
                return self.consts[e.id]
            raise Unparsed(f"unknown name {e.id}")
        if isinstance(e, ast.Attribute):
            if isinstance(e.value, ast.Name) and (e.value.id, e.attr) in self.PI_NAMES:
                return Aff({}, Fraction(1))
            if isinstance(e.value, ast.Name) and e.value.id == "gate_names":
                return e.attr
            if isinstance(e.value, ast.Name) and e.value.id in self.gate_modules and e.attr in self.factories:
                return FactoryRef(e.attr)
            base = self.ev(e.value)
            if isinstance(base, MatSym):
                if e.attr == "T":
                    return MatSym(base.ops + ("T",))
                raise Unparsed(f"matrix attribute {e.attr}")
            if isinstance(base, (SymGate, GateV)):
                if e.attr == "target_indices":
                    return tuple(base.targets)
                if e.attr == "control_indices":
                    return tuple(base.controls)
                if e.attr == "params":
                    return tuple(base.params)
                if e.attr == "name":
                    return base.kind
                if e.attr == "pauli_ids":
                    return tuple(base.paulis)
                if e.attr in ("classical_indices",):
                    return ()
                if e.attr == "unitary_matrix":
                    return MatSym()
            raise Unparsed(f"attribute {ast.unparse(e)}")
        if isinstance(e, ast.Subscript):
            base = self.ev(e.value)
            idx = e.slice
            if isinstance(idx, ast.Constant) and isinstance(idx.value, int) and isinstance(base, (tuple, list)):
                try:
                    return base[idx.value]
                except IndexError:
                    raise Unparsed("index out of range")
            if isinstance(base, dict):
                k = self.ev(idx)
                if isinstance(k, (str, int)) and k in base:
                    return base[k]
                raise Unparsed(f"key {k!r} not in table")
            raise Unparsed(f"subscript {ast.unparse(e)}")
        if isinstance(e, ast.UnaryOp):
            v = self.ev(e.operand)
            if isinstance(e.op, ast.USub) and isinstance(v, Aff):
                return -v
            if isinstance(e.op, ast.UAdd) and isinstance(v, Aff):
                return v
            if isinstance(e.op, ast.Not) and isinstance(v, bool):
                return not v
            raise Unparsed(f"unary {ast.unparse(e)}")
        if isinstance(e, ast.BinOp):
            a, b = self.ev(e.left), self.ev(e.right)
            if isinstance(a, Aff) and isinstance(b, Aff):
                if isinstance(e.op, ast.Add):
                    return a + b
                if isinstance(e.op, ast.Sub):
                    return a + (-b)
                if isinstance(e.op, ast.Mult):
                    return a.mul(b)
                if isinstance(e.op, ast.Div):
                    return a.div(b)
                if isinstance(e.op, ast.Mod) and b.is_rat() is False and not b.vars and b.rat == 0 and b.pi == 2:
                    # θ % 2π : some representative congruent to θ modulo 2π
                    self.used_mod_2pi = True
                    return a
            if isinstance(e.op, ast.Add) and isinstance(a, (list, tuple)) and isinstance(b, (list, tuple)):
                return list(a) + list(b)
            raise Unparsed(f"binop {ast.unparse(e)}")
        if isinstance(e, (ast.List, ast.Tuple)):
            vals = []
            for x in e.elts:
                if isinstance(x, ast.Starred):
                    vals.extend(self.ev(x.value))
                else:
                    vals.append(self.ev(x))
            return vals if isinstance(e, ast.List) else tuple(vals)
        if isinstance(e, ast.Dict):
            return {self.ev(k): self.ev(v) for k, v in zip(e.keys, e.values)}
        if isinstance(e, ast.Set):
            return {self.ev(x) for x in e.elts}
        if isinstance(e, ast.Compare) and len(e.ops) == 1:
            a, b = self.ev(e.left), self.ev(e.comparators[0])
            op = e.ops[0]
            conc = lambda v: isinstance(v, (str, int, bool, tuple, list, dict, set, frozenset)) or v is None
            if isinstance(op, (ast.In, ast.NotIn)) and isinstance(a, str) and isinstance(b, (dict, set, frozenset, list, tuple)):
                r = a in b
                return r if isinstance(op, ast.In) else not r
            if isinstance(op, (ast.Eq, ast.NotEq)) and conc(a) and conc(b) and not isinstance(a, (Aff,)) and not isinstance(b, (Aff,)):
                r = a == b
                return r if isinstance(op, ast.Eq) else not r
            raise Unparsed(f"comparison {ast.unparse(e)}")
        if isinstance(e, ast.BoolOp):
            vals = [self.ev(v) for v in e.values]
            if all(isinstance(v, bool) for v in vals):
                return all(vals) if isinstance(e.op, ast.And) else any(vals)
            raise Unparsed(f"symbolic boolean {ast.unparse(e)}")
        if isinstance(e, (ast.GeneratorExp, ast.ListComp)) and len(e.generators) == 1 and not e.generators[0].ifs:
            gen = e.generators[0]
            it = self.ev(gen.iter)
            if not isinstance(it, (list, tuple)):
                raise Unparsed("comprehension over a non-sequence")
            out = []
            saved = dict(self.env)
            for v in it:
                self.assign(gen.target, v)
                out.append(self.ev(e.elt))
            self.env = saved
            return out
        if isinstance(e, ast.Call):
            return self.call(e)
        raise Unparsed(f"expression {type(e).__name__}: {ast.unparse(e)}")

    def call(self, e: ast.Call):
        f = e.func
        name = None
        if isinstance(f, ast.Attribute) and isinstance(f.value, ast.Name) and f.value.id in self.gate_modules:
            name = f.attr
        elif isinstance(f, ast.Name) and (f.id in self.factories or f.id == "QuantumGate"):
            name = f.id
        if name is None and not (isinstance(f, ast.Name) and f.id in ("tuple", "list", "float", "len")):
            # numpy matrix plumbing of the UnitaryMatrix branch
            if isinstance(f, ast.Attribute) and isinstance(f.value, ast.Name) and f.value.id in ("np", "numpy") and f.attr in ("array", "asarray") and e.args:
                v = self.ev(e.args[0])
                if isinstance(v, MatSym):
                    return v
                raise Unparsed("np.array of a non-matrix")
            if isinstance(f, ast.Attribute) and f.attr in ("conj", "conjugate", "tolist", "copy") and not e.args:
                v = self.ev(f.value)
                if isinstance(v, MatSym):
                    return MatSym(v.ops + ("conj",)) if f.attr in ("conj", "conjugate") else v
                raise Unparsed(f"call {ast.unparse(e)}")
            if isinstance(f, ast.Name) and f.id in self.predicates:
                args = [self.ev(a) for a in e.args]
                return self.predicates[f.id](*args)
            try:
                fv = self.ev(f)
            except Unparsed:
                fv = None
            if isinstance(fv, FactoryRef):
                name = fv.name
        if name is None:
            if isinstance(f, ast.Name) and f.id in ("tuple", "list") and len(e.args) == 1:
                return self.ev(e.args[0])
            if isinstance(f, ast.Name) and f.id == "len" and len(e.args) == 1:
                v = self.ev(e.args[0])
                if isinstance(v, (list, tuple)):
                    return Aff.const(len(v))
            if isinstance(f, ast.Name) and f.id == "float" and len(e.args) == 1:
                return self.ev(e.args[0])
            raise Unparsed(f"call {ast.unparse(e)}")
        if name == "QuantumGate":
            kw = {k.arg: self.ev(k.value) for k in e.keywords}
            order = ["name", "target_indices", "control_indices", "classical_indices", "params", "pauli_ids",
                     "unitary_matrix"]
            for i, a in enumerate(e.args):
                kw[order[i]] = self.ev(a)
            kind = kw.get("name")
            if not isinstance(kind, str):
                raise Unparsed("QuantumGate with non-literal name")
            return GateV(kind, list(kw.get("control_indices", ())), list(kw.get("target_indices", ())),
                         list(kw.get("params", ())), list(kw.get("pauli_ids", ())))
        if name not in self.factories:
            raise Unparsed(f"unknown gate factory {name}")
        sig = self.factories[name]
        if e.keywords:
            raise Unparsed("keyword arguments to gate factory")
        args = []
        for a in e.args:
            if isinstance(a, ast.Starred):
                args.extend(self.ev(a.value))
            else:
                args.append(self.ev(a))
        if len(args) != len(sig):
            raise Unparsed(f"{name}: {len(args)} args for signature {sig}")
        g = GateV(name, [], [], [])
        for s, a in zip(sig, args):
            if s == "t":
                if not isinstance(a, Wire):
                    raise Unparsed(f"{name}: target is not a wire")
                g.targets.append(a)
            elif s == "c":
                if not isinstance(a, Wire):
                    raise Unparsed(f"{name}: control is not a wire")
                g.controls.append(a)
            elif s == "p":
                if not isinstance(a, Aff):
                    raise Unparsed(f"{name}: angle is not affine")
                g.params.append(a)
            elif s == "T":
                g.targets.extend(a)
            elif s == "I":
                g.paulis.extend(a)
            elif s == "M":
                if not isinstance(a, MatSym):
                    raise Unparsed(f"{name}: matrix argument is not derived from the input matrix")
                g.matrix = a
        return g

    # ---- statements -----------------------------------------------------
    def assign(self, target, val):
        if isinstance(target, ast.Name):
            self.env[target.id] = val
        elif isinstance(target, (ast.Tuple, ast.List)):
            if not isinstance(val, (tuple, list)) or len(val) != len(target.elts):
                raise Unparsed("tuple unpacking mismatch")
            for t, v in zip(target.elts, val):
                self.assign(t, v)
        else:
            raise Unparsed("assignment target")

    def run(self, body):
        """returns the value of the `return` statement"""
        for st in body:
            if isinstance(st, ast.Expr) and isinstance(st.value, ast.Constant):
                continue
            if isinstance(st, ast.Assign):
                v = self.ev(st.value)
                for t in st.targets:
                    self.assign(t, v)
                continue
            if isinstance(st, ast.AnnAssign) and st.value is not None:
                self.assign(st.target, self.ev(st.value))
                continue
            if isinstance(st, ast.Return):
                return self.ev(st.value)
            if isinstance(st, ast.If):
                t = self.ev(st.test)
                if not isinstance(t, bool):
                    raise Unparsed(f"symbolic condition {ast.unparse(st.test)}")
                try:
                    return self.run(st.body if t else st.orelse)
                except NoReturn:
                    continue
            raise Unparsed(f"statement {type(st).__name__}")
        raise NoReturn("no return")


def find_classes(tree: ast.Module):
    return [n for n in tree.body if isinstance(n, ast.ClassDef)]


def method(cls: ast.ClassDef, name: str):
    for n in cls.body:
        if isinstance(n, ast.FunctionDef) and n.name == name:
            return n
    return None


def target_names(cls: ast.ClassDef, module_consts=None):
    """value of the `target_gate_names` property: list of gate-name strings"""
    m = method(cls, "target_gate_names")
    if m is None:
        return None
    ev = Evaluator({}, consts=module_consts or {})
    try:
        v = ev.run(m.body)
    except Unparsed:
        return None
    if isinstance(v, (list, tuple)) and all(isinstance(x, str) for x in v):
        return list(v)
    return None
