"""C20 translator: classifies the *shapes* of the aliasing-relevant functions of the Rust sources
(`packages/rust/src/circuit/circuit.rs`, `circuit_parametric.rs`) and of the Python wrappers
(`circuit_linear_mapped.py`, `parameter_mapping.py`, `state.py`, `state_parametric.py`, the two
content-keyed caches) and writes them as Lean data (`Generated/C20Shapes.lean`).

The Rust extension cannot be rebuilt, so for Rust the text is the only tie to the working tree: every
function body is normalised (comments and all whitespace removed, trailing commas dropped) and compared
with a small catalogue of normalised bodies; a body that is not in the catalogue becomes `unknown`
(→ the generated obligation `known_ok` is false and the proof breaks).  Python wrappers are classified
on their `ast` (they are additionally executed by the correspondence harness).
This module never imports quri-parts.
"""
from __future__ import annotations

import ast
import os
import re

REPO = os.environ.get("VERIF_REPO", "/repo")
CIRC_RS = "packages/rust/src/circuit/circuit.rs"
PARAM_RS = "packages/rust/src/circuit/circuit_parametric.rs"
LM_PY = "packages/circuit/quri_parts/circuit/circuit_linear_mapped.py"
PM_PY = "packages/circuit/quri_parts/circuit/parameter_mapping.py"
STATE_PY = "packages/core/quri_parts/core/state/state.py"
PSTATE_PY = "packages/core/quri_parts/core/state/state_parametric.py"
MEAS_PY = "packages/core/quri_parts/core/measurement/__init__.py"
QOP_PY = "packages/qulacs/quri_parts/qulacs/operator/__init__.py"


def _read(rel: str) -> str:
    with open(os.path.join(REPO, rel)) as f:
        return f.read()


# ----------------------------------------------------------------------------------------------
# Rust: block extraction by brace matching (no Rust parser is available)
# ----------------------------------------------------------------------------------------------
def strip_comments(src: str) -> str:
    out = []
    i, n = 0, len(src)
    while i < n:
        c = src[i]
        if src.startswith("//", i):
            j = src.find("\n", i)
            i = n if j < 0 else j
        elif src.startswith("/*", i):
            j = src.find("*/", i + 2)
            i = n if j < 0 else j + 2
        elif src.startswith('r#"', i):
            j = src.find('"#', i + 3)
            j = n if j < 0 else j + 2
            out.append('""')
            i = j
        elif c == '"':
            j = i + 1
            while j < n and src[j] != '"':
                j += 2 if src[j] == "\\" else 1
            out.append('""')
            i = j + 1
        elif c == "'" and i + 2 < n and src[i + 2] == "'":  # char literal
            out.append("' '")
            i += 3
        else:
            out.append(c)
            i += 1
    return "".join(out)


def match_brace(src: str, open_idx: int) -> int:
    """index just after the brace matching src[open_idx] == '{'"""
    depth = 0
    for i in range(open_idx, len(src)):
        if src[i] == "{":
            depth += 1
        elif src[i] == "}":
            depth -= 1
            if depth == 0:
                return i + 1
    raise ValueError("unbalanced braces")


def impl_blocks(src: str, ty: str) -> list[str]:
    """bodies of every `impl <ty> {` block (inherent impls only)"""
    out = []
    for m in re.finditer(r"\bimpl\s+" + re.escape(ty) + r"\s*\{", src):
        o = m.end() - 1
        out.append(src[o + 1 : match_brace(src, o) - 1])
    return out


def fn_bodies(block: str, name: str) -> list[tuple[str, str]]:
    """(signature, body) of every `fn name` at the top nesting level of an impl block"""
    out = []
    depth = 0
    i = 0
    n = len(block)
    pat = re.compile(r"\bfn\s+" + re.escape(name) + r"\b")
    while i < n:
        c = block[i]
        if c == "{":
            depth += 1
        elif c == "}":
            depth -= 1
        elif depth == 0:
            m = pat.match(block, i)
            if m:
                # the body starts at the first '{' at paren-depth 0 after the signature
                j = m.end()
                pd = 0
                while j < n:
                    if block[j] in "(<[":
                        pd += 1 if block[j] != "<" else 0
                    if block[j] in ")]":
                        pd -= 1
                    if block[j] == "{" and pd == 0:
                        break
                    j += 1
                e = match_brace(block, j)
                out.append((block[m.start() : j], block[j + 1 : e - 1]))
                i = e
                continue
        i += 1
    return out


def norm(s: str) -> str:
    s = re.sub(r"\s+", "", s)
    s = s.replace(",)", ")").replace(",}", "}").replace(",]", "]")
    return s


def rust_fn(src: str, ty: str, name: str) -> str | None:
    """normalised body of `impl ty { fn name }`; None if absent or ambiguous"""
    found = []
    for b in impl_blocks(src, ty):
        found += fn_bodies(b, name)
    if len(found) != 1:
        return None
    return norm(found[0][1])


def count_fns(src: str, ty: str) -> list[str]:
    """independent list of fn names declared in `impl ty` blocks (entry-count cross check)"""
    names = []
    for b in impl_blocks(src, ty):
        depth = 0
        for m in re.finditer(r"[{}]|\bfn\s+([A-Za-z_0-9]+)", b):
            t = m.group(0)
            if t == "{":
                depth += 1
            elif t == "}":
                depth -= 1
            elif depth == 0:
                names.append(m.group(1))
    return names


# ----------------------------------------------------------------------------------------------
# catalogue of shapes (normalised bodies).  {M} = name of the mutable subclass, {I} = base class.
# ----------------------------------------------------------------------------------------------
FREEZE = {
    "ifslf.borrow().is_immutable{Ok(slf)}else{letmutcloned=slf.borrow().clone();cloned.is_immutable=true;Bound::new(slf.py(),cloned)}": "cloneUnlessImmutable",
    "letmutcloned=slf.borrow().clone();cloned.is_immutable=true;Bound::new(slf.py(),cloned)": "alwaysClone",
    "Ok(slf)": "alwaysSame",
}
COPY = {
    "Py::new(slf.py(),({M}(),slf.borrow().clone()))": "cloneKeepFlag",
    "letmutcloned=slf.borrow().clone();cloned.is_immutable=false;Py::new(slf.py(),({M}(),cloned))": "cloneResetFlag",
    "letmutcloned=slf.borrow().clone();Py::new(slf.py(),({M}(),cloned))": "cloneKeepFlag",
    "letcloned=slf.borrow().clone();Py::new(slf.py(),({M}(),cloned))": "cloneKeepFlag",
}
_PICKLE = (
    "ifletOk((stub,qubit_count,cbit_count,gates))=args.extract::<(Bound<'py,PyString>,usize,usize,Vec<QuantumGate>)>()"
    "{ifstub.to_str()?==PICKLE_STUB_ARG{returnPy::new(args.py(),Self{qubit_count,cbit_count,gates:BasicBlock(gates.into()),"
    "depth_cache:None,is_immutable:true});}}"
)
CTOR = {
    _PICKLE
    + "letimmut=args.extract::<(Py<{I}>)>()?.0;{letmutborrowed=immut.borrow_mut(args.py());borrowed.is_immutable=true;}Ok(immut)": "aliasSetFlag",
    _PICKLE
    + "letimmut=args.extract::<(Py<{I}>)>()?.0;letmutcloned=immut.borrow(args.py()).clone();cloned.is_immutable=false;Py::new(args.py(),cloned)": "cloneFlagFalse",
    "{I}{qubit_count:circuit.qubit_count,cbit_count:circuit.cbit_count,gates:circuit.gates.clone(),depth_cache:None,is_immutable:false}": "cloneFlagFalse",
    "{I}{qubit_count:circuit.qubit_count,cbit_count:circuit.cbit_count,gates:circuit.gates.clone(),depth_cache:None,is_immutable:true}": "cloneFlagTrue",
}
COMBINE = {
    "letret=Self::get_mutable_copy(slf)?;{M}::extend(ret.bind(slf.py()),gates)?;Ok(ret)": "copyThenExtend",
    "letret=Self::get_mutable_copy(slf)?;{M}::extend(ret.bind(slf.py()).clone(),gates)?;Ok(ret)": "copyThenExtend",
}
# add_gate / add_gate_inner: `take` = depth_cache invalidation, Q = qubit comparison, X = index comparison
ADD_RE = re.compile(
    r"^(?P<take>slf\.as_super\(\)\.depth_cache\.take\(\);)?"
    r"ifgate\.get_qubits\(\)\.iter\(\)\.max\(\)\.map\(\|n\|n(?P<q>>=|>)&slf\.as_super\(\)\.qubit_count\)\.unwrap_or\(false\)"
    r"\{returnErr\(pyo3::exceptions::PyValueError::new_err\(\"\"\)\);\}"
    r"ifgate\.get_cbits\(\)\.iter\(\)\.max\(\)\.map\(\|n\|n>=&slf\.as_super\(\)\.cbit_count\)\.unwrap_or\(false\)"
    r"\{returnErr\(pyo3::exceptions::PyValueError::new_err\(\"\"\)\);\}"
    r"letgates=&mutslf\.as_super\(\)\.gates\.0;"
    r"ifletSome\(gate_index\)=gate_index\{ifgate_index(?P<x><=|<)gates\.len\(\)\{gates\.insert\(gate_index,gate(\.clone\(\))?\);Ok\(\(\)\)\}"
    r"else\{Err\(pyo3::exceptions::PyIndexError::new_err\(\"\"\)\)\}\}else\{gates\.push\(gate(\.clone\(\))?\);Ok\(\(\)\)\}$"
)
NEW_RE = re.compile(r"letbase={I}\{qubit_count,cbit_count,gates:BasicBlock\((gates|vec!\[\])\.into\(\)\),depth_cache:None,is_immutable:(?P<f>true|false)\};")
_DEPTH_ALG = (
    "letmutds=HashMap::<usize,usize>::new();forgateinself.gates.0.iter(){letqubits=gate.get_qubits();"
    "letd=1+qubits.iter().map(|q|ds.get(&q).unwrap_or(&0)).max().unwrap();qubits.iter().for_each(|q|{ds.insert(*q,d);});}"
)
DEPTH_FN = {_DEPTH_ALG + "ds.into_values().max().unwrap_or(0)": "standard"}
GET_DEPTH = {
    "ifletSome(depth)=slf.depth_cache{depth}else{letd=slf.depth();slf.depth_cache=Some(d);d}": "cached",
    "letdepth=&mutself.depth_cache;ifletSome(depth)=*depth{depth}else{" + _DEPTH_ALG + "letd=ds.into_values().max().unwrap_or(0);*depth=Some(d);d}": "cached",
}
EXTEND_NP = {
    "ifletOk(other)=gates.downcast::<ImmutableQuantumCircuit>(){forgateinother.borrow().gates.0.iter(){Self::add_gate(slf.borrow_mut(),gate.clone(),None)?;}Ok(())}"
    "elseifletOk(other)=gates.downcast::<PySequence>(){foriin0..other.len()?{ifletOk(gate)=QuantumGate::extract_bound(&other.get_item(i)?){Self::add_gate(slf.borrow_mut(),gate,None)?;}}Ok(())}"
    'else{Err(pyo3::exceptions::PyTypeError::new_err(""))}': "perGate",
}
EXTEND_PAR = {
    "ifletOk(other)=gates.downcast::<ImmutableQuantumCircuit>(){forgateinother.borrow().gates.0.iter(){Self::add_gate(slf.borrow_mut(),gate.clone(),None)?;}Ok(())}"
    "elseifletOk(other)=gates.downcast::<ImmutableParametricQuantumCircuit>(){forgateinother.borrow().gates.0.iter(){Self::add_gate_inner(&mutslf.borrow_mut(),gate.clone(),None)?;}Ok(())}"
    "elseifletOk(other)=gates.downcast::<PySequence>(){foriin0..other.len()?{letitem=other.get_item(i)?;letgate=QuantumGate::extract_bound(&item)?;Self::add_gate(slf.borrow_mut(),gate,None)?;}Ok(())}"
    'else{Err(pyo3::exceptions::PyTypeError::new_err(""))}': "perGate",
}
BIND = {
    "let(ins,map)=Self::bind_parameters_internal(slf,params)?;Py::new(slf.py(),(ImmutableBoundParametricQuantumCircuit(map,slf.clone().unbind()),ins))": "keepsSelf",
    "let(ins,map)=Self::bind_parameters_internal(slf,params)?;Py::new(slf.py(),(ImmutableBoundParametricQuantumCircuit(map,Self::freeze(slf.clone())?.unbind()),ins))": "keepsFrozen",
}
BIND_TAIL_RE = re.compile(
    r"ifletSome\(gates\)=gates\{ifparams\.len\(\)==0\{returnOk\(\(ImmutableQuantumCircuit\{qubit_count:borrowed\.qubit_count,cbit_count:borrowed\.cbit_count,"
    r"gates:BasicBlock\(gates\),depth_cache:(?P<d>borrowed\.depth_cache\.clone\(\)|None),is_immutable:(?P<f>true|false)\},map\)\);\}\}"
    r"Err\(pyo3::exceptions::PyValueError::new_err\(format!\(\"\",params\.len\(\)\)\)\)$"
)
BOUND_FREEZE = {"slf": "same"}
ADD_PARAM_RE = re.compile(
    r"^letparam=Py::new\(slf\.py\(\),Parameter::new\(String::new\(\)\)\)\?;letpw=Wrapper\(param\);Self::add_gate_inner\(&mutslf,QuantumGate::\w+\(.*MaybeUnbound::Unbound\(pw\.clone\(\)\)\),None\)\?;Ok\(pw\)$"
)


def _lookup(cat: dict, body: str | None, **subst) -> str:
    if body is None:
        return "unknown"
    for k, v in cat.items():
        kk = k
        for a, b in subst.items():
            kk = kk.replace("{" + a + "}", b)
        if kk == body:
            return v
    return "unknown"


def family(src: str, imm: str, mut: str, inner_add: str) -> dict:
    """shapes of one class family (base class `imm`, mutable subclass `mut`)"""
    sh = {}
    sh["freeze"] = _lookup(FREEZE, rust_fn(src, imm, "freeze"))
    sh["copy"] = _lookup(COPY, rust_fn(src, imm, "get_mutable_copy"), M=mut)
    sh["ctor"] = _lookup(CTOR, rust_fn(src, imm, "py_new"), I=imm)
    sh["combine"] = _lookup(COMBINE, rust_fn(src, imm, "combine"), M=mut)
    add = rust_fn(src, mut, inner_add)
    m = ADD_RE.match(add) if add else None
    if m:
        sh["add"] = {"invalidates": bool(m.group("take")), "qubitGe": m.group("q") == ">=", "idxLe": m.group("x") == "<="}
    else:
        sh["add"] = None
    new = rust_fn(src, mut, "py_new")
    m = re.search(NEW_RE.pattern.replace("{I}", imm), new) if new else None
    sh["newFlag"] = (m.group("f") == "true") if m else None
    sh["getDepth"] = _lookup(GET_DEPTH, rust_fn(src, imm, "get_depth"))
    return sh


def rust_shapes() -> dict:
    c = strip_comments(_read(CIRC_RS))
    p = strip_comments(_read(PARAM_RS))
    np_ = family(c, "ImmutableQuantumCircuit", "QuantumCircuit", "add_gate")
    np_["depthAlg"] = _lookup(DEPTH_FN, rust_fn(c, "ImmutableQuantumCircuit", "depth"))
    np_["extend"] = _lookup(EXTEND_NP, rust_fn(c, "QuantumCircuit", "extend"))
    par = family(p, "ImmutableParametricQuantumCircuit", "ParametricQuantumCircuit", "add_gate_inner")
    par["depthAlg"] = "standard" if par["getDepth"] == "cached" else "unknown"
    par["extend"] = _lookup(EXTEND_PAR, rust_fn(p, "ParametricQuantumCircuit", "extend"))
    # the public add_gate of the parametric class must delegate to add_gate_inner
    ag = rust_fn(p, "ParametricQuantumCircuit", "add_gate")
    par["addDelegates"] = ag == "letgate=gate.map_param(|p|MaybeUnbound::Bound(p));Self::add_gate_inner(&mutslf,gate,gate_index)"
    par["addParam"] = all(
        (b := rust_fn(p, "ParametricQuantumCircuit", f"add_Parametric{k}_gate")) is not None and ADD_PARAM_RE.match(b)
        for k in ("RX", "RY", "RZ", "PauliRotation")
    )
    par["primitive"] = rust_fn(p, "ImmutableParametricQuantumCircuit", "primitive_circuit") == "Self::freeze(slf)"
    bind = {}
    bind["keeps"] = _lookup(BIND, rust_fn(p, "ImmutableParametricQuantumCircuit", "bind_parameters"))
    bi = rust_fn(p, "ImmutableParametricQuantumCircuit", "bind_parameters_internal")
    m = BIND_TAIL_RE.search(bi) if bi else None
    bind["flag"] = (m.group("f") == "true") if m else None
    bind["depthCopied"] = (m.group("d") != "None") if m else None
    bind["freeze"] = _lookup(BOUND_FREEZE, rust_fn(p, "ImmutableBoundParametricQuantumCircuit", "freeze"))
    bind["getUnbound"] = rust_fn(p, "ImmutableBoundParametricQuantumCircuit", "get_unbound_param_circuit") == "self.1.clone()"
    # entry-count cross check: the functions we classify are all there, exactly once
    names_c = count_fns(c, "ImmutableQuantumCircuit") + count_fns(c, "QuantumCircuit")
    names_p = count_fns(p, "ImmutableParametricQuantumCircuit") + count_fns(p, "ParametricQuantumCircuit")
    expect_c = ["py_new", "py_new", "freeze", "get_mutable_copy", "combine", "add_gate", "extend", "get_depth", "depth"]
    expect_p = ["py_new", "py_new", "freeze", "get_mutable_copy", "combine", "add_gate", "add_gate_inner", "extend",
                "get_depth", "bind_parameters", "bind_parameters_internal", "primitive_circuit"]
    count_ok = all(names_c.count(n) == expect_c.count(n) for n in set(expect_c)) and all(
        names_p.count(n) == expect_p.count(n) for n in set(expect_p)
    )
    # any *other* function that touches is_immutable / depth_cache would be outside the model
    extra = []
    for src, tys in ((c, ["ImmutableQuantumCircuit", "QuantumCircuit"]),
                     (p, ["ImmutableParametricQuantumCircuit", "ParametricQuantumCircuit", "ImmutableBoundParametricQuantumCircuit"])):
        for ty in tys:
            for b in impl_blocks(src, ty):
                for name in set(count_fns(src, ty)):
                    for _, body in fn_bodies(b, name):
                        if re.search(r"is_immutable|depth_cache", body) and name not in (
                            "py_new", "freeze", "get_mutable_copy", "add_gate", "add_gate_inner", "get_depth",
                            "bind_parameters_internal", "py_radd",
                        ):
                            extra.append(f"{ty}::{name}")
    return {"np": np_, "par": par, "bind": bind, "count_ok": count_ok, "extra_flag_writers": sorted(set(extra))}


# ----------------------------------------------------------------------------------------------
# Python wrappers (ast)
# ----------------------------------------------------------------------------------------------
def _cls(tree: ast.Module, name: str) -> ast.ClassDef | None:
    for n in tree.body:
        if isinstance(n, ast.ClassDef) and n.name == name:
            return n
    return None


def _meth(c: ast.ClassDef | None, name: str) -> ast.FunctionDef | None:
    if c is None:
        return None
    for n in c.body:
        if isinstance(n, ast.FunctionDef) and n.name == name:
            return n
    return None


def _body_src(f: ast.FunctionDef | None) -> str | None:
    if f is None:
        return None
    body = f.body
    if body and isinstance(body[0], ast.Expr) and isinstance(getattr(body[0], "value", None), ast.Constant) and isinstance(body[0].value.value, str):
        body = body[1:]
    return ";".join(ast.unparse(s) for s in body)


def python_shapes() -> dict:
    lm = ast.parse(_read(LM_PY))
    imm = _cls(lm, "ImmutableLinearMappedParametricQuantumCircuit")
    mut = _cls(lm, "LinearMappedParametricQuantumCircuit")
    sh = {}
    sh["lmCtor"] = _body_src(_meth(imm, "__init__")) == "self._param_mapping = circuit._param_mapping;self._circuit = circuit._circuit.freeze()"
    sh["lmFreezeImm"] = _body_src(_meth(imm, "freeze")) == "return self"
    sh["lmFreezeMut"] = _body_src(_meth(mut, "freeze")) == "return ImmutableLinearMappedParametricQuantumCircuit(self)"
    sh["lmCopy"] = _body_src(_meth(imm, "get_mutable_copy")) == (
        "circuit = LinearMappedParametricQuantumCircuit(self.qubit_count, self.cbit_count);"
        "circuit._param_mapping = self._param_mapping;circuit._circuit = self._circuit.get_mutable_copy();return circuit"
    )
    sh["lmPrimitive"] = _body_src(_meth(imm, "primitive_circuit")) == "return self._circuit.freeze()"
    sh["lmBind"] = _body_src(_meth(imm, "bind_parameters")) == (
        "raw_param_vars = self._param_mapping.mapper(dict(zip(self._param_mapping.in_params, params)));"
        "return ImmutableBoundParametricQuantumCircuit(self._circuit, raw_param_vars)"
    )
    pm = ast.parse(_read(PM_PY))
    lpm = _cls(pm, "LinearParameterMapping")
    sh["mapUpdateFresh"] = _body_src(_meth(lpm, "with_data_updated")) == (
        "return LinearParameterMapping._from_immutable_data((*self._in_params, *in_params_addition), "
        "(*self._out_params, *out_params_addition), {**self._mapping, **_freeze_map(mapping_update)})"
    )
    sh["mapCombineFresh"] = _body_src(_meth(lpm, "combine")) == (
        "return LinearParameterMapping._from_immutable_data(in_params=(*self.in_params, *other.in_params), "
        "out_params=(*self.out_params, *other.out_params), mapping={**self.mapping, **other.mapping})"
    )
    st = ast.parse(_read(STATE_PY))
    mix = _cls(st, "CircuitQuantumStateMixin")
    init = _body_src(_meth(mix, "__init__")) or ""
    sh["stateFreezes"] = "self._circuit = circuit.freeze()" in init and "self._circuit = circuit;" not in init + ";"
    g = _cls(st, "GeneralCircuitQuantumState")
    sh["stateApply"] = _body_src(_meth(g, "with_gates_applied")) == "circuit = self.circuit + gates;return GeneralCircuitQuantumState(self._n_qubits, circuit)"
    ps = ast.parse(_read(PSTATE_PY))
    pmix = _cls(ps, "ParametricCircuitQuantumStateMixin")
    sh["pstateFreezes"] = (_body_src(_meth(pmix, "__init__")) or "").endswith("self._circuit = circuit.freeze()")
    pcs = _cls(ps, "ParametricCircuitQuantumState")
    sh["pstateApply"] = _body_src(_meth(pcs, "with_gates_applied")) == (
        "circuit = self.parametric_circuit.get_mutable_copy();circuit.extend(gates);return ParametricCircuitQuantumState(self._n_qubits, circuit)"
    )
    # caches: how the key is computed
    sh["measKey"] = cache_key_shape(MEAS_PY, "CachedMeasurementFactory", "__call__")
    sh["qulacsKey"] = cache_key_shape(QOP_PY, None, "convert_operator")
    return sh


def cache_key_shape(rel: str, cls: str | None, fn: str) -> str:
    """`frozenItems` when every assignment to `op_key` is frozenset(<operator>.items()) (or the
    singleton {(label, 1.0)} for a bare PauliLabel) and the cache is read and written with that key"""
    tree = ast.parse(_read(rel))
    f = _meth(_cls(tree, cls), fn) if cls else next(
        (n for n in tree.body if isinstance(n, ast.FunctionDef) and n.name == fn), None
    )
    if f is None:
        return "unknown"
    assigns = [ast.unparse(n.value) for n in ast.walk(f) if isinstance(n, ast.Assign) and any(
        isinstance(t, ast.Name) and t.id == "op_key" for t in n.targets)]
    if not assigns:
        return "unknown"
    ok = {"frozenset(paulis.items())", "frozenset(operator.items())", "frozenset({(operator, 1.0)})"}
    if not all(a in ok for a in assigns):
        return "unknown"
    src = ast.unparse(f)
    uses = re.findall(r"(?:self\._cache|_operator_cache)\[([^\]]*)\]", src)
    want = {"op_key"} if cls else {"op_key, n_qubits"}
    if not uses or set(uses) != want:
        return "unknown"
    return "frozenItems"


# ----------------------------------------------------------------------------------------------
# Lean emission
# ----------------------------------------------------------------------------------------------
def _b(x) -> str:
    return "true" if x else "false"


# shapes of the unchanged tree: used for an entry whose body is not in the catalogue (the obligation
# `rust_known_ok` fails anyway; the model then keeps following the installed binary)
AS_WRITTEN = {"np": {"freeze": "cloneUnlessImmutable", "copy": "cloneKeepFlag", "ctor": "aliasSetFlag"},
              "par": {"freeze": "cloneUnlessImmutable", "copy": "cloneResetFlag", "ctor": "cloneFlagFalse"}}


def _fam(sh: dict, name: str = "par") -> tuple[str, list[str]]:
    unknown = []
    for k in ("freeze", "copy", "ctor", "combine", "getDepth", "depthAlg", "extend"):
        if sh[k] == "unknown":
            unknown.append(k)
    if sh["add"] is None:
        unknown.append("add")
    if sh["newFlag"] is None:
        unknown.append("newFlag")
    add = sh["add"] or {"invalidates": True, "qubitGe": True, "idxLe": True}
    fz = sh["freeze"] if sh["freeze"] != "unknown" else AS_WRITTEN[name]["freeze"]
    cp = sh["copy"] if sh["copy"] != "unknown" else AS_WRITTEN[name]["copy"]
    ct = sh["ctor"] if sh["ctor"] != "unknown" else AS_WRITTEN[name]["ctor"]
    txt = (
        f"{{ freeze := .{fz}, copy := .{cp}, ctor := .{ct}, invalidates := {_b(add['invalidates'])}, "
        f"newFlag := {_b(sh['newFlag'])} }}"
    )
    return txt, unknown, add


def emit() -> tuple[str, int, dict]:
    rs = rust_shapes()
    py = python_shapes()
    np_txt, u1, add1 = _fam(rs["np"], "np")
    par_txt, u2, add2 = _fam(rs["par"], "par")
    sem = [("np.add_gate rejects qubit >= qubit_count", add1["qubitGe"]), ("np.add_gate accepts gate_index <= len", add1["idxLe"]),
           ("par.add_gate rejects qubit >= qubit_count", add2["qubitGe"]), ("par.add_gate accepts gate_index <= len", add2["idxLe"])]
    unknown = ["np." + u for u in u1] + ["par." + u for u in u2]
    for k in ("addDelegates", "addParam", "primitive"):
        if not rs["par"][k]:
            unknown.append("par." + k)
    b = rs["bind"]
    if b["keeps"] == "unknown":
        unknown.append("bind.keeps")
    if b["flag"] is None:
        unknown.append("bind.tail")
    if b["freeze"] == "unknown":
        unknown.append("bind.freeze")
    if not b["getUnbound"]:
        unknown.append("bind.getUnbound")
    if not rs["count_ok"]:
        unknown.append("entry_count")
    unknown += ["extra:" + e for e in rs["extra_flag_writers"]]
    py_unknown = [k for k, v in py.items() if v is False or v == "unknown"]
    keeps = b["keeps"] if b["keeps"] != "unknown" else "keepsSelf"
    lines = [
        "-- GENERATED by /verif/translate/c20gen.py from the working tree; do not edit.",
        "import QuriVerif.Model.C20",
        "namespace QV.Gen.C20",
        "open QV.C20",
        "/-- shapes of circuit.rs / circuit_parametric.rs as classified from the source text -/",
        "def cfg : Cfg :=",
        f"  {{ np := {np_txt},",
        f"    par := {par_txt},",
        f"    bind := .{keeps}, bindFlag := {_b(b['flag'] is not False)}, bindDepthCopied := {_b(bool(b['depthCopied']))} }}",
        f"/-- Rust functions whose body is not in the translator's catalogue: {unknown} -/",
        f"def rustUnknown : List String := [{', '.join(chr(34) + u + chr(34) for u in unknown)}]",
        f"/-- Python wrappers whose body no longer has the modelled shape: {py_unknown} -/",
        f"def pyUnknown : List String := [{', '.join(chr(34) + u + chr(34) for u in py_unknown)}]",
        "/-- comparison operators of the range checks of add_gate (the model hard-wires the standard ones) -/",
        "def rustSem : List (String × Bool) := [" + ", ".join(f'("{a}", {_b(b_)})' for a, b_ in sem) + "]",
        "end QV.Gen.C20",
        "",
    ]
    ok_lines = [
        "-- GENERATED by /verif/translate/c20gen.py from the working tree; do not edit.",
        "import QuriVerif.Generated.C20Shapes",
        "namespace QV.Gen.C20",
        "/-- every aliasing-relevant Rust function has a body the translator knows -/",
        "theorem rust_known_ok : rustUnknown = [] := by decide",
        "/-- the range checks of add_gate are the ones the model hard-wires -/",
        "theorem rust_semantics_ok : rustSem.all (·.2) = true := by decide",
        "end QV.Gen.C20",
        "",
    ]
    n_entries = 2 * 9 + 5 + len(py)
    return "\n".join(lines), n_entries, {"rust": rs, "python": py, "unknown": unknown, "py_unknown": py_unknown,
                                         "ok_text": "\n".join(ok_lines)}


if __name__ == "__main__":
    import json

    t, n, d = emit()
    print(t)
    print(json.dumps(d, indent=1, default=str))
