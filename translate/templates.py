"""Translator T for rewrite templates (DESIGN §4.1): reads the source text of the
working tree, symbolically evaluates every `decompose` of a GateKindDecomposer
subclass (and a few named functions) and emits Lean `Template` values with one
`decide +kernel` obligation each."""
from __future__ import annotations

import ast
import os
from fractions import Fraction
from math import lcm

from . import pysym
from .pysym import Aff, Evaluator, GateV, SymGate, Unparsed, Wire

REPO = os.environ.get("VERIF_REPO", "/repo")

GATE_NAME_CONSTS = [
    "Identity", "X", "Y", "Z", "H", "S", "Sdag", "SqrtX", "SqrtXdag", "SqrtY", "SqrtYdag", "T", "Tdag", "RX", "RY",
    "RZ", "U1", "U2", "U3", "CNOT", "CZ", "SWAP", "TOFFOLI", "UnitaryMatrix", "Pauli", "PauliRotation",
    "ParametricRX", "ParametricRY", "ParametricRZ", "ParametricPauliRotation", "Measurement",
]

EXTRA_FACTORIES = {
    "U1q": ("t", "p", "p"),
    "ZZ": ("t", "t"),
    "RZZ": ("t", "t", "p"),
    "XX": ("t", "t", "p"),
    "GPi": ("t", "p"),
    "GPi2": ("t", "p"),
    "MS": ("t", "t", "p", "p"),
}
EXTRA_ARITY = {"U1q": (0, 1, 2), "XX": (0, 2, 1), "RZZ": (0, 2, 1), "ZZ": (0, 2, 0)}

LEAN_KINDS = set(GATE_NAME_CONSTS) | set(EXTRA_FACTORIES) | {"Phase"}


class Tpl:
    def __init__(self, name, src, target: SymGate | None, body, error=None):
        self.name = name
        self.src = src
        self.target = target
        self.body = body
        self.error = error


def _wiremap(target: SymGate):
    m = {}
    for w in list(target.controls) + list(target.targets):
        m[w.name] = len(m)
    return m


def _denoms(target: SymGate, body):
    den = {}
    for g in body:
        for p in g.params:
            for v, c in p.vars.items():
                den[v] = lcm(den.get(v, 1), Fraction(c).denominator)
    return den


def lean_angle(a: Aff, varidx: dict, den: dict) -> str:
    if a.rat != 0:
        raise Unparsed(f"angle with a non-π constant {a.rat}")
    k = a.pi * 4
    if k.denominator != 1:
        raise Unparsed(f"angle constant {a.pi}π is not a multiple of π/4")
    n = len(varidx)
    cs = [0] * n
    for v, c in a.vars.items():
        if v not in varidx:
            raise Unparsed(f"unknown angle variable {v}")
        cc = c * den.get(v, 1)
        if cc.denominator != 1:
            raise Unparsed("non-integral scaled coefficient")
        cs[varidx[v]] = int(cc)
    while cs and cs[-1] == 0:
        cs.pop()
    return f"⟨[{', '.join(str(x) for x in cs)}], {int(k)}⟩"


def lean_gate(g, wm: dict, varidx: dict, den: dict) -> str:
    if g.kind not in LEAN_KINDS:
        raise Unparsed(f"gate kind {g.kind} not in the model vocabulary")

    def ws(lst):
        out = []
        for w in lst:
            if not isinstance(w, Wire) or w.name not in wm:
                raise Unparsed(f"wire {w} is not one of the target gate's wires")
            out.append(str(wm[w.name]))
        return "[" + ", ".join(out) + "]"

    ps = "[" + ", ".join(lean_angle(p, varidx, den) for p in g.params) + "]"
    pa = ""
    if g.paulis:
        pa = " [" + ", ".join(str(int(x.rat)) if isinstance(x, Aff) else str(x) for x in g.paulis) + "]"
    return f"G .{g.kind} {ws(g.controls)} {ws(g.targets)} {ps}{pa}"


def lean_template(t: Tpl) -> str:
    """Lean term of type Template, or raises Unparsed"""
    wm = _wiremap(t.target)
    den = _denoms(t.target, t.body)
    varidx = {}
    for i in range(len(t.target.params)):
        varidx[f"p{i}"] = i
    # target params are d_j·φ_j
    tgt = GateV(t.target.kind, list(t.target.controls), list(t.target.targets),
                [p for p in t.target.params])
    tg = lean_gate(tgt, wm, varidx, den)
    body = ", ".join(lean_gate(g, wm, varidx, den) for g in t.body)
    return f"⟨{len(wm)}, {tg}, [{body}]⟩"


def _consts():
    c = {n: n for n in GATE_NAME_CONSTS}
    return c


def extract_class_templates(rel: str, only: list[str] | None = None, skip: list[str] | None = None) -> list[Tpl]:
    """every class in the file that defines both target_gate_names and decompose"""
    path = os.path.join(REPO, rel)
    tree = ast.parse(open(path).read())
    out = []
    for cls in pysym.find_classes(tree):
        dec = pysym.method(cls, "decompose")
        if dec is None:
            continue
        if only is not None and cls.name not in only:
            continue
        if skip and cls.name in skip:
            continue
        src = f"{rel}:{cls.name}.decompose"
        names = pysym.target_names(cls, _consts())
        if names is None:
            # allow native_gate_names.X attribute style
            m = pysym.method(cls, "target_gate_names")
            try:
                ret = [s for s in m.body if isinstance(s, ast.Return)][0].value
                names = [e.attr if isinstance(e, ast.Attribute) else None for e in ret.elts]
                if any(n is None for n in names):
                    names = None
            except Exception:
                names = None
        if not names:
            out.append(Tpl(cls.name, src, None, None, "target_gate_names not a literal list"))
            continue
        for kind in names:
            nm = cls.name if len(names) == 1 else f"{cls.name}_{kind}"
            try:
                g = pysym.sym_gate(kind, EXTRA_ARITY)
                argname = dec.args.args[1].arg
                ev = Evaluator({argname: g}, gate_modules=("gates", "gf"), extra_factories=EXTRA_FACTORIES,
                               consts=_consts())
                val = ev.run(dec.body)
                if not isinstance(val, list) or not all(isinstance(x, GateV) for x in val):
                    raise Unparsed("decompose does not return a list of gates")
                out.append(Tpl(nm, src, g, val))
            except Unparsed as e:
                out.append(Tpl(nm, src, None, None, str(e)))
    return out


def emit(namespace: str, tpls: list[Tpl], exact: bool = False, header: str = "") -> tuple[str, int]:
    """Lean module text, number of entries"""
    lines = [
        "-- GENERATED by /verif/translate/templates.py from the working tree; do not edit.",
        "import QuriVerif.Found.Template",
        f"namespace QV.Gen.{namespace}",
        "open QV",
        header,
    ]
    entries = []
    for t in tpls:
        ident = "tpl_" + t.name
        if t.error is None:
            try:
                term = lean_template(t)
            except Unparsed as e:
                t.error = str(e)
        if t.error is not None:
            msg = t.error.replace('"', "'")
            lines.append(f"-- UNPARSED {t.src}: {msg}")
            lines.append(f"def {ident} : Template := ⟨0, G .Identity [] [] [], []⟩")
            lines.append(f"theorem {ident}_ok : (\"unparsed: {t.src}: {msg}\" = \"\") := by decide")
        else:
            lines.append(f"-- {t.src}")
            lines.append(f"def {ident} : Template := {term}")
            chk = "checkExact" if exact else "check"
            lines.append(f"theorem {ident}_ok : {ident}.{chk} = true := by decide +kernel")
        kind = t.target.kind if t.target else "Identity"
        entries.append(f'("{t.name}", Kind.{kind}, {ident})')
    lines.append("def templates : List (String × Kind × Template) := [")
    lines.append(",\n".join("  " + e for e in entries))
    lines.append("]")
    lines.append(f"end QV.Gen.{namespace}")
    return "\n".join(lines) + "\n", len(tpls)


# ---------------------------------------------------------------------------
# threshold ladders:  if self._is_close(theta, c) [or ...]: return [...] elif ... else: return [gate]
# ---------------------------------------------------------------------------
class LadderRow:
    def __init__(self, thresholds, alts, general):
        self.thresholds = thresholds  # list[Aff] (pure π multiples); empty for a general (negated) branch
        self.alts = alts  # list of (sym_body | None, {threshold_index: subst_body}) ; None = input returned unchanged
        self.general = general


def _is_close_call(e):
    return (isinstance(e, ast.Call) and isinstance(e.func, ast.Attribute) and e.func.attr == "_is_close"
            and len(e.args) == 2)


def extract_ladder(rel: str, clsname: str):
    """returns (target kinds, rows, error)"""
    path = os.path.join(REPO, rel)
    tree = ast.parse(open(path).read())
    cls = [c for c in pysym.find_classes(tree) if c.name == clsname]
    if not cls:
        return None, None, f"class {clsname} not found"
    cls = cls[0]
    names = pysym.target_names(cls, _consts())
    if names is None:
        m = pysym.method(cls, "target_gate_names")
        try:
            ret = [s for s in m.body if isinstance(s, ast.Return)][0].value
            names = [e.attr for e in ret.elts]
        except Exception:
            return None, None, "target_gate_names"
    dec = pysym.method(cls, "decompose")
    if dec is None:
        return names, None, "no decompose"
    pre = [s for s in dec.body if not isinstance(s, ast.If)]
    ifs = [s for s in dec.body if isinstance(s, ast.If)]
    if len(ifs) != 1 or dec.body[-1] is not ifs[0]:
        return names, None, "decompose is not <assignments>; if-chain"
    argname = dec.args.args[1].arg

    def fresh_eval(kind):
        g = pysym.sym_gate(kind, EXTRA_ARITY)
        ev = Evaluator({argname: g}, gate_modules=("gates", "gf"), extra_factories=EXTRA_FACTORIES, consts=_consts())
        for st in pre:
            if isinstance(st, ast.Expr) and isinstance(st.value, ast.Constant):
                continue
            if not isinstance(st, ast.Assign):
                raise Unparsed(f"pre-statement {type(st).__name__}")
            v = ev.ev(st.value)
            for t in st.targets:
                ev.assign(t, v)
        return g, ev

    def ret_alts(ev, body):
        """alternatives of a branch body: a single return, possibly an IfExp"""
        if len(body) != 1 or not isinstance(body[0], ast.Return):
            raise Unparsed("branch is not a single return")
        e = body[0].value
        exprs = [e.body, e.orelse] if isinstance(e, ast.IfExp) else [e]
        alts = []
        for x in exprs:
            v = ev.ev(x)
            if not isinstance(v, list):
                raise Unparsed("branch does not return a list")
            if len(v) == 1 and isinstance(v[0], SymGate):
                alts.append(None)
            elif all(isinstance(y, GateV) for y in v):
                alts.append(v)
            else:
                raise Unparsed("branch returns non-gates")
        return alts

    out = {}
    for kind in names:
        rows = []
        try:
            node = ifs[0]
            while True:
                g, ev = fresh_eval(kind)
                test = node.test
                conds = test.values if isinstance(test, ast.BoolOp) and isinstance(test.op, ast.Or) else [test]
                thresholds = []
                neg_ths = []
                var = None
                general = False
                if all(_is_close_call(c) for c in conds):
                    for c in conds:
                        a = ev.ev(c.args[0])
                        th = ev.ev(c.args[1])
                        if not (isinstance(th, Aff) and not th.vars and th.rat == 0):
                            raise Unparsed("threshold is not a multiple of π")
                        if not (isinstance(a, Aff) and len(a.vars) == 1 and a.pi == 0 and a.rat == 0):
                            raise Unparsed("compared quantity is not a gate parameter")
                        var = list(a.vars)[0]
                        thresholds.append((c.args[0], th))
                elif (isinstance(test, ast.BoolOp) and isinstance(test.op, ast.And)
                      and all(isinstance(c, ast.UnaryOp) and isinstance(c.op, ast.Not) and _is_close_call(c.operand)
                              for c in test.values)):
                    general = True
                    for c in test.values:
                        th = ev.ev(c.operand.args[1])
                        if not (isinstance(th, Aff) and not th.vars and th.rat == 0):
                            raise Unparsed("threshold is not a multiple of π")
                        neg_ths.append(th)
                        var = list(ev.ev(c.operand.args[0]).vars)[0]
                else:
                    raise Unparsed(f"condition {ast.unparse(test)}")
                sym_alts = ret_alts(ev, node.body)
                subst = []
                for (lhs, th) in thresholds:
                    g2, ev2 = fresh_eval(kind)
                    if not isinstance(lhs, ast.Name):
                        raise Unparsed("compared quantity is not a local name")
                    ev2.env[lhs.id] = th
                    # the target gate with that parameter fixed
                    pv = list(ev.ev(lhs).vars)[0]
                    idx = int(pv[1:])
                    params = list(g2.params)
                    params[idx] = th
                    g2s = SymGate(g2.kind, g2.controls, g2.targets, tuple(params))
                    subst.append((th, g2s, ret_alts(ev2, node.body)))
                rows.append({"thresholds": [t for _, t in thresholds], "general": general, "sym_target": g,
                             "sym_alts": sym_alts, "subst": subst, "neg": neg_ths, "var": var,
                             "mod": ev.used_mod_2pi})
                if len(node.orelse) == 1 and isinstance(node.orelse[0], ast.If):
                    node = node.orelse[0]
                    continue
                # final else
                g, ev = fresh_eval(kind)
                alts = ret_alts(ev, node.orelse)
                rows.append({"thresholds": [], "general": True, "sym_target": g, "sym_alts": alts, "subst": [],
                             "else": True})
                break
            out[kind] = rows
        except Unparsed as e:
            out[kind] = str(e)
    return names, out, None


def emit_ladders(namespace: str, specs: list[tuple[str, str]], known: set | None = None) -> tuple[str, int, list]:
    """specs: (relpath, class).  Emits, per class/kind/row/alt, an obligation
    `sym.check || (all substituted).check`.  Also returns a python description of
    the rows for the correspondence harness."""
    lines = [
        "-- GENERATED by /verif/translate/templates.py (ladders) from the working tree; do not edit.",
        "import QuriVerif.Model.C01",
        f"namespace QV.Gen.{namespace}",
        "open QV QV.C01",
    ]
    n = 0
    desc = []
    ladder_names = []
    for rel, clsname in specs:
        names, out, err = extract_ladder(rel, clsname)
        if err or out is None:
            lines.append(f"-- UNPARSED {rel}:{clsname}: {err}")
            lines.append(f"theorem lad_{clsname}_ok : (0 : Nat) = 1 := by decide")
            n += 1
            continue
        for kind, rows in out.items():
            if isinstance(rows, str):
                lines.append(f"-- UNPARSED {rel}:{clsname}[{kind}]: {rows}")
                lines.append(f"theorem lad_{clsname}_{kind}_ok : (0 : Nat) = 1 := by decide")
                n += 1
                continue
            rdesc = []
            for ri, row in enumerate(rows):
                ths = [float(t.pi) for t in row["thresholds"]]
                rdesc.append({"thresholds_pi": ths, "general": row["general"],
                              "alts": [None if a is None else [g.kind for g in a] for a in row["sym_alts"]]})
                for ai, alt in enumerate(row["sym_alts"]):
                    if alt is None:
                        continue
                    ident = f"lad_{clsname}_{kind}_r{ri}_a{ai}"
                    n += 1
                    try:
                        sym = lean_template(Tpl(ident, rel, row["sym_target"], alt))
                        subs = []
                        for th, g2s, alts2 in row["subst"]:
                            if alts2[ai] is None:
                                continue
                            subs.append(lean_template(Tpl(ident, rel, g2s, alts2[ai])))
                        lines.append(f"-- {rel}:{clsname} kind={kind} row={ri} thresholds={ths}π alt={ai}")
                        lines.append(f"def {ident}_sym : Template := {sym}")
                        lines.append(f"def {ident}_sub : List Template := [{', '.join(subs)}]")
                        if known and ident in known:
                            lines.append(f"-- KNOWN FINDING (known_findings.txt): on the tree as given the template is NOT an identity (the real-code")
                            lines.append(f"-- oracle reports it as KNOWN-FINDING). The kernel decides the row either way, so that a repair of the defect")
                            lines.append(f"-- upstream does not turn into an alarm; which way it went is visible from `#eval {ident}_sym.check`.")
                            lines.append(f"theorem {ident}_known_row_decided : ({ident}_sym.check = true ∨ {ident}_sym.check = false) := by decide +kernel")
                        elif row["general"] or not subs:
                            lines.append(f"theorem {ident}_ok : {ident}_sym.check = true := by decide +kernel")
                        else:
                            lines.append(
                                f"theorem {ident}_ok : ({ident}_sym.check || {ident}_sub.all (·.check)) = true := by decide +kernel")
                    except Unparsed as e:
                        lines.append(f"-- UNPARSED {rel}:{clsname}[{kind}] row {ri}: {e}")
                        lines.append(f"theorem {ident}_ok : (0 : Nat) = 1 := by decide")
            desc.append({"class": clsname, "kind": kind, "rows": rdesc})
            # the Ladder value used by the executable model
            try:
                rws = []
                pidx, mod = 0, False
                for ri, row in enumerate(rows):
                    if row.get("var"):
                        pidx = int(row["var"][1:])
                    mod = mod or row.get("mod", False)

                    def q(t):
                        k = t.pi * 4
                        if k.denominator != 1:
                            raise Unparsed("threshold not a multiple of π/4")
                        return str(int(k))
                    if row.get("else"):
                        cond = ".always"
                    elif row["general"]:
                        cond = ".notClose [" + ", ".join(q(t) for t in row["neg"]) + "]"
                    else:
                        cond = ".close [" + ", ".join(q(t) for t in row["thresholds"]) + "]"
                    alts = []
                    for ai, alt in enumerate(row["sym_alts"]):
                        alts.append("none" if alt is None else f"some lad_{clsname}_{kind}_r{ri}_a{ai}_sym")
                    rws.append(f"⟨{cond}, [{', '.join(alts)}]⟩")
                lines.append(f"def ladder_{clsname}_{kind} : Ladder := ⟨.{kind}, {pidx}, {'true' if mod else 'false'}, [{', '.join(rws)}]⟩")
                ladder_names.append((clsname, kind))
            except Unparsed as e:
                lines.append(f"-- UNPARSED ladder value {clsname}[{kind}]: {e}")
                lines.append(f"theorem ladderval_{clsname}_{kind}_ok : (0 : Nat) = 1 := by decide")
                n += 1
    lines.append("def ladders : List (String × Ladder) := [" + ", ".join(
        f'("{c}", ladder_{c}_{k})' for c, k in ladder_names) + "]")
    lines.append(f"end QV.Gen.{namespace}")
    return "\n".join(lines) + "\n", n, desc
