"""Translator for C10: reads *source text* of the working tree (never imports it) and emits
lean/QuriVerif/Generated/C10Tables.lean:

  * the three rewriting parametric transpilers (`ParametricRX2RZHTranspiler`,
    `ParametricRY2RZHTranspiler`, `ParametricPauliRotationDecomposeTranspiler`) as `Rewriter`
    values: what each branch of the `gate.name == …` chain emits;
  * the bodies of the non-parametric counterparts `RX2RZHTranspiler` / `RY2RZHTranspiler`;
  * shape facts (AST equality with the modelled algorithm) for the hand-modelled loops:
    `ParametricTranspiler.__call__`, `ParametricSequentialTranspiler.__call__`,
    `add_decomposed_gates`, `rot_gates`, `PauliRotationDecomposeTranspiler.decompose`;
  * the arms of Rust `bind_parameters_internal` (which arguments are copied, which consume a
    value) and normalised-body facts of the Rust functions the model transcribes.

Anything outside the accepted grammar becomes an `unparsed` entry whose obligation is false.
"""
from __future__ import annotations

import ast
import hashlib
import os
import re
from fractions import Fraction

from . import pysym, templates
from .pysym import Aff, Evaluator, Unparsed

REPO = os.environ.get("VERIF_REPO", "/repo")
T = "packages/circuit/quri_parts/circuit/transpile/"
GATESET = T + "gateset.py"
TRANSPILER = T + "transpiler.py"
MPD = T + "multi_pauli_decomposer.py"
RUST = "packages/rust/src/circuit/circuit_parametric.rs"

PKS = {"ParametricRX": "rx", "ParametricRY": "ry", "ParametricRZ": "rz", "ParametricPauliRotation": "prot"}
ROT_OF = {"RX": "rx", "RY": "ry", "RZ": "rz"}


def _read(rel):
    with open(os.path.join(REPO, rel)) as f:
        return f.read()


def _dump(node):
    return ast.dump(node, annotate_fields=False)


def _stmts(src):
    return [_dump(s) for s in ast.parse(src).body]


def _nodoc(body):
    return [s for s in body if not (isinstance(s, ast.Expr) and isinstance(s.value, ast.Constant))]


def _cls(tree, name):
    for n in tree.body:
        if isinstance(n, ast.ClassDef) and n.name == name:
            return n
    return None


def _fn(scope, name):
    for n in scope.body:
        if isinstance(n, ast.FunctionDef) and n.name == name:
            return n
    return None


# ---------------------------------------------------------------------------------------------
# rewriting parametric transpilers
# ---------------------------------------------------------------------------------------------
PROLOGUE = """
ret = LinearMappedParametricQuantumCircuit(circuit.qubit_count, circuit.cbit_count)
ret._param_mapping = LinearParameterMapping(circuit.param_mapping.in_params)
pmap = circuit.param_mapping.mapping
"""
LOOP_HEAD = "for gate, param in circuit.primitive_circuit().gates_and_params:\n    pass"
FIXED_BRANCH = "ret.add_gate(gate)"
PARAM_NONE = "if param is None:\n    raise ValueError('Parametric gate with no Parameter: {gate}')"


def _is_qubit(e):
    """`qubit` (bound by `qubit = gate.target_indices[0]`) or `gate.target_indices[0]`"""
    return (isinstance(e, ast.Name) and e.id == "qubit") or _dump(e) == _dump(
        ast.parse("gate.target_indices[0]").body[0].value
    )


def _is_pmap(e):
    return _dump(e) == _dump(ast.parse("pmap[param]").body[0].value)


def _half_pi(e):
    """angle expression → integer multiple of π/2"""
    v = Evaluator({}).ev(e)
    if not isinstance(v, Aff) or v.vars or v.rat != 0:
        raise Unparsed(f"angle {ast.unparse(e)} is not a constant multiple of pi")
    q = v.pi * 2
    if q.denominator != 1:
        raise Unparsed(f"angle {ast.unparse(e)} is not a multiple of pi/2")
    return int(q)


def _branch_items(kind, body):
    """statements of one `gate.name == kind` branch → Rule text"""
    items = []
    whole = None
    for st in body:
        if isinstance(st, ast.Assign) and _dump(st) == _stmts("qubit = gate.target_indices[0]")[0]:
            continue
        if not (isinstance(st, ast.Expr) and isinstance(st.value, ast.Call)):
            raise Unparsed(f"statement {ast.unparse(st)}")
        call = st.value
        f = call.func
        if call.keywords:
            raise Unparsed("keyword arguments")
        if (isinstance(f, ast.Attribute) and isinstance(f.value, ast.Name) and f.value.id == "self"
                and f.attr == "add_decomposed_gates"):
            if _dump(call) != _dump(ast.parse("self.add_decomposed_gates(gate, ret, pmap[param])").body[0].value):
                raise Unparsed(f"call {ast.unparse(call)}")
            whole = "pauliDecomp"
            continue
        if not (isinstance(f, ast.Attribute) and isinstance(f.value, ast.Name) and f.value.id == "ret"):
            raise Unparsed(f"call {ast.unparse(call)}")
        m = re.fullmatch(r"add_(\w+)_gate", f.attr)
        if not m:
            raise Unparsed(f"method {f.attr}")
        g = m.group(1)
        if g == "ParametricPauliRotation":
            want = "ret.add_ParametricPauliRotation_gate(gate.target_indices, gate.pauli_ids, pmap[param])"
            if _dump(call) != _dump(ast.parse(want).body[0].value):
                raise Unparsed(f"call {ast.unparse(call)}")
            whole = "keepProt"
            continue
        if g in ("ParametricRX", "ParametricRY", "ParametricRZ"):
            if len(call.args) != 2 or not _is_qubit(call.args[0]) or not _is_pmap(call.args[1]):
                raise Unparsed(f"call {ast.unparse(call)}")
            items.append(f".pr .{PKS[g]}")
            continue
        if g in pysym.ONE_Q:
            if len(call.args) != 1 or not _is_qubit(call.args[0]):
                raise Unparsed(f"call {ast.unparse(call)}")
            items.append(f".fx .{g} []")
            continue
        if g in ("RX", "RY", "RZ"):
            if len(call.args) != 2 or not _is_qubit(call.args[0]):
                raise Unparsed(f"call {ast.unparse(call)}")
            items.append(f".fx .{g} [{_half_pi(call.args[1])}]")
            continue
        raise Unparsed(f"gate method {f.attr}")
    if whole is not None:
        if items:
            raise Unparsed("mixed branch")
        if whole == "keepProt":
            if kind != "prot":
                raise Unparsed("ParametricPauliRotation emitted for another kind")
            return ".keep"
        if kind != "prot":
            raise Unparsed("add_decomposed_gates for a 1-qubit kind")
        return ".pauliDecomp"
    if kind == "prot":
        raise Unparsed("1-qubit template for ParametricPauliRotation")
    if items == [f".pr .{kind}"]:
        return ".keep"
    return ".seq [" + ", ".join(items) + "]"


def _kind_of_test(test):
    if not (isinstance(test, ast.Compare) and len(test.ops) == 1 and isinstance(test.ops[0], ast.Eq)
            and _dump(test.left) == _dump(ast.parse("gate.name").body[0].value)):
        raise Unparsed(f"test {ast.unparse(test)}")
    c = test.comparators[0]
    name = c.id if isinstance(c, ast.Name) else c.attr if (
        isinstance(c, ast.Attribute) and isinstance(c.value, ast.Name) and c.value.id == "gate_names") else None
    if name not in PKS:
        raise Unparsed(f"test {ast.unparse(test)}")
    return PKS[name]


def rewriter(rel, clsname):
    """→ Lean `Rewriter` term; raises Unparsed"""
    tree = ast.parse(_read(rel))
    c = _cls(tree, clsname)
    if c is None:
        raise Unparsed(f"class {clsname} not found")
    f = _fn(c, "__call__")
    if f is None:
        raise Unparsed("__call__ not found")
    body = _nodoc(f.body)
    pro = _stmts(PROLOGUE)
    if [_dump(s) for s in body[: len(pro)]] != pro:
        raise Unparsed("prologue differs from the modelled one")
    rest = body[len(pro):]
    if len(rest) != 2 or _dump(rest[1]) != _stmts("return ret")[0] or not isinstance(rest[0], ast.For):
        raise Unparsed("loop / return shape")
    loop = rest[0]
    head = ast.parse(LOOP_HEAD).body[0]
    if _dump(loop.target) != _dump(head.target) or _dump(loop.iter) != _dump(head.iter) or loop.orelse:
        raise Unparsed("loop header")
    if len(loop.body) != 1 or not isinstance(loop.body[0], ast.If):
        raise Unparsed("loop body")
    top = loop.body[0]
    if _dump(top.test) != _dump(ast.parse("isinstance(gate, QuantumGate)").body[0].value):
        raise Unparsed("fixed-gate test")
    if [_dump(s) for s in top.body] != _stmts(FIXED_BRANCH):
        raise Unparsed("fixed-gate branch")
    els = list(top.orelse)
    if not els or _dump(els[0]) != _stmts(PARAM_NONE)[0]:
        raise Unparsed("`param is None` guard")
    els = els[1:]
    if els and isinstance(els[0], ast.Assign):
        if _dump(els[0]) != _stmts("qubit = gate.target_indices[0]")[0]:
            raise Unparsed(f"statement {ast.unparse(els[0])}")
        els = els[1:]
    if len(els) != 1 or not isinstance(els[0], ast.If):
        raise Unparsed("kind chain")
    rules = {}
    node = els[0]
    while True:
        k = _kind_of_test(node.test)
        if k in rules:
            raise Unparsed(f"kind {k} tested twice")
        rules[k] = _branch_items(k, node.body)
        if len(node.orelse) == 1 and isinstance(node.orelse[0], ast.If):
            node = node.orelse[0]
            continue
        if not (len(node.orelse) == 1 and isinstance(node.orelse[0], ast.Raise)):
            raise Unparsed("final else of the kind chain is not a raise")
        break
    return "⟨" + ", ".join(rules.get(k, ".unsupported") for k in ("rx", "ry", "rz", "prot")) + "⟩"


def nonparam_body(clsname, kind):
    """body of the non-parametric 1-qubit template as `List TI`"""
    tp = [t for t in templates.extract_class_templates(GATESET, only=[clsname])]
    if len(tp) != 1 or tp[0].error is not None:
        raise Unparsed(f"{clsname}: {tp[0].error if tp else 'not found'}")
    t = tp[0]
    if t.target.kind != kind:
        raise Unparsed(f"{clsname} targets {t.target.kind}")
    items = []
    for g in t.body:
        if g.controls or len(g.targets) != 1 or g.targets[0] != t.target.targets[0] or g.paulis:
            raise Unparsed("gate not on the target qubit")
        if len(g.params) == 0:
            items.append(f".fx .{g.kind} []")
            continue
        if len(g.params) != 1:
            raise Unparsed("multi-parameter gate")
        a = g.params[0]
        if a.vars:
            if a.vars != {"p0": Fraction(1)} or a.pi != 0 or a.rat != 0 or g.kind not in ROT_OF:
                raise Unparsed("angle is not the source angle itself")
            items.append(f".pr .{ROT_OF[g.kind]}")
        else:
            if a.rat != 0 or (a.pi * 2).denominator != 1:
                raise Unparsed("constant angle is not a multiple of pi/2")
            items.append(f".fx .{g.kind} [{int(a.pi * 2)}]")
    return "[" + ", ".join(items) + "]"


# ---------------------------------------------------------------------------------------------
# shapes of the hand-modelled Python loops
# ---------------------------------------------------------------------------------------------
SHAPES = {
    "ParametricTranspiler_call": (TRANSPILER, "ParametricTranspiler", "__call__", """
ret = LinearMappedParametricQuantumCircuit(circuit.qubit_count, circuit.cbit_count)
ret._param_mapping = LinearParameterMapping(circuit.param_mapping.in_params)
pmap = circuit.param_mapping.mapping
gates = []
for gate, param in circuit.primitive_circuit().gates_and_params:
    if isinstance(gate, QuantumGate):
        gates.append(gate)
    else:
        if gates:
            cc = QuantumCircuit(circuit.qubit_count, gates=gates)
            ret.extend(self._transpiler(cc).gates)
            gates = []
        if param is None:
            raise ValueError("Parametric gate with no Parameter: {gate}")
        if gate.name == gate_names.ParametricRX:
            ret.add_ParametricRX_gate(gate.target_indices[0], pmap[param])
        elif gate.name == gate_names.ParametricRY:
            ret.add_ParametricRY_gate(gate.target_indices[0], pmap[param])
        elif gate.name == gate_names.ParametricRZ:
            ret.add_ParametricRZ_gate(gate.target_indices[0], pmap[param])
        elif gate.name == gate_names.ParametricPauliRotation:
            ret.add_ParametricPauliRotation_gate(gate.target_indices, gate.pauli_ids, pmap[param])
        else:
            raise ValueError(f"Unsupported parametric gate: {gate}")
if gates:
    cc = QuantumCircuit(circuit.qubit_count, gates=gates)
    ret.extend(self._transpiler(cc).gates)
return ret
"""),
    "ParametricSequential_call": (TRANSPILER, "ParametricSequentialTranspiler", "__call__", """
for transpiler in self._transpilers:
    circuit = transpiler(circuit)
return circuit
"""),
    "add_decomposed_gates": (MPD, "ParametricPauliRotationDecomposeTranspiler", "add_decomposed_gates", """
indices = gate.target_indices
pauli_ids = gate.pauli_ids
circuit.extend(rot_gates(1, indices, pauli_ids))
for i in reversed(range(1, len(indices))):
    circuit.add_gate(gates.CNOT(indices[i], indices[0]))
circuit.add_ParametricRZ_gate(indices[0], param)
for i in range(1, len(indices)):
    circuit.add_gate(gates.CNOT(indices[i], indices[0]))
circuit.extend(rot_gates(-1, indices, pauli_ids))
"""),
    "rot_gates": (MPD, None, "rot_gates", """
rc = []
for index, pauli in zip(indices, pauli_ids):
    if pauli == 1:
        rc.append(gates.H(index))
    elif pauli == 2:
        rc.append(gates.RX(index, rot_sign * np.pi / 2.0))
    elif pauli == 3:
        pass
    else:
        raise ValueError("Pauli id must be either 1, 2, or 3.")
return rc
"""),
    "PauliRotationDecompose_decompose": (MPD, "PauliRotationDecomposeTranspiler", "decompose", """
indices = gate.target_indices
pauli_ids = gate.pauli_ids
angle = gate.params[0]
ret: list[QuantumGate] = []
ret.extend(rot_gates(1, indices, pauli_ids))
for i in reversed(range(1, len(indices))):
    ret.append(gates.CNOT(indices[i], indices[0]))
ret.append(gates.RZ(indices[0], angle))
for i in range(1, len(indices)):
    ret.append(gates.CNOT(indices[i], indices[0]))
ret.extend(rot_gates(-1, indices, pauli_ids))
return ret
"""),
    "PauliRotationDecompose_targets": (MPD, "PauliRotationDecomposeTranspiler", "target_gate_names", """
return [gate_names.PauliRotation]
"""),
}


def python_shapes():
    out = {}
    for key, (rel, cls, fn, src) in SHAPES.items():
        try:
            tree = ast.parse(_read(rel))
            scope = tree if cls is None else _cls(tree, cls)
            f = _fn(scope, fn) if scope is not None else None
            if f is None:
                out[key] = f"{cls}.{fn} not found"
                continue
            got = [_dump(s) for s in _nodoc(f.body)]
            out[key] = True if got == _stmts(src) else f"{cls}.{fn} differs from the modelled algorithm"
        except (OSError, SyntaxError) as e:
            out[key] = f"cannot read {rel}: {e}"
    return out


# ---------------------------------------------------------------------------------------------
# Rust: bind_parameters_internal arms + normalised bodies
# ---------------------------------------------------------------------------------------------
def strip_comments(src):
    src = re.sub(r"/\*.*?\*/", "", src, flags=re.S)
    return re.sub(r"//[^\n]*", "", src)


def match_close(src, i, op="{", cl="}"):
    depth = 0
    for j in range(i, len(src)):
        if src[j] == op:
            depth += 1
        elif src[j] == cl:
            depth -= 1
            if depth == 0:
                return j
    raise Unparsed("unbalanced braces")


def rust_fn_body(src, name, nth=0):
    """body text (between the outer braces) of the nth `fn name`"""
    ms = list(re.finditer(r"\bfn\s+" + re.escape(name) + r"\b", src))
    if len(ms) <= nth:
        raise Unparsed(f"fn {name} not found")
    i = src.index("{", _sig_end(src, ms[nth].end()))
    j = match_close(src, i)
    return src[i + 1: j]


def _sig_end(src, i):
    """skip the parameter list (balanced parentheses) so that `{` of a type in the signature is not taken"""
    k = src.index("(", i)
    return match_close(src, k, "(", ")")


def norm(s):
    return re.sub(r"\s+", "", s)


BIND_CLOSURE = norm("|p|{letf=params.pop_front()?;map.insert(p,f);Some(f)}")


def _split_top(s, sep=","):
    out, depth, cur = [], 0, ""
    for ch in s:
        if ch in "([{":
            depth += 1
        elif ch in ")]}":
            depth -= 1
        if ch == sep and depth == 0:
            out.append(cur)
            cur = ""
        else:
            cur += ch
    if cur.strip():
        out.append(cur)
    return out


def rust_bind_arms():
    """[(input kind, output kind, [action per argument])]; actions `copy:<binder>` / `bind:<binder>`"""
    src = strip_comments(_read(RUST))
    body = rust_fn_body(src, "bind_parameters_internal")
    m = re.search(r"Some\s*\(\s*match\s+gate\s*\{", body)
    if not m:
        raise Unparsed("`Some(match gate {` not found")
    i = body.index("{", m.start())
    j = match_close(body, i)
    mb = body[i + 1: j]
    # arm starts at nesting depth 0
    starts = []
    depth = 0
    for k, ch in enumerate(mb):
        if ch in "([{":
            depth += 1
        elif ch in ")]}":
            depth -= 1
        elif depth == 0 and mb.startswith("QuantumGate::", k):
            mm = re.match(r"QuantumGate::(\w+)\s*\(([^)]*)\)\s*=>", mb[k:])
            if mm:
                starts.append((k, mm))
    arms = []
    for idx, (k, mm) in enumerate(starts):
        end = starts[idx + 1][0] if idx + 1 < len(starts) else len(mb)
        rhs = norm(mb[k + mm.end(): end]).rstrip(",")
        if rhs.startswith("{") and rhs.endswith("}"):
            rhs = rhs[1:-1]
        binders = [norm(b) for b in mm.group(2).split(",") if norm(b)]
        r = re.fullmatch(r"QuantumGate::(\w+)\((.*)\)", rhs)
        if not r:
            arms.append((mm.group(1), "?", ["?"]))
            continue
        acts = []
        for a in _split_top(r.group(2)):
            a = norm(a)
            if not a:
                continue
            c = re.fullmatch(r"\*(\w+)|(\w+)\.clone\(\)", a)
            if c:
                acts.append("copy:" + (c.group(1) or c.group(2)))
                continue
            b = re.fullmatch(r"(\w+)\.unwrap_or_else\((.*)\)\?", a)
            if b and b.group(2) == BIND_CLOSURE:
                acts.append("bind:" + b.group(1))
                continue
            acts.append("?")
        # arguments must be the binders, in order
        if [x.split(":")[-1] for x in acts] != binders:
            acts = ["?"]
        arms.append((mm.group(1), r.group(1), acts))
    return arms


# sha256 of the normalised body of the Rust functions the model transcribes (catalogue of known shapes)
RUST_SHAPES = {
    # name: (fn name, nth occurrence, meaning, accepted digests)
    "bind_tail": ("bind_parameters_internal", 0, "count of values must equal count of parametric gates, else ValueError"),
    "bind_parameters_by_dict": ("bind_parameters_by_dict", 0, "values looked up per raw parameter in gate order; RuntimeError if missing"),
    "get__params": ("get__params", 0, "raw parameters of the unbound gates, in gate order"),
    "get_param_mapping": ("get_param_mapping", 0, "LinearParameterMapping(params, params, {p: p})"),
    "add_gate_inner": ("add_gate_inner", 0, "index check against qubit_count, then push/insert"),
    "extend": ("extend", 0, "parametric source: gates cloned with their raw parameters, each index-checked"),
    "add_ParametricRX_gate": ("add_ParametricRX_gate", 0, "fresh Parameter per gate"),
    "add_ParametricRY_gate": ("add_ParametricRY_gate", 0, "fresh Parameter per gate"),
    "add_ParametricRZ_gate": ("add_ParametricRZ_gate", 0, "fresh Parameter per gate"),
    "add_ParametricPauliRotation_gate": ("add_ParametricPauliRotation_gate", 0, "fresh Parameter per gate"),
    "bound_py_new": ("py_new", 2, "ImmutableBoundParametricQuantumCircuit(circuit, map) = bind_parameters_by_dict"),
    "py_radd": ("py_radd", 0, "new circuit of self.qubit_count; extend(gates); extend(self)"),
    "combine": ("combine", 0, "mutable copy, then extend"),
}
def _digest(s):
    return hashlib.sha256(norm(s).encode()).hexdigest()[:16]


def rust_shape_digests():
    """name → digest of the current body (or an error string starting with '!')"""
    out = {}
    try:
        src = strip_comments(_read(RUST))
    except OSError as e:
        return {k: f"!{e}" for k in RUST_SHAPES}
    for k, (fn, nth, _) in RUST_SHAPES.items():
        try:
            body = rust_fn_body(src, fn, nth)
            if k == "bind_tail":
                i = body.index(".collect::<Option<_>>();")
                body = body[i:]
            out[k] = _digest(body)
        except (Unparsed, ValueError) as e:
            out[k] = f"!{e}"
    return out


# digests of the normalised bodies the model was written against (catalogue; a body outside the
# catalogue makes the corresponding obligation false)
KNOWN_RUST = {
    "bind_tail": "7f9ac7f672cd303b",
    "bind_parameters_by_dict": "e80795b0f9981a7d",
    "get__params": "5ef75272e5db980b",
    "get_param_mapping": "24252b85fb221131",
    "add_gate_inner": "b2cd74d8b463de7e",
    "extend": "222bf6a366623388",
    "add_ParametricRX_gate": "ded281cd17561baa",
    "add_ParametricRY_gate": "9b1cc7fb65ef85e8",
    "add_ParametricRZ_gate": "0199381e369cab19",
    "add_ParametricPauliRotation_gate": "25996e99424f354a",
    "bound_py_new": "4c5fef905be4104e",
    "py_radd": "81fc61a367425561",
    "combine": "d203fd0a20655b3a",
}


def lean_str(s):
    return '"' + s.replace("\\", "\\\\").replace('"', "'") + '"'


def emit(known_rust: dict | None = None) -> tuple[str, int, dict]:
    """→ (Lean text, number of entries, info)"""
    L = [
        "-- GENERATED by /verif/translate/c10gen.py from the working tree; do not edit.",
        "import QuriVerif.Model.C10",
        "namespace QV.Gen.C10",
        "open QV QV.C10",
    ]
    n = 0
    known_rust = KNOWN_RUST if known_rust is None else known_rust
    info = {"unparsed": []}
    for name, rel, cls in (("rx2rzh", GATESET, "ParametricRX2RZHTranspiler"),
                           ("ry2rzh", GATESET, "ParametricRY2RZHTranspiler"),
                           ("pauli", MPD, "ParametricPauliRotationDecomposeTranspiler")):
        n += 1
        try:
            term = rewriter(rel, cls)
            L.append(f"-- {rel}:{cls}.__call__")
            L.append(f"def {name} : Rewriter := {term}")
            L.append(f"theorem {name}_parsed : ({lean_str('')} = \"\") := by decide")
        except (Unparsed, OSError, SyntaxError) as e:
            msg = f"{cls}: {e}"
            info["unparsed"].append(msg)
            L.append(f"-- UNPARSED {msg}")
            L.append(f"def {name} : Rewriter := ⟨.unsupported, .unsupported, .unsupported, .unsupported⟩")
            L.append(f"theorem {name}_parsed : ({lean_str('unparsed: ' + msg)} = \"\") := by decide")
    for name, cls, kind in (("nrx", "RX2RZHTranspiler", "RX"), ("nry", "RY2RZHTranspiler", "RY")):
        n += 1
        try:
            term = nonparam_body(cls, kind)
            L.append(f"-- {GATESET}:{cls}.decompose")
            L.append(f"def {name} : List TI := {term}")
            L.append(f"theorem {name}_parsed : ({lean_str('')} = \"\") := by decide")
        except (Unparsed, OSError, SyntaxError) as e:
            msg = f"{cls}: {e}"
            info["unparsed"].append(msg)
            L.append(f"-- UNPARSED {msg}")
            L.append(f"def {name} : List TI := []")
            L.append(f"theorem {name}_parsed : ({lean_str('unparsed: ' + msg)} = \"\") := by decide")
    L.append("def tables : Tables := ⟨rx2rzh, ry2rzh, pauli, nrx, nry⟩")
    # kernel-checked obligations on the translated data
    L.append("/-- every 1-qubit rule of the rewriting parametric transpilers preserves the action up to phase, for all angles -/")
    for name in ("rx2rzh", "ry2rzh", "pauli"):
        n += 1
        L.append(f"theorem {name}_rules_ok : rewriterCheck {name} = true := by decide +kernel")
    L.append("/-- the parametric rule is, gate for gate, the body of the non-parametric counterpart -/")
    L.append("theorem rx2rzh_matches : rx2rzh.rx = .seq nrx := by decide")
    L.append("theorem ry2rzh_matches : ry2rzh.ry = .seq nry := by decide")
    L.append("theorem nrx_ok : (boundTemplate .rx nrx).check = true := by decide +kernel")
    L.append("theorem nry_ok : (boundTemplate .ry nry).check = true := by decide +kernel")
    L.append("theorem pauli_shape : pauli = ⟨.keep, .keep, .keep, .pauliDecomp⟩ := by decide")
    n += 5
    # python shapes
    sh = python_shapes()
    for k, v in sh.items():
        n += 1
        ok = v is True
        L.append(f"def pyShape_{k} : Bool := {'true' if ok else 'false'}" + ("" if ok else f"  -- {v}"))
        L.append(f"theorem pyShape_{k}_ok : pyShape_{k} = true := by decide")
        if not ok:
            info["unparsed"].append(str(v))
    # rust arms
    try:
        arms = rust_bind_arms()
    except (Unparsed, OSError) as e:
        arms = []
        info["unparsed"].append(f"rust bind arms: {e}")
    n += len(arms)
    L.append("/-- arms of Rust `bind_parameters_internal`: (input kind, output kind, action per argument) -/")
    L.append("def rustBindArms : List (String × String × List String) := [")
    L.append(",\n".join("  (" + lean_str(a) + ", " + lean_str(b) + ", [" + ", ".join(lean_str(x) for x in acts) + "])"
                        for a, b, acts in arms))
    L.append("]")
    L.append("theorem rustBindArms_ok : rustBindArms = expectedArms := by decide")
    dg = rust_shape_digests()
    info["rust_digests"] = dg
    for k in RUST_SHAPES:
        n += 1
        ok = dg.get(k) == known_rust.get(k)
        L.append(f"def rustShape_{k} : Bool := {'true' if ok else 'false'}  -- {RUST_SHAPES[k][2]}; body digest {dg.get(k)}")
        L.append(f"theorem rustShape_{k}_ok : rustShape_{k} = true := by decide")
        if not ok:
            info["unparsed"].append(f"rust fn {RUST_SHAPES[k][0]} differs from the transcribed shape")
    L.append("end QV.Gen.C10")
    return "\n".join(L) + "\n", n, info
