"""Translator for C05: the literal tables of operator/pauli.py and operator/sparse.py (source text only).

  * `SinglePauli` enum values,
  * `_pauli_products_map` (pair of ids -> None | (id, phase)),
  * `_sparse_pauli_x/y/z` 2x2 matrices and `_pauli_map`,
  * shape facts that the hand model relies on and that are cheap to read from the AST:
      - bsf.py: the per-letter updates of `pauli_label_to_bsv` (which of x/z get `+= b`, phase factor),
      - sparse.py: the index expression `single_pauli_list[n_qubits - bit - 1]`.

Every entry becomes a Lean definition plus an obligation comparing it with the model
(Model/C05.lean); an entry that cannot be read becomes an obligation that is false.
"""
from __future__ import annotations

import ast

from . import tables

PAULI = "packages/core/quri_parts/core/operator/pauli.py"
SPARSE = "packages/core/quri_parts/core/operator/sparse.py"
BSF = "packages/core/quri_parts/core/operator/representation/bsf.py"

PHASE_EXP = {complex(1, 0): 0, complex(0, 1): 1, complex(-1, 0): 2, complex(0, -1): 3}


class Unreadable(Exception):
    pass


def enum_values(tree) -> dict:
    for n in tree.body:
        if isinstance(n, ast.ClassDef) and n.name == "SinglePauli":
            out = {}
            for s in n.body:
                if isinstance(s, ast.Assign) and len(s.targets) == 1 and isinstance(s.targets[0], ast.Name):
                    if isinstance(s.value, ast.Constant) and isinstance(s.value.value, int):
                        out[s.targets[0].id] = s.value.value
            return out
    raise Unreadable("class SinglePauli not found")


def product_rows(tree, enum):
    """[(a, b, None | (c, exponent) | ('?', text))] in source order"""
    env = {f"SinglePauli.{k}": v for k, v in enum.items()}
    node = tables.module_assign(tree, "_pauli_products_map")
    if not isinstance(node, ast.Dict):
        raise Unreadable("_pauli_products_map is not a dict literal")
    rows = []
    for k, v in zip(node.keys, node.values):
        try:
            kk = tables.literal(k, env)
            a, b = int(kk[0]), int(kk[1])
        except Exception as e:  # noqa: BLE001
            raise Unreadable(f"key {ast.unparse(k)}: {e}")
        try:
            vv = tables.literal(v, env)
            if vv is None:
                rows.append((a, b, None))
            else:
                c, ph = int(vv[0]), complex(vv[1])
                if ph not in PHASE_EXP:
                    rows.append((a, b, ("?", ast.unparse(v))))
                else:
                    rows.append((a, b, (c, PHASE_EXP[ph])))
        except Exception:  # noqa: BLE001
            rows.append((a, b, ("?", ast.unparse(v))))
    return rows


def _gauss(x):
    z = complex(x)
    if z.real != int(z.real) or z.imag != int(z.imag):
        raise Unreadable(f"matrix entry {x} is not a Gaussian integer")
    return int(z.real), int(z.imag)


def sparse_matrices(tree, enum):
    """({var: 2x2 of (re, im)}, [(id, var)] of _pauli_map)"""
    mats = {}
    for n in tree.body:
        if isinstance(n, ast.Assign) and len(n.targets) == 1 and isinstance(n.targets[0], ast.Name):
            nm = n.targets[0].id
            if nm.startswith("_sparse_pauli_") and isinstance(n.value, ast.Call) and n.value.args:
                try:
                    lit = tables.literal(n.value.args[0], {})
                    mats[nm] = [[_gauss(x) for x in row] for row in lit]
                except Exception as e:  # noqa: BLE001
                    mats[nm] = ("?", str(e))
    env = {f"SinglePauli.{k}": v for k, v in enum.items()}
    pm = []
    try:
        node = tables.module_assign(tree, "_pauli_map")
        if not isinstance(node, ast.Dict):
            raise Unreadable("_pauli_map is not a dict literal")
        for k, v in zip(node.keys, node.values):
            pm.append((int(tables.literal(k, env)), v.id if isinstance(v, ast.Name) else "?"))
    except Exception as e:  # noqa: BLE001
        pm = [(-1, f"? {e}")]
    return mats, pm


def placement_index(tree) -> str:
    """the subscript used when a Pauli is placed into `single_pauli_list`"""
    for n in ast.walk(tree):
        if isinstance(n, ast.FunctionDef) and n.name == "_convert_pauli_label_to_sparse":
            for s in ast.walk(n):
                if (isinstance(s, ast.Assign) and len(s.targets) == 1 and isinstance(s.targets[0], ast.Subscript)
                        and isinstance(s.targets[0].value, ast.Name) and s.targets[0].value.id == "single_pauli_list"):
                    return ast.unparse(s.targets[0].slice)
    return "?"


def bsv_updates(tree, enum):
    """per letter: (x updated, z updated, phase exponent factor) read from the if/elif chain of pauli_label_to_bsv"""
    env = {f"SinglePauli.{k}": v for k, v in enum.items()}
    out = {}
    for n in tree.body:
        if isinstance(n, ast.FunctionDef) and n.name == "pauli_label_to_bsv":
            loops = [s for s in n.body if isinstance(s, ast.For)]
            if not loops:
                break
            chain = [s for s in loops[0].body if isinstance(s, ast.If)]
            if not chain:
                break
            node = chain[0]
            while node is not None:
                t = node.test
                pid = None
                if isinstance(t, ast.Compare) and len(t.ops) == 1 and isinstance(t.ops[0], ast.Eq):
                    try:
                        pid = int(tables.literal(t.comparators[0], env))
                    except Exception:  # noqa: BLE001
                        pid = None
                x = z = False
                ph = 0
                okb = pid is not None
                for s in node.body:
                    if isinstance(s, ast.AugAssign) and isinstance(s.target, ast.Name):
                        if s.target.id in ("x", "z") and isinstance(s.op, ast.Add) and isinstance(s.value, ast.Name) and s.value.id == "b":
                            if s.target.id == "x":
                                x = True
                            else:
                                z = True
                        elif s.target.id == "phase" and isinstance(s.op, ast.Mult):
                            try:
                                ph = PHASE_EXP[complex(tables.literal(s.value, {}))]
                            except Exception:  # noqa: BLE001
                                okb = False
                        else:
                            okb = False
                    else:
                        okb = False
                if pid is not None:
                    out[pid] = (x, z, ph) if okb else None
                nxt = node.orelse
                node = nxt[0] if len(nxt) == 1 and isinstance(nxt[0], ast.If) else None
                if nxt and node is None:
                    out[-1] = None  # a trailing else branch: not the shape the model has
    return out


def gen():
    lines = [
        "-- GENERATED by /verif/translate/c05gen.py from the working tree; do not edit.",
        "import QuriVerif.Model.C05",
        "namespace QV.Gen.C05",
        "open QV.C05",
        "def ofCode (n : Nat) : P1 := (P1.ofId? n).getD .I",
    ]
    n = 0
    bad = "(0 : Nat) = 1 := by decide"
    info = {}
    try:
        ptree = tables.parse(PAULI)
        enum = enum_values(ptree)
    except Exception as e:  # noqa: BLE001
        lines.append(f"-- UNREADABLE SinglePauli: {e}")
        lines.append(f"theorem enum_ok : {bad}")
        lines.append("end QV.Gen.C05")
        return "\n".join(lines) + "\n", 1, info
    n += 1
    ev = ", ".join(f'("{k}", {v})' for k, v in sorted(enum.items()))
    lines.append(f"def enumCodes : List (String × Nat) := [{ev}]")
    lines.append('theorem enum_ok : enumCodes = [("X", P1.X.code), ("Y", P1.Y.code), ("Z", P1.Z.code)] := by decide')
    info["enum"] = enum
    # product table
    try:
        rows = product_rows(ptree, enum)
    except Exception as e:  # noqa: BLE001
        rows = None
        lines.append(f"-- UNREADABLE _pauli_products_map: {e}")
        lines.append(f"theorem table_complete : {bad}")
        n += 1
    if rows is not None:
        info["rows"] = rows
        seen = set()
        for a, b, v in rows:
            n += 1
            ident = f"row_{a}_{b}" + ("" if (a, b) not in seen else f"_dup{len(seen)}")
            seen.add((a, b))
            if v is None:
                lines.append(f"def {ident} : Option (Nat × Nat) := none")
            elif v[0] == "?":
                lines.append(f"-- UNREADABLE value for ({a},{b}): {v[1]}")
                lines.append(f"theorem {ident}_ok : {bad}")
                continue
            else:
                lines.append(f"def {ident} : Option (Nat × Nat) := some ({v[0]}, {v[1]})")
            lines.append(
                f"theorem {ident}_ok : (prodTable (ofCode {a}) (ofCode {b})).map (fun r => (r.1.code, r.2)) = {ident} := by decide"
            )
        n += 1
        ks = ", ".join(f"({a}, {b})" for a, b, _ in rows)
        lines.append(f"def tableKeys : List (Nat × Nat) := [{ks}]")
        lines.append(
            "theorem table_complete : tableKeys.length = 9 ∧ "
            "(∀ a ∈ [1, 2, 3], ∀ b ∈ [1, 2, 3], (a, b) ∈ tableKeys) := by decide"
        )
    # sparse matrices
    try:
        stree = tables.parse(SPARSE)
        mats, pm = sparse_matrices(stree, enum)
        info["mats"] = mats
        info["pauli_map"] = pm
        for pid, var in pm:
            n += 1
            m = mats.get(var)
            ident = f"srcMat_{pid}" if pid >= 0 else "srcMat_unreadable"
            if pid not in (1, 2, 3) or m is None or (isinstance(m, tuple) and m[0] == "?"):
                lines.append(f"-- UNREADABLE _pauli_map[{pid}] = {var}: {m}")
                lines.append(f"theorem {ident}_ok : {bad}")
                continue
            body = ", ".join("[" + ", ".join(f"⟨{re}, {im}⟩" for re, im in row) + "]" for row in m)
            lines.append(f"def {ident} : List (List K) := [{body}]")
            lines.append(
                f"theorem {ident}_ok : {ident} = [[mat1 (ofCode {pid}) false false, mat1 (ofCode {pid}) false true], "
                f"[mat1 (ofCode {pid}) true false, mat1 (ofCode {pid}) true true]] := by decide"
            )
        n += 1
        lines.append("def pauliMapKeys : List Nat := [" + ", ".join(str(p) for p, _ in pm) + "]")
        lines.append("theorem pauliMap_complete : ∀ a ∈ [1, 2, 3], a ∈ pauliMapKeys := by decide")
        n += 1
        idx = placement_index(stree)
        info["placement"] = idx
        lines.append(f'def placementIndex : String := "{idx}"')
        lines.append('theorem placementIndex_ok : placementIndex = "n_qubits - bit - 1" := by decide')
    except Exception as e:  # noqa: BLE001
        lines.append(f"-- UNREADABLE sparse.py: {e}")
        lines.append(f"theorem pauliMap_complete : {bad}")
        n += 1
    # bsv updates
    try:
        btree = tables.parse(BSF)
        ups = bsv_updates(btree, enum)
        info["bsv"] = ups
        n += 1
        ent = []
        okb = True
        for pid in sorted(ups):
            if ups[pid] is None:
                okb = False
                continue
            x, z, ph = ups[pid]
            ent.append(f"({pid}, {'true' if x else 'false'}, {'true' if z else 'false'}, {ph})")
        lines.append("def bsvUpdates : List (Nat × Bool × Bool × Nat) := [" + ", ".join(ent) + "]")
        if okb and ent:
            lines.append(
                "theorem bsvUpdates_ok : bsvUpdates = [1, 2, 3].map (fun a => "
                "(a, decide ((bsvStep ⟨0, 0, 0⟩ (0, ofCode a)).x = 1), decide ((bsvStep ⟨0, 0, 0⟩ (0, ofCode a)).z = 1), "
                "(bsvStep ⟨0, 0, 0⟩ (0, ofCode a)).ph)) := by decide"
            )
        else:
            lines.append(f"theorem bsvUpdates_ok : {bad}")
    except Exception as e:  # noqa: BLE001
        lines.append(f"-- UNREADABLE bsf.py: {e}")
        lines.append(f"theorem bsvUpdates_ok : {bad}")
        n += 1
    lines.append("end QV.Gen.C05")
    return "\n".join(lines) + "\n", n, info
