"""Translator T for literal tables and preset pipelines (source text only)."""
from __future__ import annotations

import ast
import os

REPO = os.environ.get("VERIF_REPO", "/repo")


class TableError(Exception):
    pass


def parse(rel: str) -> ast.Module:
    return ast.parse(open(os.path.join(REPO, rel)).read())


def module_assign(tree: ast.Module, name: str):
    """value node of the module-level assignment `name = ...` / `name: T = ...`"""
    for n in tree.body:
        if isinstance(n, ast.Assign) and any(isinstance(t, ast.Name) and t.id == name for t in n.targets):
            return n.value
        if isinstance(n, ast.AnnAssign) and isinstance(n.target, ast.Name) and n.target.id == name and n.value:
            return n.value
    raise TableError(f"no module-level assignment to {name}")


def literal(node, env=None):
    """evaluate a literal expression; Names resolve through env (else to their own id, for gate-name constants
    only when env says so); sets become sorted lists; supports | & - on sets"""
    env = env or {}
    if isinstance(node, ast.Constant):
        return node.value
    if isinstance(node, ast.Name):
        if node.id in env:
            return env[node.id]
        raise TableError(f"unknown name {node.id}")
    if isinstance(node, ast.Attribute) and isinstance(node.value, ast.Name):
        key = f"{node.value.id}.{node.attr}"
        if key in env:
            return env[key]
        if node.attr in env:
            return env[node.attr]
        raise TableError(f"unknown attribute {key}")
    if isinstance(node, (ast.List, ast.Tuple)):
        return [literal(e, env) for e in node.elts]
    if isinstance(node, ast.Set):
        return set(literal(e, env) for e in node.elts)
    if isinstance(node, ast.Dict):
        out = {}
        for k, v in zip(node.keys, node.values):
            kk = literal(k, env)
            if isinstance(kk, list):
                kk = tuple(kk)
            out[kk] = literal(v, env)
        return out
    if isinstance(node, ast.UnaryOp) and isinstance(node.op, ast.USub):
        return -literal(node.operand, env)
    if isinstance(node, ast.BinOp) and isinstance(node.op, (ast.BitOr, ast.BitAnd, ast.Sub)):
        a, b = literal(node.left, env), literal(node.right, env)
        if isinstance(a, set) and isinstance(b, set):
            return a | b if isinstance(node.op, ast.BitOr) else (a & b if isinstance(node.op, ast.BitAnd) else a - b)
    if isinstance(node, ast.Call) and isinstance(node.func, ast.Name) and node.func.id in ("frozenset", "set", "tuple", "list"):
        if not node.args:
            return set() if "set" in node.func.id else []
        v = literal(node.args[0], env)
        return set(v) if "set" in node.func.id else list(v)
    raise TableError(f"not a literal: {ast.unparse(node)[:80]}")


def gate_name_env() -> dict:
    """name constants and name sets of gate_names.py"""
    tree = parse("packages/circuit/quri_parts/circuit/gate_names.py")
    env = {}
    for n in tree.body:
        if isinstance(n, ast.AnnAssign) and isinstance(n.target, ast.Name) and n.value is not None:
            try:
                env[n.target.id] = literal(n.value, env)
            except TableError:
                pass
        elif isinstance(n, ast.Assign) and len(n.targets) == 1 and isinstance(n.targets[0], ast.Name):
            try:
                env[n.targets[0].id] = literal(n.value, env)
            except TableError:
                pass
    return env


# ---------------------------------------------------------------------------
# preset pipelines: expression trees of transpiler constructors
# ---------------------------------------------------------------------------
def ctor_tree(node, env):
    """Call tree  Name(args) -> {"cls": Name, "args": [...], "kw": {...}} ; lists -> lists; other literals"""
    if isinstance(node, ast.Call) and isinstance(node.func, ast.Name):
        return {
            "cls": node.func.id,
            "args": [ctor_tree(a, env) for a in node.args],
            "kw": {k.arg: ctor_tree(k.value, env) for k in node.keywords},
        }
    if isinstance(node, (ast.List, ast.Tuple)):
        return [ctor_tree(e, env) for e in node.elts]
    if isinstance(node, ast.Name) and node.id not in env:
        return {"var": node.id}
    if isinstance(node, ast.Attribute) and isinstance(node.value, ast.Name) and node.value.id == "self":
        return {"var": "self." + node.attr}
    try:
        return literal(node, env)
    except TableError:
        return {"expr": ast.unparse(node)}


def presets(env) -> dict:
    """the four preset pipelines of transpile/__init__.py as constructor trees"""
    tree = parse("packages/circuit/quri_parts/circuit/transpile/__init__.py")
    out = {}
    for name in ("RZSetTranspiler", "RotationSetTranspiler", "STARSetTranspiler"):
        v = module_assign(tree, name)
        if not isinstance(v, ast.Lambda):
            raise TableError(f"{name} is not a lambda")
        out[name] = ctor_tree(v.body, env)
    for n in tree.body:
        if isinstance(n, ast.ClassDef) and n.name == "CliffordRZSetTranspiler":
            init = [m for m in n.body if isinstance(m, ast.FunctionDef) and m.name == "__init__"][0]
            call = [s for s in init.body if isinstance(s, ast.Expr) and isinstance(s.value, ast.Call)][0].value
            out[n.name] = {"cls": "SequentialTranspiler", "args": [ctor_tree(call.args[0], env)], "kw": {},
                           "bases": [ast.unparse(b) for b in n.bases]}
    if "CliffordRZSetTranspiler" not in out:
        raise TableError("CliffordRZSetTranspiler not found")
    return out
