#!/bin/sh
# usage: tools/suite.sh <repo-copy> <outdir>
# Runs the repository's own test suite package by package (in parallel) against the Python sources of <repo-copy>
# (import overlay: the baseline command would import the installed 0.27 wheel instead) and writes <outdir>/failed.txt
# (sorted ids of failing / erroring tests) and <outdir>/summary.txt.
R=$1; O=$2; mkdir -p $O; rm -f $O/*.out
cp /verif/tools/ovl.py $R/ovl.py
cd $R
for p in packages/*/; do
  n=$(basename $p)
  [ -d $p/tests ] || continue
  ( timeout 2400 /venv/bin/python ovl.py -m pytest -q -p no:cacheprovider -p no:xdist --timeout=900 --continue-on-collection-errors -rfE $p/tests > $O/$n.out 2>&1; echo "rc=$?" >> $O/$n.out ) &
done
wait
grep -h "^FAILED\|^ERROR" $O/*.out | sed 's/ - .*//' | sort -u > $O/failed.txt
for f in $O/*.out; do echo "$(basename $f .out): $(grep -E "passed|failed|error" $f | tail -1) $(tail -1 $f)"; done > $O/summary.txt
cat $O/summary.txt
