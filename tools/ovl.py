"""Import overlay: makes `import quri_parts.*` load the Python sources of THIS worktree (packages/*/quri_parts)
instead of the installed wheel (the compiled extension quri_parts.rust always comes from site-packages and
cannot be rebuilt offline).  Usage:  /venv/bin/python ovl.py script.py [args]   or   /venv/bin/python ovl.py -m pytest <paths>"""
import glob, os, runpy, sys, types

ROOT = os.path.dirname(os.path.abspath(__file__))
paths = [p for p in sorted(glob.glob(os.path.join(ROOT, "packages", "*"))) if os.path.basename(p) != "rust" and os.path.isdir(p)]
for p in reversed(paths):
    sys.path.insert(0, p)
subs = {}
for p in paths:
    for d in sorted(glob.glob(os.path.join(p, "quri_parts", "*"))):
        if os.path.isdir(d) and not os.path.basename(d).startswith("__"):
            subs.setdefault(os.path.basename(d), []).append(d)
import quri_parts
for sub, dirs in subs.items():
    name = "quri_parts." + sub
    if any(os.path.exists(os.path.join(d, "__init__.py")) for d in dirs):
        continue
    mod = types.ModuleType(name); mod.__path__ = list(dirs); mod.__package__ = name
    sys.modules[name] = mod; setattr(quri_parts, sub, mod)
if __name__ == "__main__":
    if len(sys.argv) >= 3 and sys.argv[1] == "-m":
        mod = sys.argv[2]; sys.argv = [mod] + sys.argv[3:]
        runpy.run_module(mod, run_name="__main__", alter_sys=True)
    elif len(sys.argv) >= 2:
        script = sys.argv[1]; sys.argv = sys.argv[1:]
        runpy.run_path(script, run_name="__main__")
