#!/venv/bin/python
"""usage: tools/seed_confirm.py <ID> <dir with patch.diff demo.py meta.json> [note] [dest dir name under seeded/]

Confirms one seeded change (produced by a blind sub-agent that saw only the property text) and files it under
/verif/seeded/<ID>/.  Everything runs on scratch copies of /repo under /var/tmp (never in /repo):
  1. the demonstration passes on the unchanged copy and fails on the changed copy;
  2. the repository's own test suite (package by package, import overlay so that the copy's sources are what is
     tested) has exactly the same failing set with and without the change;
  3. `VERIF_REPO=<changed copy> ./check <ID>` exits 1 with a VIOLATION line (and whether it carries a concrete input).
The scratch copies are removed afterwards."""
import json
import os
import re
import shutil
import subprocess
import sys

V = "/verif"


def sh(cmd, **kw):
    return subprocess.run(cmd, shell=True, capture_output=True, text=True, **kw)


def main():
    pid, src = sys.argv[1], sys.argv[2]
    note = sys.argv[3] if len(sys.argv) > 3 else ""
    dest = sys.argv[4] if len(sys.argv) > 4 else pid
    base = "/var/tmp/qv-base"
    if not os.path.exists(f"{base}/suite/failed.txt"):
        shutil.rmtree(base, ignore_errors=True)
        os.makedirs(base)
        sh(f"rsync -a --exclude .git /repo/ {base}/repo/")
        sh(f"{V}/tools/suite.sh {base}/repo {base}/suite")
    base_failed = open(f"{base}/suite/failed.txt").read().split("\n")
    r = sh(f"{V}/tools/mut.sh {pid} {src}/patch.diff {src}/demo.py")
    out = "\n".join(l for l in r.stdout.split("\n") if "condarc" not in l)
    S = f"/var/tmp/qv-seed-{pid}"
    demo_clean = re.search(r"demo on unchanged: rc=(\d+)", out)
    demo_mut = re.search(r"demo on changed:\s+rc=(\d+)", out)
    check_rc = re.search(r"check rc=(\d+)", out)
    viol = [l for l in out.split("\n") if l.startswith("VIOLATION")]
    summ = [l for l in out.split("\n") if l.startswith(f"[{pid}]")]
    sh(f"{V}/tools/suite.sh {S}/repo {S}/suite")
    mut_failed = open(f"{S}/suite/failed.txt").read().split("\n")
    # tests in the symmetric difference are re-run alone (the parallel package runs make timing-based tests flaky)
    flaky = []
    for t in sorted(set(base_failed) ^ set(mut_failed)):
        if not t:
            continue
        tid = t.split(" ", 1)[1]
        where = f"{S}/repo" if t in mut_failed else f"{base}/repo"
        rr = [sh(f"cd {where} && /venv/bin/python ovl.py -m pytest -q -p no:cacheprovider -p no:xdist '{tid}'").returncode for _ in range(3)]
        if 0 in rr:
            flaky.append(t)
    base_failed = [x for x in base_failed if x not in flaky]
    mut_failed = [x for x in mut_failed if x not in flaky]
    suite_same = sorted(set(base_failed)) == sorted(set(mut_failed))
    summary = open(f"{S}/suite/summary.txt").read()
    passed = sum(int(x) for x in re.findall(r"(\d+) passed", summary))
    # what the check reported
    wit = []
    rp = f"{V}/replay/{pid}_quick_0.json"
    if viol and os.path.exists(rp):
        d = json.load(open(rp))
        for w in d.get("witnesses", [])[:3]:
            wit.append({"key": w.get("key"), "what": str(w.get("what", ""))[:300], "input": json.dumps(w.get("input"), default=str)[:400]})
        nd = len(d.get("disagreements", []))
        fo = [f.get("obligation") for f in d.get("failed_obligations", [])][:8]
    else:
        nd, fo = 0, []
    agent = json.load(open(f"{src}/meta.json"))
    ok = (demo_clean and demo_clean.group(1) == "0" and demo_mut and demo_mut.group(1) != "0" and suite_same)
    meta = {
        "property": pid,
        "breaks": agent.get("what_it_breaks") or agent.get("what_breaks") or agent.get("breaks"),
        "needs_to_manifest": agent.get("needs_to_manifest") or agent.get("needs") or agent.get("trigger"),
        "files_changed": agent.get("files_changed"),
        "origin": "blind sub-agent: given only the property text and its own scratch git worktree of /repo (nothing from /verif)",
        "confirmed_by_me": {
            "how": "tools/seed_confirm.py on scratch copies of /repo under /var/tmp (rsync of the working tree + patch -p1); "
                   "equivalent to `git -C /repo apply patch.diff; ./check <ID>; git -C /repo checkout -- .` but never touches /repo",
            "demo_on_unchanged_rc": int(demo_clean.group(1)) if demo_clean else None,
            "demo_on_changed_rc": int(demo_mut.group(1)) if demo_mut else None,
            "test_suite": f"tools/suite.sh (pytest per package, import overlay): {passed} passed; failing set identical to the unchanged copy: {suite_same}",
            "flaky_under_parallel_load_passing_alone": flaky,
            "test_suite_failing_on_both": [x for x in base_failed if x][:30],
            "keeps": bool(ok),
        },
        "check": {
            "cmd": f"VERIF_REPO=<changed copy> ./check {pid} --tier quick",
            "exit": int(check_rc.group(1)) if check_rc else None,
            "violation_line": viol[0].replace(V + "/", "") if viol else None,
            "concrete_failing_input": bool(viol) and "no-failing-input-found" not in viol[0],
            "summary": summ[0] if summ else None,
            "first_witnesses": wit,
            "disagreements_in_replay": nd,
            "failed_obligations": fo,
        },
        "note": note,
    }
    dst = f"{V}/seeded/{dest}"
    os.makedirs(dst, exist_ok=True)
    shutil.copy(f"{src}/patch.diff", f"{dst}/patch.diff")
    shutil.copy(f"{src}/demo.py", f"{dst}/demo.py")
    json.dump(meta, open(f"{dst}/meta.json", "w"), indent=1)
    shutil.rmtree(S, ignore_errors=True)
    print("suite diff:", sorted(set(mut_failed) ^ set(base_failed)))
    print(pid, "keeps" if ok else "REJECTED", "check rc", meta["check"]["exit"], "concrete", meta["check"]["concrete_failing_input"], "suite same", suite_same)


main()
