#!/bin/sh
# usage: tools_mut.sh <ID> <patch.diff> [demo.py]
# Applies a seeded change to a scratch copy of /repo, confirms the demonstration fails with it and passes without it,
# runs the property's quick check against the scratch copy, and prints the verdict. Never touches /repo.
ID=$1; PATCH=$2; DEMO=$3
S=/var/tmp/qv-seed-$ID
rm -rf $S; mkdir -p $S; rsync -a --exclude .git /repo/ $S/repo/; cp /verif/tools/ovl.py $S/repo/ovl.py
if [ -n "$DEMO" ]; then
  cp $DEMO $S/repo/_demo.py
  (cd $S/repo && /venv/bin/python ovl.py _demo.py > $S/demo_clean.out 2>&1); echo "demo on unchanged: rc=$? $(tail -1 $S/demo_clean.out | cut -c1-100)"
fi
(cd $S/repo && patch -p1 -s < $PATCH) || { echo "PATCH FAILED"; exit 3; }
if [ -n "$DEMO" ]; then
  (cd $S/repo && /venv/bin/python ovl.py _demo.py > $S/demo_mut.out 2>&1); echo "demo on changed:   rc=$? $(tail -1 $S/demo_mut.out | cut -c1-100)"
fi
cd /verif && VERIF_REPO=$S/repo timeout 1500 ./check $ID > $S/check.out 2>&1; echo "check rc=$?"; grep "VIOLATION\|^\[$ID\]\|INFRA" $S/check.out | cut -c1-260
