#!/bin/sh
# usage: tools/cov.sh <ID>     (development aid, not a registered check)
# Runs the quick check of one property under coverage.py (branch coverage) and lists, for the Python files the
# property is anchored in, the lines of /repo that the check never executed. Evidence goes to the scratch area.
ID=$1
cd /verif || exit 2
OUT=/var/tmp/qv-cov/$ID; rm -rf $OUT; mkdir -p $OUT
export PYTHONDONTWRITEBYTECODE=1 OMP_NUM_THREADS=1 QULACS_NUM_THREADS=1 COVERAGE_FILE=$OUT/.coverage VERIF_EVIDENCE_DIR=$OUT
/venv/bin/python -B -m coverage run --branch --source=/repo/packages harness/run.py $ID --tier quick > $OUT/run.out 2>&1
echo "rc=$?  $(grep "^\[$ID\]" $OUT/run.out | cut -c1-160)"
FILES=$(/venv/bin/python - "$ID" <<'P'
import json, sys, os
for l in open('/verif/properties.jsonl'):
    d = json.loads(l)
    if d['id'] == sys.argv[1]:
        print(" ".join('/repo/' + f for f in d['anchors']['files'] if f.endswith('.py') and os.path.exists('/repo/' + f)))
P
)
/venv/bin/python -m coverage report -m --include="$(echo $FILES | tr ' ' ',')" > $OUT/report.txt 2>&1
cat $OUT/report.txt
