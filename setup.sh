#!/bin/sh
# MANIFEST.setup_cmd — offline; builds the Lean library (incl. translated models) from files on disk.
cd "$(dirname "$0")" || exit 2
export PYTHONDONTWRITEBYTECODE=1
exec /venv/bin/python -B harness/setup.py
