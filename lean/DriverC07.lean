import QuriVerif.Driver.C07
/-
  Line-protocol front end to the executable C07 model only (so that the C07 check does not depend on the
  generated files of other properties):  lake env lean --run DriverC07.lean < requests > responses
-/
open QV QV.Driver

def dispatchC07 (line : String) : String :=
  match line.trimAscii.toString.splitOn " " with
  | cmd :: rest =>
    let args := " ".intercalate rest
    match cmd with
    | "c07group" => c07group args
    | "c07bsv" => c07bsv args
    | "c07commute" => c07commute args
    | "c07meas" => c07meas args
    | "c07rec" => c07rec args
    | _ => "bad-request"
  | [] => "bad-request"

partial def loop (h : IO.FS.Stream) : IO Unit := do
  let line ← h.getLine
  if line.isEmpty then return ()
  IO.println ("> " ++ dispatchC07 line.trimAscii.toString)
  loop h

def main : IO Unit := do
  loop (← IO.getStdin)
