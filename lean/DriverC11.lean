import QuriVerif.Driver.C11
/-
  Line-protocol front end to the C11 model:
    lake env lean --run DriverC11.lean < requests > responses
  One response line (prefixed "> ") per request line.
-/
partial def loop (h : IO.FS.Stream) : IO Unit := do
  let line ← h.getLine
  if line.isEmpty then return ()
  IO.println ("> " ++ QV.Driver.C11.dispatch line.trimAscii.toString)
  loop h

def main : IO Unit := do
  loop (← IO.getStdin)
