import QuriVerif.Driver.C12
/-
  Line-protocol front end to the executable C12 model only (so that the C12 check does not depend on the
  generated files of other properties):  lake env lean --run DriverC12.lean < requests > responses
-/
open QV QV.Driver

def dispatchC12 (line : String) : String :=
  match line.trimAscii.toString.splitOn " " with
  | cmd :: rest =>
    let args := " ".intercalate rest
    match cmd with
    | "c12fold" => c12fold args
    | _ => "bad-request"
  | [] => "bad-request"

partial def loop (h : IO.FS.Stream) : IO Unit := do
  let line ← h.getLine
  if line.isEmpty then return ()
  IO.println ("> " ++ dispatchC12 line.trimAscii.toString)
  loop h

def main : IO Unit := do
  loop (← IO.getStdin)
