import QuriVerif.Driver.C04
/-
  Line-protocol front end to the C04 model:
    lake env lean --run DriverC04.lean < requests > responses
  One response line (prefixed "> ") per request line.
-/
partial def loop (h : IO.FS.Stream) : IO Unit := do
  let line ← h.getLine
  if line.isEmpty then return ()
  IO.println ("> " ++ QV.Driver.C04.dispatch line.trimAscii.toString)
  loop h

def main : IO Unit := do
  loop (← IO.getStdin)
