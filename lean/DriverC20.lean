import QuriVerif.Driver.C20
/-
  Line-protocol front end to the executable C20 models:
    lake env lean --run DriverC20.lean < requests > responses
  One response line ("> …") per request line.
-/
open QV

partial def loop (h : IO.FS.Stream) : IO Unit := do
  let line ← h.getLine
  if line.isEmpty then return ()
  IO.println ("> " ++ QV.Driver.C20.dispatch line.trimAscii.toString)
  loop h

def main : IO Unit := do
  loop (← IO.getStdin)
