import QuriVerif.Driver.C19
/-
  Line-protocol front end to the C19 model:
    lake env lean --run DriverC19.lean < requests > responses
-/
partial def loop (h : IO.FS.Stream) : IO Unit := do
  let line ← h.getLine
  if line.isEmpty then return ()
  IO.println ("> " ++ QV.Driver.C19.dispatch line.trimAscii.toString)
  loop h

def main : IO Unit := do
  loop (← IO.getStdin)
