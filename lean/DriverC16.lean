import QuriVerif.Driver.C16
/-
  Line-protocol front end to the C16 model:
    lake env lean --run DriverC16.lean < requests > responses
  One response line per request line, prefixed with "> ".
-/

partial def loop (h : IO.FS.Stream) : IO Unit := do
  let line ← h.getLine
  if line.isEmpty then return ()
  IO.println ("> " ++ QV.Driver.C16.dispatch line.trimAscii.toString)
  loop h

def main : IO Unit := do
  loop (← IO.getStdin)
