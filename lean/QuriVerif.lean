import QuriVerif.Found.Poly
import QuriVerif.Found.Mat
import QuriVerif.Found.Gate
import QuriVerif.Found.Template
