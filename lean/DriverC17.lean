import QuriVerif.Driver.C17
/-
  Line-protocol front end of the C17 model:
    lake env lean --run DriverC17.lean < requests > responses
  One response line ("> …") per request line.
-/
partial def loop (h : IO.FS.Stream) : IO Unit := do
  let line ← h.getLine
  if line.isEmpty then return ()
  IO.println ("> " ++ QV.Driver.C17.dispatch line.trimAscii.toString)
  loop h

def main : IO Unit := do
  loop (← IO.getStdin)
