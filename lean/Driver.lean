import QuriVerif.Driver.All
/-
  Line-protocol front end to the executable models:
    lake env lean --run Driver.lean < requests > responses
  One response line per request line.
-/
open QV

partial def loop (h : IO.FS.Stream) : IO Unit := do
  let line ← h.getLine
  if line.isEmpty then return ()
  IO.println ("> " ++ QV.Driver.dispatch line.trimAscii.toString)
  loop h

def main : IO Unit := do
  loop (← IO.getStdin)
