import QuriVerif.Driver.C09
/-
  Line-protocol front end to the executable C09 model:
    lake env lean --run DriverC09.lean < requests > responses
  One response line ("> …") per request line.
-/
open QV

partial def loop (h : IO.FS.Stream) : IO Unit := do
  let line ← h.getLine
  if line.isEmpty then return ()
  IO.println ("> " ++ QV.Driver.C09.dispatch line.trimAscii.toString)
  loop h

def main : IO Unit := do
  loop (← IO.getStdin)
