import QuriVerif.Driver.C05
/-
  Line-protocol front end to the executable C05 model:
    lake env lean --run DriverC05.lean < requests > responses
  One response line ("> …") per request line.
-/
open QV

partial def loop (h : IO.FS.Stream) : IO Unit := do
  let line ← h.getLine
  if line.isEmpty then return ()
  IO.println ("> " ++ QV.Driver.C05.dispatch line.trimAscii.toString)
  loop h

def main : IO Unit := do
  loop (← IO.getStdin)
