import QuriVerif.Proof.C05Op
/- C05: matrix elements of operator arithmetic -/
namespace QV.C05
open K

def term (m n : Nat) (e : Label × K) : K := K.mul e.2 (ampL e.1 m n)

theorem amp_eq (op : Op) (m n : Nat) : amp op m n = K.sum (op.map (term m n)) := rfl

@[simp] theorem amp_nil (m n : Nat) : amp [] m n = K.zero := rfl

theorem amp_cons (e : Label × K) (r : Op) (m n : Nat) : amp (e :: r) m n = K.add (term m n e) (amp r m n) := rfl

theorem amp_append (a b : Op) (m n : Nat) : amp (a ++ b) m n = K.add (amp a m n) (amp b m n) := by
  simp only [amp_eq, List.map_append, K.sum_append]

/-- replacing / inserting a coefficient -/
theorem amp_oset (op : Op) (l : Label) (c : K) (m n : Nat) :
    K.add (amp (oset op l c) m n) (K.mul ((oget op l).getD K.zero) (ampL l m n))
      = K.add (amp op m n) (K.mul c (ampL l m n)) := by
  induction op with
  | nil => simp [oset, oget, amp_cons, term, K.add_comm']
  | cons e r ih =>
    obtain ⟨k, c'⟩ := e
    simp only [oset, oget]
    split
    · rename_i hk; subst hk
      simp only [amp_cons, term, Option.getD_some]
      rw [K.add_assoc', K.add_comm' (amp r m n), ← K.add_assoc', K.add_comm' (K.mul c _), K.add_assoc', K.add_assoc']
      congr 1
      exact K.add_comm' _ _
    · simp only [amp_cons, K.add_assoc', ih]

theorem amp_odel (op : Op) (l : Label) (m n : Nat) :
    K.add (amp (odel op l) m n) (K.mul ((oget op l).getD K.zero) (ampL l m n)) = amp op m n := by
  induction op with
  | nil => simp [odel, oget]
  | cons e r ih =>
    obtain ⟨k, c'⟩ := e
    simp only [odel, oget]
    split
    · rename_i hk; subst hk
      simp only [amp_cons, term, Option.getD_some]
      exact K.add_comm' _ _
    · simp only [amp_cons, K.add_assoc', ih]

/-- **`add_term` adds `c·P` to the matrix** (whichever of the three branches is taken) -/
theorem amp_addTerm (op : Op) (l : Label) (c : K) (m n : Nat) :
    amp (addTerm op l c) m n = K.add (amp op m n) (K.mul c (ampL l m n)) := by
  unfold addTerm
  split
  · rename_i hc
    rw [(K.isZero_iff c).1 hc]; simp
  · simp only
    split
    · rename_i hz
      simp only [Bool.and_eq_true] at hz
      have h0 := (K.isZero_iff _).1 hz.1
      have hd := amp_odel op l m n
      have hc : c = K.neg ((oget op l).getD K.zero) := K.add_eq_zero_iff_neg.1 h0
      rw [← hd, hc, K.add_assoc', K.neg_mul', K.add_neg', K.add_zero']
    · have hs := amp_oset op l (K.add ((oget op l).getD K.zero) c) m n
      rw [K.right_distrib', ← K.add_assoc', K.add_assoc' (amp op m n), K.add_comm' (K.mul _ _) (K.mul c _),
        ← K.add_assoc'] at hs
      exact K.add_right_cancel' hs

theorem amp_foldl_addTerm (g : Label × K → K) (b : Op) (a : Op) (m n : Nat) :
    amp (b.foldl (fun o e => addTerm o e.1 (g e)) a) m n
      = K.add (amp a m n) (K.sum (b.map fun e => K.mul (g e) (ampL e.1 m n))) := by
  induction b generalizing a with
  | nil => simp
  | cons e r ih =>
    rw [List.foldl_cons, ih, amp_addTerm, List.map_cons, K.sum_cons, K.add_assoc']

/-- `a + b`, `a += b` -/
theorem amp_add' (a b : Op) (m n : Nat) : amp (add a b) m n = K.add (amp a m n) (amp b m n) :=
  amp_foldl_addTerm (fun e => e.2) b a m n

theorem sum_map_neg {α} (f : α → K) (l : List α) : K.sum (l.map fun x => K.neg (f x)) = K.neg (K.sum (l.map f)) := by
  induction l with
  | nil => simp
  | cons a r ih => simp [ih, K.neg_add']

/-- `a - b`, `a -= b` -/
theorem amp_sub' (a b : Op) (m n : Nat) : amp (sub a b) m n = K.sub (amp a m n) (amp b m n) := by
  have := amp_foldl_addTerm (fun e => K.mul (K.ofInt (-1)) e.2) b a m n
  unfold sub isub
  rw [this, K.sub_eq]
  congr 1
  rw [amp_eq, ← sum_map_neg]
  congr 1
  apply List.map_congr_left
  intro e _
  simp only [term, K.neg_one_mul', K.neg_mul']

/-- scalar multiple -/
theorem amp_smul' (k : K) (a : Op) (m n : Nat) : amp (smul k a) m n = K.mul k (amp a m n) := by
  rw [amp_eq, amp_eq, ← K.sum_map_mul_left]
  unfold smul
  rw [List.map_map, List.map_map]
  congr 1
  apply List.map_congr_left
  intro e _
  simp [term, K.mul_assoc']

/-- division by an exact divisor: multiplying back recovers the matrix -/
theorem amp_idiv' (a : Op) (k : K) (h : ∀ e ∈ a, K.Divides k e.2) (m n : Nat) :
    K.mul k (amp (idiv a k) m n) = amp a m n := by
  rw [amp_eq, amp_eq, ← K.sum_map_mul_left]
  unfold idiv
  rw [List.map_map, List.map_map]
  congr 1
  apply List.map_congr_left
  intro e he
  have := h e he
  unfold K.Divides at this
  simp only [Function.comp, term]
  rw [← K.mul_assoc', K.mul_comm' k, this]

/-! ### Hermitian conjugate -/

theorem mulD_self (ps : List P1) : mulD ps ps = (List.replicate ps.length .I, 0) := by
  induction ps with
  | nil => rfl
  | cons p r ih => simp [mulD, ih, mul_self, List.replicate_succ]

/-- a Pauli string is an involution on basis states and the two phases are opposite -/
theorem actD_invol (ps : List P1) (b : Nat) :
    (actD ps (actD ps b).2).2 = b ∧ ((actD ps b).1 + (actD ps (actD ps b).2).1) % 4 = 0 := by
  have h := actD_mul ps ps b
  rw [mulD_self, actD_replicate_I] at h
  exact ⟨h.1, by simpa using h.2⟩

theorem ampL_conj (l : Label) (m n : Nat) : ampL l m n = K.conj (ampL l n m) := by
  unfold ampL actL
  simp only
  generalize toDense l (bound l) = ps
  by_cases h1 : (actD ps n).2 = m
  · have hi := actD_invol ps n
    rw [h1] at hi
    rw [if_pos h1, if_pos hi.1, K.conj_ipow]
    apply K.ipow_congr
    have := hi.2
    omega
  · have h2 : (actD ps m).2 ≠ n := by
      intro h2
      have hi := actD_invol ps m
      rw [h2] at hi
      exact h1 hi.1
    rw [if_neg h1, if_neg h2, K.conj_zero]

theorem sum_map_conj {α} (f : α → K) (l : List α) : K.sum (l.map fun x => K.conj (f x)) = K.conj (K.sum (l.map f)) := by
  induction l with
  | nil => simp
  | cons a r ih => simp [ih, K.conj_add]

/-- **`hermitian_conjugated` is the conjugate transpose** -/
theorem amp_herm' (a : Op) (m n : Nat) : amp (herm a) m n = K.conj (amp a n m) := by
  rw [amp_eq, amp_eq, ← sum_map_conj]
  unfold herm
  rw [List.map_map]
  congr 1
  apply List.map_congr_left
  intro e _
  simp only [Function.comp, term, K.conj_mul]
  rw [ampL_conj e.1 m n]

/-! ### product -/

/-- one pair of terms: `i^k <m|R|n> = i^{e_Q(n)} <m|P|Q n>` for `(R,k) = pauli_product(P,Q)` -/
theorem ampL_product {p q : Label} (hp : Valid p) (hq : Valid q) (m n : Nat) :
    K.mul (K.ipow (pauliProduct p q).2) (ampL (pauliProduct p q).1 m n)
      = K.mul (K.ipow (actL q n).1) (ampL p m (actL q n).2) := by
  have h := pauliProduct_act hp hq n
  unfold ampL
  simp only
  rw [← h.1]
  by_cases hm : (actL p (actL q n).2).2 = m
  · rw [if_pos hm, if_pos hm, ← K.ipow_add, ← K.ipow_add]
    apply K.ipow_congr
    have := h.2
    omega
  · rw [if_neg hm, if_neg hm]; simp

theorem sum_swap {α β} (f : α → β → K) (a : List α) (b : List β) :
    K.sum (a.map fun x => K.sum (b.map fun y => f x y)) = K.sum (b.map fun y => K.sum (a.map fun x => f x y)) := by
  induction a with
  | nil => simp [K.sum_map_zero]
  | cons x r ih =>
    simp only [List.map_cons, K.sum_cons, ih]
    rw [← K.sum_map_add]

theorem amp_foldl_inner (b : Op) (e : Label × K) (ret : Op) (m n : Nat) :
    amp (b.foldl (fun ret f =>
        addTerm ret (pauliProduct e.1 f.1).1 (K.mul (K.mul e.2 f.2) (K.ipow (pauliProduct e.1 f.1).2))) ret) m n
      = K.add (amp ret m n) (K.sum (b.map fun f =>
          K.mul (K.mul (K.mul e.2 f.2) (K.ipow (pauliProduct e.1 f.1).2)) (ampL (pauliProduct e.1 f.1).1 m n))) := by
  induction b generalizing ret with
  | nil => simp
  | cons f r ih =>
    rw [List.foldl_cons, ih, amp_addTerm, List.map_cons, K.sum_cons, K.add_assoc']

theorem amp_mul_raw (a b : Op) (m n : Nat) :
    amp (mul a b) m n = K.sum (a.map fun e => K.sum (b.map fun f =>
      K.mul (K.mul (K.mul e.2 f.2) (K.ipow (pauliProduct e.1 f.1).2)) (ampL (pauliProduct e.1 f.1).1 m n))) := by
  unfold mul
  suffices h : ∀ ret : Op, amp (a.foldl (fun ret e => b.foldl (fun ret f =>
        addTerm ret (pauliProduct e.1 f.1).1 (K.mul (K.mul e.2 f.2) (K.ipow (pauliProduct e.1 f.1).2))) ret) ret) m n
      = K.add (amp ret m n) (K.sum (a.map fun e => K.sum (b.map fun f =>
        K.mul (K.mul (K.mul e.2 f.2) (K.ipow (pauliProduct e.1 f.1).2)) (ampL (pauliProduct e.1 f.1).1 m n)))) by
    simpa using h []
  induction a with
  | nil => intro ret; simp
  | cons e r ih =>
    intro ret
    rw [List.foldl_cons, ih, amp_foldl_inner, List.map_cons, K.sum_cons, K.add_assoc']

def OpValid (a : Op) : Prop := ∀ e ∈ a, Valid e.1
instance (a : Op) : Decidable (OpValid a) := inferInstanceAs (Decidable (∀ e ∈ a, _))

/-- **`op1 * op2` is the matrix product**, in the form `(AB)|n> = A (B|n>)`:
    `B|n> = Σ_{(Q,d) ∈ b} d · i^{e_Q(n)} |Q n>` -/
theorem amp_mul' (a b : Op) (ha : OpValid a) (hb : OpValid b) (m n : Nat) :
    amp (mul a b) m n
      = K.sum (b.map fun f => K.mul (K.mul f.2 (K.ipow (actL f.1 n).1)) (amp a m (actL f.1 n).2)) := by
  rw [amp_mul_raw, sum_swap]
  congr 1
  apply List.map_congr_left
  intro f hf
  rw [amp_eq, ← K.sum_map_mul_left, List.map_map]
  congr 1
  apply List.map_congr_left
  intro e he
  simp only [Function.comp, term]
  have := ampL_product (ha e he) (hb f hf) m n
  rw [K.mul_assoc' (K.mul e.2 f.2), this]
  ext <;> simp [K.mul] <;> grind

end QV.C05
