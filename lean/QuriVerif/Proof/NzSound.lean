import QuriVerif.Proof.EmbedSound
/-
  Non-vanishing certificates (`SMat.nz`, `Template.nz` of `Found/Template.lean`).

  `SMat.nz a` checks the polynomial identity  Σ_j conj(m₀ⱼ) · m₀ⱼ = 2^k  for row 0 of `a.m`.  No
  semantics of `Poly.conj` is used: the identity is a linear combination of the row-0 entries (with
  whatever coefficients `conj` produced) that equals the constant `2^k`, which is non-zero in every
  field with `2 ≠ 0`.  Hence for EVERY admissible assignment some entry of row 0 is non-zero
  (`smat_nz_sound`), which removes the non-vanishing hypotheses of `Template.placed_sound` /
  `Template.instance_sound` (`Template.placed_sound_nz`, `Template.instance_sound_nz`).
-/
namespace QV.MatSound
open QV QV.Poly

variable {K : Type} [Field K] {ζ : K} {ρ : ℕ → K}

theorem eval_const (c : ℤ) : eval ζ ρ (Poly.const c) = (c : K) := by
  unfold Poly.const
  by_cases h : (c == 0) = true
  · have : c = 0 := by simpa using h
    simp [this, eval_nil]
  · simp [h, eval, evalTerm, evalMono, evalExps]

/-- `Mat.dot` evaluates to the sum of products over the zipped rows -/
theorem eval_dot (hζ : ζ ^ 8 = -1) (hρ : ∀ j, ρ j ≠ 0) : ∀ (r s : List Poly),
    eval ζ ρ (Mat.dot r s) = ((List.zip r s).map fun x => eval ζ ρ x.1 * eval ζ ρ x.2).sum
  | [], _ => by simp [Mat.dot, eval_nil]
  | _ :: _, [] => by simp [Mat.dot, eval_nil]
  | a :: as, b :: bs => by
    rw [Mat.dot, eval_add, eval_mul hζ hρ, eval_dot hζ hρ as bs]
    simp

/-- a linear combination of entries that all evaluate to zero evaluates to zero -/
theorem eval_dot_eq_zero (hζ : ζ ^ 8 = -1) (hρ : ∀ j, ρ j ≠ 0) (r s : List Poly)
    (h : ∀ p ∈ s, eval ζ ρ p = 0) : eval ζ ρ (Mat.dot r s) = 0 := by
  rw [eval_dot hζ hρ]
  apply sum_map_zero
  intro x hx
  rw [h x.2 (List.of_mem_zip hx).2, mul_zero]

/-- **`SMat.nz` is sound**: row 0 has a non-zero entry under every admissible assignment -/
theorem smat_nz_sound (hζ : ζ ^ 8 = -1) (hρ : ∀ j, ρ j ≠ 0) (h2 : (2 : K) ≠ 0) (a : SMat)
    (h : a.nz = true) : ∃ l, evalMat ζ ρ a.m 0 l ≠ 0 := by
  by_contra hcon
  have hall : ∀ l, evalMat ζ ρ a.m 0 l = 0 := by
    intro l; by_contra hl; exact hcon ⟨l, hl⟩
  have hrow : ∀ p ∈ a.m.getD 0 [], eval ζ ρ p = 0 := by
    intro p hp
    obtain ⟨l, hl, e⟩ := List.getElem_of_mem hp
    have := hall l
    rw [evalMat, evalRow, List.getD_eq_getElem?_getD, List.getElem?_eq_getElem hl, Option.getD_some,
      e] at this
    exact this
  have e : Mat.row0Norm a.m = Poly.const (2 ^ a.k) := by simpa [SMat.nz] using h
  have e1 := congrArg (eval ζ ρ) e
  rw [Mat.row0Norm, eval_dot_eq_zero hζ hρ _ _ hrow, eval_const] at e1
  have : ((2 ^ a.k : ℤ) : K) = (2 : K) ^ a.k := by push_cast; rfl
  rw [this] at e1
  exact pow_ne_zero _ h2 e1.symm

variable {σ : ℕ → ℕ} {n : ℕ}

/-- the two non-vanishing facts needed by `placed_sound`, from the certificate, for ANY assignment -/
theorem Template.nz_sem (hζ : ζ ^ 8 = -1) (hρ : ∀ j, ρ j ≠ 0) (h2 : (2 : K) ≠ 0) (t : Template)
    (hz : t.nz = true) (wfb : WellFormed t.nq t.body) (wft : WellFormed t.nq [t.target]) :
    (∃ l, semCirc ζ ρ [t.target] 0 l ≠ 0) ∧ (∃ l, semCirc ζ ρ t.body 0 l ≠ 0) := by
  simp only [Template.nz, Bool.and_eq_true] at hz
  have h0 : 0 < 2 ^ t.nq := Nat.two_pow_pos _
  obtain ⟨l, hl⟩ := smat_nz_sound hζ hρ h2 _ hz.2
  obtain ⟨l', hl'⟩ := smat_nz_sound hζ hρ h2 _ hz.1
  rw [gate_mat_m, evalMat_circMat hζ hρ _ _ wft 0 l h0] at hl
  rw [evalMat_circMat hζ hρ _ _ wfb 0 l' h0] at hl'
  exact ⟨⟨l, hl⟩, ⟨l', hl'⟩⟩

/-- **A `check`-ed template with certificate, placed**: unconditional non-zero scalar -/
theorem Template.placed_sound_nz (hζ : ζ ^ 8 = -1) (hρ : ∀ j, ρ j ≠ 0) (h2 : (2 : K) ≠ 0)
    (t : Template) (h : t.check = true) (hz : t.nz = true)
    (wfb : WellFormed t.nq t.body) (wft : WellFormed t.nq [t.target]) (P : Placement σ t.nq n) :
    ∃ c : K, c ≠ 0 ∧ ∀ r, r < 2 ^ n → ∀ j, j < 2 ^ n →
      semCirc ζ ρ (t.body.map (Gate.relabel σ)) r j = c * semCirc ζ ρ [t.target.relabel σ] r j := by
  obtain ⟨⟨l, hl⟩, ⟨l', hl'⟩⟩ := Template.nz_sem hζ hρ h2 t hz wfb wft
  exact Template.placed_sound hζ hρ t h wfb wft P 0 l (Nat.two_pow_pos _) hl 0 l'
    (Nat.two_pow_pos _) hl'

/-- **Every instance of a `check`-ed template with certificate** (any affine angles `as`, any
    placement `σ`): the body's operator is a non-zero multiple of the target's.  No side conditions
    on the operators; compare `Template.instance_sound`. -/
theorem Template.instance_sound_nz (hζ : ζ ^ 8 = -1) (hρ : ∀ j, ρ j ≠ 0) (h2 : (2 : K) ≠ 0)
    (t : Template) (h : t.check = true) (hz : t.nz = true)
    (wfb : WellFormed t.nq t.body) (wft : WellFormed t.nq [t.target])
    (P : Placement σ t.nq n) (as : List Angle)
    (hkb : ∀ g ∈ t.body, g.kind ≠ .UnitaryMatrix) (hkt : t.target.kind ≠ .UnitaryMatrix) :
    ∃ c : K, c ≠ 0 ∧ ∀ r, r < 2 ^ n → ∀ j, j < 2 ^ n →
      semCirc ζ ρ ((t.body.map (Gate.subst as)).map (Gate.relabel σ)) r j
        = c * semCirc ζ ρ [(t.target.subst as).relabel σ] r j := by
  obtain ⟨⟨l, hl⟩, ⟨l', hl'⟩⟩ :=
    Template.nz_sem hζ (substRho_ne_zero hζ hρ as) h2 t hz wfb wft
  exact Template.instance_sound hζ hρ t h wfb wft P as hkb hkt 0 l (Nat.two_pow_pos _) hl 0 l'
    (Nat.two_pow_pos _) hl'

end QV.MatSound
