import QuriVerif.Model.C18
/-
  C18 — helper lemmas (core Lean only).
-/
namespace QV.C18

/-! ### Nat bit lemmas not in core -/

theorem and_two_pow_eq (x v : Nat) : x &&& 2 ^ v = if x.testBit v then 2 ^ v else 0 := by
  apply Nat.eq_of_testBit_eq
  intro j
  by_cases h : x.testBit v
  · simp only [h, if_true, Nat.testBit_and, Nat.testBit_two_pow]
    by_cases hj : v = j
    · subst hj; simp [h]
    · simp [hj]
  · simp only [h, Nat.testBit_and, Nat.testBit_two_pow]
    by_cases hj : v = j
    · subst hj; simp [h]
    · simp [hj]

theorem and_one_shiftLeft_ne_zero (x v : Nat) : ((x &&& 1 <<< v) != 0) = x.testBit v := by
  rw [Nat.one_shiftLeft, and_two_pow_eq]
  by_cases h : x.testBit v
  · simp [h]
  · simp [h]

/-- `r + 2^k = r ||| 2^k` when bit `k` of `r` is clear: why `+=` may stand in for `|=` -/
theorem add_two_pow_eq_or (r k : Nat) (h : r.testBit k = false) : r + 2 ^ k = r ||| 2 ^ k := by
  have hb : r % 2 ^ k < 2 ^ k := Nat.mod_lt _ (Nat.two_pow_pos k)
  have hdiv : r = 2 ^ k * (r / 2 ^ k) + r % 2 ^ k := (Nat.div_add_mod r (2 ^ k)).symm
  have heven : (r / 2 ^ k) % 2 = 0 := by
    rw [Nat.testBit_eq_decide_div_mod_eq] at h
    have := of_decide_eq_false h
    omega
  generalize hq : r / 2 ^ k = q at hdiv heven
  generalize hbb : r % 2 ^ k = b at hdiv hb
  apply Nat.eq_of_testBit_eq
  intro j
  have e1 : r + 2 ^ k = 2 ^ k * (q + 1) + b := by rw [hdiv, Nat.mul_add, Nat.mul_one]; omega
  rw [e1, Nat.testBit_or, Nat.testBit_two_pow]
  conv => rhs; rw [hdiv]
  rw [Nat.testBit_two_pow_mul_add _ hb, Nat.testBit_two_pow_mul_add _ hb]
  by_cases hj : j < k
  · have : ¬ k = j := by omega
    simp [hj, this]
  · simp only [hj, if_false]
    by_cases hjk : k = j
    · subst hjk
      simp only [Nat.sub_self, decide_true, Bool.or_true]
      rw [Nat.testBit_zero]
      simp; omega
    · simp only [hjk, decide_false, Bool.or_false]
      have hpos : j - k = (j - k - 1) + 1 := by omega
      rw [hpos, Nat.testBit_add_one, Nat.testBit_add_one]
      congr 1
      omega

/-! ### testBit characterisations of the specification vocabulary -/

theorem testBit_fwdBits (m : QMap) (x j : Nat) :
    (fwdBits m x).testBit j = m.any (fun p => p.2 == j && x.testBit p.1) := by
  induction m with
  | nil => simp [fwdBits]
  | cons p r ih =>
    obtain ⟨k, v⟩ := p
    simp only [fwdBits, Nat.testBit_or, ih, List.any_cons]
    congr 1
    by_cases h : x.testBit k
    · by_cases hvj : v = j <;> simp [h, hvj]
    · simp [h]

theorem testBit_setBit (y w : Nat) (b : Bool) (j : Nat) :
    (setBit y w b).testBit j = if j = w then b else y.testBit j := by
  unfold setBit
  by_cases h : y.testBit w = b
  · simp only [h, if_true]
    by_cases hj : j = w
    · subst hj; simp [h]
    · simp [hj]
  · simp only [h, if_false, Nat.testBit_xor, Nat.testBit_two_pow]
    by_cases hj : j = w
    · subst hj
      cases hy : y.testBit j <;> cases b <;> simp_all
    · have : ¬ w = j := fun e => hj e.symm
      simp [hj, this]

theorem testBit_strayPart_aux (vs : List Nat) (y j : Nat) :
    (vs.foldl (fun r v => setBit r v false) y).testBit j = (y.testBit j && !vs.contains j) := by
  induction vs generalizing y with
  | nil => simp
  | cons v r ih =>
    simp only [List.foldl_cons, ih, testBit_setBit, List.contains_cons]
    by_cases hj : j = v
    · subst hj; simp
    · have : (j == v) = false := by simpa using hj
      simp [hj, this]

theorem testBit_strayPart (m : QMap) (y j : Nat) :
    (strayPart m y).testBit j = (y.testBit j && !(vals m).contains j) :=
  testBit_strayPart_aux _ _ _

/-! ### dict lemmas -/

theorem dictSet_of_not_mem {β : Type} (d : List (Nat × β)) (k : Nat) (v : β)
    (h : k ∉ d.map (·.1)) : dictSet d k v = d ++ [(k, v)] := by
  induction d with
  | nil => rfl
  | cons p r ih =>
    obtain ⟨k', v'⟩ := p
    simp only [List.map_cons, List.mem_cons, not_or] at h
    have h1 : ¬ k' = k := fun e => h.1 e.symm
    simp [dictSet, h1, ih h.2]

/-- injective mapping ⇒ the dict comprehension never overwrites -/
theorem createReverseMap_aux (m : QMap) (acc : List (Nat × Nat))
    (hn : (vals m).Nodup) (hacc : ∀ v ∈ vals m, (1 <<< v) ∉ acc.map (·.1)) :
    m.foldl (fun d p => dictSet d (1 <<< p.2) (1 <<< p.1)) acc
      = acc ++ m.map (fun p => (1 <<< p.2, 1 <<< p.1)) := by
  induction m generalizing acc with
  | nil => simp
  | cons p r ih =>
    obtain ⟨k, v⟩ := p
    simp only [vals, List.map_cons, List.nodup_cons] at hn
    simp only [List.foldl_cons, List.map_cons]
    rw [dictSet_of_not_mem _ _ _ (hacc v (by simp [vals]))]
    rw [ih _ hn.2]
    · simp
    · intro v' hv'
      simp only [List.map_append, List.map_cons, List.map_nil, List.mem_append, List.mem_singleton, not_or]
      refine ⟨hacc v' (by simp only [vals, List.map_cons, List.mem_cons]; exact Or.inr hv'), ?_⟩
      intro e
      rw [Nat.one_shiftLeft, Nat.one_shiftLeft] at e
      have := (Nat.pow_right_inj (by decide : 1 < 2)).1 e
      exact hn.1 (this ▸ hv')

theorem createReverseMap_of_nodup (m : QMap) (hn : (vals m).Nodup) :
    createReverseMap m = m.map (fun p => (1 <<< p.2, 1 <<< p.1)) := by
  unfold createReverseMap
  rw [createReverseMap_aux m [] hn (by simp)]
  simp

/-! ### `+=` versus `|` -/

theorem plus_fold_eq_or_fold (x : Nat) (l : QMap) (acc : Nat)
    (hk : (keys l).Nodup) (hacc : ∀ k ∈ keys l, acc.testBit k = false) :
    (l.map (fun p => ((1 <<< p.2 : Nat), (1 <<< p.1 : Nat)))).foldl
        (fun r p => if (x &&& p.1) != 0 then r + p.2 else r) acc
      = (l.map (fun p => ((1 <<< p.2 : Nat), (1 <<< p.1 : Nat)))).foldl
        (fun r p => if (x &&& p.1) != 0 then r ||| p.2 else r) acc := by
  induction l generalizing acc with
  | nil => rfl
  | cons p r ih =>
    obtain ⟨k, v⟩ := p
    simp only [keys, List.map_cons, List.nodup_cons] at hk
    simp only [List.map_cons, List.foldl_cons]
    have hk0 : acc.testBit k = false := hacc k (by simp [keys])
    by_cases hx : (x &&& 1 <<< v) != 0
    · simp only [hx, if_true]
      rw [Nat.one_shiftLeft k, add_two_pow_eq_or _ _ hk0]
      apply ih _ hk.2
      intro k' hk'
      rw [Nat.testBit_or, Nat.testBit_two_pow, hacc k' (by simp only [keys, List.map_cons, List.mem_cons]; exact Or.inr hk')]
      have : ¬ k = k' := fun e => hk.1 (e ▸ hk')
      simp [this]
    · simp only [hx]
      apply ih _ hk.2
      intro k' hk'
      exact hacc k' (by simp only [keys, List.map_cons, List.mem_cons]; exact Or.inr hk')

theorem testBit_or_fold (x : Nat) (l : QMap) (acc j : Nat) :
    ((l.map (fun p => ((1 <<< p.2 : Nat), (1 <<< p.1 : Nat)))).foldl
        (fun r p => if (x &&& p.1) != 0 then r ||| p.2 else r) acc).testBit j
      = (acc.testBit j || l.any (fun p => p.1 == j && x.testBit p.2)) := by
  induction l generalizing acc with
  | nil => simp
  | cons p r ih =>
    obtain ⟨k, v⟩ := p
    simp only [List.map_cons, List.foldl_cons, List.any_cons, ih, and_one_shiftLeft_ne_zero]
    by_cases hx : x.testBit v
    · by_cases hkj : k = j
      · simp [hx, Nat.one_shiftLeft, hkj]
      · have hb : (k == j) = false := by simpa using hkj
        simp [hx, Nat.one_shiftLeft, hkj, hb]
    · simp [hx]

theorem unmapBits_eq_or (m : QMap) (y : Nat) (hk : (keys m).Nodup) (hv : (vals m).Nodup) :
    unmapBits m y = reverseMapBitsOr y (createReverseMap m) := by
  unfold unmapBits reverseMapBits reverseMapBitsOr
  rw [createReverseMap_of_nodup m hv]
  exact plus_fold_eq_or_fold y m 0 hk (by simp)

theorem testBit_unmapBits (m : QMap) (y k : Nat) (hk : (keys m).Nodup) (hv : (vals m).Nodup) :
    (unmapBits m y).testBit k = m.any (fun p => p.1 == k && y.testBit p.2) := by
  rw [unmapBits_eq_or m y hk hv]
  unfold reverseMapBitsOr
  rw [createReverseMap_of_nodup m hv, testBit_or_fold]
  simp

/-! ### `any` over an injective association list -/

theorem beq_false_of_ne {a b : Nat} (h : ¬ a = b) : (a == b) = false := by simpa using h

theorem any_fst_not_mem (m : QMap) (k : Nat) (f : Nat → Bool) (h : k ∉ keys m) :
    m.any (fun p => p.1 == k && f p.2) = false := by
  induction m with
  | nil => rfl
  | cons p r ih =>
    obtain ⟨k', v'⟩ := p
    simp only [keys, List.map_cons, List.mem_cons, not_or] at h
    have h1 : ¬ k' = k := fun e => h.1 e.symm
    simp only [List.any_cons, beq_false_of_ne h1, Bool.false_and, Bool.false_or]
    exact ih h.2

theorem any_snd_not_mem (m : QMap) (v : Nat) (f : Nat → Bool) (h : v ∉ vals m) :
    m.any (fun p => p.2 == v && f p.1) = false := by
  induction m with
  | nil => rfl
  | cons p r ih =>
    obtain ⟨k', v'⟩ := p
    simp only [vals, List.map_cons, List.mem_cons, not_or] at h
    have h1 : ¬ v' = v := fun e => h.1 e.symm
    simp only [List.any_cons, beq_false_of_ne h1, Bool.false_and, Bool.false_or]
    exact ih h.2

theorem mem_keys_of_mem {m : QMap} {k v : Nat} (h : (k, v) ∈ m) : k ∈ keys m :=
  List.mem_map.2 ⟨(k, v), h, rfl⟩

theorem mem_vals_of_mem {m : QMap} {k v : Nat} (h : (k, v) ∈ m) : v ∈ vals m :=
  List.mem_map.2 ⟨(k, v), h, rfl⟩

theorem any_fst (m : QMap) (hk : (keys m).Nodup) (k v : Nat) (hm : (k, v) ∈ m) (f : Nat → Bool) :
    m.any (fun p => p.1 == k && f p.2) = f v := by
  induction m with
  | nil => cases hm
  | cons p r ih =>
    obtain ⟨k', v'⟩ := p
    simp only [keys, List.map_cons, List.nodup_cons] at hk
    simp only [List.any_cons]
    rcases List.mem_cons.1 hm with e | hr
    · cases e
      rw [any_fst_not_mem r k f hk.1]
      simp
    · have h1 : ¬ k' = k := fun e => hk.1 (e ▸ mem_keys_of_mem hr)
      rw [beq_false_of_ne h1, ih hk.2 hr]
      simp

theorem any_snd (m : QMap) (hv : (vals m).Nodup) (k v : Nat) (hm : (k, v) ∈ m) (f : Nat → Bool) :
    m.any (fun p => p.2 == v && f p.1) = f k := by
  induction m with
  | nil => cases hm
  | cons p r ih =>
    obtain ⟨k', v'⟩ := p
    simp only [vals, List.map_cons, List.nodup_cons] at hv
    simp only [List.any_cons]
    rcases List.mem_cons.1 hm with e | hr
    · cases e
      rw [any_snd_not_mem r v f hv.1]
      simp
    · have h1 : ¬ v' = v := fun e => hv.1 (e ▸ mem_vals_of_mem hr)
      rw [beq_false_of_ne h1, ih hv.2 hr]
      simp

/-! ### lookup -/

theorem lookup_mem {m : QMap} {k v : Nat} (h : lookup m k = some v) : (k, v) ∈ m := by
  induction m with
  | nil => cases h
  | cons p r ih =>
    obtain ⟨k', v'⟩ := p
    unfold lookup at h
    by_cases e : k' = k
    · simp only [e, if_true, Option.some.injEq] at h
      subst e; subst h; exact List.mem_cons_self
    · simp only [e, if_false] at h
      exact List.mem_cons_of_mem _ (ih h)

theorem lookup_isSome_of_mem_keys {m : QMap} {k : Nat} (h : k ∈ keys m) : ∃ v, lookup m k = some v := by
  induction m with
  | nil => cases h
  | cons p r ih =>
    obtain ⟨k', v'⟩ := p
    unfold lookup
    by_cases e : k' = k
    · exact ⟨v', by simp [e]⟩
    · simp only [keys, List.map_cons, List.mem_cons] at h
      rcases h with h | h
      · exact absurd h.symm e
      · obtain ⟨v, hv⟩ := ih h
        exact ⟨v, by simp [e, hv]⟩

theorem lookup_none_of_not_mem_keys {m : QMap} {k : Nat} (h : k ∉ keys m) : lookup m k = none := by
  cases hl : lookup m k with
  | none => rfl
  | some v => exact absurd (mem_keys_of_mem (lookup_mem hl)) h

/-- `qm[q]` with a default, for statements -/
def look (m : QMap) (q : Nat) : Nat := (lookup m q).getD 0

theorem look_mem {m : QMap} {k : Nat} (h : k ∈ keys m) : (k, look m k) ∈ m := by
  obtain ⟨v, hv⟩ := lookup_isSome_of_mem_keys h
  have : look m k = v := by simp [look, hv]
  rw [this]; exact lookup_mem hv

/-! ### bits -/

theorem testBit_unmapBits_of_mem (m : QMap) (y k : Nat) (hk : (keys m).Nodup) (hv : (vals m).Nodup)
    (h : k ∈ keys m) : (unmapBits m y).testBit k = y.testBit (look m k) := by
  rw [testBit_unmapBits m y k hk hv, any_fst m hk k (look m k) (look_mem h)]

theorem testBit_unmapBits_of_not_mem (m : QMap) (y k : Nat) (hk : (keys m).Nodup) (hv : (vals m).Nodup)
    (h : k ∉ keys m) : (unmapBits m y).testBit k = false := by
  rw [testBit_unmapBits m y k hk hv, any_fst_not_mem m k _ h]

theorem testBit_fwdBits_of_mem (m : QMap) (x k : Nat) (hv : (vals m).Nodup) (h : k ∈ keys m) :
    (fwdBits m x).testBit (look m k) = x.testBit k := by
  rw [testBit_fwdBits, any_snd m hv k (look m k) (look_mem h)]

theorem testBit_fwdBits_of_not_mem (m : QMap) (x j : Nat) (h : j ∉ vals m) :
    (fwdBits m x).testBit j = false := by
  rw [testBit_fwdBits, any_snd_not_mem m j _ h]

theorem roundtrip_bits_aux (m : QMap) (x s : Nat) (hk : (keys m).Nodup) (hv : (vals m).Nodup)
    (hx : ∀ i, x.testBit i = true → i ∈ keys m) (hs : ∀ v ∈ vals m, s.testBit v = false) :
    unmapBits m (fwdBits m x ||| s) = x := by
  apply Nat.eq_of_testBit_eq
  intro k
  by_cases h : k ∈ keys m
  · rw [testBit_unmapBits_of_mem m _ k hk hv h, Nat.testBit_or, testBit_fwdBits_of_mem m x k hv h,
      hs _ (mem_vals_of_mem (look_mem h))]
    simp
  · rw [testBit_unmapBits_of_not_mem m _ k hk hv h]
    cases hb : x.testBit k with
    | false => rfl
    | true => exact absurd (hx k hb) h

/-- every backend outcome splits into the image of its un-mapped value and its stray bits -/
theorem decompose_aux (m : QMap) (y : Nat) (hk : (keys m).Nodup) (hv : (vals m).Nodup) :
    fwdBits m (unmapBits m y) ||| strayPart m y = y := by
  apply Nat.eq_of_testBit_eq
  intro j
  rw [Nat.testBit_or, testBit_strayPart]
  by_cases h : j ∈ vals m
  · obtain ⟨p, hp, e⟩ := List.mem_map.1 h
    obtain ⟨k, v⟩ := p
    simp only at e; subst e
    have hkm : k ∈ keys m := mem_keys_of_mem hp
    rw [testBit_fwdBits, any_snd m hv k v hp, testBit_unmapBits m y k hk hv, any_fst m hk k v hp]
    simp [h]
  · rw [testBit_fwdBits_of_not_mem m _ j h]
    simp [h]

theorem strayPart_off_range (m : QMap) (y : Nat) : ∀ v ∈ vals m, (strayPart m y).testBit v = false := by
  intro v hv
  rw [testBit_strayPart]
  simp [hv]

/-! ### the reverse map only ever looks at mapped backend bits (no hypothesis on `m`) -/

theorem dictSet_fst_mem {β : Type} (d : List (Nat × β)) (k : Nat) (v : β) (p : Nat × β)
    (h : p ∈ dictSet d k v) : p.1 = k ∨ p.1 ∈ d.map (·.1) := by
  induction d with
  | nil =>
    simp only [dictSet, List.mem_singleton] at h
    subst h; exact Or.inl rfl
  | cons q r ih =>
    obtain ⟨k', v'⟩ := q
    unfold dictSet at h
    by_cases e : k' = k
    · simp only [e, if_true, List.mem_cons] at h
      rcases h with h | h
      · subst h; exact Or.inl rfl
      · exact Or.inr (by simp only [List.map_cons, List.mem_cons]; exact Or.inr (List.mem_map.2 ⟨p, h, rfl⟩))
    · simp only [e, if_false, List.mem_cons] at h
      rcases h with h | h
      · subst h; exact Or.inr (by simp)
      · rcases ih h with h | h
        · exact Or.inl h
        · exact Or.inr (by simp only [List.map_cons, List.mem_cons]; exact Or.inr h)

theorem createReverseMap_fst_aux (m : QMap) (acc : List (Nat × Nat)) (P : Nat → Prop)
    (hacc : ∀ p ∈ acc, P p.1) (hm : ∀ v ∈ vals m, P (1 <<< v)) :
    ∀ p ∈ m.foldl (fun d p => dictSet d (1 <<< p.2) (1 <<< p.1)) acc, P p.1 := by
  induction m generalizing acc with
  | nil => simpa using hacc
  | cons q r ih =>
    obtain ⟨k, v⟩ := q
    simp only [List.foldl_cons]
    apply ih
    · intro p hp
      rcases dictSet_fst_mem _ _ _ _ hp with h | h
      · rw [h]; exact hm v (by simp [vals])
      · obtain ⟨p', hp', e⟩ := List.mem_map.1 h
        rw [← e]; exact hacc p' hp'
    · intro v' hv'
      exact hm v' (by simp only [vals, List.map_cons, List.mem_cons]; exact Or.inr hv')

theorem createReverseMap_fst (m : QMap) :
    ∀ p ∈ createReverseMap m, ∃ v ∈ vals m, p.1 = 1 <<< v :=
  createReverseMap_fst_aux m [] (fun a => ∃ v ∈ vals m, a = 1 <<< v) (by simp)
    (fun v hv => ⟨v, hv, rfl⟩)

theorem reverseMapBits_congr (y y' : Nat) (rm : List (Nat × Nat)) (acc : Nat)
    (h : ∀ p ∈ rm, ((y &&& p.1) != 0) = ((y' &&& p.1) != 0)) :
    rm.foldl (fun r p => if (y &&& p.1) != 0 then r + p.2 else r) acc
      = rm.foldl (fun r p => if (y' &&& p.1) != 0 then r + p.2 else r) acc := by
  induction rm generalizing acc with
  | nil => rfl
  | cons q r ih =>
    simp only [List.foldl_cons]
    rw [h q (by simp)]
    exact ih _ (fun p hp => h p (List.mem_cons_of_mem _ hp))

theorem unmapBits_congr (m : QMap) (y y' : Nat) (h : ∀ v ∈ vals m, y.testBit v = y'.testBit v) :
    unmapBits m y = unmapBits m y' := by
  unfold unmapBits reverseMapBits
  apply reverseMapBits_congr
  intro p hp
  obtain ⟨v, hv, e⟩ := createReverseMap_fst m p hp
  rw [e, and_one_shiftLeft_ne_zero, and_one_shiftLeft_ne_zero, h v hv]

/-! ### counts -/

theorem total_cons (p : Nat × Int) (c : Counts) : total (p :: c) = p.2 + total c := rfl

theorem total_append (a b : Counts) : total (a ++ b) = total a + total b := by
  induction a with
  | nil => simp [total]
  | cons p r ih => simp only [List.cons_append, total_cons, ih]; omega

theorem dictGet_dictSet {β : Type} (d : List (Nat × β)) (k : Nat) (v : β) (x : Nat) (dflt : β) :
    dictGet (dictSet d k v) x dflt = if k = x then v else dictGet d x dflt := by
  induction d with
  | nil => simp [dictSet, dictGet]
  | cons q r ih =>
    obtain ⟨k', v'⟩ := q
    unfold dictSet
    by_cases e : k' = k
    · subst e
      by_cases e2 : k' = x <;> simp [dictGet, e2]
    · by_cases e2 : k' = x
      · subst e2
        have : ¬ k = k' := fun h => e h.symm
        simp [dictGet, e, this]
      · simp [dictGet, e, e2, ih]

theorem total_dictSet_add (d : Counts) (b : Nat) (n : Int) :
    total (dictSet d b (dictGet d b 0 + n)) = total d + n := by
  induction d with
  | nil => simp [dictSet, dictGet, total]
  | cons q r ih =>
    obtain ⟨k', v'⟩ := q
    unfold dictSet dictGet
    by_cases e : k' = b
    · simp only [e, if_true, total_cons]; omega
    · simp only [e, if_false, total_cons, ih]; omega

theorem total_reverseMapCounts_aux (rm : List (Nat × Nat)) (c acc : Counts) :
    total (c.foldl (fun d p =>
      let b := reverseMapBits p.1 rm
      dictSet d b (dictGet d b 0 + p.2)) acc) = total acc + total c := by
  induction c generalizing acc with
  | nil => simp [total]
  | cons p r ih =>
    simp only [List.foldl_cons, ih, total_dictSet_add, total_cons]; omega

/-- what the entries of `c` that un-map to `x` add up to -/
def massAt (rm : List (Nat × Nat)) (c : Counts) (x : Nat) : Int :=
  total (c.filter fun p => reverseMapBits p.1 rm == x)

theorem dictGet_reverseMapCounts_aux (rm : List (Nat × Nat)) (c acc : Counts) (x : Nat) :
    dictGet (c.foldl (fun d p =>
      let b := reverseMapBits p.1 rm
      dictSet d b (dictGet d b 0 + p.2)) acc) x 0 = dictGet acc x 0 + massAt rm c x := by
  induction c generalizing acc with
  | nil => simp [massAt, total]
  | cons p r ih =>
    simp only [List.foldl_cons, ih, dictGet_dictSet, massAt, List.filter_cons]
    by_cases e : reverseMapBits p.1 rm = x
    · simp only [e, if_true, beq_self_eq_true, total_cons]; omega
    · simp only [e, if_false, beq_false_of_ne e]
      simp

theorem dictSet_keys_nodup {β : Type} (d : List (Nat × β)) (k : Nat) (v : β)
    (h : (d.map (·.1)).Nodup) : ((dictSet d k v).map (·.1)).Nodup := by
  induction d with
  | nil => simp [dictSet]
  | cons q r ih =>
    obtain ⟨k', v'⟩ := q
    simp only [List.map_cons, List.nodup_cons] at h
    unfold dictSet
    by_cases e : k' = k
    · simp only [e, if_true, List.map_cons, List.nodup_cons]
      exact ⟨e ▸ h.1, h.2⟩
    · simp only [e, if_false, List.map_cons, List.nodup_cons]
      refine ⟨?_, ih h.2⟩
      intro hm
      obtain ⟨p, hp, e2⟩ := List.mem_map.1 hm
      rcases dictSet_fst_mem _ _ _ _ hp with h1 | h1
      · exact e (by rw [← e2, h1])
      · exact h.1 (by rw [← e2]; exact h1)

theorem reverseMapCounts_keys_nodup_aux (rm : List (Nat × Nat)) (c acc : Counts)
    (h : (acc.map (·.1)).Nodup) :
    ((c.foldl (fun d p =>
      let b := reverseMapBits p.1 rm
      dictSet d b (dictGet d b 0 + p.2)) acc).map (·.1)).Nodup := by
  induction c generalizing acc with
  | nil => simpa using h
  | cons p r ih =>
    simp only [List.foldl_cons]
    exact ih _ (dictSet_keys_nodup _ _ _ h)

theorem dictGet_of_not_mem {β : Type} (d : List (Nat × β)) (k : Nat) (dflt : β)
    (h : k ∉ d.map (·.1)) : dictGet d k dflt = dflt := by
  induction d with
  | nil => rfl
  | cons q r ih =>
    obtain ⟨k', v'⟩ := q
    simp only [List.map_cons, List.mem_cons, not_or] at h
    have : ¬ k' = k := fun e => h.1 e.symm
    simp [dictGet, this, ih h.2]

/-- if every entry un-maps to a fresh key, nothing is merged and the order is kept -/
theorem reverseMapCounts_image_aux (rm : List (Nat × Nat)) (f : Nat → Nat) (c acc : Counts)
    (hf : ∀ p ∈ c, reverseMapBits (f p.1) rm = p.1)
    (hn : ((acc ++ c).map (·.1)).Nodup) :
    (c.map fun p => (f p.1, p.2)).foldl (fun d p =>
      let b := reverseMapBits p.1 rm
      dictSet d b (dictGet d b 0 + p.2)) acc = acc ++ c := by
  induction c generalizing acc with
  | nil => simp
  | cons p r ih =>
    obtain ⟨x, n⟩ := p
    simp only [List.map_cons, List.foldl_cons]
    have hx : reverseMapBits (f x) rm = x := hf (x, n) (by simp)
    have hfresh : x ∉ acc.map (·.1) := by
      intro hm
      simp only [List.map_append, List.map_cons] at hn
      have := (List.nodup_append.1 hn).2.2 x hm x (by simp)
      exact this rfl
    rw [hx, dictGet_of_not_mem _ _ _ hfresh, dictSet_of_not_mem _ _ _ hfresh]
    have : acc ++ (x, n) :: r = (acc ++ [(x, n)]) ++ r := by simp
    rw [this, Int.zero_add]
    apply ih
    · intro p hp; exact hf p (List.mem_cons_of_mem _ hp)
    · rw [← this]; exact hn

/-! ### QubitRemappingTranspiler -/

theorem distinctCount_le (l : List Nat) : distinctCount l ≤ l.length := by
  induction l with
  | nil => simp [distinctCount]
  | cons x xs ih =>
    unfold distinctCount
    cases h : xs.contains x
    · simp only [Bool.false_eq_true, if_false, List.length_cons]; omega
    · simp only [if_true, List.length_cons]; omega

theorem distinctCount_eq_length_iff (l : List Nat) : distinctCount l = l.length ↔ l.Nodup := by
  induction l with
  | nil => simp [distinctCount]
  | cons x xs ih =>
    unfold distinctCount
    have hle := distinctCount_le xs
    cases h : xs.contains x
    · have hm : x ∉ xs := by
        intro hx
        have : xs.contains x = true := by simpa using hx
        rw [h] at this; cases this
      simp only [Bool.false_eq_true, if_false, List.length_cons, List.nodup_cons]
      constructor
      · intro e; exact ⟨hm, ih.1 (by omega)⟩
      · intro e; have := ih.2 e.2; omega
    · have hm : x ∈ xs := by simpa using h
      simp only [if_true, List.length_cons, List.nodup_cons]
      constructor
      · intro e; omega
      · intro e; exact absurd hm e.1

theorem maxOf_none_iff (l : List Nat) : maxOf l = none ↔ l = [] := by
  cases l with
  | nil => simp [maxOf]
  | cons x xs =>
    unfold maxOf
    cases maxOf xs <;> simp

theorem maxOf_spec (l : List Nat) (mx : Nat) (h : maxOf l = some mx) : mx ∈ l ∧ ∀ v ∈ l, v ≤ mx := by
  induction l generalizing mx with
  | nil => cases h
  | cons x xs ih =>
    unfold maxOf at h
    cases hxs : maxOf xs with
    | none =>
      rw [hxs] at h
      simp only [Option.some.injEq] at h
      subst h
      have : xs = [] := (maxOf_none_iff xs).1 hxs
      subst this
      simp
    | some y =>
      rw [hxs] at h
      simp only [Option.some.injEq] at h
      obtain ⟨hy, hall⟩ := ih y hxs
      by_cases c : x < y
      · simp only [c, if_true] at h
        subst h
        refine ⟨List.mem_cons_of_mem _ hy, ?_⟩
        intro v hv
        rcases List.mem_cons.1 hv with e | e
        · omega
        · exact hall v e
      · simp only [c, if_false] at h
        subst h
        refine ⟨List.mem_cons_self, ?_⟩
        intro v hv
        rcases List.mem_cons.1 hv with e | e
        · omega
        · have := hall v e; omega

theorem vals_length (m : QMap) : (vals m).length = m.length := by simp [vals]

theorem mkTranspiler_ok_iff (m : QMap) (mx : Nat) :
    mkTranspiler m = .ok mx ↔ (vals m).Nodup ∧ maxOf (vals m) = some mx := by
  unfold mkTranspiler
  by_cases h : m.length = distinctCount (vals m)
  · have hn : (vals m).Nodup := (distinctCount_eq_length_iff _).1 (by rw [vals_length]; exact h.symm)
    have hb : (m.length != distinctCount (vals m)) = false := by simpa using h
    simp only [hb]
    cases hmx : maxOf (vals m) with
    | none => simp [hn]
    | some y => simp [hn]
  · have hn : ¬ (vals m).Nodup := fun hn =>
      h (by rw [(distinctCount_eq_length_iff _).2 hn, vals_length])
    have hb : (m.length != distinctCount (vals m)) = true := by simpa using h
    simp [hb, hn]

theorem mkTranspiler_dup (m : QMap) (h : ¬ (vals m).Nodup) : mkTranspiler m = .error .dupValues := by
  unfold mkTranspiler
  have : ¬ m.length = distinctCount (vals m) := fun e =>
    h ((distinctCount_eq_length_iff _).1 (by rw [vals_length]; exact e.symm))
  have hb : (m.length != distinctCount (vals m)) = true := by simpa using this
  simp [hb]

theorem mapIdx_ok (m : QMap) (qs : List Nat) (h : ∀ q ∈ qs, q ∈ keys m) :
    mapIdx m qs = .ok (qs.map (look m)) := by
  induction qs with
  | nil => rfl
  | cons q r ih =>
    obtain ⟨v, hv⟩ := lookup_isSome_of_mem_keys (h q (by simp))
    have hl : look m q = v := by simp [look, hv]
    simp only [mapIdx, hv, ih (fun q' hq' => h q' (List.mem_cons_of_mem _ hq')), List.map_cons, hl]

theorem mapIdx_error (m : QMap) (qs : List Nat) (h : ¬ ∀ q ∈ qs, q ∈ keys m) :
    ∃ q, q ∈ qs ∧ q ∉ keys m ∧ mapIdx m qs = .error (.missing q) := by
  induction qs with
  | nil => exact absurd (by simp) h
  | cons q r ih =>
    by_cases hq : q ∈ keys m
    · obtain ⟨v, hv⟩ := lookup_isSome_of_mem_keys hq
      have hr : ¬ ∀ q' ∈ r, q' ∈ keys m := by
        intro hall
        apply h
        intro q' hq'
        rcases List.mem_cons.1 hq' with e | e
        · rw [e]; exact hq
        · exact hall q' e
      obtain ⟨q0, h0, h1, h2⟩ := ih hr
      exact ⟨q0, List.mem_cons_of_mem _ h0, h1, by simp [mapIdx, hv, h2]⟩
    · exact ⟨q, List.mem_cons_self, hq, by simp [mapIdx, lookup_none_of_not_mem_keys hq]⟩

/-- the relabelled gate -/
def relabel (m : QMap) (g : Gate) : Gate :=
  { g with targets := g.targets.map (look m), controls := g.controls.map (look m) }

theorem remapGate_ok (m : QMap) (g : Gate) (h : ∀ q ∈ g.controls ++ g.targets, q ∈ keys m) :
    remapGate m g = .ok (relabel m g) := by
  unfold remapGate
  rw [mapIdx_ok m g.controls (fun q hq => h q (List.mem_append_left _ hq)),
    mapIdx_ok m g.targets (fun q hq => h q (List.mem_append_right _ hq))]
  rfl

theorem remapGate_error (m : QMap) (g : Gate) (h : ¬ ∀ q ∈ g.controls ++ g.targets, q ∈ keys m) :
    ∃ q, q ∈ g.controls ++ g.targets ∧ q ∉ keys m ∧ remapGate m g = .error (.missing q) := by
  unfold remapGate
  by_cases hc : ∀ q ∈ g.controls, q ∈ keys m
  · have ht : ¬ ∀ q ∈ g.targets, q ∈ keys m := by
      intro hall
      apply h
      intro q hq
      rcases List.mem_append.1 hq with e | e
      · exact hc q e
      · exact hall q e
    obtain ⟨q, h0, h1, h2⟩ := mapIdx_error m g.targets ht
    exact ⟨q, List.mem_append_right _ h0, h1, by rw [mapIdx_ok m g.controls hc, h2]⟩
  · obtain ⟨q, h0, h1, h2⟩ := mapIdx_error m g.controls hc
    exact ⟨q, List.mem_append_left _ h0, h1, by rw [h2]⟩

theorem look_le_of_max (m : QMap) (mx : Nat) (hmx : maxOf (vals m) = some mx) (q : Nat)
    (hq : q ∈ keys m) : look m q ≤ mx :=
  (maxOf_spec _ _ hmx).2 _ (mem_vals_of_mem (look_mem hq))

theorem addGateCheck_relabel (m : QMap) (mx cc : Nat) (hmx : maxOf (vals m) = some mx) (g : Gate)
    (h : ∀ q ∈ g.controls ++ g.targets, q ∈ keys m) :
    addGateCheck (mx + 1) cc (relabel m g)
      = if g.classical.all (fun i => decide (i < cc)) then .ok () else .error .cbitRange := by
  unfold addGateCheck
  have hr : ((relabel m g).targets ++ (relabel m g).controls).any (fun q => decide (mx + 1 ≤ q)) = false := by
    rw [List.any_eq_false]
    intro q hq
    simp only [relabel, List.mem_append, List.mem_map] at hq
    have : q ≤ mx := by
      rcases hq with ⟨a, ha, e⟩ | ⟨a, ha, e⟩
      · rw [← e]; exact look_le_of_max m mx hmx a (h a (List.mem_append_right _ ha))
      · rw [← e]; exact look_le_of_max m mx hmx a (h a (List.mem_append_left _ ha))
    simp; omega
  rw [hr]
  simp only [Bool.false_eq_true, if_false]
  have : (relabel m g).classical = g.classical := rfl
  rw [this]
  have hany : g.classical.any (fun i => decide (cc ≤ i)) = !g.classical.all (fun i => decide (i < cc)) := by
    induction g.classical with
    | nil => rfl
    | cons a r ih =>
      simp only [List.any_cons, List.all_cons, ih, Bool.not_and]
      congr 1
      by_cases hc : a < cc
      · have : ¬ cc ≤ a := by omega
        simp [hc, this]
      · have : cc ≤ a := by omega
        simp [hc, this]
  rw [hany]
  cases g.classical.all (fun i => decide (i < cc)) <;> simp

theorem remapGates_ok (m : QMap) (mx cc : Nat) (hmx : maxOf (vals m) = some mx) (gs : List Gate)
    (h : ∀ q ∈ usedQubits gs, q ∈ keys m) (hc : classicalOk cc gs = true) :
    remapGates m (mx + 1) cc gs = .ok (gs.map (relabel m)) := by
  induction gs with
  | nil => rfl
  | cons g r ih =>
    have hg : ∀ q ∈ g.controls ++ g.targets, q ∈ keys m := fun q hq =>
      h q (by simp only [usedQubits, List.flatMap_cons]; exact List.mem_append_left _ hq)
    have hr : ∀ q ∈ usedQubits r, q ∈ keys m := fun q hq =>
      h q (by simp only [usedQubits, List.flatMap_cons]; exact List.mem_append_right _ hq)
    simp only [classicalOk, List.all_cons, Bool.and_eq_true] at hc
    have hcr : classicalOk cc r = true := hc.2
    unfold remapGates
    rw [remapGate_ok m g hg]
    simp only [addGateCheck_relabel m mx cc hmx g hg, hc.1, if_true, ih hr hcr, List.map_cons]

theorem remapGates_error (m : QMap) (mx cc : Nat) (hmx : maxOf (vals m) = some mx) (gs : List Gate)
    (h : ¬ ((∀ q ∈ usedQubits gs, q ∈ keys m) ∧ classicalOk cc gs = true)) :
    ∃ e, remapGates m (mx + 1) cc gs = .error e := by
  induction gs with
  | nil => exact absurd ⟨by simp [usedQubits], rfl⟩ h
  | cons g r ih =>
    unfold remapGates
    by_cases hg : ∀ q ∈ g.controls ++ g.targets, q ∈ keys m
    · rw [remapGate_ok m g hg]
      simp only [addGateCheck_relabel m mx cc hmx g hg]
      by_cases hcl : g.classical.all (fun i => decide (i < cc)) = true
      · simp only [hcl, if_true]
        have hr : ¬ ((∀ q ∈ usedQubits r, q ∈ keys m) ∧ classicalOk cc r = true) := by
          intro ⟨h1, h2⟩
          apply h
          refine ⟨?_, by simp only [classicalOk, List.all_cons, hcl, Bool.true_and]; exact h2⟩
          intro q hq
          simp only [usedQubits, List.flatMap_cons] at hq
          rcases List.mem_append.1 hq with e | e
          · exact hg q e
          · exact h1 q e
        obtain ⟨e, he⟩ := ih hr
        exact ⟨e, by rw [he]⟩
      · exact ⟨.cbitRange, by simp [hcl]⟩
    · obtain ⟨q, _, _, h2⟩ := remapGate_error m g hg
      exact ⟨.missing q, by rw [h2]⟩

/-! ### semantics: the relabelled gate acts as the original on the relabelled qubits -/

/-- a backend basis state: logical state `x` on the mapped qubits, `s` elsewhere -/
def place (m : QMap) (s x : Nat) : Nat := fwdBits m x ||| s

theorem testBit_place_of_mem (m : QMap) (s x k : Nat) (hv : (vals m).Nodup)
    (hs : ∀ v ∈ vals m, s.testBit v = false) (h : k ∈ keys m) :
    (place m s x).testBit (look m k) = x.testBit k := by
  unfold place
  rw [Nat.testBit_or, testBit_fwdBits_of_mem m x k hv h, hs _ (mem_vals_of_mem (look_mem h))]
  simp

theorem localBits_place (m : QMap) (s x : Nat) (ws : List Nat) (hv : (vals m).Nodup)
    (hs : ∀ v ∈ vals m, s.testBit v = false) (h : ∀ w ∈ ws, w ∈ keys m) :
    localBits (place m s x) (ws.map (look m)) = localBits x ws := by
  unfold localBits
  rw [List.map_map]
  apply List.map_congr_left
  intro w hw
  exact testBit_place_of_mem m s x w hv hs (h w hw)

theorem setBit_place (m : QMap) (s x w : Nat) (b : Bool) (hk : (keys m).Nodup) (hv : (vals m).Nodup)
    (hs : ∀ v ∈ vals m, s.testBit v = false) (h : w ∈ keys m) :
    setBit (place m s x) (look m w) b = place m s (setBit x w b) := by
  apply Nat.eq_of_testBit_eq
  intro j
  rw [testBit_setBit]
  by_cases hj : j = look m w
  · subst hj
    rw [testBit_place_of_mem m s (setBit x w b) w hv hs h, testBit_setBit]
    simp
  · simp only [hj, if_false, place, Nat.testBit_or]
    congr 1
    rw [testBit_fwdBits, testBit_fwdBits]
    by_cases hjv : j ∈ vals m
    · obtain ⟨p, hp, e⟩ := List.mem_map.1 hjv
      obtain ⟨k, v⟩ := p
      simp only at e; subst e
      rw [any_snd m hv k v hp, any_snd m hv k v hp, testBit_setBit]
      have : ¬ k = w := by
        intro e; subst e
        -- (k, v) and (k, look m k) are both in m with distinct keys ⇒ v = look m k
        have h2 := look_mem h
        have e1 := any_fst m hk k v hp (fun a => a == v)
        have e2 := any_fst m hk k (look m k) h2 (fun a => a == v)
        rw [e1] at e2
        simp only [beq_self_eq_true] at e2
        have e3 : look m k = v := by simpa using e2
        exact hj e3.symm
      simp [this]
    · rw [any_snd_not_mem m j _ hjv, any_snd_not_mem m j _ hjv]

theorem setBits_place (m : QMap) (s x : Nat) (ws : List Nat) (l : List Bool) (hk : (keys m).Nodup)
    (hv : (vals m).Nodup) (hs : ∀ v ∈ vals m, s.testBit v = false) (h : ∀ w ∈ ws, w ∈ keys m) :
    setBits (place m s x) (ws.map (look m)) l = place m s (setBits x ws l) := by
  induction ws generalizing x l with
  | nil => simp [setBits]
  | cons w r ih =>
    cases l with
    | nil => simp [setBits]
    | cons b bs =>
      simp only [List.map_cons, setBits]
      rw [setBit_place m s x w b hk hv hs (h w (by simp))]
      exact ih _ _ (fun w' hw' => h w' (List.mem_cons_of_mem _ hw'))

theorem applyLocal_place {α : Type} [Add α] [Mul α] [Zero α] (A : List Bool → List Bool → α)
    (m : QMap) (s x : Nat) (ws : List Nat) (φ : Nat → α) (hk : (keys m).Nodup) (hv : (vals m).Nodup)
    (hs : ∀ v ∈ vals m, s.testBit v = false) (h : ∀ w ∈ ws, w ∈ keys m) :
    applyLocal A (ws.map (look m)) φ (place m s x)
      = applyLocal A ws (fun x' => φ (place m s x')) x := by
  unfold applyLocal
  rw [List.length_map, localBits_place m s x ws hv hs h]
  congr 1
  apply List.map_congr_left
  intro l _
  rw [setBits_place m s x ws l hk hv hs h]

theorem relabel_wires (m : QMap) (g : Gate) : (relabel m g).wires = g.wires.map (look m) := by
  simp [Gate.wires, relabel]

theorem relabel_mat {α : Type} (sem : Interp α) (m : QMap) (g : Gate) :
    (relabel m g).mat sem = g.mat sem := by
  simp [Gate.mat, relabel]

theorem run_place {α : Type} [Add α] [Mul α] [Zero α] (sem : Interp α) (m : QMap) (s : Nat)
    (gs : List Gate) (φ : Nat → α) (x : Nat) (hk : (keys m).Nodup) (hv : (vals m).Nodup)
    (hs : ∀ v ∈ vals m, s.testBit v = false) (h : ∀ q ∈ usedQubits gs, q ∈ keys m) :
    run sem (gs.map (relabel m)) φ (place m s x) = run sem gs (fun x' => φ (place m s x')) x := by
  induction gs generalizing φ with
  | nil => rfl
  | cons g r ih =>
    have hg : ∀ q ∈ g.wires, q ∈ keys m := fun q hq =>
      h q (by simp only [usedQubits, List.flatMap_cons]; exact List.mem_append_left _ hq)
    have hr : ∀ q ∈ usedQubits r, q ∈ keys m := fun q hq =>
      h q (by simp only [usedQubits, List.flatMap_cons]; exact List.mem_append_right _ hq)
    simp only [List.map_cons, run]
    rw [ih _ hr]
    congr 1
    funext x'
    rw [relabel_wires, relabel_mat]
    exact applyLocal_place (g.mat sem) m s x' g.wires φ hk hv hs hg

/-! ### integer keys produced by the back ends -/

theorem testBit_braketKey (qs : List Nat) (bs : List Bool) (hn : qs.Nodup) (j : Nat) :
    (braketKey qs bs).testBit j = (qs.zip bs).any (fun p => p.1 == j && p.2) := by
  induction qs generalizing bs j with
  | nil => simp [braketKey]
  | cons q r ih =>
    cases bs with
    | nil => simp [braketKey]
    | cons b bs =>
      simp only [List.nodup_cons] at hn
      simp only [braketKey, List.zip_cons_cons, List.any_cons]
      have hq : (braketKey r bs).testBit q = false := by
        rw [ih bs hn.2 q, List.any_eq_false]
        intro p hp
        have : p.1 ∈ r := (List.of_mem_zip hp).1
        have hne : ¬ p.1 = q := fun e => hn.1 (e ▸ this)
        simp [beq_false_of_ne hne]
      cases b with
      | false => simp [ih bs hn.2 j]
      | true =>
        simp only [if_true, Bool.and_true]
        rw [Nat.add_comm, add_two_pow_eq_or _ _ hq, Nat.testBit_or, Nat.testBit_two_pow, ih bs hn.2 j,
          Bool.or_comm]
        by_cases e : q = j
        · simp [e]
        · simp [e, beq_false_of_ne e]

theorem binStrValue_append (s : List Bool) (b : Bool) :
    binStrValue (s ++ [b]) = 2 * binStrValue s + (if b then 1 else 0) := by
  simp [binStrValue, List.foldl_append]

theorem testBit_two_mul_add_bit (a : Nat) (b : Bool) (i : Nat) :
    (2 * a + (if b then 1 else 0)).testBit i = if i = 0 then b else a.testBit (i - 1) := by
  cases i with
  | zero =>
    rw [Nat.testBit_zero]
    cases b <;> simp <;> omega
  | succ n =>
    rw [Nat.testBit_add_one]
    have : (2 * a + (if b then 1 else 0)) / 2 = a := by cases b <;> simp <;> omega
    simp [this]

theorem testBit_binStrValue_reverse (r : List Bool) (i : Nat) :
    (binStrValue r.reverse).testBit i = r.getD i false := by
  induction r generalizing i with
  | nil => simp [binStrValue]
  | cons b r ih =>
    rw [List.reverse_cons, binStrValue_append, testBit_two_mul_add_bit]
    cases i with
    | zero => simp
    | succ n => simp [ih n]

/-- qiskit convention: the rightmost character is qubit 0 -/
theorem testBit_binStrValue (s : List Bool) (i : Nat) :
    (binStrValue s).testBit i = (s.reverse.getD i false) := by
  have := testBit_binStrValue_reverse s.reverse i
  rwa [List.reverse_reverse] at this

/-! ### starting from |0…0⟩ -/

/-- `x` only has bits on mapped logical qubits -/
def supported (m : QMap) (x : Nat) : Prop := ∀ i, x.testBit i = true → i ∈ keys m

theorem setBit_supported (m : QMap) (y w : Nat) (b : Bool) (hy : supported m y) (hw : w ∈ keys m) :
    supported m (setBit y w b) := by
  intro i hi
  rw [testBit_setBit] at hi
  by_cases e : i = w
  · rw [e]; exact hw
  · simp only [e, if_false] at hi; exact hy i hi

theorem setBits_supported (m : QMap) (y : Nat) (ws : List Nat) (l : List Bool) (hy : supported m y)
    (hw : ∀ w ∈ ws, w ∈ keys m) : supported m (setBits y ws l) := by
  induction ws generalizing y l with
  | nil => simpa [setBits] using hy
  | cons w r ih =>
    cases l with
    | nil => simpa [setBits] using hy
    | cons b bs =>
      simp only [setBits]
      exact ih _ _ (setBit_supported m y w b hy (hw w (by simp))) (fun w' hw' => hw w' (List.mem_cons_of_mem _ hw'))

theorem applyLocal_congr_on {α : Type} [Add α] [Mul α] [Zero α] (A : List Bool → List Bool → α)
    (m : QMap) (ws : List Nat) (ψ₁ ψ₂ : Nat → α) (h : ∀ x, supported m x → ψ₁ x = ψ₂ x)
    (hw : ∀ w ∈ ws, w ∈ keys m) (y : Nat) (hy : supported m y) :
    applyLocal A ws ψ₁ y = applyLocal A ws ψ₂ y := by
  unfold applyLocal
  congr 1
  apply List.map_congr_left
  intro l _
  rw [h _ (setBits_supported m y ws l hy hw)]

theorem run_congr_on {α : Type} [Add α] [Mul α] [Zero α] (sem : Interp α) (m : QMap) (gs : List Gate)
    (ψ₁ ψ₂ : Nat → α) (h : ∀ x, supported m x → ψ₁ x = ψ₂ x)
    (hw : ∀ q ∈ usedQubits gs, q ∈ keys m) (y : Nat) (hy : supported m y) :
    run sem gs ψ₁ y = run sem gs ψ₂ y := by
  induction gs generalizing ψ₁ ψ₂ with
  | nil => exact h y hy
  | cons g r ih =>
    have hg : ∀ q ∈ g.wires, q ∈ keys m := fun q hq =>
      hw q (by simp only [usedQubits, List.flatMap_cons]; exact List.mem_append_left _ hq)
    have hr : ∀ q ∈ usedQubits r, q ∈ keys m := fun q hq =>
      hw q (by simp only [usedQubits, List.flatMap_cons]; exact List.mem_append_right _ hq)
    simp only [run]
    exact ih _ _ (fun x hx => applyLocal_congr_on (g.mat sem) m g.wires ψ₁ ψ₂ h hg x hx) hr

theorem unmapBits_supported (m : QMap) (y : Nat) (hk : (keys m).Nodup) (hv : (vals m).Nodup) :
    supported m (unmapBits m y) := by
  intro i hi
  by_cases h : i ∈ keys m
  · exact h
  · rw [testBit_unmapBits_of_not_mem m y i hk hv h] at hi; cases hi

theorem unmapBits_zero (m : QMap) (hk : (keys m).Nodup) (hv : (vals m).Nodup) : unmapBits m 0 = 0 := by
  apply Nat.eq_of_testBit_eq
  intro i
  rw [testBit_unmapBits m 0 i hk hv]
  simp

theorem fwdBits_eq_zero_iff (m : QMap) (x : Nat) (hk : (keys m).Nodup) (hv : (vals m).Nodup)
    (hx : supported m x) : fwdBits m x = 0 ↔ x = 0 := by
  constructor
  · intro e
    have := roundtrip_bits_aux m x 0 hk hv hx (by simp)
    rw [e, Nat.or_zero, unmapBits_zero m hk hv] at this
    exact this.symm
  · intro e
    subst e
    apply Nat.eq_of_testBit_eq
    intro j
    rw [testBit_fwdBits]
    simp

theorem sumList_zero {α : Type} [Add α] [Zero α] (hadd : (0 : α) + 0 = 0) (l : List α)
    (h : ∀ a ∈ l, a = 0) : sumList l = 0 := by
  induction l with
  | nil => rfl
  | cons a r ih =>
    simp only [sumList, List.foldr_cons]
    have hr : sumList r = 0 := ih (fun b hb => h b (List.mem_cons_of_mem _ hb))
    simp only [sumList] at hr
    rw [hr, h a (by simp), hadd]

theorem run_zero {α : Type} [Add α] [Mul α] [Zero α] (hmul : ∀ a : α, a * 0 = 0)
    (hadd : (0 : α) + 0 = 0) (sem : Interp α) (gs : List Gate) (y : Nat) :
    run sem gs (fun _ => (0 : α)) y = 0 := by
  induction gs generalizing y with
  | nil => rfl
  | cons g r ih =>
    simp only [run]
    have : applyLocal (g.mat sem) g.wires (fun _ => (0 : α)) = fun _ => 0 := by
      funext x
      unfold applyLocal
      apply sumList_zero hadd
      intro a ha
      obtain ⟨l, _, e⟩ := List.mem_map.1 ha
      rw [← e, hmul]
    rw [this]
    exact ih y

end QV.C18
