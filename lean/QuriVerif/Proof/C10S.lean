import QuriVerif.Proof.C10T
/-
  C10 — histories: the store invariant is preserved by every operation, the parameter list of
  every circuit an operation produces is described in terms of the operands' parameter lists.
-/
set_option linter.unusedSectionVars false
set_option linter.unusedSimpArgs false
set_option linter.unusedVariables false

namespace QV.C10
open QV

section store
variable {K : Type} [Num K]

theorem PT0_keeps {tb : Tables} {t : PT0} {al al' : Alloc K} {c c' : LC K} (ha : AllocWF al)
    (h : t.run tb c al = .ok (c', al')) : Keeps al al' c c' := by
  cases t with
  | wrap i => exact (wrapT_spec ha h).1
  | rx => exact (rewriteT_spec ha h).1
  | ry => exact (rewriteT_spec ha h).1
  | pauli => exact (rewriteT_spec ha h).1

theorem seqT_keeps {tb : Tables} {ts : List PT0} {al al' : Alloc K} {c c' : LC K} (ha : AllocWF al)
    (hw : LinWF al c) (h : seqT tb ts c al = .ok (c', al')) : Keeps al al' c c' := by
  induction ts generalizing c al with
  | nil =>
    simp only [seqT] at h
    injection h with h; injection h with e1 e2; subst e1; subst e2
    exact ⟨hw, ha, Ext.refl _, rfl, rfl⟩
  | cons t r ih =>
    simp only [seqT] at h
    split at h
    · rename_i c1 al1 h1
      have k1 := PT0_keeps ha h1
      exact k1.trans (ih k1.awf k1.wf h)
    · cases h

/-- parameter list of the operand `src` -/
def srcIn (s : Store K) : Src K → List PId
  | .h j => ((s.circs[j]?).map (·.view.m.inP)).getD []
  | _ => []

def srcInP : SrcV K → List PId
  | .circ o => o.view.m.inP
  | _ => []

/-- parameter list of the circuit an operation acts on -/
def opBase (s : Store K) : Op K → List PId
  | .addParams h _ | .addGate h _ | .addPar h _ _ _ _ | .extend h _ | .plus h _ | .rplus _ h | .tr _ h =>
    srcIn s (.h h)
  | _ => []

/-- parameters an operation brings in -/
def opOther (s : Store K) : Op K → List PId
  | .addParams _ names => freshIds s.al.next names.length
  | .addPar _ _ _ _ _ => [s.al.next]
  | .extend _ src | .plus _ src | .rplus src _ => srcIn s src
  | _ => []

structure StoreWF (s : Store K) : Prop where
  awf : AllocWF s.al
  pos : 0 < s.al.next
  circs : ∀ c ∈ s.circs, CircWF s.al c

theorem srcIn_resolve {s : Store K} {src : Src K} {v : SrcV K} (h : s.resolve src = some v) :
    srcIn s src = srcInP v := by
  cases src with
  | h j =>
    simp only [Store.resolve] at h
    cases hc : s.circs[j]? with
    | none => simp [hc] at h
    | some c => simp [hc] at h; subst h; simp [srcIn, srcInP, hc]
  | lit gs => simp [Store.resolve] at h; subst h; rfl
  | qc n gs => simp [Store.resolve] at h; subst h; rfl

theorem resolve_wf {s : Store K} (hs : StoreWF s) {src : Src K} {v : SrcV K}
    (h : s.resolve src = some v) : SrcWF s.al v := by
  cases src with
  | h j =>
    simp only [Store.resolve] at h
    cases hc : s.circs[j]? with
    | none => simp [hc] at h
    | some c =>
      simp [hc] at h; subst h
      exact hs.circs c (List.mem_of_getElem? hc)
  | lit gs => simp [Store.resolve] at h; subst h; trivial
  | qc n gs => simp [Store.resolve] at h; subst h; trivial

theorem srcIn_h {s : Store K} {h : Nat} {c : Circ K} (hc : s.circs[h]? = some c) :
    srcIn s (.h h) = c.view.m.inP := by simp [srcIn, hc]

theorem addGatesL_m (c : LC K) (gs : List (FG K)) : (addGatesL c gs).1.m = c.m := by
  obtain ⟨pre, hp⟩ := addGatesL_spec c gs
  rw [hp]

theorem extend_inP (c : LC K) (v : SrcV K) :
    (c.extend v).1.m.inP = c.m.inP ∨ (c.extend v).1.m.inP = c.m.inP ++ srcInP v := by
  cases v with
  | circ o =>
    simp only [LC.extend]
    split
    · left; rfl
    · right; rfl
  | lit gs => left; simp [LC.extend, addGatesL_m]
  | qc n gs =>
    simp only [LC.extend]
    split
    · left; rfl
    · left; simp [addGatesL_m]

theorem extend_ok_inP {c r : LC K} {v : SrcV K} (h : c.extend v = (r, none)) :
    r.m.inP = c.m.inP ++ srcInP v := by
  cases v with
  | circ o =>
    simp only [LC.extend] at h
    split at h
    · simp at h
    · injection h with h1 _; subst h1; rfl
  | lit gs =>
    have e : r = (c.extend (.lit gs)).1 := by rw [h]
    rw [e]; simp [LC.extend, addGatesL_m, srcInP]
  | qc n gs =>
    simp only [LC.extend] at h
    split at h
    · simp at h
    · have e : r = (addGatesL c gs).1 := by rw [h]
      rw [e]; simp [addGatesL_m, srcInP]

theorem plus_inP {c r : LC K} {v : SrcV K} (h : c.plus v = .ok r) : r.m.inP = c.m.inP ++ srcInP v := by
  unfold LC.plus at h
  split at h
  · rename_i r1 h1
    split at h
    · rename_i r2 h2
      injection h with h; subst h
      rw [extend_ok_inP h2, extend_ok_inP h1]
      simp [emptyLC, srcInP, Circ.view]
    · cases h
  · cases h

theorem rplus_inP {c r : LC K} {v : SrcV K} (h : c.rplus v = .ok r) : r.m.inP = srcInP v ++ c.m.inP := by
  unfold LC.rplus at h
  split at h
  · rename_i r1 h1
    split at h
    · rename_i r2 h2
      injection h with h; subst h
      rw [extend_ok_inP h2, extend_ok_inP h1]
      simp [emptyLC, srcInP, Circ.view]
    · cases h
  · cases h

theorem raws_prefix {a b : List (PG K)} (h : a <+: b) : raws a <+: raws b := by
  obtain ⟨t, ht⟩ := h
  exact ⟨raws t, by rw [← ht, raws_append]⟩

theorem raws_addGatesP_sub (n : Nat) (acc gs : List (PG K)) :
    (raws (addGatesP n acc gs).1).Sublist (raws acc ++ raws gs) := by
  obtain ⟨pre, hp, he⟩ := addGatesP_prefix n acc gs
  rw [he, raws_append]
  exact List.Sublist.append (List.Sublist.refl _) (raws_prefix hp).sublist

/-- parameter list of a plain source (its raw parameters), `[]` for gate lists -/
theorem plainExtend_sub (n : Nat) (gs : List (PG K)) (v : SrcV K) :
    (raws (plainExtend n gs v).1).Sublist (raws gs ++ srcInP v) := by
  cases v with
  | circ o =>
    cases o with
    | lin c => simp [plainExtend]
    | plain n' gs' => exact raws_addGatesP_sub n gs gs'
  | lit fs =>
    have := raws_addGatesP_sub n gs (fs.map .fixed)
    simpa [plainExtend, raws_map_fixed, srcInP] using this
  | qc n' fs =>
    have := raws_addGatesP_sub n gs (fs.map .fixed)
    simpa [plainExtend, raws_map_fixed, srcInP] using this

theorem plainPlus_sub {n : Nat} {gs : List (PG K)} {v : SrcV K} {r : Circ K}
    (h : plainPlus n gs v = .ok r) : r.view.m.inP.Sublist (raws gs ++ srcInP v) := by
  have first : ∀ g1, plainExtend n gs v = (g1, none) → (raws g1).Sublist (raws gs ++ srcInP v) := by
    intro g1 h1
    have e : g1 = (plainExtend n gs v).1 := by rw [h1]
    rw [e]; exact plainExtend_sub n gs v
  cases v with
  | lit fs =>
    unfold plainPlus at h
    split at h
    · rename_i g1 h1; injection h with h; subst h; exact first g1 h1
    · cases h
  | qc n' fs =>
    unfold plainPlus at h
    split at h
    · rename_i g1 h1; injection h with h; subst h; exact first g1 h1
    · cases h
  | circ o =>
    cases o with
    | lin c =>
      unfold plainPlus at h
      split at h
      · rename_i g1 h1; injection h with h; subst h; exact first g1 h1
      · cases h
    | plain n2 gs2 =>
      unfold plainPlus at h
      split at h
      · rename_i g1 h1; injection h with h; subst h; exact first g1 h1
      · simp only at h
        split at h
        · rename_i g1 h1
          have e1 : g1 = (addGatesP n2 [] gs).1 := by rw [h1]
          split at h
          · rename_i g2 h2
            injection h with h; subst h
            have e2 : g2 = (addGatesP n2 g1 gs2).1 := by rw [h2]
            show (raws g2).Sublist _
            have s2 := raws_addGatesP_sub n2 g1 gs2
            have s1 := raws_addGatesP_sub n2 [] gs
            rw [← e2] at s2; rw [← e1] at s1
            simp only [raws, List.nil_append] at s1
            exact s2.trans (List.Sublist.append s1 (List.Sublist.refl _))
          · cases h
        · cases h

theorem plainRPlus_sub {n : Nat} {gs : List (PG K)} {v : SrcV K} {r : Circ K}
    (h : plainRPlus n gs v = .ok r) : r.view.m.inP.Sublist (srcInP v ++ raws gs) := by
  unfold plainRPlus at h
  split at h
  · rename_i g1 h1
    have e1 : g1 = (plainExtend n [] v).1 := by rw [h1]
    split at h
    · rename_i g2 h2
      injection h with h; subst h
      have e2 : g2 = (addGatesP n g1 gs).1 := by rw [h2]
      show (raws g2).Sublist _
      have s2 := raws_addGatesP_sub n g1 gs
      have s1 := plainExtend_sub n [] v
      rw [← e2] at s2; rw [← e1] at s1
      simp only [raws, List.nil_append] at s1
      exact s2.trans (List.Sublist.append s1 (List.Sublist.refl _))
    · cases h
  · cases h

/-- what an operation does to the store: the supply and the ghost table only grow, and every
    circuit of the new store is an old one or a well-formed one whose parameter list is a sublist
    of `base ++ other` / `other ++ base` -/
structure Shape (tb : Tables) (s : Store K) (op : Op K) : Prop where
  awf : AllocWF (step tb s op).1.al
  pos : 0 < (step tb s op).1.al.next
  ext : Ext s.al (step tb s op).1.al
  circs : ∀ c' ∈ (step tb s op).1.circs, c' ∈ s.circs ∨
    (CircWF (step tb s op).1.al c' ∧
      (c'.view.m.inP.Sublist (opBase s op ++ opOther s op) ∨
       c'.view.m.inP.Sublist (opOther s op ++ opBase s op)) ∧
      (∀ p ∈ c'.view.m.inP, (∃ c ∈ s.circs, p ∈ c.view.m.inP) ∨
        (s.al.next ≤ p ∧ p < (step tb s op).1.al.next)))

theorem srcIn_old {s : Store K} {src : Src K} : ∀ p ∈ srcIn s src, ∃ c ∈ s.circs, p ∈ c.view.m.inP := by
  intro p hp
  cases src with
  | h j =>
    cases hc : s.circs[j]? with
    | none => simp [srcIn, hc] at hp
    | some c => simp [srcIn, hc] at hp; exact ⟨c, List.mem_of_getElem? hc, hp⟩
  | lit gs => simp [srcIn] at hp
  | qc n gs => simp [srcIn] at hp

theorem opBase_old {s : Store K} {op : Op K} : ∀ p ∈ opBase s op, ∃ c ∈ s.circs, p ∈ c.view.m.inP := by
  intro p hp
  cases op <;> simp only [opBase] at hp <;> first | exact srcIn_old p hp | simp at hp

theorem mem_of_sub {s : Store K} {op : Op K} {l : List PId}
    (hoth : ∀ p ∈ opOther s op, ∃ c ∈ s.circs, p ∈ c.view.m.inP)
    (sub : l.Sublist (opBase s op ++ opOther s op) ∨ l.Sublist (opOther s op ++ opBase s op)) :
    ∀ p ∈ l, ∃ c ∈ s.circs, p ∈ c.view.m.inP := by
  intro p hp
  have : p ∈ opBase s op ∨ p ∈ opOther s op := by
    cases sub with
    | inl h => exact List.mem_append.mp (h.subset hp)
    | inr h => exact (List.mem_append.mp (h.subset hp)).symm
  cases this with
  | inl h => exact opBase_old p h
  | inr h => exact hoth p h

theorem shape_same {tb : Tables} {s : Store K} {op : Op K} (hs : StoreWF s)
    (h : (step tb s op).1 = s) : Shape tb s op :=
  ⟨by rw [h]; exact hs.awf, by rw [h]; exact hs.pos, by rw [h]; exact Ext.refl _,
   fun c' hc => by rw [h] at hc; exact Or.inl hc⟩

theorem shape_put {tb : Tables} {s : Store K} {op : Op K} (hs : StoreWF s) {h : Nat} {c2 : Circ K}
    (e : (step tb s op).1 = s.put h c2) (w : CircWF s.al c2)
    (sub : c2.view.m.inP.Sublist (opBase s op ++ opOther s op))
    (hoth : ∀ p ∈ opOther s op, ∃ c ∈ s.circs, p ∈ c.view.m.inP) : Shape tb s op := by
  refine ⟨by rw [e]; exact hs.awf, by rw [e]; exact hs.pos, by rw [e]; exact Ext.refl _, ?_⟩
  intro c' hc
  rw [e] at hc
  cases List.mem_or_eq_of_mem_set hc with
  | inl h1 => exact Or.inl h1
  | inr h1 =>
    subst h1; right; rw [e]
    exact ⟨w, Or.inl sub, fun p hp => Or.inl (mem_of_sub hoth (Or.inl sub) p hp)⟩

theorem shape_push {tb : Tables} {s : Store K} {op : Op K} (hs : StoreWF s) {c2 : Circ K}
    (e : (step tb s op).1 = s.push c2) (w : CircWF s.al c2)
    (sub : c2.view.m.inP.Sublist (opBase s op ++ opOther s op) ∨
           c2.view.m.inP.Sublist (opOther s op ++ opBase s op))
    (hoth : ∀ p ∈ opOther s op, ∃ c ∈ s.circs, p ∈ c.view.m.inP) : Shape tb s op := by
  refine ⟨by rw [e]; exact hs.awf, by rw [e]; exact hs.pos, by rw [e]; exact Ext.refl _, ?_⟩
  intro c' hc
  rw [e] at hc
  simp only [Store.push, List.mem_append, List.mem_singleton] at hc
  cases hc with
  | inl h1 => exact Or.inl h1
  | inr h1 =>
    subst h1; right; rw [e]
    exact ⟨w, sub, fun p hp => Or.inl (mem_of_sub hoth sub p hp)⟩

end store
section shape
variable {K : Type} [Num K]

theorem sub_left {l : List PId} (r : List PId) : l.Sublist (l ++ r) := List.sublist_append_left l r

theorem step_shape (tb : Tables) {s : Store K} (hs : StoreWF s) (op : Op K) : Shape tb s op := by
  cases op with
  | newL n =>
    exact shape_push hs (c2 := .lin (emptyLC n)) rfl (empty_wf _ n) (Or.inl (by simp [Circ.view, emptyLC]))
      (by intro p hp; simp [opOther] at hp)
  | newP n =>
    exact shape_push hs (c2 := .plain n []) rfl (plainWF_nil _) (Or.inl (by simp [Circ.view, plainMapping, raws]))
      (by intro p hp; simp [opOther] at hp)
  | addParams h names =>
    cases hc : s.circs[h]? with
    | none => exact shape_same hs (by simp [step, hc])
    | some c =>
      cases c with
      | plain n gs => exact shape_same hs (by simp [step, hc])
      | lin c =>
        have e : (step tb s (.addParams h names)).1 =
            { circs := s.circs.set h (.lin { c with m := { c.m with inP := c.m.inP ++ freshIds s.al.next names.length } }),
              al := { s.al with next := s.al.next + names.length } } := by simp [step, hc]
        have hw : LinWF s.al c := hs.circs _ (List.mem_of_getElem? hc)
        refine ⟨?_, ?_, ?_, ?_⟩
        · rw [e]; intro kv hk; exact Nat.lt_of_lt_of_le (hs.awf kv hk) (Nat.le_add_right _ _)
        · rw [e]; exact Nat.lt_of_lt_of_le hs.pos (Nat.le_add_right _ _)
        · rw [e]; exact ⟨Nat.le_add_right _ _, fun _ _ h => h⟩
        · intro c' hc'
          rw [e] at hc'
          cases List.mem_or_eq_of_mem_set hc' with
          | inl h1 => exact Or.inl h1
          | inr h1 =>
            subst h1; right; rw [e]
            refine ⟨⟨hw.out, hw.dom, hw.agree⟩, Or.inl ?_, ?_⟩
            · simp [Circ.view, opBase, opOther, srcIn_h hc]
            · intro p hp
              simp only [Circ.view, List.mem_append] at hp
              cases hp with
              | inl h2 => exact Or.inl ⟨.lin c, List.mem_of_getElem? hc, h2⟩
              | inr h2 =>
                right
                simp only [freshIds, List.mem_map, List.mem_range] at h2
                obtain ⟨i, hi, e2⟩ := h2
                subst e2
                exact ⟨Nat.le_add_right _ _, Nat.add_lt_add_left hi _⟩
  | addGate h g =>
    cases hc : s.circs[h]? with
    | none => exact shape_same hs (by simp [step, hc])
    | some c =>
      cases c with
      | lin c =>
        have hw : LinWF s.al c := hs.circs _ (List.mem_of_getElem? hc)
        cases hg : c.addGate g with
        | error e => exact shape_same hs (by simp [step, hc, hg])
        | ok c2 =>
          refine shape_put hs (h := h) (c2 := .lin c2) (by simp [step, hc, hg]) (addGate_wf hw hg) ?_ ?_
          · rw [addGate_ok hg]; simp [Circ.view, opBase, srcIn_h hc]
          · intro p hp; simp [opOther] at hp
      | plain n gs =>
        have hw : PlainWF s.al gs := hs.circs _ (List.mem_of_getElem? hc)
        by_cases hi : idxOk n g.qubits = true
        · refine shape_put hs (h := h) (c2 := .plain n (gs ++ [.fixed g])) (by simp [step, hc, hi]) ?_ ?_ ?_
          · exact plainWF_append hw (plainWF_fixed _ [g])
          · simp [Circ.view, plainMapping, raws_append, raws, opBase, srcIn_h hc]
          · intro p hp; simp [opOther] at hp
        · exact shape_same hs (by simp [step, hc, hi])
  | addPar h k ts ids a =>
    cases hc : s.circs[h]? with
    | none => exact shape_same hs (by simp [step, hc])
    | some c =>
      cases c with
      | lin c =>
        have hw : LinWF s.al c := hs.circs _ (List.mem_of_getElem? hc)
        cases hg : c.addParA s.al k ts ids a with
        | error e => exact shape_same hs (by simp [step, hc, hg])
        | ok r =>
          obtain ⟨c2, al2⟩ := r
          have e : (step tb s (.addPar h k ts ids a)).1 = { circs := s.circs.set h (.lin c2), al := al2 } := by
            simp [step, hc, hg]
          have kk := addParA_keeps hs.awf hw hg
          refine ⟨by rw [e]; exact kk.awf, ?_, by rw [e]; exact kk.ext, ?_⟩
          · rw [e]; exact Nat.lt_of_lt_of_le hs.pos kk.ext.1
          · intro c' hc'
            rw [e] at hc'
            cases List.mem_or_eq_of_mem_set hc' with
            | inl h1 => exact Or.inl h1
            | inr h1 =>
              subst h1; right; rw [e]
              refine ⟨kk.wf, Or.inl ?_, ?_⟩
              · simp only [Circ.view, kk.inP, opBase, srcIn_h hc]
                exact sub_left _
              · intro p hp
                simp only [Circ.view, kk.inP] at hp
                exact Or.inl ⟨.lin c, List.mem_of_getElem? hc, hp⟩
      | plain n gs =>
        have hw : PlainWF s.al gs := hs.circs _ (List.mem_of_getElem? hc)
        by_cases hi : idxOk n ts = true
        · have e : (step tb s (.addPar h k ts ids a)).1 =
              { circs := s.circs.set h (.plain n (gs ++ [.par k ts ids s.al.next])),
                al := ⟨s.al.next + 1, s.al.defs.set s.al.next (.par s.al.next)⟩ } := by simp [step, hc, hi]
          have ex := alloc_set_ext hs.awf (Ang.par (K := K) s.al.next)
          refine ⟨by rw [e]; exact alloc_set_wf hs.awf _, by rw [e]; exact Nat.succ_pos _, by rw [e]; exact ex, ?_⟩
          intro c' hc'
          rw [e] at hc'
          cases List.mem_or_eq_of_mem_set hc' with
          | inl h1 => exact Or.inl h1
          | inr h1 =>
            subst h1; right; rw [e]
            refine ⟨?_, Or.inl ?_, ?_⟩
            · intro r hr
              rw [raws_append] at hr
              cases List.mem_append.mp hr with
              | inl h2 => exact ex.2 _ _ (hw r h2)
              | inr h2 =>
                simp [raws] at h2; subst h2
                simp [Dict.get?_set_self]
            · simp [Circ.view, plainMapping, raws_append, raws, opBase, opOther, srcIn_h hc]
            · intro p hp
              simp only [Circ.view, plainMapping, raws_append, raws, List.mem_append, List.mem_singleton] at hp
              cases hp with
              | inl h2 => exact Or.inl ⟨.plain n gs, List.mem_of_getElem? hc, by simpa [Circ.view, plainMapping] using h2⟩
              | inr h2 => subst h2; exact Or.inr ⟨Nat.le_refl _, Nat.lt_succ_self _⟩
        · exact shape_same hs (by simp [step, hc, hi])
  | extend h src =>
    cases hc : s.circs[h]? with
    | none => exact shape_same hs (by simp [step, hc])
    | some c =>
      cases hr : s.resolve src with
      | none => exact shape_same hs (by cases c <;> simp [step, hc, hr])
      | some v =>
        have hv := resolve_wf hs hr
        cases c with
        | lin c =>
          have hw : LinWF s.al c := hs.circs _ (List.mem_of_getElem? hc)
          refine shape_put hs (h := h) (c2 := .lin (c.extend v).1) (by simp [step, hc, hr]) (extend_wf hw hv) ?_
            (fun p hp => srcIn_old p hp)
          simp only [Circ.view, opBase, opOther, srcIn_h hc, srcIn_resolve hr]
          cases extend_inP c v with
          | inl h1 => rw [h1]; exact sub_left _
          | inr h1 => rw [h1]; exact List.Sublist.refl _
        | plain n gs =>
          have hw : PlainWF s.al gs := hs.circs _ (List.mem_of_getElem? hc)
          refine shape_put hs (h := h) (c2 := .plain n (plainExtend n gs v).1) (by simp [step, hc, hr])
            (plainExtend_wf hw hv) ?_ (fun p hp => srcIn_old p hp)
          simp only [Circ.view, plainMapping, opBase, opOther, srcIn_h hc, srcIn_resolve hr]
          exact plainExtend_sub n gs v
  | plus h src =>
    cases hc : s.circs[h]? with
    | none => exact shape_same hs (by simp [step, hc])
    | some c =>
      cases hr : s.resolve src with
      | none => exact shape_same hs (by cases c <;> simp [step, hc, hr])
      | some v =>
        have hv := resolve_wf hs hr
        cases c with
        | lin c =>
          have hw : LinWF s.al c := hs.circs _ (List.mem_of_getElem? hc)
          cases hp : c.plus v with
          | error e => exact shape_same hs (by simp [step, hc, hr, hp])
          | ok r =>
            refine shape_push hs (c2 := .lin r) (by simp [step, hc, hr, hp]) (plus_wf hw hv hp) (Or.inl ?_) (fun p hp => srcIn_old p hp)
            simp only [Circ.view, opBase, opOther, srcIn_h hc, srcIn_resolve hr, plus_inP hp]
            exact List.Sublist.refl _
        | plain n gs =>
          have hw : PlainWF s.al gs := hs.circs _ (List.mem_of_getElem? hc)
          have base : opBase s (.plus h src) = raws gs := by simp [opBase, srcIn_h hc, Circ.view, plainMapping]
          have other : opOther s (.plus h src) = srcInP v := by simp [opOther, srcIn_resolve hr]
          have general : ∀ v', v = v' → (∀ o, v' ≠ .circ (.lin o)) →
              (step tb s (.plus h src)).1 = (match plainPlus n gs v' with
                | .ok r => s.push r | .error _ => s) := by
            intro v' ev hne
            subst ev
            cases v with
            | lit fs => simp [step, hc, hr]; cases plainPlus n gs (.lit fs) <;> rfl
            | qc n' fs => simp [step, hc, hr]; cases plainPlus n gs (.qc n' fs) <;> rfl
            | circ o =>
              cases o with
              | lin o => exact absurd rfl (hne o)
              | plain n' gs' => simp [step, hc, hr]; cases plainPlus n gs (.circ (.plain n' gs')) <;> rfl
          cases v with
          | circ o =>
            cases o with
            | lin o =>
              have ho : LinWF s.al o := hv
              cases hp : o.rplus (.circ (.plain n gs)) with
              | error e => exact shape_same hs (by simp [step, hc, hr, hp])
              | ok r =>
                refine shape_push hs (c2 := .lin r) (by simp [step, hc, hr, hp])
                  (rplus_wf ho (s := .circ (.plain n gs)) hw hp) (Or.inl ?_) (fun p hp => srcIn_old p hp)
                rw [base, other]
                simp only [Circ.view, rplus_inP hp, srcInP, plainMapping]
                exact List.Sublist.refl _
            | plain n' gs' =>
              have e := general _ rfl (by intro o h; cases h)
              cases hp : plainPlus n gs (.circ (.plain n' gs')) with
              | error e' => exact shape_same hs (by rw [e, hp])
              | ok r =>
                refine shape_push hs (c2 := r) (by rw [e, hp]) (plainPlus_wf hw hv hp) (Or.inl ?_) (fun p hp => srcIn_old p hp)
                rw [base, other]; exact plainPlus_sub hp
          | lit fs =>
            have e := general _ rfl (by intro o h; cases h)
            cases hp : plainPlus n gs (.lit fs) with
            | error e' => exact shape_same hs (by rw [e, hp])
            | ok r =>
              refine shape_push hs (c2 := r) (by rw [e, hp]) (plainPlus_wf hw hv hp) (Or.inl ?_) (fun p hp => srcIn_old p hp)
              rw [base, other]; exact plainPlus_sub hp
          | qc n' fs =>
            have e := general _ rfl (by intro o h; cases h)
            cases hp : plainPlus n gs (.qc n' fs) with
            | error e' => exact shape_same hs (by rw [e, hp])
            | ok r =>
              refine shape_push hs (c2 := r) (by rw [e, hp]) (plainPlus_wf hw hv hp) (Or.inl ?_) (fun p hp => srcIn_old p hp)
              rw [base, other]; exact plainPlus_sub hp
  | rplus src h =>
    cases hc : s.circs[h]? with
    | none => exact shape_same hs (by simp [step, hc])
    | some c =>
      cases hr : s.resolve src with
      | none => exact shape_same hs (by cases c <;> simp [step, hc, hr])
      | some v =>
        have hv := resolve_wf hs hr
        cases c with
        | lin c =>
          have hw : LinWF s.al c := hs.circs _ (List.mem_of_getElem? hc)
          cases hp : c.rplus v with
          | error e => exact shape_same hs (by simp [step, hc, hr, hp])
          | ok r =>
            refine shape_push hs (c2 := .lin r) (by simp [step, hc, hr, hp]) (rplus_wf hw hv hp) (Or.inr ?_) (fun p hp => srcIn_old p hp)
            simp only [Circ.view, opBase, opOther, srcIn_h hc, srcIn_resolve hr, rplus_inP hp]
            exact List.Sublist.refl _
        | plain n gs =>
          have hw : PlainWF s.al gs := hs.circs _ (List.mem_of_getElem? hc)
          cases hp : plainRPlus n gs v with
          | error e => exact shape_same hs (by simp [step, hc, hr, hp])
          | ok r =>
            refine shape_push hs (c2 := r) (by simp [step, hc, hr, hp]) (plainRPlus_wf hw hv hp) (Or.inr ?_) (fun p hp => srcIn_old p hp)
            simp only [opBase, opOther, srcIn_h hc, srcIn_resolve hr, Circ.view, plainMapping]
            exact plainRPlus_sub hp
  | tr ts h =>
    cases hc : s.circs[h]? with
    | none => exact shape_same hs (by simp [step, hc])
    | some c =>
      have hw : LinWF s.al c.view := view_wf (hs.circs _ (List.mem_of_getElem? hc))
      cases hq : seqT tb ts c.view s.al with
      | error e => exact shape_same hs (by simp [step, hc, hq])
      | ok r =>
        obtain ⟨c2, al2⟩ := r
        have e : (step tb s (.tr ts h)).1 = { circs := s.circs ++ [.lin c2], al := al2 } := by
          simp [step, hc, hq]
        have kk := seqT_keeps hs.awf hw hq
        refine ⟨by rw [e]; exact kk.awf, ?_, by rw [e]; exact kk.ext, ?_⟩
        · rw [e]; exact Nat.lt_of_lt_of_le hs.pos kk.ext.1
        · intro c' hc'
          rw [e] at hc'
          simp only [List.mem_append, List.mem_singleton] at hc'
          cases hc' with
          | inl h1 => exact Or.inl h1
          | inr h1 =>
            subst h1; right; rw [e]
            refine ⟨kk.wf, Or.inl ?_, ?_⟩
            · simp only [Circ.view, kk.inP, opBase, srcIn_h hc]
              exact sub_left _
            · intro p hp
              simp only [Circ.view, kk.inP] at hp
              exact Or.inl ⟨c, List.mem_of_getElem? hc, hp⟩

theorem step_wf (tb : Tables) {s : Store K} (hs : StoreWF s) (op : Op K) : StoreWF (step tb s op).1 := by
  have sh := step_shape tb hs op
  refine ⟨sh.awf, sh.pos, fun c' hc' => ?_⟩
  cases sh.circs c' hc' with
  | inl h => exact (hs.circs c' h).ext sh.ext
  | inr h => exact h.1

theorem init_wf : StoreWF ({} : Store K) :=
  ⟨by intro kv h; simp at h, Nat.zero_lt_one, by intro c h; simp at h⟩

theorem runS_cons (tb : Tables) (s : Store K) (o : Op K) (os : List (Op K)) :
    runS tb s (o :: os) = runS tb (step tb s o).1 os := rfl

theorem run_wf (tb : Tables) {s : Store K} (hs : StoreWF s) (ops : List (Op K)) : StoreWF (runS tb s ops) := by
  induction ops generalizing s with
  | nil => exact hs
  | cons o os ih => rw [runS_cons]; exact ih (step_wf tb hs o)

end shape

/-! ### consequences of the shape lemma -/
section conseq
variable {K : Type} [Num K]

/-- every parameter of every circuit is a positive identity already handed out (so never `CONST`) -/
def StoreIn (s : Store K) : Prop := ∀ c ∈ s.circs, ∀ p ∈ c.view.m.inP, 0 < p ∧ p < s.al.next

theorem step_in (tb : Tables) {s : Store K} (hs : StoreWF s) (hi : StoreIn s) (op : Op K) :
    StoreIn (step tb s op).1 := by
  have sh := step_shape tb hs op
  intro c' hc' p hp
  cases sh.circs c' hc' with
  | inl h =>
    obtain ⟨a, b⟩ := hi c' h p hp
    exact ⟨a, Nat.lt_of_lt_of_le b sh.ext.1⟩
  | inr h =>
    cases h.2.2 p hp with
    | inl h1 =>
      obtain ⟨c, hc, hpc⟩ := h1
      obtain ⟨a, b⟩ := hi c hc p hpc
      exact ⟨a, Nat.lt_of_lt_of_le b sh.ext.1⟩
    | inr h1 => exact ⟨Nat.lt_of_lt_of_le hs.pos h1.1, h1.2⟩

theorem init_in : StoreIn ({} : Store K) := by intro c h; simp at h

theorem run_in (tb : Tables) {s : Store K} (hs : StoreWF s) (hi : StoreIn s) (ops : List (Op K)) :
    StoreIn (runS tb s ops) := by
  induction ops generalizing s with
  | nil => exact hi
  | cons o os ih => rw [runS_cons]; exact ih (step_wf tb hs o) (step_in tb hs hi o)

theorem freshIds_nodup (next k : Nat) : (freshIds next k).Nodup := by
  unfold freshIds
  exact List.Pairwise.map _ (fun a b h e => h (Nat.add_left_cancel e)) List.nodup_range

theorem freshIds_ge {next k p : Nat} (h : p ∈ freshIds next k) : next ≤ p := by
  simp only [freshIds, List.mem_map] at h
  obtain ⟨i, _, e⟩ := h
  subst e; exact Nat.le_add_right _ _

def disjointL (a b : List PId) : Bool := a.all fun p => !b.contains p

/-- the operands of a combining operation have no parameter in common -/
def opDisjoint (s : Store K) : Op K → Bool
  | .extend h src => disjointL (srcIn s (.h h)) (srcIn s src)
  | .plus h src => disjointL (srcIn s (.h h)) (srcIn s src)
  | .rplus src h => disjointL (srcIn s (.h h)) (srcIn s src)
  | _ => true

def runDisjoint (tb : Tables) : Store K → List (Op K) → Bool
  | _, [] => true
  | s, o :: os => opDisjoint s o && runDisjoint tb (step tb s o).1 os

def StoreNodup (s : Store K) : Prop := ∀ c ∈ s.circs, c.view.m.inP.Nodup

theorem srcIn_nodup {s : Store K} (hn : StoreNodup s) (src : Src K) : (srcIn s src).Nodup := by
  cases src with
  | h j =>
    cases hc : s.circs[j]? with
    | none => simp [srcIn, hc]
    | some c => simp [srcIn, hc]; exact hn c (List.mem_of_getElem? hc)
  | lit gs => simp [srcIn]
  | qc n gs => simp [srcIn]

theorem srcIn_lt {s : Store K} (hi : StoreIn s) {src : Src K} {p : PId} (h : p ∈ srcIn s src) : p < s.al.next := by
  obtain ⟨c, hc, hp⟩ := srcIn_old p h
  exact (hi c hc p hp).2

theorem disjointL_spec {a b : List PId} (h : disjointL a b = true) : ∀ x ∈ a, ∀ y ∈ b, x ≠ y := by
  intro x hx y hy e
  subst e
  have := List.all_eq_true.mp h x hx
  simp [hy] at this

theorem base_other_nodup {s : Store K} (hi : StoreIn s) (hn : StoreNodup s) {op : Op K}
    (hd : opDisjoint s op = true) : (opBase s op ++ opOther s op).Nodup := by
  have hb : (opBase s op).Nodup := by
    cases op <;> simp only [opBase] <;> first | exact srcIn_nodup hn _ | exact List.nodup_nil
  have hlt : ∀ p ∈ opBase s op, p < s.al.next := by
    intro p hp
    obtain ⟨c, hc, hpc⟩ := opBase_old p hp
    exact (hi c hc p hpc).2
  rw [List.nodup_append]
  refine ⟨hb, ?_, ?_⟩
  · cases op <;> simp only [opOther] <;>
      first | exact srcIn_nodup hn _ | exact List.nodup_nil | exact freshIds_nodup _ _ | simp
  · intro a ha b hbm
    cases op with
    | addParams h names =>
      simp only [opOther] at hbm
      exact Nat.ne_of_lt (Nat.lt_of_lt_of_le (hlt a ha) (freshIds_ge hbm))
    | addPar h k ts ids an =>
      simp only [opOther, List.mem_singleton] at hbm
      subst hbm; exact Nat.ne_of_lt (hlt a ha)
    | extend h src => exact disjointL_spec hd a ha b hbm
    | plus h src => exact disjointL_spec hd a ha b hbm
    | rplus src h => exact disjointL_spec hd a ha b hbm
    | newL n => simp [opOther] at hbm
    | newP n => simp [opOther] at hbm
    | addGate h g => simp [opOther] at hbm
    | tr ts h => simp [opOther] at hbm

theorem nodup_append_swap {a b : List PId} (h : (a ++ b).Nodup) : (b ++ a).Nodup := by
  rw [List.nodup_append] at h ⊢
  exact ⟨h.2.1, h.1, fun x hx y hy e => h.2.2 y hy x hx e.symm⟩

theorem step_nodup (tb : Tables) {s : Store K} (hs : StoreWF s) (hi : StoreIn s) (hn : StoreNodup s)
    {op : Op K} (hd : opDisjoint s op = true) : StoreNodup (step tb s op).1 := by
  have sh := step_shape tb hs op
  have nd := base_other_nodup hi hn hd
  intro c' hc'
  cases sh.circs c' hc' with
  | inl h => exact hn c' h
  | inr h =>
    cases h.2.1 with
    | inl h1 => exact List.Nodup.sublist h1 nd
    | inr h1 => exact List.Nodup.sublist h1 (nodup_append_swap nd)

theorem run_nodup (tb : Tables) {s : Store K} (hs : StoreWF s) (hi : StoreIn s) (hn : StoreNodup s)
    (ops : List (Op K)) (hd : runDisjoint tb s ops = true) : StoreNodup (runS tb s ops) := by
  induction ops generalizing s with
  | nil => exact hn
  | cons o os ih =>
    simp only [runDisjoint, Bool.and_eq_true] at hd
    rw [runS_cons]
    exact ih (step_wf tb hs o) (step_in tb hs hi o) (step_nodup tb hs hi hn hd.1) hd.2

/-- the ghost table only grows along a history -/
theorem run_ext (tb : Tables) {s : Store K} (hs : StoreWF s) (ops : List (Op K)) :
    Ext s.al (runS tb s ops).al := by
  induction ops generalizing s with
  | nil => exact Ext.refl _
  | cons o os ih => rw [runS_cons]; exact (step_shape tb hs o).ext.trans (ih (step_wf tb hs o))

end conseq

end QV.C10
