import QuriVerif.Proof.C05K
import QuriVerif.Proof.C05Prod
/- C05: Operator arithmetic on Python dicts is a faithful image of matrix arithmetic -/
namespace QV.C05
open K

/-- a Python dict: keys are distinct -/
def OK (op : Op) : Prop := (okeys op).Nodup
instance (op : Op) : Decidable (OK op) := inferInstanceAs (Decidable (List.Nodup _))
/-- no explicit zero coefficient is stored -/
def NoZero (op : Op) : Prop := ∀ e ∈ op, e.2 ≠ K.zero
instance (op : Op) : Decidable (NoZero op) := inferInstanceAs (Decidable (∀ e ∈ op, _))

theorem K.add_right_cancel' {a b z : K} (h : K.add a z = K.add b z) : a = b := by
  have h1 := congrArg K.re h
  have h2 := congrArg K.im h
  simp [K.add] at h1 h2
  ext <;> omega

/-! ### dict lemmas -/

theorem oget_oset_self (op : Op) (l : Label) (c : K) : oget (oset op l c) l = some c := by
  induction op with
  | nil => simp [oset, oget]
  | cons e r ih =>
    obtain ⟨l', c'⟩ := e
    simp only [oset]
    split
    · rename_i h; simp [oget, h]
    · rename_i h; simp [oget, h, ih]

theorem oget_oset_ne (op : Op) {l l' : Label} (c : K) (h : l' ≠ l) : oget (oset op l c) l' = oget op l' := by
  induction op with
  | nil => simp [oset, oget, h.symm]
  | cons e r ih =>
    obtain ⟨k, c'⟩ := e
    simp only [oset]
    split
    · rename_i hk; subst hk; simp [oget, h.symm]
    · rename_i hk; simp only [oget, ih]

theorem oget_none_iff (op : Op) (l : Label) : oget op l = none ↔ l ∉ okeys op := by
  induction op with
  | nil => simp [oget, okeys]
  | cons e r ih =>
    obtain ⟨k, c'⟩ := e
    simp only [oget, okeys, List.map_cons, List.mem_cons]
    split
    · rename_i hk; simp [hk]
    · rename_i hk
      unfold okeys at ih
      rw [ih]
      constructor
      · intro h1 h2; rcases h2 with h2 | h2
        · exact hk h2.symm
        · exact h1 h2
      · intro h1 h2; exact h1 (Or.inr h2)

theorem oget_odel_self {op : Op} (h : OK op) (l : Label) : oget (odel op l) l = none := by
  induction op with
  | nil => simp [odel, oget]
  | cons e r ih =>
    obtain ⟨k, c'⟩ := e
    unfold OK okeys at h
    rw [List.map_cons, List.nodup_cons] at h
    simp only [odel]
    split
    · rename_i hk; subst hk
      exact (oget_none_iff r k).2 h.1
    · rename_i hk; simp only [oget, hk, if_false]; exact ih h.2

theorem oget_odel_ne (op : Op) {l l' : Label} (h : l' ≠ l) : oget (odel op l) l' = oget op l' := by
  induction op with
  | nil => simp [odel, oget]
  | cons e r ih =>
    obtain ⟨k, c'⟩ := e
    simp only [odel]
    split
    · rename_i hk; subst hk; simp [oget, h.symm]
    · simp only [oget, ih]

theorem okeys_oset (op : Op) (l : Label) (c : K) :
    okeys (oset op l c) = if l ∈ okeys op then okeys op else okeys op ++ [l] := by
  induction op with
  | nil => simp [oset, okeys]
  | cons e r ih =>
    obtain ⟨k, c'⟩ := e
    simp only [oset]
    split
    · rename_i hk; subst hk; simp [okeys]
    · rename_i hk
      unfold okeys at ih ⊢
      simp only [List.map_cons, ih, List.mem_cons]
      have : ¬ l = k := fun h => hk h.symm
      by_cases hm : l ∈ List.map (·.1) r <;> simp [hm, this]

theorem ok_oset {op : Op} (h : OK op) (l : Label) (c : K) : OK (oset op l c) := by
  unfold OK at *
  rw [okeys_oset]
  split
  · exact h
  · rename_i hm
    rw [List.nodup_append]
    refine ⟨h, by simp, ?_⟩
    intro a ha b hb
    simp at hb; subst hb
    exact fun hab => hm (hab ▸ ha)

theorem mem_okeys_odel {op : Op} {l x : Label} (h : x ∈ okeys (odel op l)) : x ∈ okeys op := by
  induction op with
  | nil => simp [odel, okeys] at h
  | cons e r ih =>
    obtain ⟨k, c'⟩ := e
    simp only [odel] at h
    split at h
    · unfold okeys at *; simp [h]
    · unfold okeys at *
      simp only [List.map_cons, List.mem_cons] at h ⊢
      rcases h with h | h
      · exact Or.inl h
      · exact Or.inr (ih h)

theorem ok_odel {op : Op} (h : OK op) (l : Label) : OK (odel op l) := by
  induction op with
  | nil => simp [odel, OK, okeys]
  | cons e r ih =>
    obtain ⟨k, c'⟩ := e
    unfold OK okeys at h
    rw [List.map_cons, List.nodup_cons] at h
    simp only [odel]
    split
    · exact h.2
    · unfold OK okeys
      rw [List.map_cons, List.nodup_cons]
      exact ⟨fun hx => h.1 (mem_okeys_odel hx), ih h.2⟩

theorem mem_oset {op : Op} {l : Label} {c : K} {e : Label × K} (h : e ∈ oset op l c) : e = (l, c) ∨ e ∈ op := by
  induction op with
  | nil => simp [oset] at h; exact Or.inl h
  | cons x r ih =>
    obtain ⟨k, c'⟩ := x
    simp only [oset] at h
    split at h
    · rename_i hk
      rcases List.mem_cons.1 h with h | h
      · left; rw [h, hk]
      · right; exact List.mem_cons_of_mem _ h
    · rcases List.mem_cons.1 h with h | h
      · right; rw [h]; exact List.mem_cons_self
      · rcases ih h with h | h
        · exact Or.inl h
        · exact Or.inr (List.mem_cons_of_mem _ h)

theorem mem_odel {op : Op} {l : Label} {e : Label × K} (h : e ∈ odel op l) : e ∈ op := by
  induction op with
  | nil => simp [odel] at h
  | cons x r ih =>
    obtain ⟨k, c'⟩ := x
    simp only [odel] at h
    split at h
    · exact List.mem_cons_of_mem _ h
    · rcases List.mem_cons.1 h with h | h
      · rw [h]; exact List.mem_cons_self
      · exact List.mem_cons_of_mem _ (ih h)

/-! ### add_term -/

theorem ok_addTerm {op : Op} (h : OK op) (l : Label) (c : K) : OK (addTerm op l c) := by
  unfold addTerm
  split
  · exact h
  · simp only
    split
    · exact ok_odel h l
    · exact ok_oset h l _

/-- **no zero coefficient is ever stored by `add_term`** -/
theorem noZero_addTerm {op : Op} (h : NoZero op) (l : Label) (c : K) : NoZero (addTerm op l c) := by
  unfold addTerm
  split
  · exact h
  · rename_i hc
    simp only
    split
    · exact fun e he => h e (mem_odel he)
    · rename_i hz
      intro e he
      rcases mem_oset he with rfl | he
      · simp only [Bool.and_eq_true, not_and] at hz
        cases hg : oget op l with
        | none =>
          simp only [Option.getD_none, K.zero_add']
          exact (K.isZero_false_iff c).1 (by simpa using hc)
        | some c0 =>
          simp only [hg, Option.getD_some, Option.isSome_some] at hz ⊢
          intro h0
          exact hz ((K.isZero_iff _).2 h0) trivial
      · exact h e he

/-- the dict after `add_term`, key by key: an exact cancellation deletes the key -/
theorem oget_addTerm_self {op : Op} (h : OK op) (l : Label) (c : K) :
    oget (addTerm op l c) l =
      if c = K.zero then oget op l
      else if K.add ((oget op l).getD K.zero) c = K.zero ∧ (oget op l).isSome then none
      else some (K.add ((oget op l).getD K.zero) c) := by
  unfold addTerm
  by_cases hc : c = K.zero
  · subst hc; simp [K.isZero, K.zero]
  · have hc' : c.isZero = false := (K.isZero_false_iff c).2 hc
    simp only [hc', Bool.false_eq_true, if_false, hc]
    by_cases hz : (K.add ((oget op l).getD K.zero) c).isZero = true ∧ (oget op l).isSome = true
    · have hz' : K.add ((oget op l).getD K.zero) c = K.zero ∧ (oget op l).isSome = true :=
        ⟨(K.isZero_iff _).1 hz.1, hz.2⟩
      rw [if_pos (by simpa using hz), if_pos hz']
      exact oget_odel_self h l
    · have hz' : ¬ (K.add ((oget op l).getD K.zero) c = K.zero ∧ (oget op l).isSome = true) :=
        fun h' => hz ⟨(K.isZero_iff _).2 h'.1, h'.2⟩
      rw [if_neg (by simpa using hz), if_neg hz']
      exact oget_oset_self op l _

theorem oget_addTerm_ne (op : Op) {l l' : Label} (c : K) (h : l' ≠ l) : oget (addTerm op l c) l' = oget op l' := by
  unfold addTerm
  split
  · rfl
  · simp only
    split
    · exact oget_odel_ne op h
    · exact oget_oset_ne op _ h

end QV.C05
