import QuriVerif.Proof.C20Sim2
/-
  C20 — simulation lemmas, third part: state operations that copy and extend, mutation methods,
  and the step theorem.
-/
set_option linter.unusedSimpArgs false
namespace QV.C20

theorem excl_of_handout {s : St} (hI : Inv s) {r : Ref} (ho : Handout s r) (hm : s.refMut r = true) :
    Excl s r none := by
  cases r with
  | r a =>
    obtain ⟨_, h2⟩ := ho
    obtain ⟨u1, u2⟩ := h2 (by simpa [St.refMut] using hm)
    exact ⟨fun i hi _ => u1 i hi, u2⟩
  | l l =>
    obtain ⟨h1, h2⟩ := ho
    simp only [St.refMut] at hm
    have hu := h2 hm
    have hc := hI.t l h1 hm
    refine ⟨fun i hi _ => hu i hi, ?_, ?_⟩
    · intro i hi e
      have := hI.o2 i l _ hi h1 e rfl
      rw [this] at hc; cases hc
    · intro l' hl' hne e
      have := hI.o3 l' l hl' h1 hne e
      rw [e, hc] at this; cases this

theorem RefOK_congr {s s' : St} (h1 : s'.nR = s.nR) (h2 : s'.nL = s.nL) {r : Ref} (h : RefOK s r) : RefOK s' r := by
  cases r with
  | r a => simpa [RefOK, h1] using h
  | l l => simpa [RefOK, h2] using h

theorem handout_refOK {s : St} {r : Ref} (h : Handout s r) : RefOK s r := by
  cases r <;> exact h.1

theorem copyV_mu (cv : CV) : (copyV cv).mu = true := by
  cases cv <;> simp [copyV, CV.mu, RVal.thawed]

theorem setCore_mu (cv : CV) (c : Core) : (cv.setCore c).mu = cv.mu := by
  cases cv <;> simp [CV.setCore, CV.mu]

/-- the private mutable copy made by `with_gates_applied` -/
theorem copyRef_spec (cfg : Cfg) {s : St} (hI : Inv s) {r : Ref} (hr : RefOK s r) :
    Derived s (copyRef cfg s r).1 (copyRef cfg s r).2 (copyV (s.readRef r)) := by
  cases r with
  | r a =>
    obtain ⟨h1, h2, h3, h4, h5⟩ := copyR_spec cfg hI hr
    simp only [copyRef]
    rw [h2]
    exact ⟨h1.inv, h1.fr, ⟨by rw [h3]; omega, fun _ => h5⟩, by simp [St.readRef, copyV, h4]⟩
  | l l => exact copyL_spec cfg hI hr

theorem sim_stApply {cfg : Cfg} (hb : cfg.baseOk = true) {s : St} {t : Sp} (hI : Inv s) (hR : Rel s t)
    (h : Nat) (gs : List G) : Sim cfg s t (.stApply h gs) := by
  intro hs
  simp only [step, sstep, Op.target, pureV, ← hR.look] at hs ⊢
  by_cases hh : h < s.nH
  · cases e : s.hs h with
    | c r =>
      simp only [hh, e, if_true, look_c hh e] at hs ⊢
      exact ⟨hI, hR, by trivial⟩
    | s r =>
      have hr := refOK_of_handle hI hh (.inr e)
      simp only [hh, e, if_true, look_s hh e, stApplyV] at hs ⊢
      by_cases hk : (s.readRef r).kind = 0
      · simp only [hk, if_true] at hs ⊢
        cases hc : combineV (s.readRef r) (.inr gs) with
        | error er => simp only []; exact ⟨hI, hR, by trivial⟩
        | ok res =>
          simp only [hc] at hs ⊢
          have hD := allocCV_spec hI res (combineV_wf hc) (combineMeta cfg s r (s.readRef r) res).1
            (combineMeta cfg s r (s.readRef r) res).2 (fun n hn => combineMeta_dc hb hI hr res n hn)
          have hF := freezeRef_spec cfg hD.inv (handout_refOK hD.ho) hs
          rw [hD.rd] at hF
          have hK : DerivedK s _ _ (freezeV res) :=
            ⟨hF.inv, (hD.fr.keep hI).trans (hF.fr.keep hD.inv), hF.ho, hF.rd⟩
          have := simK_push_s hR hK
          exact ⟨this.1, by simpa [hR.np] using this.2, by trivial⟩
      · simp only [hk, if_false] at hs ⊢
        have hD := copyRef_spec cfg hI hr
        generalize hc : copyRef cfg s r = c at hD hs ⊢
        have hmu : c.1.refMut c.2 = true := by rw [← refMut_readRef, hD.rd]; exact copyV_mu _
        have hW := writeRef_spec hb hD.inv (handout_refOK hD.ho) (excl_of_handout hD.inv hD.ho hmu)
          (extendV (c.1.readRef c.2) (.inr gs) false).1
        obtain ⟨w1, w2, w3, w4, w5, w6, w7, w8, w9, w10⟩ := hW
        have hK2 : Keep c.1 (writeRef cfg c.1 c.2 (extendV (c.1.readRef c.2) (.inr gs) false).1) :=
          ⟨w5, w8, fun i hi => w2 i hi (by simp)⟩
        rw [hD.rd] at hs ⊢ w3 hK2 w1 w6 w7
        cases he : (extendV (copyV (s.readRef r)) (.inr gs) false).2 with
        | some er =>
          simp only [he] at hs ⊢
          exact ⟨w1, ((hD.fr.keep hI).trans hK2).rel hR, by trivial⟩
        | none =>
          simp only [he] at hs ⊢
          have hr2 : RefOK (writeRef cfg c.1 c.2 (extendV (copyV (s.readRef r)) (.inr gs) false).1) c.2 :=
            RefOK_congr w6 w7 (handout_refOK hD.ho)
          have hF := freezeRef_spec cfg w1 hr2 hs
          rw [w3] at hF
          have hK : DerivedK s _ _ (freezeV ((copyV (s.readRef r)).setCore (extendV (copyV (s.readRef r)) (.inr gs) false).1)) :=
            ⟨hF.inv, ((hD.fr.keep hI).trans hK2).trans (hF.fr.keep w1), hF.ho, hF.rd⟩
          have := simK_push_s hR hK
          exact ⟨this.1, by simpa [hR.np] using this.2, by trivial⟩
  · simp only [hh, if_false, look_none hh] at hs ⊢
    exact ⟨hI, hR, by trivial⟩


theorem RVal.frozen_frozen (v : RVal) : v.frozen.frozen = v.frozen := by
  cases v with
  | mk cls n gs pm ub => cases cls <;> rfl

theorem freeze2_spec (cfg : Cfg) {s : St} (hI : Inv s) {a : Nat} (ha : a < s.nR)
    (hs : ((freezeR cfg (freezeR cfg s a).1 (freezeR cfg s a).2).2 != a || !s.rMut a) = true) :
    DerivedK s (freezeR cfg (freezeR cfg s a).1 (freezeR cfg s a).2).1
      (.r (freezeR cfg (freezeR cfg s a).1 (freezeR cfg s a).2).2) (.r (s.rs a).v.frozen) := by
  obtain ⟨h1, h2, h3⟩ := freezeR_spec cfg hI ha
  obtain ⟨g1, g2, g3⟩ := freezeR_spec cfg h1.inv h2
  have fin : (freezeR cfg (freezeR cfg s a).1 (freezeR cfg s a).2).1.rMut
        (freezeR cfg (freezeR cfg s a).1 (freezeR cfg s a).2).2 = false ∧
      ((freezeR cfg (freezeR cfg s a).1 (freezeR cfg s a).2).1.rs
        (freezeR cfg (freezeR cfg s a).1 (freezeR cfg s a).2).2).v = (s.rs a).v.frozen := by
    by_cases hm : s.rMut a = true
    · by_cases h12 : (freezeR cfg s a).2 = a
      · have hne : (freezeR cfg (freezeR cfg s a).1 (freezeR cfg s a).2).2 ≠ a := by
          intro e; rw [e, hm] at hs; simp at hs
        have hne' : (freezeR cfg (freezeR cfg s a).1 (freezeR cfg s a).2).2 ≠ (freezeR cfg s a).2 :=
          fun e => hne (e.trans h12)
        obtain ⟨x, y⟩ := g3 (by simp [hne'])
        refine ⟨x, ?_⟩
        rw [y, h12, h1.fr.rv a ha]
      · obtain ⟨x1, y1⟩ := h3 (by simp [h12])
        obtain ⟨x, y⟩ := g3 (by simp [x1])
        exact ⟨x, by rw [y, y1, RVal.frozen_frozen]⟩
    · have hm' : s.rMut a = false := by simpa using hm
      obtain ⟨x1, y1⟩ := h3 (by simp [hm'])
      obtain ⟨x, y⟩ := g3 (by simp [x1])
      exact ⟨x, by rw [y, y1, RVal.frozen_frozen]⟩
  exact ⟨g1.inv, (h1.fr.keep hI).trans (g1.fr.keep h1.inv), ⟨g2, by intro h; rw [fin.1] at h; cases h⟩,
    by simp [St.readRef, fin.2]⟩

theorem sim_stPrim (cfg : Cfg) {s : St} {t : Sp} (hI : Inv s) (hR : Rel s t) (h : Nat) : Sim cfg s t (.stPrim h) := by
  intro hs
  simp only [step, sstep, Op.target, pureV, ← hR.look] at hs ⊢
  by_cases hh : h < s.nH
  · cases e : s.hs h with
    | c r =>
      simp only [hh, e, if_true, look_c hh e] at hs ⊢
      exact ⟨hI, hR, by trivial⟩
    | s r =>
      have hr := refOK_of_handle hI hh (.inr e)
      cases r with
      | r a =>
        simp only [hh, e, if_true, look_s hh e, St.readRef, primV] at hs ⊢
        by_cases hp : (s.rs a).v.cls.par = true
        · simp only [hp, if_true] at hs ⊢
          have hD := freeze2_spec cfg hI hr hs
          have := simK_push_s hR hD
          exact ⟨this.1, by simpa [hR.np, freezeV, RVal.frozen_frozen] using this.2, by trivial⟩
        · simp only [hp] at hs ⊢
          exact ⟨hI, hR, by trivial⟩
      | l l =>
        simp only [hh, e, if_true, look_s hh e, St.readRef, primV] at hs ⊢
        have hD := freeze2_spec cfg hI (hI.b2 l hr) hs
        have := simK_push_s hR hD
        exact ⟨this.1, by simpa [hR.np, freezeV, RVal.frozen_frozen] using this.2, by trivial⟩
  · simp only [hh, if_false, look_none hh] at hs ⊢
    exact ⟨hI, hR, by trivial⟩

/-! ### mutation methods -/

theorem lookC_some {s : St} {j : Nat} {sv : CV} (h : lookC s.look j = some sv) :
    j < s.nH ∧ ∃ rj, s.hs j = .c rj := by
  unfold lookC St.look at h
  by_cases hj : j < s.nH
  · refine ⟨hj, ?_⟩
    simp only [hj, if_true, St.absH] at h
    cases e : s.hs j with
    | c r => exact ⟨r, rfl⟩
    | s r => simp [e, St.readH] at h
  · simp [hj] at h

theorem same_eq {s : St} (hI : Inv s) {h a : Nat} (hh : h < s.nH) (e : s.hs h = .c (.r a)) (hm : s.rMut a = true)
    {j : Nat} (hj : j < s.nH) {rj : Ref} (ej : s.hs j = .c rj) :
    sameRef s (.r a) (.extend h (.h j)) = (j == h) := by
  simp only [sameRef, hj, decide_true, Bool.true_and, ej]
  cases rj with
  | r b =>
    simp only
    by_cases hjh : j = h
    · subst hjh
      rw [e] at ej
      cases ej
      simp
    · have : a ≠ b := by
        intro eab
        subst eab
        have := hI.o1 h j a hh hj (fun x => hjh x.symm) (by simp [e, Hd.ref]) (by simp [ej, Hd.ref])
        rw [this] at hm; cases hm
      rw [beq_eq_false_iff_ne.mpr this, beq_eq_false_iff_ne.mpr hjh]
  | l l =>
    simp only
    have : j ≠ h := by
      intro x; subst x; rw [e] at ej; cases ej
    simp [this]

theorem mutV_same {s : St} (hI : Inv s) {h : Nat} (hh : h < s.nH) {r : Ref} (e : s.hs h = .c r)
    (hm : (s.readRef r).mu = true) (op : Op) (ht : op.target = some h) (np : Nat) :
    mutV s.look np (sameRef s r op) op (s.readRef r) = mutV s.look np op.selfExt op (s.readRef r) := by
  cases op <;> try rfl
  rename_i h' src
  simp only [Op.target, Option.some.injEq] at ht
  subst ht
  cases src with
  | lit gs => rfl
  | h j =>
    simp only [mutV]
    cases hl : lookC s.look j with
    | none => rfl
    | some sv =>
      obtain ⟨hj, rj, ej⟩ := lookC_some hl
      cases r with
      | l l => simp only [St.readRef, extendV]
      | r a =>
        have := same_eq hI hh e (by simpa [St.readRef, CV.mu, St.rMut] using hm) hj ej
        rw [this]
        rfl

theorem sim_mut {cfg : Cfg} (hb : cfg.baseOk = true) {s : St} {t : Sp} (hI : Inv s) (hR : Rel s t)
    (op : Op) (h : Nat) (ht : op.target = some h) : Sim cfg s t op := by
  intro _
  simp only [step, sstep, ht, ← hR.look]
  by_cases hh : h < s.nH
  · cases e : s.hs h with
    | s r =>
      simp only [hh, if_true, look_s hh e]
      exact ⟨hI, hR, by trivial⟩
    | c r =>
      have hr := refOK_of_handle hI hh (.inl e)
      simp only [hh, if_true, look_c hh e]
      by_cases hm : (s.readRef r).mu = true
      · simp only [hm, if_true, mutV_same hI hh e hm op ht, ← hR.np]
        cases hmv : mutV s.look s.np op.selfExt op (s.readRef r) with
        | none => simp only []; exact ⟨hI, hR, by trivial⟩
        | some m =>
          simp only []
          have hx : Excl s r (some h) := by
            have := excl_of_handle hI hh (by rw [e]; simpa [Hd.ref, refMut_readRef] using hm)
            simpa [e, Hd.ref] using this
          obtain ⟨w1, w2, w3, w4, w5, w6, w7, w8, w9, w10⟩ := writeRef_spec hb hI hr hx m.core
          refine ⟨?_, ⟨?_, rfl, ?_⟩, ?_⟩
          · obtain ⟨b1, b2, o1, o2, o3, o4, tt, d⟩ := w1
            exact ⟨b1, b2, o1, o2, o3, o4, tt, d⟩
          · show (writeRef cfg s r m.core).nH = t.nH
            rw [w5, hR.nH]
          · intro i hi
            have hi' : i < s.nH := by
              have : i < (writeRef cfg s r m.core).nH := hi
              rwa [w5] at this
            show (writeRef cfg s r m.core).absH i = upd t.vs h (.c ((s.readRef r).setCore m.core)) i
            by_cases hih : i = h
            · subst hih
              rw [upd_same]
              simp [St.absH, w4, e, St.readH, w3]
            · rw [upd_ne _ _ hih, w2 i hi' (by simpa using hih), hR.vs i hi']
          · cases m.err <;> rfl
      · simp only [hm]
        exact ⟨hI, hR, by trivial⟩
  · simp only [hh, if_false, look_none hh]
    exact ⟨hI, hR, by trivial⟩

/-! ### the step theorem -/

theorem step_sim {cfg : Cfg} (hb : cfg.baseOk = true) {s : St} {t : Sp} (hI : Inv s) (hR : Rel s t) (op : Op) :
    Sim cfg s t op := by
  cases op with
  | newC n => exact sim_newC cfg hI hR n
  | newP n => exact sim_newP cfg hI hR n
  | newL n => exact sim_newL cfg hI hR n
  | addGate h g idx => exact sim_mut hb hI hR _ h rfl
  | addPar h k qs => exact sim_mut hb hI hR _ h rfl
  | addParL h k qs b ts => exact sim_mut hb hI hR _ h rfl
  | addParams h c => exact sim_mut hb hI hR _ h rfl
  | extend h src => exact sim_mut hb hI hR _ h rfl
  | freeze h => exact sim_freeze cfg hI hR h
  | mutCopy h => exact sim_mutCopy cfg hI hR h
  | immCtor h => exact sim_immCtor cfg hI hR h
  | primitive h => exact sim_primitive cfg hI hR h
  | combine h src => exact sim_combine hb hI hR h src
  | bind h vals => exact sim_bind cfg hI hR h vals
  | getUnbound h => exact sim_getUnbound cfg hI hR h
  | mkState h => exact sim_mkState cfg hI hR h
  | stCircuit h => exact sim_stCircuit cfg hI hR h
  | stApply h gs => exact sim_stApply hb hI hR h gs
  | stBind h vals => exact sim_stBind cfg hI hR h vals
  | stPrim h => exact sim_stPrim cfg hI hR h
  | obs h => exact sim_obs cfg hI hR h
  | depth h => exact sim_depth cfg hI hR h
  | eq h j => exact sim_eq cfg hI hR h j

end QV.C20
