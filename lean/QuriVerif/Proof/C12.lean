import QuriVerif.Found.Proj
import QuriVerif.Model.C12
namespace QV.C12
open QV PhaseMonoid

variable {M : Type} [PhaseMonoid M] {G : Type}

theorem semList_snoc (sem : G → M) (c : List G) (g : G) :
    semList sem (c ++ [g]) = PhaseMonoid.mul (sem g) (semList sem c) := by
  rw [semList_append]; simp [semList, one_mul]

/-- c followed by its inverse circuit acts as the identity (up to phase) -/
theorem inverse_circuit_sound' (sem : G → M) (inv : G → G)
    (h : ∀ g, PhaseMonoid.equiv (PhaseMonoid.mul (sem (inv g)) (sem g)) PhaseMonoid.one) (c : List G) :
    PhaseMonoid.equiv (semList sem (c ++ inverseCircuit inv c)) PhaseMonoid.one := by
  induction c with
  | nil => exact equiv_refl _
  | cons g c ih =>
    have e : (g :: c) ++ inverseCircuit inv (g :: c) = g :: ((c ++ inverseCircuit inv c) ++ [inv g]) := by
      simp [inverseCircuit]
    rw [e]
    simp only [semList, semList_snoc]
    have h1 : PhaseMonoid.equiv (PhaseMonoid.mul (sem (inv g)) (semList sem (c ++ inverseCircuit inv c)))
        (PhaseMonoid.mul (sem (inv g)) PhaseMonoid.one) := mul_congr (equiv_refl _) ih
    rw [mul_one] at h1
    exact equiv_trans (mul_congr h1 (equiv_refl _)) (h g)

theorem foldBlocks_one (sem : G → M) (inv : G → G) (g : G)
    (h : PhaseMonoid.equiv (PhaseMonoid.mul (sem g) (sem (inv g))) PhaseMonoid.one) :
    ∀ m, PhaseMonoid.equiv (semList sem (foldBlocks inv g m)) PhaseMonoid.one := by
  intro m
  induction m with
  | zero => exact equiv_refl _
  | succ m ih =>
    simp only [foldBlocks, semList]
    -- semList rest ⬝ sem g ⬝ sem (inv g)
    rw [mul_assoc]
    have := mul_congr ih h
    rw [one_mul] at this
    exact this

theorem foldGate_sound (sem : G → M) (inv : G → G) (k : Nat) (extra : Bool) (g : G)
    (h : PhaseMonoid.equiv (PhaseMonoid.mul (sem g) (sem (inv g))) PhaseMonoid.one) :
    PhaseMonoid.equiv (semList sem (foldGate inv k extra g)) (sem g) := by
  simp only [foldGate, semList]
  have := mul_congr (foldBlocks_one sem inv g h (k + (if extra then 1 else 0))) (equiv_refl (sem g))
  rw [one_mul] at this
  exact this

theorem foldFrom_sound (sem : G → M) (inv : G → G) (k : Nat) (added : List Nat)
    (h : ∀ g, PhaseMonoid.equiv (PhaseMonoid.mul (sem g) (sem (inv g))) PhaseMonoid.one) :
    ∀ (c : List G) (i : Nat), PhaseMonoid.equiv (semList sem (foldFrom inv k added i c)) (semList sem c) := by
  intro c
  induction c with
  | nil => intro i; exact equiv_refl _
  | cons g c ih =>
    intro i
    simp only [foldFrom, semList_append, semList]
    exact mul_congr (ih (i + 1)) (foldGate_sound sem inv k _ g (h g))

theorem foldBlocks_length (inv : G → G) (g : G) (m : Nat) : (foldBlocks inv g m).length = 2 * m := by
  induction m with
  | zero => rfl
  | succ m ih => simp [foldBlocks, ih]; omega

theorem foldFrom_length (inv : G → G) (k : Nat) (added : List Nat) :
    ∀ (c : List G) (i : Nat),
      (foldFrom inv k added i c).length = c.length * (2 * k + 1) + 2 * countSel added i c.length := by
  intro c
  induction c with
  | nil => intro i; simp [foldFrom, countSel]
  | cons g c ih =>
    intro i
    simp only [foldFrom, List.length_append, ih, foldGate, List.length_cons, foldBlocks_length, countSel]
    have e : (c.length + 1) * (2 * k + 1) = c.length * (2 * k + 1) + (2 * k + 1) := by
      rw [Nat.add_mul, Nat.one_mul]
    rw [e]
    generalize c.length * (2 * k + 1) = X
    cases added.contains i <;> simp <;> omega

/-- selecting the first `a ≤ n` indices selects exactly `a` gates -/
theorem countSel_range (a : Nat) : ∀ n i, countSel (List.range a) i n = min (a - i) n := by
  intro n
  induction n with
  | zero => intro i; simp [countSel]
  | succ n ih =>
    intro i
    simp only [countSel, ih]
    by_cases h : i < a
    · have : (List.range a).contains i = true := by simp [h]
      rw [this]; simp; omega
    · have : (List.range a).contains i = false := by simp [h]
      rw [this]; simp; omega

theorem numFoldAll_spec (p q : Nat) (hq : 0 < q) (hp : q ≤ p) :
    (2 * numFoldAll p q + 1) * q ≤ p ∧ p < (2 * numFoldAll p q + 3) * q := by
  unfold numFoldAll
  generalize hd : (p - q) / (2 * q) = d
  have h1 : d * (2 * q) ≤ p - q := by rw [← hd]; exact Nat.div_mul_le_self _ _
  have h2 : p - q < d * (2 * q) + 2 * q := by
    rw [← hd]; exact Nat.lt_div_mul_add (by omega)
  have e1 : d * (2 * q) = 2 * (d * q) := by rw [Nat.mul_left_comm]
  have e2 : (2 * d + 1) * q = 2 * (d * q) + q := by rw [Nat.add_mul, Nat.mul_assoc, Nat.one_mul]
  have e3 : (2 * d + 3) * q = 2 * (d * q) + 3 * q := by rw [Nat.add_mul, Nat.mul_assoc]
  rw [e1] at h1 h2
  rw [e2, e3]
  generalize d * q = X at *
  omega

/-- the residual is a valid count: fewer than `n` gates get the extra fold (for `n > 0`) -/
theorem residual_lt (p q n : Nat) (hq : 0 < q) (hp : q ≤ p) (hn : 0 < n) : residual p q n < n := by
  unfold residual
  have ⟨h1, h2⟩ := numFoldAll_spec p q hq hp
  have h3 : (2 * numFoldAll p q + 3) * q = (2 * numFoldAll p q + 1) * q + 2 * q := by
    rw [Nat.add_mul, Nat.add_mul]; omega
  rw [h3] at h2
  generalize (2 * numFoldAll p q + 1) * q = A at *
  apply Nat.div_lt_of_lt_mul
  -- (p - A) * n < 2q * n
  have : p - A < 2 * q := by omega
  calc (p - A) * n < (2 * q) * n := Nat.mul_lt_mul_of_pos_right this hn
    _ = 2 * q * n := rfl

end QV.C12
