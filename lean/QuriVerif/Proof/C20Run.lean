import QuriVerif.Proof.C20Sim3
/-
  C20 — from steps to histories.
-/
namespace QV.C20

theorem run_sim {cfg : Cfg} (hb : cfg.baseOk = true) (ops : List Op) {s : St} {t : Sp} (hI : Inv s) (hR : Rel s t)
    (hs : (run cfg s ops).safe = true) :
    Inv (run cfg s ops).st ∧ Rel (run cfg s ops).st (srun t ops).1 ∧ (run cfg s ops).outs = (srun t ops).2 := by
  induction ops generalizing s t with
  | nil => exact ⟨hI, hR, rfl⟩
  | cons op ops ih =>
    simp only [run, srun, Bool.and_eq_true] at hs ⊢
    obtain ⟨i1, r1, o1⟩ := step_sim hb hI hR op hs.1
    obtain ⟨i2, r2, o2⟩ := ih i1 r1 hs.2
    exact ⟨i2, r2, by rw [o1, o2]⟩

theorem run_append (cfg : Cfg) (s : St) (a b : List Op) :
    (run cfg s (a ++ b)).st = (run cfg (run cfg s a).st b).st ∧
    (run cfg s (a ++ b)).safe = ((run cfg s a).safe && (run cfg (run cfg s a).st b).safe) ∧
    (run cfg s (a ++ b)).outs = (run cfg s a).outs ++ (run cfg (run cfg s a).st b).outs := by
  induction a generalizing s with
  | nil => simp [run]
  | cons op a ih =>
    obtain ⟨h1, h2, h3⟩ := ih (step cfg s op).st
    simp only [List.cons_append, run]
    exact ⟨h1, by rw [h2, Bool.and_assoc], by rw [h3]⟩

theorem srun_append (t : Sp) (a b : List Op) :
    (srun t (a ++ b)).1 = (srun (srun t a).1 b).1 := by
  induction a generalizing t with
  | nil => rfl
  | cons op a ih => simp only [List.cons_append, srun]; exact ih _

/-- specification level: an operation changes only the value of the handle it is called on -/
theorem sstep_other (t : Sp) (op : Op) {i : Nat} (hi : i < t.nH) (hne : op.target ≠ some i) :
    (sstep t op).1.vs i = t.vs i ∧ t.nH ≤ (sstep t op).1.nH := by
  unfold sstep
  cases ht : op.target with
  | some h =>
    have hih : i ≠ h := by intro e; apply hne; rw [ht, e]
    simp only
    split
    · split
      · split
        · exact ⟨upd_ne _ _ hih, Nat.le_refl _⟩
        · exact ⟨rfl, Nat.le_refl _⟩
      · exact ⟨rfl, Nat.le_refl _⟩
    · exact ⟨rfl, Nat.le_refl _⟩
  | none =>
    simp only
    split
    · exact ⟨rfl, Nat.le_refl _⟩
    · exact ⟨upd_ne _ _ (Nat.ne_of_lt hi), Nat.le_succ _⟩
    · exact ⟨rfl, Nat.le_refl _⟩

theorem srun_other (ops : List Op) (t : Sp) {i : Nat} (hi : i < t.nH) (hne : ∀ op, op ∈ ops → op.target ≠ some i) :
    (srun t ops).1.vs i = t.vs i := by
  induction ops generalizing t with
  | nil => rfl
  | cons op ops ih =>
    obtain ⟨h1, h2⟩ := sstep_other t op hi (hne op List.mem_cons_self)
    simp only [srun]
    rw [ih (sstep t op).1 (Nat.lt_of_lt_of_le hi h2) (fun o ho => hne o (List.mem_cons_of_mem _ ho)), h1]


theorem sstep_nH_mono (t : Sp) (op : Op) : t.nH ≤ (sstep t op).1.nH := by
  unfold sstep
  split
  · split
    · split
      · split <;> exact Nat.le_refl _
      · exact Nat.le_refl _
    · exact Nat.le_refl _
  · split
    · exact Nat.le_refl _
    · exact Nat.le_succ _
    · exact Nat.le_refl _

theorem srun_nH_mono (ops : List Op) (t : Sp) : t.nH ≤ (srun t ops).1.nH := by
  induction ops generalizing t with
  | nil => exact Nat.le_refl _
  | cons op ops ih => exact Nat.le_trans (sstep_nH_mono t op) (ih _)

end QV.C20
