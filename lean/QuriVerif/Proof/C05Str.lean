import QuriVerif.Proof.C05Prod
/- C05: `__str__` / `from_str` round trip, the parser only delivers valid labels,
   the canonical string is injective (interning is sound) -/
namespace QV.C05

/-! ### decimal digits -/

theorem digitChar_spec : ∀ d, d < 10 → isDigit (digitChar d) = true ∧ (digitChar d).toNat - 48 = d := by decide

theorem isDigit_not_space {c : Char} (h : isDigit c = true) : isSpace c = false := by
  unfold isDigit at h
  unfold isSpace
  simp only [Bool.and_eq_true, decide_eq_true_eq] at h
  simp only [Bool.or_eq_false_iff, Bool.and_eq_false_iff, decide_eq_false_iff_not, beq_eq_false_iff_ne]
  omega

theorem isDigit_not_xyz {c : Char} (h : isDigit c = true) : isXYZ c = false := by
  unfold isDigit at h
  simp only [Bool.and_eq_true, decide_eq_true_eq] at h
  unfold isXYZ
  simp only [Bool.or_eq_false_iff, beq_eq_false_iff_ne]
  refine ⟨⟨?_, ?_⟩, ?_⟩ <;> (intro hc; subst hc; simp at h)

def AllDigits (ds : List Char) : Prop := ∀ c ∈ ds, isDigit c = true

theorem digitsAux_all (fuel n : Nat) (acc : List Char) (h : AllDigits acc) : AllDigits (digitsAux fuel n acc) := by
  induction fuel generalizing n acc with
  | zero => exact h
  | succ f ih =>
    simp only [digitsAux]
    have hd : AllDigits (digitChar (n % 10) :: acc) := by
      intro c hc
      rcases List.mem_cons.1 hc with hc | hc
      · rw [hc]; exact (digitChar_spec _ (Nat.mod_lt _ (by decide))).1
      · exact h c hc
    split
    · exact hd
    · exact ih _ _ hd

theorem digitsAux_ne_nil (fuel n : Nat) (acc : List Char) (h : 0 < fuel ∨ acc ≠ []) : digitsAux fuel n acc ≠ [] := by
  induction fuel generalizing n acc with
  | zero => rcases h with h | h; omega; exact h
  | succ f ih =>
    simp only [digitsAux]
    split
    · simp
    · exact ih _ _ (Or.inr (by simp))

def dstep (a : Nat) (c : Char) : Nat := 10 * a + (c.toNat - 48)

theorem digitsAux_parse (fuel n : Nat) (acc : List Char) (h : n + 1 ≤ fuel) :
    (digitsAux fuel n acc).foldl dstep 0 = acc.foldl dstep n := by
  induction fuel generalizing n acc with
  | zero => omega
  | succ f ih =>
    simp only [digitsAux]
    have hd := (digitChar_spec (n % 10) (Nat.mod_lt _ (by decide))).2
    split
    · rename_i h0
      simp only [List.foldl_cons, dstep, hd]
      congr 1; omega
    · rename_i h0
      rw [ih (n / 10) _ (by omega)]
      simp only [List.foldl_cons, dstep, hd]
      congr 1; omega

theorem digits_all (n : Nat) : AllDigits (digits n) := digitsAux_all _ _ _ (fun _ h => by simp at h)
theorem digits_ne_nil (n : Nat) : digits n ≠ [] := digitsAux_ne_nil _ _ _ (Or.inl (by omega))
theorem parse_digits (n : Nat) : parseDigits (digits n) = n := by
  have := digitsAux_parse (n + 1) n [] (Nat.le_refl _)
  unfold parseDigits digits
  exact this

/-! ### letters -/

theorem name_spec {p : P1} (h : p ≠ .I) : isXYZ p.name = true ∧ isSpace p.name = false ∧ letter? p.name = some p := by
  cases p <;> first | exact absurd rfl h | decide

theorem letter_ne_I {c : Char} {p : P1} (h : letter? c = some p) : p ≠ .I := by
  unfold letter? at h
  split at h
  · simp at h; subst h; simp
  · split at h
    · simp at h; subst h; simp
    · split at h
      · simp at h; subst h; simp
      · simp at h

/-! ### the regex substitution leaves `str(label)` alone -/

theorem strip_digits (ds rest : List Char) (hd : AllDigits ds) (hne : ds ≠ []) (sk : Bool) :
    stripAfter sk (ds ++ rest) = ds ++ stripAfter false rest := by
  induction ds generalizing sk with
  | nil => exact absurd rfl hne
  | cons d r ih =>
    have h1 := isDigit_not_space (hd d (by simp))
    have h2 := isDigit_not_xyz (hd d (by simp))
    simp only [List.cons_append, stripAfter, h1, h2, Bool.and_false, Bool.false_eq_true, if_false]
    cases r with
    | nil => simp
    | cons d' r' => rw [ih (fun c hc => hd c (by simp [hc])) (by simp)]

theorem strip_term (e : Nat × P1) (he : e.2 ≠ .I) (rest : List Char) (sk : Bool) :
    stripAfter sk (termStr e ++ rest) = termStr e ++ stripAfter false rest := by
  have hn := name_spec he
  unfold termStr
  simp only [List.cons_append, stripAfter, hn.2.1, hn.1, Bool.and_false, Bool.false_eq_true, if_false, if_true]
  rw [strip_digits _ _ (digits_all _) (digits_ne_nil _)]

theorem strip_join (l : List (Nat × P1)) (hI : ∀ e ∈ l, e.2 ≠ .I) (sk : Bool) :
    stripAfter sk (joinSp (l.map termStr)) = joinSp (l.map termStr) := by
  induction l generalizing sk with
  | nil => cases sk <;> rfl
  | cons e r ih =>
    cases r with
    | nil =>
      have := strip_term e (hI e (by simp)) [] sk
      simpa [joinSp, stripAfter] using this
    | cons e' r' =>
      simp only [List.map_cons, joinSp]
      rw [strip_term e (hI e (by simp))]
      congr 1
      have hsp : isSpace ' ' = true := by decide
      have hx : isXYZ ' ' = false := by decide
      simp only [stripAfter, Bool.false_and, Bool.false_eq_true, if_false, hx]
      congr 1
      exact ih (fun x hx => hI x (by simp [hx])) false

/-! ### splitting -/

def NoSpace (t : List Char) : Prop := ∀ c ∈ t, isSpace c = false

theorem split_token (t rest cur : List Char) (h : NoSpace t) :
    splitWs cur (t ++ rest) = splitWs (t.reverse ++ cur) rest := by
  induction t generalizing cur with
  | nil => rfl
  | cons c r ih =>
    simp only [List.cons_append, splitWs, h c (by simp), Bool.false_eq_true, if_false]
    rw [ih _ (fun x hx => h x (by simp [hx]))]
    simp

theorem split_join (ts : List (List Char)) (h : ∀ t ∈ ts, NoSpace t ∧ t ≠ []) : splitWs [] (joinSp ts) = ts := by
  induction ts with
  | nil => rfl
  | cons t r ih =>
    have ht := h t (by simp)
    cases r with
    | nil =>
      have := split_token t [] [] ht.1
      simp only [List.append_nil] at this
      have hre : t.reverse.isEmpty = false := by
        cases t with
        | nil => exact absurd rfl ht.2
        | cons a b => simp
      simp [joinSp, this, splitWs, hre]
    | cons t' r' =>
      simp only [joinSp]
      rw [split_token t _ [] ht.1]
      have hsp : isSpace ' ' = true := by decide
      have hre : t.reverse.isEmpty = false := by
        cases t with
        | nil => exact absurd rfl ht.2
        | cons a b => simp
      simp only [splitWs, hsp, if_true, List.append_nil, hre, Bool.false_eq_true, if_false, List.reverse_reverse]
      congr 1
      exact ih fun x hx => h x (by simp [hx])

theorem termStr_spec (e : Nat × P1) (he : e.2 ≠ .I) :
    NoSpace (termStr e) ∧ termStr e ≠ [] ∧ parseTerm (termStr e) = some (e.1, e.2) := by
  have hn := name_spec he
  refine ⟨?_, by simp [termStr], ?_⟩
  · intro c hc
    unfold termStr at hc
    rcases List.mem_cons.1 hc with hc | hc
    · rw [hc]; exact hn.2.1
    · exact isDigit_not_space (digits_all _ c hc)
  · unfold termStr parseTerm
    simp only [hn.2.2]
    have h1 : (digits e.1).isEmpty = false := by
      cases h : digits e.1 with
      | nil => exact absurd h (digits_ne_nil _)
      | cons a b => rfl
    have h2 : (digits e.1).all isDigit = true := List.all_eq_true.2 (digits_all e.1)
    simp [h1, h2, parse_digits]

/-! ### the dict loop of the parser -/

theorem hasIndex_false {d : List (Nat × P1)} {i : Nat} (h : i ∉ d.map (·.1)) : hasIndex d i = false := by
  unfold hasIndex
  rw [List.any_eq_false]
  intro e he
  simp only [beq_iff_eq]
  exact fun hei => h (hei ▸ List.mem_map_of_mem (f := (·.1)) he)

theorem hasIndex_true {d : List (Nat × P1)} {i : Nat} (h : hasIndex d i = true) : i ∈ d.map (·.1) := by
  unfold hasIndex at h
  rw [List.any_eq_true] at h
  obtain ⟨e, he, hei⟩ := h
  simp only [beq_iff_eq] at hei
  exact hei ▸ List.mem_map_of_mem (f := (·.1)) he

theorem parseTerms_str (l d : List (Nat × P1)) (hI : ∀ e ∈ l, e.2 ≠ .I) (hn : ((d ++ l).map (·.1)).Nodup) :
    parseTerms (l.map termStr) d = .ok (d ++ l) := by
  induction l generalizing d with
  | nil => simp [parseTerms]
  | cons e r ih =>
    obtain ⟨i, p⟩ := e
    have hs := termStr_spec (i, p) (hI (i, p) (by simp))
    simp only [List.map_cons, parseTerms, hs.2.2]
    have hni : i ∉ d.map (·.1) := by
      rw [List.map_append, List.nodup_append] at hn
      intro hi
      exact hn.2.2 i hi i (by simp) rfl
    rw [hasIndex_false hni]
    simp only [Bool.false_eq_true, if_false]
    rw [ih (d ++ [(i, p)]) (fun x hx => hI x (by simp [hx])) (by simpa using hn)]
    simp

/-- **the string form round-trips** (for every valid label except the identity, whose string "I" is
    not accepted by the parser) -/
theorem fromStr_toStr {l : Label} (h : Valid l) (hne : l ≠ []) : fromStr (toStr l) = .ok l := by
  have hts : toStr l = joinSp (l.map termStr) := by
    cases l with
    | nil => exact absurd rfl hne
    | cons e r => rfl
  unfold fromStr
  rw [hts, strip_join l h.2 false, split_join _ (by
    intro t ht
    obtain ⟨e, he, rfl⟩ := List.mem_map.1 ht
    have := termStr_spec e (h.2 e he)
    exact ⟨this.1, this.2.1⟩)]
  cases hl : l.map termStr with
  | nil => simp at hl; exact absurd hl hne
  | cons t ts =>
    have hp := parseTerms_str l [] h.2 (by simpa using valid_nodup h)
    rw [hl] at hp
    simp only [hp, List.nil_append]
    rw [canon_of_canonical (valid_canonical h)]

/-- the canonical string determines the label: interning by it never confuses two Pauli strings -/
theorem toStr_injective {l1 l2 : Label} (h1 : Valid l1) (h2 : Valid l2) (h : toStr l1 = toStr l2) : l1 = l2 := by
  by_cases e1 : l1 = []
  · subst e1
    by_cases e2 : l2 = []
    · exact e2.symm
    · exfalso
      have := fromStr_toStr h2 e2
      rw [← h] at this
      have e : fromStr (toStr []) = .error .invalidTerm := by rfl
      rw [e] at this
      cases this
  · by_cases e2 : l2 = []
    · subst e2
      exfalso
      have := fromStr_toStr h1 e1
      rw [h] at this
      have e : fromStr (toStr []) = .error .invalidTerm := by rfl
      rw [e] at this
      cases this
    · have a := fromStr_toStr h1 e1
      have b := fromStr_toStr h2 e2
      rw [h, b] at a
      injection a with a
      exact a.symm

/-! ### the parser only delivers valid labels -/

theorem parseTerm_ne_I {t : List Char} {i : Nat} {p : P1} (h : parseTerm t = some (i, p)) : p ≠ .I := by
  unfold parseTerm at h
  split at h
  · simp at h
  · split at h
    · simp at h
    · rename_i hl
      split at h
      · simp at h
      · simp at h; rw [← h.2]; exact letter_ne_I hl

theorem parseTerms_ok (ts : List (List Char)) (d r : List (Nat × P1)) (hd : DictOK d)
    (h : parseTerms ts d = .ok r) : DictOK r := by
  induction ts generalizing d with
  | nil => simp [parseTerms] at h; exact h ▸ hd
  | cons t ts ih =>
    simp only [parseTerms] at h
    split at h
    · simp at h
    · rename_i i p hp
      split at h
      · simp at h
      · rename_i hi
        apply ih _ _ h
        have hni : i ∉ d.map (·.1) := fun hm => hi (by
          unfold hasIndex
          rw [List.any_eq_true]
          obtain ⟨e, he, hei⟩ := List.mem_map.1 hm
          exact ⟨e, he, by simp [hei]⟩)
        refine ⟨?_, ?_⟩
        · rw [List.map_append, List.nodup_append]
          refine ⟨hd.1, by simp, ?_⟩
          intro a ha b hb
          simp at hb; subst hb
          exact fun hab => hni (hab ▸ ha)
        · intro e he
          rcases List.mem_append.1 he with he | he
          · exact hd.2 e he
          · simp at he; subst he; exact parseTerm_ne_I hp

/-- whatever string is accepted, the result is a valid label (one Pauli per index) -/
theorem fromStr_valid {s : List Char} {l : Label} (h : fromStr s = .ok l) : Valid l := by
  unfold fromStr at h
  split at h
  · simp at h
  · split at h
    · simp at h
    · rename_i d hd
      simp at h
      subst h
      have := parseTerms_ok _ [] d ⟨by simp, by simp⟩ hd
      exact valid_canon (fun_of_nodup this.1) this.2

/-! ### interning -/

/-- invariant of `_pauli_cache`: every entry is stored under its own canonical string and is valid -/
def CacheOK (c : Cache) : Prop := ∀ e ∈ c, e.1 = toStr e.2 ∧ Valid e.2

theorem cacheGet_mem {c : Cache} {k : List Char} {l : Label} (h : cacheGet c k = some l) : (k, l) ∈ c := by
  induction c with
  | nil => simp [cacheGet] at h
  | cons e r ih =>
    obtain ⟨s, l'⟩ := e
    simp only [cacheGet] at h
    split at h
    · simp at h; simp_all
    · exact List.mem_cons_of_mem _ (ih h)

/-- **interning is sound**: the object handed out denotes the same Pauli string as the one requested,
    and the cache invariant is kept -/
theorem intern_sound {c : Cache} (hc : CacheOK c) {l : Label} (hl : Valid l) :
    (intern c l).1 = l ∧ CacheOK (intern c l).2 := by
  unfold intern
  cases hg : cacheGet c (toStr l) with
  | some l' =>
    simp only
    have := hc _ (cacheGet_mem hg)
    exact ⟨toStr_injective this.2 hl this.1.symm, hc⟩
  | none =>
    simp only
    refine ⟨by first | rfl | trivial, ?_⟩
    intro e he
    rcases List.mem_cons.1 he with he | he
    · rw [he]; exact ⟨rfl, hl⟩
    · exact hc e he

theorem mem_evict {c : Cache} {keep : List Bool} {e : List Char × Label} (h : e ∈ evict c keep) : e ∈ c := by
  induction c generalizing keep with
  | nil => simp [evict] at h
  | cons x r ih =>
    cases keep with
    | nil => simpa [evict] using h
    | cons k ks =>
      simp only [evict] at h
      split at h
      · rcases List.mem_cons.1 h with h | h
        · simp [h]
        · exact List.mem_cons_of_mem _ (ih h)
      · exact List.mem_cons_of_mem _ (ih h)

/-- weak-reference eviction (any subset of entries vanishing) keeps the invariant -/
theorem evict_ok {c : Cache} (hc : CacheOK c) (keep : List Bool) : CacheOK (evict c keep) :=
  fun e he => hc e (mem_evict he)

end QV.C05
